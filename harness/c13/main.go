// C13: every generated TLV model round-trips exactly and matches its generator.
//
// The driver (this program, built by ./check)
//  1. discovers every generated model by scanning all zz_generated.go files of the tree under
//     test (scan.go) and writes a registry source file into the build directory;
//  2. builds the worker (./worker) with that registry mapped in through the build overlay
//     (`go build -tags verif -overlay`), so that every discovered model is linked in without any
//     hand-written list and without writing into the harness directory;
//  3. runs the worker: type-directed odometer over values, clauses C13.len / C13.rt / C13.skip /
//     C13.crit on the real generated encoders and parsers;
//  4. builds the generator from the tree under test and re-generates every directory that has a
//     `//go:generate gondn_tlv_gen` line into a scratch directory, three times, comparing with
//     the checked-in zz_generated.go byte for byte (C13.gen);
//  5. merges everything into the evidence file.
package main

import (
	"bytes"
	"context"
	"encoding/json"
	"fmt"
	"os"
	"os/exec"
	"path/filepath"
	"sort"
	"strings"
	"sync"
	"time"

	"verif/mc/report"
)

type workerViolation struct {
	Clause string         `json:"clause"`
	Key    string         `json:"key"`
	Detail string         `json:"detail"`
	Replay map[string]any `json:"replay"`
}

type workerOut struct {
	Violations   []workerViolation `json:"violations"`
	Models       []map[string]any  `json:"models"`
	Skipped      []string          `json:"skipped_models"`
	Values       int64             `json:"values"`
	Pairs        int64             `json:"pair_values"`
	Parses       int64             `json:"parses"`
	Points       int64             `json:"insertion_points"`
	Insertions   int64             `json:"insertions"`
	SegParses    int64             `json:"segmented_parses"`
	SegAllCuts   int64             `json:"values_with_every_2_segment_cut"`
	SegDirected  int64             `json:"values_with_boundary_directed_cuts"`
	Seg3         int64             `json:"values_with_every_3_segment_cut_pair"`
	SegLimits    string            `json:"segmentation_bounds"`
	SegSingle    int64             `json:"values_parsed_as_all_1_byte_segments"`
	SegSpan      int64             `json:"single_value_spanning_3_or_4_segments_parses"`
	Distinct     int               `json:"distinct_encodings"`
	Phase1Done   bool              `json:"phase1_complete"`
	Phase2Done   bool              `json:"phase2_complete"`
	Phase2Run    bool              `json:"phase2_run"`
	UnitsTotal   int64             `json:"units_total"`
	UnitsDone    int64             `json:"units_done"`
	Samples      []string          `json:"samples"`
	MaxDev       int               `json:"max_deviations"`
	MaxDepth     int               `json:"max_struct_depth_for_deviations"`
	Raw          int64             `json:"raw_violations"`
	DirtyEncodes int64             `json:"encodeinto_dirty_memory_encodes"`
	ReuseEncodes int64             `json:"reused_encoder_encodes"`
	ReuseParses  int64             `json:"reused_parsing_context_parses"`
	DifferOK     int64             `json:"reuse_results_that_differ_bytewise_but_round_trip"`
	NoEncodeInto int64             `json:"values_of_models_without_generated_encodeinto"`
	HeldWires    int64             `json:"held_first_wires_recompared_after_a_second_encode"`
	HeldValues   int64             `json:"held_first_values_recompared_after_a_second_parse"`
	Pristine     int64             `json:"values_compared_with_a_pristine_twin_after_encoding"`
}

func countEncodeInto(sc *scanResult) map[string]int {
	n := map[string]int{}
	for _, m := range sc.Models {
		k := m.EncodeInto
		if k == "" {
			k = "none"
		}
		n[k]++
	}
	return n
}

func env(k, def string) string {
	if v := os.Getenv(k); v != "" {
		return v
	}
	return def
}

func goEnv(extra ...string) []string {
	e := os.Environ()
	return append(e, extra...)
}

func run(dir string, envv []string, timeout time.Duration, name string, args ...string) (string, error) {
	ctx, cancel := context.WithTimeout(context.Background(), timeout)
	defer cancel()
	cmd := exec.CommandContext(ctx, name, args...)
	cmd.Dir = dir
	cmd.Env = envv
	var buf bytes.Buffer
	cmd.Stdout, cmd.Stderr = &buf, &buf
	err := cmd.Run()
	if ctx.Err() != nil {
		return buf.String(), fmt.Errorf("timeout after %v", timeout)
	}
	return buf.String(), err
}

type genResult struct {
	Dir       string `json:"dir"`
	Runs      int    `json:"runs"`
	Identical bool   `json:"identical_to_checked_in"`
	Stable    bool   `json:"deterministic"`
	Bytes     int    `json:"bytes"`
}

func firstDiffLine(a, b []byte) (int, string, string) {
	la, lb := strings.Split(string(a), "\n"), strings.Split(string(b), "\n")
	for i := 0; i < len(la) || i < len(lb); i++ {
		var x, y string
		if i < len(la) {
			x = la[i]
		}
		if i < len(lb) {
			y = lb[i]
		}
		if x != y {
			return i + 1, x, y
		}
	}
	return 0, "", ""
}

// checkGen regenerates one directory `runs` times into scratch copies and compares.
func checkGen(rep *report.Reporter, genBin, repo, rel, scratch string, runs int) genResult {
	res := genResult{Dir: rel, Runs: runs, Identical: true, Stable: true}
	src := filepath.Join(repo, rel)
	checked, err := os.ReadFile(filepath.Join(src, "zz_generated.go"))
	if err != nil {
		rep.Add(report.Violation{Clause: "C13.gen", Key: rel + ": go:generate directive but no checked-in zz_generated.go",
			Detail: err.Error(), Replay: map[string]any{"dir": rel}})
		res.Identical = false
		return res
	}
	res.Bytes = len(checked)
	var first []byte
	for r := 0; r < runs; r++ {
		// the same situation as `go generate` in the package directory: all sources present, the
		// output file absent (the generator removes it first)
		work := filepath.Join(scratch, fmt.Sprintf("%s-%d", strings.ReplaceAll(rel, "/", "_"), r), filepath.Base(rel))
		os.MkdirAll(work, 0o755)
		ents, _ := os.ReadDir(src)
		for _, e := range ents {
			if e.IsDir() || !strings.HasSuffix(e.Name(), ".go") || e.Name() == "zz_generated.go" {
				continue
			}
			b, err := os.ReadFile(filepath.Join(src, e.Name()))
			if err != nil {
				report.Fatal("cannot read %s: %v", e.Name(), err)
			}
			os.WriteFile(filepath.Join(work, e.Name()), b, 0o644)
		}
		outp, err := run(work, goEnv(), 120*time.Second, genBin)
		if err != nil {
			rep.Add(report.Violation{Clause: "C13.gen", Key: rel + ": generator fails on the checked-in definitions",
				Detail: fmt.Sprintf("%v: %s", err, outp), Replay: map[string]any{"dir": rel}})
			res.Identical = false
			return res
		}
		got, err := os.ReadFile(filepath.Join(work, "zz_generated.go"))
		if err != nil {
			rep.Add(report.Violation{Clause: "C13.gen", Key: rel + ": generator wrote no output",
				Detail: fmt.Sprintf("%v: %s", err, outp), Replay: map[string]any{"dir": rel}})
			res.Identical = false
			return res
		}
		if r == 0 {
			first = got
			if !bytes.Equal(got, checked) {
				ln, x, y := firstDiffLine(checked, got)
				res.Identical = false
				rep.Add(report.Violation{Clause: "C13.gen", Key: rel + "/zz_generated.go is not what the checked-in generator produces from the checked-in definitions",
					Detail: fmt.Sprintf("first difference at line %d: checked-in %q, generated %q (checked-in %d bytes, generated %d bytes)", ln, strings.TrimSpace(x), strings.TrimSpace(y), len(checked), len(got)),
					Replay: map[string]any{"dir": rel, "line": ln}})
			}
		} else if !bytes.Equal(got, first) {
			ln, x, y := firstDiffLine(first, got)
			res.Stable = false
			rep.Add(report.Violation{Clause: "C13.gen", Key: rel + ": generator output differs between runs (nondeterministic)",
				Detail: fmt.Sprintf("run 1 vs run %d: first difference at line %d: %q vs %q", r+1, ln, strings.TrimSpace(x), strings.TrimSpace(y)),
				Replay: map[string]any{"dir": rel, "line": ln}})
		}
	}
	return res
}

func main() {
	rep := report.New("C13", "exploration")
	root := env("VERIF_ROOT", "/verif")
	repo := env("VERIF_REPO_DIR", "/repo")
	bdir := env("VERIF_BUILD_DIR", filepath.Join(root, ".build", "c13"))
	overlay := os.Getenv("VERIF_OVERLAY")
	replayKey, replayClause := "", ""
	for i, a := range os.Args {
		if a == "--replay" && i+1 < len(os.Args) {
			b, err := os.ReadFile(os.Args[i+1])
			if err != nil {
				report.Fatal("cannot read replay file: %v", err)
			}
			var r struct{ Clause, Key string }
			if json.Unmarshal(b, &r) != nil || r.Key == "" {
				report.Fatal("bad replay file")
			}
			replayKey, replayClause = r.Key, r.Clause
		}
	}

	// 1. discovery
	sc, err := scanRepo(repo)
	if err != nil {
		report.Fatal("discovery failed: %v", err)
	}
	if len(sc.Models) == 0 {
		report.Fatal("discovery found no generated model under %s", repo)
	}
	gdir := filepath.Join(bdir, "c13gen")
	os.RemoveAll(gdir)
	if err := os.MkdirAll(gdir, 0o755); err != nil {
		report.Fatal("%v", err)
	}
	regPath := filepath.Join(gdir, "zz_registry.go")
	if err := os.WriteFile(regPath, []byte(registrySource(sc)), 0o644); err != nil {
		report.Fatal("%v", err)
	}
	ov := struct{ Replace map[string]string }{Replace: map[string]string{}}
	if overlay != "" {
		if b, err := os.ReadFile(overlay); err == nil {
			json.Unmarshal(b, &ov)
		}
	}
	if ov.Replace == nil {
		ov.Replace = map[string]string{}
	}
	ov.Replace[filepath.Join(root, "harness", "c13", "worker", "zz_registry.go")] = regPath
	ovb, _ := json.Marshal(ov)
	ovPath := filepath.Join(gdir, "overlay.json")
	os.WriteFile(ovPath, ovb, 0o644)

	// 2. build the worker (registry linked in through the overlay) and the generator.
	// Binaries, results and regeneration scratch live in a private temp directory (the shared
	// build directory may be cleaned by concurrent runs).
	scratch, err := os.MkdirTemp("", "c13-run-")
	if err != nil {
		report.Fatal("%v", err)
	}
	fatal := func(f string, a ...any) {
		os.RemoveAll(scratch)
		report.Fatal(f, a...)
	}
	workerBin := filepath.Join(scratch, "worker")
	args := []string{"build"}
	if _, err := os.Stat(filepath.Join(bdir, "alt.mod")); err == nil && repo != "/repo" {
		args = append(args, "-modfile="+filepath.Join(bdir, "alt.mod"))
	}
	args = append(args, "-tags", "verif", "-overlay", ovPath, "-o", workerBin, "./harness/c13/worker")
	if outp, err := run(root, goEnv(), 10*time.Minute, "go", args...); err != nil {
		fatal("worker does not build against the discovered models (%v):\n%s", err, outp)
	}
	genBin := filepath.Join(scratch, "gondn_tlv_gen")
	if outp, err := run(repo, goEnv("GOFLAGS=-mod=readonly"), 10*time.Minute, "go", "build", "-o", genBin, "./std/cmd/gondn_tlv_gen"); err != nil {
		fatal("generator does not build from the tree under test (%v):\n%s", err, outp)
	}

	// 3+4. run worker and regeneration concurrently
	thorough := rep.Thorough()
	budget := 105
	if thorough {
		budget = 24 * 60
	}
	var wg sync.WaitGroup
	var wout workerOut
	var werr error
	var wlog string
	resPath := filepath.Join(scratch, "worker-result.json")
	wg.Add(1)
	go func() {
		defer wg.Done()
		wlog, werr = run(root, goEnv(), time.Duration(budget*3+120)*time.Second, workerBin,
			"-tier", rep.Tier, "-budget", fmt.Sprint(budget), "-out", resPath)
		if werr != nil {
			return
		}
		b, err := os.ReadFile(resPath)
		if err != nil {
			werr = err
			return
		}
		werr = json.Unmarshal(b, &wout)
	}()
	genRuns := 3
	gres := make([]genResult, len(sc.GenDirs))
	var gwg sync.WaitGroup
	sem := make(chan struct{}, 4)
	for i, d := range sc.GenDirs {
		gwg.Add(1)
		go func(i int, d string) {
			defer gwg.Done()
			sem <- struct{}{}
			defer func() { <-sem }()
			gres[i] = checkGen(rep, genBin, repo, d, scratch, genRuns)
		}(i, d)
	}
	gwg.Wait()
	// generated files without a go:generate line next to them (cannot be regenerated)
	genSet := map[string]bool{}
	for _, d := range sc.GenDirs {
		genSet[d] = true
	}
	orphan := []string{}
	for _, f := range sc.Files {
		if !genSet[filepath.Dir(f)] {
			orphan = append(orphan, f)
			rep.Add(report.Violation{Clause: "C13.gen", Key: f + ": generated file without a //go:generate gondn_tlv_gen directive in its directory",
				Detail: "cannot be reproduced by go generate", Replay: map[string]any{"file": f}})
		}
	}
	wg.Wait()
	os.RemoveAll(scratch)
	if werr != nil {
		report.Fatal("worker failed: %v\n%s", werr, wlog)
	}
	for _, v := range wout.Violations {
		rep.Add(report.Violation{Clause: v.Clause, Key: v.Key, Detail: v.Detail, Replay: v.Replay})
	}

	// 5. evidence
	pkgs := map[string]int{}
	for _, m := range sc.Models {
		pkgs[m.ImportPath]++
	}
	var pkgList []string
	for p, n := range pkgs {
		pkgList = append(pkgList, fmt.Sprintf("%s: %d", p, n))
	}
	sort.Strings(pkgList)
	skipped := append([]string{}, sc.Skipped...)
	skipped = append(skipped, wout.Skipped...)
	if skipped == nil {
		skipped = []string{}
	}
	exhaustive := wout.Phase1Done && (!wout.Phase2Run || wout.Phase2Done) && (!thorough || wout.Phase2Run)
	samples := wout.Samples
	if len(samples) == 0 {
		samples = []string{"(none)"}
	}
	cov := report.Coverage{
		"evaluations":                          wout.Values + wout.Pairs + wout.Insertions + wout.SegParses + wout.DirtyEncodes + wout.ReuseEncodes + wout.ReuseParses + int64(len(sc.GenDirs)*genRuns),
		"distinct_nontrivial":                  wout.Distinct,
		"rule":                                 "distinct (model, encoded byte string) pairs produced by the real encoders for the <=1-deviation values (FNV-64 of the bytes); every one of them was decoded again and had an unknown element inserted at every boundary",
		"samples":                              samples,
		"exhaustive":                           exhaustive,
		"models_discovered":                    len(sc.Models),
		"models_driven":                        len(wout.Models),
		"packages":                             len(pkgs),
		"models_per_package":                   pkgList,
		"generated_files":                      sc.Files,
		"skipped_models":                       skipped,
		"values_le1_deviation":                 wout.Values,
		"values_2_deviations":                  wout.Pairs,
		"parses":                               wout.Parses,
		"insertion_points":                     wout.Points,
		"insertions":                           wout.Insertions,
		"segmented_parses":                     wout.SegParses,
		"values_with_every_2_segment_cut":      wout.SegAllCuts,
		"values_with_boundary_directed_cuts":   wout.SegDirected,
		"values_with_every_3_segment_cut_pair": wout.Seg3,
		"values_parsed_as_all_1_byte_segments": wout.SegSingle,
		"single_value_spanning_3_or_4_segments_parses":        wout.SegSpan,
		"segmentation_bounds":                                 wout.SegLimits,
		"max_deviations":                                      wout.MaxDev,
		"max_struct_depth_for_nested_deviations":              wout.MaxDepth,
		"units_total":                                         wout.UnitsTotal,
		"units_done":                                          wout.UnitsDone,
		"phase1_le1_deviation_all_clauses_complete":           wout.Phase1Done,
		"phase2_pairs_len_rt_run":                             wout.Phase2Run,
		"phase2_pairs_len_rt_complete":                        wout.Phase2Done,
		"raw_violating_cases":                                 wout.Raw,
		"values_compared_with_a_pristine_twin_after_encoding": wout.Pristine,
		"objects_with_an_earlier_use": map[string]any{
			"rule":                                              "for every <=1-deviation value v whose fresh encoding passed C13.len and C13.rt: (a) the exported XEncoder.EncodeInto into memory of exactly the announced length (nocopy models: exactly the planned segments) pre-filled with 0xFF and with 0x5A; (b) ONE encoder object: Init(p)[; Encode(p)]; Init(v); Encode(v) for p in {all-minimal, all-typical, all-maximal value of the model, v itself}, with and without the intermediate Encode, and Init(v)[; Encode(v)]; Init(b); Encode(b) for the three base values b; (c) ONE parsing context: Init(); Parse(enc(p)); Init(); Parse(enc(v)), same ordered pairs. Verdict: announced length, well-formed, decodes to the value (bytes equal to the fresh objects' output are accepted without decoding)",
			"encodeinto_dirty_memory_encodes":                   wout.DirtyEncodes,
			"reused_encoder_encodes":                            wout.ReuseEncodes,
			"reused_parsing_context_parses":                     wout.ReuseParses,
			"results_that_differ_bytewise_but_round_trip":       wout.DifferOK,
			"values_of_models_without_generated_encodeinto":     wout.NoEncodeInto,
			"held_results_rule":                                 "the result of the FIRST use is kept by reference and compared again after the second use: the wire returned by Encode(p) must still hold enc(p) after Init(v); Encode(v) on the same encoder object, the value returned by Parse(enc(p)) must still equal p after Parse(enc(v)) on the same context object; p in {three base values, v itself}; the same for two uses of separate new objects and of the public API (value.Encode(), value.Bytes(), ParseX) with p in {all-typical, all-maximal value}",
			"held_first_wires_recompared_after_a_second_encode": wout.HeldWires,
			"held_first_values_recompared_after_a_second_parse": wout.HeldValues,
			"models_with_encodeinto_into_a_byte_slice_or_wire":  countEncodeInto(sc),
		},
		"regeneration":                      gres,
		"regeneration_dirs":                 len(sc.GenDirs),
		"generated_files_without_directive": orphan,
		"per_model":                         wout.Models,
	}
	assumptions := []string{
		"values are bounded: base in {all-minimal, all-typical, all-maximal} plus <=1 (quick) / <=2 (thorough) single-field deviations drawn from fixed boundary domains; deviations inside nested models up to the stated depth",
		"only encodings produced by the real encoders are decoded (with one unknown element inserted); hostile inputs are C04",
		"decoding uses the BufferReader over the joined wire as the reference; C13.seg additionally decodes through enc.WireReader (Encode()'s own segmentation, every 2-segment cut of short encodings, boundary-directed cuts of long ones, every 3-segment cut pair of very short ones) and demands the same value",
		"signature slots are filled by the harness with exactly estLen bytes; models nested in another model cannot receive encoder inputs (estLen, needDigest), so nested signed packets are encoded unsigned",
		"values compare equal up to what the wire cannot express: nil vs empty sequence/map, Wire segmentation, nil vs empty component value",
		"pairs of deviations (thorough) are checked for C13.len and C13.rt only; insertion clauses use the <=1-deviation values",
		"object re-use is bounded to histories of two values on one encoder / parsing context object, one of which is a base value of the model or the value itself; dirty memory is two fill patterns (0xFF, 0x5A)",
	}
	if replayKey != "" {
		found := false
		for _, v := range wout.Violations {
			if v.Key == replayKey && v.Clause == replayClause {
				found = true
			}
		}
		if replayClause == "C13.gen" {
			found = false
			// C13.gen violations were added to rep directly; re-derive from the results
			for _, g := range gres {
				if strings.HasPrefix(replayKey, g.Dir+"/") || strings.HasPrefix(replayKey, g.Dir+":") {
					found = !g.Identical || !g.Stable
				}
			}
		}
		fmt.Printf("REPLAY clause=%s key=%q reproduced=%v\n", replayClause, replayKey, found)
	}
	rep.Finish(cov, assumptions)
}
