package main

// Value equivalence "as far as the wire can tell". nil and empty are identified ONLY for
// sequences and maps (an empty sequence/map has no encoding at all, exactly like nil) and for
// the value of a name component; everywhere else (binary, wire, name, optional scalars, nested
// structs) present-but-empty and absent have different encodings and must be reproduced. The
// segmentation of a Wire is not on the wire: Wires are compared by their concatenation.

import (
	"bytes"
	"fmt"
	"reflect"

	enc "github.com/named-data/ndnd/std/encoding"
)

func brief(b []byte) string {
	if len(b) <= 24 {
		return fmt.Sprintf("%x", b)
	}
	return fmt.Sprintf("%x…(%d bytes)", b[:24], len(b))
}

// diff returns "" if want ≡ got, else "<path>: <what>".
func diff(td *typeDesc, want, got reflect.Value, path string) string {
	switch td.k {
	case kNat, kFixed, kTime, kString:
		if td.opt {
			if want.IsNil() != got.IsNil() {
				return fmt.Sprintf("%s: want nil=%v got nil=%v", path, want.IsNil(), got.IsNil())
			}
			if want.IsNil() {
				return ""
			}
			want, got = want.Elem(), got.Elem()
		}
		if td.k == kString {
			if want.String() != got.String() {
				return fmt.Sprintf("%s: want %s got %s", path, brief([]byte(want.String())), brief([]byte(got.String())))
			}
			return ""
		}
		if td.k == kTime {
			if want.Int() != got.Int() {
				return fmt.Sprintf("%s: want %d got %d", path, want.Int(), got.Int())
			}
			return ""
		}
		if want.Uint() != got.Uint() {
			return fmt.Sprintf("%s: want %d got %d", path, want.Uint(), got.Uint())
		}
		return ""
	case kBool:
		if want.Bool() != got.Bool() {
			return fmt.Sprintf("%s: want %v got %v", path, want.Bool(), got.Bool())
		}
		return ""
	case kBinary:
		if want.IsNil() != got.IsNil() {
			return fmt.Sprintf("%s: want nil=%v got nil=%v", path, want.IsNil(), got.IsNil())
		}
		if !bytes.Equal(want.Bytes(), got.Bytes()) {
			return fmt.Sprintf("%s: want %s got %s", path, brief(want.Bytes()), brief(got.Bytes()))
		}
		return ""
	case kWire, kSig:
		if want.IsNil() != got.IsNil() {
			return fmt.Sprintf("%s: want nil=%v got nil=%v", path, want.IsNil(), got.IsNil())
		}
		w, g := want.Interface().(enc.Wire).Join(), got.Interface().(enc.Wire).Join()
		if !bytes.Equal(w, g) {
			return fmt.Sprintf("%s: want %s got %s", path, brief(w), brief(g))
		}
		return ""
	case kName, kIntName:
		if want.IsNil() != got.IsNil() {
			return fmt.Sprintf("%s: want nil=%v got nil=%v", path, want.IsNil(), got.IsNil())
		}
		w, g := want.Interface().(enc.Name), got.Interface().(enc.Name)
		if len(w) != len(g) {
			return fmt.Sprintf("%s: want %d components got %d", path, len(w), len(g))
		}
		for i := range w {
			if w[i].Typ != g[i].Typ || !bytes.Equal(w[i].Val, g[i].Val) {
				return fmt.Sprintf("%s[%d]: want %d=%s got %d=%s", path, i, w[i].Typ, brief(w[i].Val), g[i].Typ, brief(g[i].Val))
			}
		}
		return ""
	case kStruct:
		if want.IsNil() != got.IsNil() {
			return fmt.Sprintf("%s: want nil=%v got nil=%v", path, want.IsNil(), got.IsNil())
		}
		if want.IsNil() {
			return ""
		}
		return diffStruct(td.sub, want, got, path)
	case kSeq:
		if want.Len() != got.Len() {
			return fmt.Sprintf("%s: want %d elements got %d", path, want.Len(), got.Len())
		}
		for i := 0; i < want.Len(); i++ {
			if d := diff(td.elem, want.Index(i), got.Index(i), fmt.Sprintf("%s[%d]", path, i)); d != "" {
				return d
			}
		}
		return ""
	case kMap:
		if want.Len() != got.Len() {
			return fmt.Sprintf("%s: want %d entries got %d", path, want.Len(), got.Len())
		}
		it := want.MapRange()
		for it.Next() {
			gv := got.MapIndex(it.Key())
			if !gv.IsValid() {
				return fmt.Sprintf("%s: key %v missing", path, it.Key())
			}
			if d := diff(td.elem, it.Value(), gv, fmt.Sprintf("%s[key]", path)); d != "" {
				return d
			}
		}
		return ""
	}
	return path + ": unsupported kind"
}

// diffStruct compares the TLV value fields of two *struct values of model m.
func diffStruct(m *Model, want, got reflect.Value, path string) string {
	for _, f := range m.vf {
		if d := diff(f.td, want.Elem().Field(f.index), got.Elem().Field(f.index), path+"."+f.name); d != "" {
			return d
		}
	}
	return ""
}
