package main

// Encoder / parsing-context objects and buffers that had an earlier use.
//
// value.Encode() / value.Bytes() always run on a brand-new XEncoder and a zeroed buffer. The
// generated API also exports the pieces, and callers that keep an encoder, a parsing context or a
// buffer between values use them:
//
//	XEncoder.EncodeInto(value, buf / wire)   encode into memory supplied by the caller
//	XEncoder.Init(value)                     (re-)initialise an encoder object for a value
//	XParsingContext.Init()                   (re-)initialise a parsing context
//
// For every enumerated value v (phase 1, after C13.len and C13.rt held for the fresh objects):
//
//   - dirty memory: Init(v) on a fresh encoder, then EncodeInto(v, mem) where mem has exactly the
//     announced length (nocopy models: exactly the planned segments) and is pre-filled with 0xFF,
//     then again with 0x5A;
//   - re-used encoder: Init(p)[; Encode(p)]; Init(v); Encode(v) on ONE encoder object, for every
//     predecessor p in {all-minimal, all-typical, all-maximal value of the model, v itself}, with and
//     without the intermediate Encode(p); and in the other direction Init(v)[; Encode(v)]; Init(b);
//     Encode(b) for the three base values b (caller-set encoder inputs - signature size estimate,
//     needDigest - are set before each Init, as a caller must);
//   - re-used parsing context: Init(); Parse(enc(p)); Init(); Parse(enc(v)) on ONE context object,
//     same predecessors, both directions.
//
// The verdict is the property's: the bytes must have the announced length, be a well-formed TLV
// element sequence and decode to the value (bytes identical to what the fresh objects produced
// are accepted without decoding again; bytes that differ but still decode to the value are
// accepted and counted).

import (
	"bytes"
	"fmt"
	"reflect"
	"sync"
	"sync/atomic"

	enc "github.com/named-data/ndnd/std/encoding"
)

var (
	nDirtyEncodes, nReuseEncodes, nReuseParses, nDifferButRoundTrip int64
	nNoEncodeInto                                                   int64
)

var dirtyFills = []byte{0xff, 0x5a}

// results the caller still holds when the object (or the package) is used again
var nHeldWires, nHeldValues int64

// joinCopy copies the present content of a wire.
func joinCopy(w enc.Wire) []byte {
	b := []byte{}
	for _, s := range w {
		b = append(b, s...)
	}
	return b
}

func modelClass(m *Model) string {
	if m.noCopy {
		return "nocopy model"
	}
	return "copy-mode model"
}

// failHeld reports that a result the caller kept changed under a later use. The record is
// attributed to the model (not to the deviating field of the value at hand: which value shows
// it is incidental), so one cause in a template gives one key.
func failHeld(c *caseID, object, symptom, detail string, extra map[string]any) {
	m := c.m
	rp := map[string]any{"model": m.ImportPath + "." + m.Name, "value": c.describe()}
	for k, v := range extra {
		rp[k] = v
	}
	addRec(&rec{Clause: "C13.rt", Where: m.ID(), Kind: object, Label: modelClass(m), Symptom: symptom, Ins: true,
		Generic: object + " | " + symptom,
		Detail:  c.describe() + ": " + detail, Replay: rp, ord: c.ord})
}

func filled(n int, fill byte) []byte {
	b := make([]byte, n)
	for i := range b {
		b[i] = fill
	}
	return b
}

// setKnobs writes the caller-set encoder inputs for the value described by kn (also resets them
// on a re-used encoder).
func setKnobs(ev reflect.Value, kn *knobs) {
	if kn.sigField != "" {
		ev.FieldByName(kn.sigField + "_estLen").SetUint(uint64(len(kn.sig)))
	}
	if kn.digField != "" {
		ev.FieldByName(kn.digField + "_needDigest").SetBool(kn.digest)
	}
}

// produce runs Init(v) on encoder e and then Encode(v) (fill == nil) or EncodeInto(v, memory
// pre-filled with *fill). It returns the joined bytes and the announced length.
func produce(m *Model, e any, v reflect.Value, kn *knobs, fill *byte) (b []byte, announced uint64, problem string) {
	defer func() {
		if p := recover(); p != nil {
			problem = "encoder " + normPanic(p)
		}
	}()
	ev := reflect.ValueOf(e).Elem()
	setKnobs(ev, kn)
	m.Init(e, v.Interface())
	announced = ev.FieldByName("length").Uint()
	var wire enc.Wire
	switch {
	case fill == nil:
		wire = m.Encode(e, v.Interface())
	case m.noCopy:
		plan := ev.FieldByName("wirePlan")
		wire = make(enc.Wire, plan.Len())
		for i := range wire {
			if l := plan.Index(i).Uint(); l > 0 {
				wire[i] = filled(int(l), *fill)
			}
		}
		m.EncodeIntoWire(e, v.Interface(), wire)
	default:
		buf := filled(int(announced), *fill)
		m.EncodeIntoBuf(e, v.Interface(), buf)
		wire = enc.Wire{buf}
	}
	if kn.sig != nil {
		idx := int(ev.FieldByName(kn.sigField + "_wireIdx").Int())
		if idx < 0 || idx >= len(wire) || len(wire[idx]) != 0 {
			return nil, announced, "no empty wire segment reserved for the signature value"
		}
		wire[idx] = kn.sig
	}
	for _, s := range wire {
		b = append(b, s...)
	}
	if b == nil {
		b = []byte{}
	}
	return b, announced, ""
}

// judge: "" or what is wrong with got as an encoding of the value whose fresh encoding is want.
func judge(m *Model, got []byte, announced uint64, problem string, want []byte, wantV reflect.Value) (clause, sub string) {
	switch {
	case problem != "":
		return "C13.len", problem
	case uint64(len(got)) != announced:
		return "C13.len", fmt.Sprintf("announced length %d, %d bytes produced", announced, len(got))
	case bytes.Equal(got, want):
		return "", ""
	}
	if _, err := walk(got, m); err != nil {
		return "C13.rt", "not a well-formed TLV element sequence (" + err.Error() + ")"
	}
	for _, ic := range []bool{false, true} {
		if sy, de := checkParse(m, m.Parse, got, ic, wantV); sy != "" {
			return "C13.rt", sy + ": " + de
		}
	}
	atomic.AddInt64(&nDifferButRoundTrip, 1)
	return "", ""
}

// baseEnc caches the fresh encoding of the three base values of a model.
type baseEnc struct {
	once sync.Once
	e    [3]encoded
	kn   [3]knobs
}

var (
	baseEncMu sync.Mutex
	baseEncs  = map[*Model]*baseEnc{}
)

func basesOf(m *Model, mi int) *baseEnc {
	baseEncMu.Lock()
	be := baseEncs[m]
	if be == nil {
		be = &baseEnc{}
		baseEncs[m] = be
	}
	baseEncMu.Unlock()
	be.once.Do(func() {
		for b := 0; b < 3; b++ {
			be.e[b] = quietEncode(m, b, nil, &be.kn[b])
		}
	})
	return be
}

// quietEncode is encodeCase without reporting (the value's own case reports its problems):
// failed is set when the fresh encoding is unusable as a reference.
func quietEncode(m *Model, base int, devs []dev, kn *knobs) (res encoded) {
	v := buildStruct(m, 0, base, devs, kn)
	res.v = v
	b, announced, problem := produce(m, m.NewEnc(), v, kn, nil)
	if problem != "" || uint64(len(b)) != announced {
		res.failed = true
		return
	}
	if kn.sig != nil {
		v.Elem().FieldByName(kn.sigField).Set(reflect.ValueOf(enc.Wire{kn.sig}))
	}
	res.bytes = b
	if _, err := walk(b, m); err != nil {
		res.failed = true
		return
	}
	for _, ic := range []bool{false, true} {
		if sy, _ := checkParse(m, m.Parse, b, ic, v); sy != "" {
			res.failed = true
		}
	}
	return
}

// reuseChecks runs the three families of checks on one value whose fresh encoding e passed
// C13.len and C13.rt.
func reuseChecks(c *caseID, e encoded) {
	m := c.m
	build := func(kn *knobs) reflect.Value { return buildStruct(m, 0, c.base, c.devs, kn) }

	// ---- dirty memory
	if m.EncodeIntoBuf == nil && m.EncodeIntoWire == nil {
		atomic.AddInt64(&nNoEncodeInto, 1)
	} else {
		for i := range dirtyFills {
			var kn knobs
			v := build(&kn)
			atomic.AddInt64(&nDirtyEncodes, 1)
			got, announced, problem := produce(m, m.NewEnc(), v, &kn, &dirtyFills[i])
			if clause, sub := judge(m, got, announced, problem, e.bytes, e.v); clause != "" {
				c.fail(clause, "EncodeInto into memory that held other data: the result is not the encoding of the value",
					fmt.Sprintf("encoder.Init(v); encoder.EncodeInto(v, memory of exactly the announced length pre-filled with %#02x): %s; got %s, a zeroed buffer gives %s", dirtyFills[i], sub, hexBrief(got), hexBrief(e.bytes)),
					map[string]any{"fill": dirtyFills[i], "encoded": hexBrief(e.bytes), "got": hexBrief(got)})
				break
			}
		}
	}

	// ---- predecessors
	be := basesOf(m, c.mi)
	type val struct {
		label string
		base  int
		devs  []dev
		ref   *encoded // fresh encoding (nil: unusable as a target)
	}
	self := val{"the same value", c.base, c.devs, &e}
	var bases []val
	for b := 0; b < 3; b++ {
		v := val{"the all-" + map[int]string{0: "minimal", 1: "typical", 2: "maximal"}[b] + " value", b, nil, nil}
		if !be.e[b].failed {
			v.ref = &be.e[b]
		}
		bases = append(bases, v)
	}
	type pair struct{ first, second val }
	var pairs []pair
	for _, p := range bases {
		pairs = append(pairs, pair{p, self})
	}
	pairs = append(pairs, pair{self, self})
	if len(c.devs) > 0 {
		for _, b := range bases {
			if b.ref != nil {
				pairs = append(pairs, pair{self, b})
			}
		}
	}
	how := func(p pair) string {
		if p.second.label == self.label {
			return "first " + p.first.label + ", then this value"
		}
		return "first this value, then " + p.second.label
	}

	// ---- re-used encoder object
	var heldFailed [4]bool // one report per value and family of held results
	encFailed := false
	for _, p := range pairs {
		for _, between := range []bool{true, false} {
			if encFailed {
				break
			}
			enco := m.NewEnc()
			var kn1, kn2 knobs
			v1 := buildStruct(m, 0, p.first.base, p.first.devs, &kn1)
			var held enc.Wire // what Encode(p) returned: the caller keeps it
			var heldWas []byte
			func() {
				defer func() { recover() }() // the predecessor's own problems are reported by its own case
				setKnobs(reflect.ValueOf(enco).Elem(), &kn1)
				m.Init(enco, v1.Interface())
				if between {
					held = m.Encode(enco, v1.Interface())
					heldWas = joinCopy(held)
				}
			}()
			v2 := buildStruct(m, 0, p.second.base, p.second.devs, &kn2)
			atomic.AddInt64(&nReuseEncodes, 1)
			got, announced, problem := produce(m, enco, v2, &kn2, nil)
			if held != nil && !heldFailed[0] {
				atomic.AddInt64(&nHeldWires, 1)
				if now := joinCopy(held); !bytes.Equal(now, heldWas) {
					heldFailed[0] = true
					failHeld(c, "encoder object", "the wire returned by the first Encode no longer holds the first value's encoding after the encoder object was used for a second value",
						fmt.Sprintf("one encoder object, w1 := Init(p); Encode(p), then Init(v); Encode(v) (%s): w1 was %s and is now %s (the second encoding is %s)", how(p), hexBrief(heldWas), hexBrief(now), hexBrief(got)),
						map[string]any{"order": how(p), "first_wire_before": hexBrief(heldWas), "first_wire_after": hexBrief(now)})
				}
			}
			if clause, sub := judge(m, got, announced, problem, p.second.ref.bytes, p.second.ref.v); clause != "" {
				seq := "Init(p); Encode(p); Init(v); Encode(v)"
				if !between {
					seq = "Init(p); Init(v); Encode(v)"
				}
				c.fail(clause, "encoder object re-used for a second value: the result is not the encoding of the value",
					fmt.Sprintf("one encoder object, %s (%s): %s; got %s, a fresh encoder gives %s", seq, how(p), sub, hexBrief(got), hexBrief(p.second.ref.bytes)),
					map[string]any{"sequence": seq, "order": how(p), "encoded": hexBrief(p.second.ref.bytes), "got": hexBrief(got)})
				encFailed = true
			}
		}
	}

	// ---- results held across a second use of FRESH objects / the public API
	// (no object is shared by the caller: whatever couples the two uses is package-level state of
	// the generated code or of the library - a pool, a cache, a scratch buffer)
	// first value: the all-typical and the all-maximal value (the all-minimal value encodes to
	// nothing in most models and a first value equal to the second cannot show a change)
	for _, p := range pairs[1:len(bases)] {
		if p.first.ref == nil {
			continue
		}
		first, second := p.first.ref, p.second.ref
		mk := func(v val, kn *knobs) any { return buildStruct(m, 0, v.base, v.devs, kn).Interface() }
		type encFn struct {
			name string
			f    func(v val) enc.Wire
		}
		encs := []encFn{{"XEncoder.Init+Encode on a new encoder object", func(v val) enc.Wire {
			var kn knobs
			x := mk(v, &kn)
			e := m.NewEnc()
			setKnobs(reflect.ValueOf(e).Elem(), &kn)
			m.Init(e, x)
			return m.Encode(e, x)
		}}}
		if m.PubEncode != nil && m.PubBytes != nil {
			encs = append(encs,
				encFn{"value.Encode()", func(v val) enc.Wire { return m.PubEncode(mk(v, nil)) }},
				encFn{"value.Bytes()", func(v val) enc.Wire { return enc.Wire{m.PubBytes(mk(v, nil))} }})
		}
		for _, ef := range encs {
			if heldFailed[2] {
				break
			}
			func() {
				defer func() { recover() }() // panics of the plain entry points are reported by C13.len / C13.rt of the value
				w1 := ef.f(p.first)
				was := joinCopy(w1)
				w2 := ef.f(p.second)
				atomic.AddInt64(&nHeldWires, 1)
				if now := joinCopy(w1); !bytes.Equal(now, was) {
					heldFailed[2] = true
					failHeld(c, "separate encoder objects", "the wire returned for the first value no longer holds its encoding after a second value was encoded",
						fmt.Sprintf("w1 := %s of p, then the same for v (%s): w1 was %s and is now %s (the second encoding is %s)", ef.name, how(p), hexBrief(was), hexBrief(now), hexBrief(joinCopy(w2))),
						map[string]any{"order": how(p), "entry_point": ef.name, "first_wire_before": hexBrief(was), "first_wire_after": hexBrief(now)})
				}
			}()
		}
		type parseFn struct {
			name string
			f    func(r enc.ParseReader, ic bool) (any, error)
		}
		parses := []parseFn{{"XParsingContext.Init+Parse on a new context object", m.Parse}}
		if m.PubParse != nil {
			parses = append(parses, parseFn{"Parse" + m.Name + "()", m.PubParse})
		}
		for _, pf := range parses {
			if heldFailed[3] {
				break
			}
			func() {
				defer func() { recover() }()
				r1, err := pf.f(enc.NewBufferReader(first.bytes), false)
				if err != nil || r1 == nil || reflect.ValueOf(r1).IsNil() || diffStruct(m, first.v, reflect.ValueOf(r1), m.Name) != "" {
					return // the first value's own case reports this
				}
				pf.f(enc.NewBufferReader(second.bytes), false)
				atomic.AddInt64(&nHeldValues, 1)
				if d := diffStruct(m, first.v, reflect.ValueOf(r1), m.Name); d != "" {
					heldFailed[3] = true
					failHeld(c, "separate parsing context objects", "the value returned by the first parse no longer equals the first value after a second encoding was parsed",
						fmt.Sprintf("r1 := %s of enc(p), then the same for enc(v) (%s): r1 reproduced p before the second parse and now differs at %s; enc(p) = %s, enc(v) = %s", pf.name, how(p), d, hexBrief(first.bytes), hexBrief(second.bytes)),
						map[string]any{"order": how(p), "entry_point": pf.name, "first_encoded": hexBrief(first.bytes), "encoded": hexBrief(second.bytes), "difference": d})
				}
			}()
		}
	}

	// ---- re-used parsing context object
	if m.NewCtx == nil {
		return
	}
	for _, p := range pairs {
		if p.first.ref == nil && p.first.label != self.label {
			continue // no encoding of the predecessor to parse
		}
		ctx := m.NewCtx()
		first := p.first.ref
		sy, de := "", ""
		func() {
			defer func() {
				if r := recover(); r != nil {
					sy, de = "parser "+normPanic(r), fmt.Sprint(r)
				}
			}()
			var held any // what the first Parse returned: the caller keeps it
			func() {
				defer func() { recover() }()
				m.CtxInit(ctx)
				r1, err := m.CtxParse(ctx, enc.NewBufferReader(first.bytes), false)
				if err == nil && r1 != nil && !reflect.ValueOf(r1).IsNil() && diffStruct(m, first.v, reflect.ValueOf(r1), m.Name) == "" {
					held = r1
				}
			}()
			atomic.AddInt64(&nReuseParses, 1)
			sy, de = checkParse(m, func(r enc.ParseReader, ic bool) (any, error) {
				m.CtxInit(ctx)
				return m.CtxParse(ctx, r, ic)
			}, p.second.ref.bytes, false, p.second.ref.v)
			if held != nil && !heldFailed[1] {
				atomic.AddInt64(&nHeldValues, 1)
				if d := diffStruct(m, first.v, reflect.ValueOf(held), m.Name); d != "" {
					heldFailed[1] = true
					failHeld(c, "parsing context object", "the value returned by the first Parse no longer equals the first value after the context object was used for a second Parse",
						fmt.Sprintf("one parsing context, r1 := Init(); Parse(enc(p)), then Init(); Parse(enc(v)) (%s): r1 reproduced p before the second Parse and now differs at %s; enc(p) = %s, enc(v) = %s", how(p), d, hexBrief(first.bytes), hexBrief(p.second.ref.bytes)),
						map[string]any{"order": how(p), "first_encoded": hexBrief(first.bytes), "encoded": hexBrief(p.second.ref.bytes), "difference": d})
				}
			}
		}()
		if sy != "" {
			c.fail("C13.rt", "parsing context object re-used for a second value: the value is not reproduced",
				fmt.Sprintf("one parsing context, Init(); Parse(enc(p)); Init(); Parse(enc(v)) (%s): %s %s; a fresh context reproduces the value from %s", how(p), sy, de, hexBrief(p.second.ref.bytes)),
				map[string]any{"order": how(p), "encoded": hexBrief(p.second.ref.bytes)})
			break
		}
	}
}
