package main

import (
	"encoding/hex"
	"encoding/json"
	"flag"
	"fmt"
	"hash/fnv"
	"os"
	"reflect"
	"regexp"
	"sort"
	"strings"
	"sync"
	"sync/atomic"
	"time"

	enc "github.com/named-data/ndnd/std/encoding"

	"verif/mc/enum"
)

// ---- results -------------------------------------------------------------------------------

// rec is one observed violation before key canonicalisation.
type rec struct {
	Clause  string
	Generic string // model-agnostic description: "<kind> field = <label>: <symptom>"
	Where   string // model / model.field the symptom is attributed to
	Kind    string
	Label   string
	Symptom string
	Detail  string
	Replay  map[string]any
	ord     int64
	// value-clause records only (nil/false for the insertion clauses):
	M       *Model // innermost model the symptom is attributed to
	Base    int    // base of M the deviation was applied to
	IsBase  bool   // M's undeviated base value itself fails
	Simple  bool   // single deviation from M's all-minimal base (or a pair): never explained away
	Ins     bool   // insertion clause record
	Top     *Model // model under test
	TopBase int
	NDev    int
}

type outViolation struct {
	Clause string         `json:"clause"`
	Key    string         `json:"key"`
	Detail string         `json:"detail"`
	Replay map[string]any `json:"replay"`
}

type modelStat struct {
	Model        string `json:"model"`
	Ordered      bool   `json:"ordered"`
	NoCopy       bool   `json:"nocopy"`
	Public       bool   `json:"public_api"`
	Fields       int    `json:"value_fields"`
	Singles      int    `json:"single_deviations"`
	Values       int64  `json:"values"`
	Points       int64  `json:"insertion_points"`
	MaxDepthSeen int64  `json:"max_nesting_of_insertion"`
}

type output struct {
	Violations   []outViolation `json:"violations"`
	Models       []*modelStat   `json:"models"`
	Skipped      []string       `json:"skipped_models"`
	Values       int64          `json:"values"`
	Pairs        int64          `json:"pair_values"`
	Parses       int64          `json:"parses"`
	Points       int64          `json:"insertion_points"`
	Insertions   int64          `json:"insertions"`
	SegParses    int64          `json:"segmented_parses"`
	SegAllCuts   int64          `json:"values_with_every_2_segment_cut"`
	SegDirected  int64          `json:"values_with_boundary_directed_cuts"`
	Seg3         int64          `json:"values_with_every_3_segment_cut_pair"`
	SegSingle    int64          `json:"values_parsed_as_all_1_byte_segments"`
	SegSpan      int64          `json:"single_value_spanning_3_or_4_segments_parses"`
	SegLimits    string         `json:"segmentation_bounds"`
	Distinct     int            `json:"distinct_encodings"`
	Phase1Done   bool           `json:"phase1_complete"`
	Phase2Done   bool           `json:"phase2_complete"`
	Phase2Run    bool           `json:"phase2_run"`
	UnitsTotal   int64          `json:"units_total"`
	UnitsDone    int64          `json:"units_done"`
	Samples      []string       `json:"samples"`
	MaxDev       int            `json:"max_deviations"`
	MaxDepth     int            `json:"max_struct_depth_for_deviations"`
	RawViolation int64          `json:"raw_violations"`
	DirtyEncodes int64          `json:"encodeinto_dirty_memory_encodes"`
	ReuseEncodes int64          `json:"reused_encoder_encodes"`
	ReuseParses  int64          `json:"reused_parsing_context_parses"`
	DifferOK     int64          `json:"reuse_results_that_differ_bytewise_but_round_trip"`
	NoEncodeInto int64          `json:"values_of_models_without_generated_encodeinto"`
	HeldWires    int64          `json:"held_first_wires_recompared_after_a_second_encode"`
	HeldValues   int64          `json:"held_first_values_recompared_after_a_second_parse"`
	Pristine     int64          `json:"values_compared_with_a_pristine_twin_after_encoding"`
	Error        string         `json:"error,omitempty"`
}

var (
	recMu   sync.Mutex
	recs    = map[string]*rec{} // by clause|generic|where -> lowest ord
	nRaw    int64
	nParses int64
	nPoints int64
	nIns    int64
	nValues int64
	nPairs  int64

	distinctMu sync.Mutex
	distinct   = map[uint64]struct{}{}

	sampleMu sync.Mutex
	samples  []string
)

func addRec(r *rec) {
	atomic.AddInt64(&nRaw, 1)
	k := r.Clause + "|" + r.Generic + "|" + r.Where
	recMu.Lock()
	if old, ok := recs[k]; !ok || r.ord < old.ord {
		recs[k] = r
	}
	recMu.Unlock()
}

var digits = regexp.MustCompile(`[0-9]+`)

func normPanic(p any) string {
	s := fmt.Sprint(p)
	if i := strings.IndexByte(s, '\n'); i >= 0 {
		s = s[:i]
	}
	return "panic: " + digits.ReplaceAllString(s, "#")
}

func hexBrief(b []byte) string {
	if len(b) <= 96 {
		return hex.EncodeToString(b)
	}
	return hex.EncodeToString(b[:64]) + fmt.Sprintf("…(%d bytes)…", len(b)) + hex.EncodeToString(b[len(b)-16:])
}

// ---- one case ------------------------------------------------------------------------------

type caseID struct {
	m    *Model
	mi   int
	base int
	devs []dev
	ord  int64
}

func (c *caseID) describe() string {
	doms := fieldDoms(c.m, 0)
	s := c.m.ID() + "{" + baseNames[c.base]
	for _, d := range c.devs {
		s += "; " + c.m.vf[d.field].name + "=" + doms[d.field].c[d.choice].label
	}
	return s + "}"
}

// attribution of a failing case: the innermost deviating field (or an undeviated base value).
func (c *caseID) attr() (where, kindS, label string, mdl *Model, base int, isBase, simple bool) {
	if len(c.devs) == 0 {
		return c.m.ID(), "base value", baseNames[c.base], c.m, c.base, true, false
	}
	doms := fieldDoms(c.m, 0)
	var ws, ks, ls []string
	for _, d := range c.devs {
		ch := doms[d.field].c[d.choice]
		at := ch.attr
		switch {
		case at == nil:
			at = &attribution{model: c.m, field: c.m.vf[d.field].name, kind: c.m.vf[d.field].td.k, label: ch.label, base: c.base}
		case at.model == nil:
			at = &attribution{model: c.m, field: c.m.vf[d.field].name, kind: at.kind, label: at.label, base: c.base}
		}
		mdl, base, isBase = at.model, at.base, at.isBase
		if at.isBase {
			ws = append(ws, at.model.ID())
			ks = append(ks, "base value")
		} else {
			ws = append(ws, at.model.ID()+"."+at.field)
			ks = append(ks, at.kind.String()+" field")
		}
		ls = append(ls, at.label)
	}
	if len(c.devs) > 1 {
		// a pair is only evaluated when each deviation alone passed: always reported
		return strings.Join(ws, " + "), strings.Join(ks, " + "), strings.Join(ls, " + "), nil, 0, false, true
	}
	return ws[0], ks[0], ls[0], mdl, base, isBase, !isBase && base == 0 && c.base == 0
}

func (c *caseID) fail(clause, symptom, detail string, extra map[string]any) {
	where, kindS, label, mdl, base, isBase, simple := c.attr()
	rp := map[string]any{"model": c.m.ImportPath + "." + c.m.Name, "value": c.describe()}
	for k, v := range extra {
		rp[k] = v
	}
	addRec(&rec{Clause: clause, Where: where, Kind: kindS, Label: label, Symptom: symptom,
		Generic: fmt.Sprintf("%s = %s (base %d): %s", kindS, label, base, symptom),
		M:       mdl, Base: base, IsBase: isBase, Simple: simple, Top: c.m, TopBase: c.base, NDev: len(c.devs),
		Detail: c.describe() + ": " + detail, Replay: rp, ord: c.ord})
}

type encoded struct {
	v      reflect.Value // *struct, as left by the encoder (Init may rewrite an Interest name)
	bytes  []byte
	wire   enc.Wire // exactly what Encode() returned (signature slot filled)
	failed bool
}

// encodeCase builds the value, drives the generated encoder and evaluates C13.len.
func encodeCase(c *caseID) (res encoded) {
	m := c.m
	var kn knobs
	v := buildStruct(m, 0, c.base, c.devs, &kn)
	res.v = v
	defer func() {
		if p := recover(); p != nil {
			res.failed = true
			c.fail("C13.len", "encoder "+normPanic(p), fmt.Sprintf("Init/Encode panicked: %v", p), nil)
		}
	}()
	e := m.NewEnc()
	ev := reflect.ValueOf(e).Elem()
	if kn.sig != nil {
		ev.FieldByName(kn.sigField + "_estLen").SetUint(uint64(len(kn.sig)))
	}
	if kn.digest {
		ev.FieldByName(kn.digField + "_needDigest").SetBool(true)
	}
	m.Init(e, v.Interface())
	announced := ev.FieldByName("length").Uint()
	wire := m.Encode(e, v.Interface())
	if m.noCopy {
		plan := ev.FieldByName("wirePlan")
		if plan.Len() != len(wire) {
			res.failed = true
			c.fail("C13.len", "wire has a different number of segments than the wire plan", fmt.Sprintf("plan %d segments, wire %d", plan.Len(), len(wire)), nil)
			return
		}
		for i := 0; i < plan.Len(); i++ {
			if pl := plan.Index(i).Uint(); pl > 0 && uint64(len(wire[i])) != pl {
				res.failed = true
				c.fail("C13.len", "wire segment length differs from the wire plan", fmt.Sprintf("segment %d: plan %d, got %d", i, pl, len(wire[i])), nil)
				return
			}
		}
	}
	if kn.sig != nil {
		idx := int(ev.FieldByName(kn.sigField + "_wireIdx").Int())
		if idx < 0 || idx >= len(wire) || len(wire[idx]) != 0 {
			res.failed = true
			c.fail("C13.len", "no empty wire segment reserved for the signature value", fmt.Sprintf("%s_wireIdx=%d, %d segments", kn.sigField, idx, len(wire)), nil)
			return
		}
		wire[idx] = kn.sig
		v.Elem().FieldByName(kn.sigField).Set(reflect.ValueOf(enc.Wire{kn.sig}))
	}
	total := 0
	for _, s := range wire {
		total += len(s)
	}
	b := make([]byte, 0, total)
	for _, s := range wire {
		b = append(b, s...)
	}
	res.bytes = b
	res.wire = wire
	if uint64(len(b)) != announced {
		res.failed = true
		c.fail("C13.len", "encoded length differs from the announced length", fmt.Sprintf("encoder.length=%d, Encode() produced %d bytes: %s", announced, len(b), hexBrief(b)), map[string]any{"encoded": hexBrief(b)})
	}
	return
}

func safeParse(f func(enc.ParseReader, bool) (any, error), b []byte, ic bool) (v any, err error, pan string) {
	defer func() {
		if p := recover(); p != nil {
			pan = normPanic(p)
		}
	}()
	atomic.AddInt64(&nParses, 1)
	v, err = f(enc.NewBufferReader(b), ic)
	return
}

// checkParse parses b and compares with want; returns "" or (symptom, detail).
func checkParse(m *Model, f func(enc.ParseReader, bool) (any, error), b []byte, ic bool, want reflect.Value) (string, string) {
	got, err, pan := safeParse(f, b, ic)
	if pan != "" {
		return "parser " + pan, pan
	}
	if err != nil {
		return "parse error " + shortErr(err), err.Error()
	}
	if got == nil {
		return "parser returned nil without error", ""
	}
	if d := diffStruct(m, want, reflect.ValueOf(got), m.Name); d != "" {
		// symptom: the path without indices and values
		p := d
		if i := strings.Index(p, ":"); i >= 0 {
			p = p[:i]
		}
		// only the innermost field name: the same whether the model is under test or nested
		if i := strings.LastIndex(p, "."); i >= 0 {
			p = p[i:]
		}
		if i := strings.Index(p, "["); i >= 0 {
			p = p[:i]
		}
		return "decoded value differs at " + p, d
	}
	return "", ""
}

// coarse maps a parse symptom to the class used in the keys of the insertion clauses (the
// precise error / field goes into the detail): one root cause, one key.
func coarse(sy string) string {
	switch {
	case strings.HasPrefix(sy, "parser panic"):
		return sy
	case strings.HasPrefix(sy, "parse error"):
		return "the whole encoding is rejected"
	case strings.HasPrefix(sy, "decoded value differs"):
		return "accepted, but other fields decode differently"
	}
	return sy
}

// hasMap: the model (or a model nested in it) has a map field, so two encodings of equal
// values may order the entries differently (Go map iteration order).
func hasMap(m *Model, seen map[*Model]bool) bool {
	if seen[m] {
		return false
	}
	seen[m] = true
	for _, f := range m.vf {
		for _, d := range []*typeDesc{f.td, f.td.elem} {
			if d == nil {
				continue
			}
			if d.k == kMap {
				return true
			}
			if d.k == kStruct && hasMap(d.sub, seen) {
				return true
			}
			if d.elem != nil && d.elem.k == kStruct && hasMap(d.elem.sub, seen) {
				return true
			}
		}
	}
	return false
}

type evalOpts struct {
	insertions bool
	public     bool
	thorough   bool
	count      bool
	reuse      bool // dirty memory, re-used encoder and parsing-context objects (reuse.go)
}

var insVal = []byte{0xde, 0xad}

var nPristine int64

// diffPristine is diffStruct without the fields the harness (signature) or the encoder's
// documented contract (Interest name with digest handling: Init drops / replaces the
// ParametersSha256Digest component, also in a nested Interest) may rewrite, at any depth.
func diffPristine(m *Model, want, got reflect.Value, path string) string {
	for _, f := range m.vf {
		if d := diffP(f.td, want.Elem().Field(f.index), got.Elem().Field(f.index), path+"."+f.name); d != "" {
			return d
		}
	}
	return ""
}

func diffP(td *typeDesc, want, got reflect.Value, path string) string {
	switch td.k {
	case kSig, kIntName:
		return ""
	case kStruct:
		if want.IsNil() != got.IsNil() {
			return fmt.Sprintf("%s: want nil=%v got nil=%v", path, want.IsNil(), got.IsNil())
		}
		if want.IsNil() {
			return ""
		}
		return diffPristine(td.sub, want, got, path)
	case kSeq:
		if want.Len() != got.Len() {
			return fmt.Sprintf("%s: want %d elements got %d", path, want.Len(), got.Len())
		}
		for i := 0; i < want.Len(); i++ {
			if d := diffP(td.elem, want.Index(i), got.Index(i), fmt.Sprintf("%s[%d]", path, i)); d != "" {
				return d
			}
		}
		return ""
	case kMap:
		if want.Len() != got.Len() {
			return fmt.Sprintf("%s: want %d entries got %d", path, want.Len(), got.Len())
		}
		it := want.MapRange()
		for it.Next() {
			gv := got.MapIndex(it.Key())
			if !gv.IsValid() {
				return fmt.Sprintf("%s: key %v missing", path, it.Key())
			}
			if d := diffP(td.elem, it.Value(), gv, path+"[key]"); d != "" {
				return d
			}
		}
		return ""
	}
	return diff(td, want, got, path)
}

func posClass(ip *inspoint) string {
	switch {
	case ip.mapKV:
		return "between a map key and its value"
	case len(ip.lv.elems) == 0:
		return "into an empty element list"
	case ip.at == 0:
		return "before the first element"
	case ip.at == len(ip.lv.elems):
		return "after the last element"
	}
	return "between two elements"
}

func ordS(m *Model) string {
	if m.Ordered {
		return "ordered"
	}
	return "unordered"
}

// evalCase runs all clauses on one value. Returns true if len/rt failed.
func evalCase(c *caseID, o evalOpts, st *modelStat) bool {
	m := c.m
	e := encodeCase(c)
	if e.failed {
		return true
	}
	b := e.bytes
	lv, werr := walk(b, m)
	if werr != nil {
		c.fail("C13.len", "encoding is not a well-formed TLV element sequence of the announced length", werr.Error()+": "+hexBrief(b), map[string]any{"encoded": hexBrief(b)})
		return true
	}
	failed := false
	// "decoding reproduces the value": the value the caller handed to the encoder, not whatever
	// the encoder left of it. e.v went through Init/Encode; a twin built the same way did not.
	// The only field an encoder may rewrite is an Interest name under needDigest (its contract:
	// the ParametersSha256Digest component is appended / replaced); the signature field is set by
	// the harness itself.
	atomic.AddInt64(&nPristine, 1)
	if d := diffPristine(m, buildStruct(m, 0, c.base, c.devs, nil), e.v, m.Name); d != "" {
		p := d
		if i := strings.Index(p, ":"); i >= 0 {
			p = p[:i]
		}
		if i := strings.LastIndex(p, "."); i >= 0 {
			p = p[i:]
		}
		if i := strings.Index(p, "["); i >= 0 {
			p = p[:i]
		}
		c.fail("C13.rt", "Init/Encode altered the value it was given at "+p, fmt.Sprintf("after encoder.Init(v); encoder.Encode(v) the value differs from an identically built one that was never encoded: %s", d), map[string]any{"encoded": hexBrief(b)})
		failed = true
	}
	for _, ic := range []bool{false, true} {
		if failed {
			break
		}
		if sy, de := checkParse(m, m.Parse, b, ic, e.v); sy != "" {
			c.fail("C13.rt", sy, fmt.Sprintf("parse(encode(v)) (ignoreCritical=%v): %s; encoding %s", ic, de, hexBrief(b)), map[string]any{"encoded": hexBrief(b), "ignoreCritical": ic})
			failed = true
			break
		}
	}
	if o.public && !failed && m.PubBytes != nil && m.PubParse != nil && m.PubEncode != nil {
		func() {
			defer func() {
				if p := recover(); p != nil {
					failed = true
					c.fail("C13.rt", "public API "+normPanic(p), fmt.Sprint(p), nil)
				}
			}()
			v2 := buildStruct(m, 0, c.base, c.devs, nil)
			pb := m.PubBytes(v2.Interface())
			v3 := buildStruct(m, 0, c.base, c.devs, nil)
			pw := m.PubEncode(v3.Interface()).Join()
			if len(pb) != len(b) || len(pw) != len(b) || (!hasMap(m, map[*Model]bool{}) && (string(pb) != string(b) || string(pw) != string(b))) {
				failed = true
				c.fail("C13.rt", "value.Bytes()/Encode() differ from the encoder's output", hexBrief(pb)+" vs "+hexBrief(b), nil)
				return
			}
			for _, x := range [][]byte{pb, pw} {
				if sy, de := checkParse(m, m.PubParse, x, false, e.v); sy != "" {
					failed = true
					c.fail("C13.rt", "Parse"+m.Name+"(value.Bytes()): "+sy, de, map[string]any{"encoded": hexBrief(x)})
					return
				}
			}
		}()
	}
	if o.count {
		atomic.AddInt64(&st.Values, 1)
		h := fnv.New64a()
		h.Write([]byte(m.ID()))
		h.Write(b)
		distinctMu.Lock()
		distinct[h.Sum64()] = struct{}{}
		distinctMu.Unlock()
	}
	if failed || !o.insertions {
		return failed
	}
	if o.reuse {
		reuseChecks(c, e)
	}
	segmented(c, m, e, lv, o.thorough)
	var pts []inspoint
	points(lv, nil, &pts)
	atomic.AddInt64(&nPoints, int64(len(pts)))
	atomic.AddInt64(&st.Points, int64(len(pts)))
	type variant struct {
		crit  bool
		cands []uint64
		val   []byte
	}
	vars := []variant{{false, nonCritEven, insVal}, {false, nonCritLowest, nil}, {true, critLowEven, insVal}, {true, critOddHigh, nil}}
	if o.thorough || len(b) <= 512 {
		// 9-octet type numbers (2^32 .. 2^64-1); for long encodings only in the thorough tier
		// (skipping an unknown element does not depend on the size of its neighbours)
		vars = append(vars, variant{false, nonCrit9, insVal}, variant{true, crit9, nil})
	}
	if o.thorough {
		big := pattern(300, 0x55)
		vars = append(vars, variant{false, nonCritWide, big}, variant{true, critOddWide, big},
			variant{false, nonCrit9[1:], nil}, variant{true, crit9[1:], insVal})
	}
	for pi := range pts {
		ip := &pts[pi]
		if d := int64(len(ip.path)); d > atomic.LoadInt64(&st.MaxDepthSeen) {
			atomic.StoreInt64(&st.MaxDepthSeen, d)
		}
		for _, vr := range vars {
			typ := pickUnknown(ip.lv, vr.cands)
			ins := appendVarNum(nil, typ)
			ins = appendVarNum(ins, uint64(len(vr.val)))
			ins = append(ins, vr.val...)
			nb := rebuild(b, lv, ip.path, ip.at, ins)
			atomic.AddInt64(&nIns, 1)
			lm := ip.lv.model
			report := func(clause, what, symptom, detail string, ic bool) {
				generic := fmt.Sprintf("%s model: unknown %s element %s: %s", ordS(lm), what, posClass(ip), symptom)
				addRec(&rec{Clause: clause, Where: lm.ID(), Kind: ordS(lm) + " model, unknown " + what + " element inserted", Label: posClass(ip), Symptom: symptom, Generic: generic, Ins: true,
					Detail: fmt.Sprintf("%s, element type %#x (%d value bytes) inserted at nesting path %v boundary %d of %s: %s; original %s; modified %s",
						c.describe(), typ, len(vr.val), ip.path, ip.at, lm.ID(), detail, hexBrief(b), hexBrief(nb)),
					Replay: map[string]any{"model": m.ImportPath + "." + m.Name, "value": c.describe(), "encoded": hexBrief(b), "modified": hexBrief(nb),
						"inserted_type": typ, "path": ip.path, "boundary": ip.at, "level_model": lm.ID(), "ignoreCritical": ic},
					ord: c.ord})
			}
			if !vr.crit {
				if sy, de := checkParse(m, m.Parse, nb, false, e.v); sy != "" {
					report("C13.skip", "non-critical", coarse(sy), sy+": "+de, false)
				}
				continue
			}
			// critical: must be rejected unless ignoreCritical
			got, err, pan := safeParse(m.Parse, nb, false)
			if pan != "" {
				report("C13.crit", "critical", "parser "+pan, pan, false)
			} else if err == nil {
				_ = got
				report("C13.crit", "critical", "accepted although ignoreCritical=false", "parser returned a value and no error", false)
			}
			if sy, de := checkParse(m, m.Parse, nb, true, e.v); sy != "" {
				report("C13.crit", "critical (ignoreCritical=true)", coarse(sy), sy+": "+de, true)
			}
		}
	}
	return false
}

// ---- enumeration ---------------------------------------------------------------------------

type unit struct {
	mi     int
	base   int
	single int // -1: the base value itself
}

type modelPlan struct {
	m       *Model
	singles [3][]dev // per base: all single deviations
	failed  [3][]int32
	stat    *modelStat
}

func main() {
	tier := flag.String("tier", "quick", "quick|thorough")
	budget := flag.Int("budget", 80, "seconds for the enumeration")
	outPath := flag.String("out", "", "result file")
	only := flag.String("only", "", "restrict to models whose pkg.Name contains this (debugging)")
	listOnly := flag.Bool("list", false, "print the plan sizes and exit")
	noReuse := flag.Bool("noreuse", false, "skip the dirty-memory / re-used object checks (debugging: cost comparison)")
	flag.Parse()
	thorough := *tier == "thorough"
	cfg.maxDepth = 2
	maxDev := 1
	if thorough {
		cfg.maxDepth = 3
		maxDev = 2
	}
	prepare()
	out := &output{MaxDev: maxDev, MaxDepth: cfg.maxDepth}
	var plans []*modelPlan
	for _, m := range registry {
		if m.skipWhy != "" {
			out.Skipped = append(out.Skipped, m.ImportPath+"."+m.Name+": "+m.skipWhy)
			continue
		}
		if *only != "" && !strings.Contains(m.ID(), *only) {
			continue
		}
		p := &modelPlan{m: m}
		doms := fieldDoms(m, 0)
		for b := 0; b < 3; b++ {
			for i := range m.vf {
				baseCi := [3]int{doms[i].min, doms[i].mid, doms[i].max}[b]
				for ci := range doms[i].c {
					if ci != baseCi {
						p.singles[b] = append(p.singles[b], dev{i, ci})
					}
				}
			}
			p.failed[b] = make([]int32, len(p.singles[b])+1)
		}
		p.stat = &modelStat{Model: m.ImportPath + "." + m.Name, Ordered: m.Ordered, NoCopy: m.noCopy,
			Public: m.PubBytes != nil && m.PubParse != nil && m.PubEncode != nil, Fields: len(m.vf), Singles: len(p.singles[0])}
		out.Models = append(out.Models, p.stat)
		plans = append(plans, p)
	}
	var units []unit
	for mi, p := range plans {
		for b := 0; b < 3; b++ {
			units = append(units, unit{mi, b, -1})
			for i := range p.singles[b] {
				units = append(units, unit{mi, b, i})
			}
		}
	}
	if *listOnly {
		for _, p := range plans {
			fmt.Printf("%-60s fields=%d singles=%d/%d/%d\n", p.m.ID(), len(p.m.vf), len(p.singles[0]), len(p.singles[1]), len(p.singles[2]))
		}
		fmt.Println("units", len(units), "skipped", out.Skipped)
		return
	}
	start := time.Now()
	deadline := start.Add(time.Duration(*budget) * time.Second)
	out.UnitsTotal = int64(len(units))
	// phase 1: every value with <= 1 deviation, all clauses
	done, complete := enum.Range(int64(len(units)), deadline, func(i int64) {
		u := units[i]
		p := plans[u.mi]
		c := &caseID{m: p.m, mi: u.mi, base: u.base, ord: i}
		if u.single >= 0 {
			c.devs = []dev{p.singles[u.base][u.single]}
		}
		atomic.AddInt64(&nValues, 1)
		if evalCase(c, evalOpts{insertions: true, public: true, thorough: thorough, count: true, reuse: !*noReuse}, p.stat) {
			p.failed[u.base][u.single+1] = 1
		}
		if i%997 == 0 {
			sampleMu.Lock()
			if len(samples) < 12 {
				e := encodeCase(c)
				samples = append(samples, fmt.Sprintf("%s -> %s", c.describe(), hexBrief(e.bytes)))
			}
			sampleMu.Unlock()
		}
	})
	out.UnitsDone, out.Phase1Done = done, complete
	// phase 2 (thorough): every pair of deviations in two different fields; C13.len and C13.rt
	if maxDev >= 2 && complete {
		out.Phase2Run = true
		_, c2 := enum.Range(int64(len(units)), deadline, func(i int64) {
			u := units[i]
			if u.single < 0 {
				return
			}
			p := plans[u.mi]
			if p.failed[u.base][0] != 0 || p.failed[u.base][u.single+1] != 0 {
				return
			}
			s := p.singles[u.base]
			for j := u.single + 1; j < len(s); j++ {
				if s[j].field == s[u.single].field || p.failed[u.base][j+1] != 0 {
					continue
				}
				c := &caseID{m: p.m, mi: u.mi, base: u.base, devs: []dev{s[u.single], s[j]}, ord: int64(len(units)) + i}
				atomic.AddInt64(&nPairs, 1)
				evalCase(c, evalOpts{}, p.stat)
			}
		})
		out.Phase2Done = c2
	}
	out.Values, out.Pairs, out.Parses, out.Points, out.Insertions = nValues, nPairs, nParses, nPoints, nIns
	out.SegParses, out.SegAllCuts, out.SegDirected, out.Seg3 = nSegParses, nSegAll, nSegDirected, nSeg3
	out.SegSingle, out.SegSpan = nSegSingle, nSegSpan
	out.DirtyEncodes, out.ReuseEncodes, out.ReuseParses, out.DifferOK, out.NoEncodeInto = nDirtyEncodes, nReuseEncodes, nReuseParses, nDifferButRoundTrip, nNoEncodeInto
	out.HeldWires, out.HeldValues, out.Pristine = nHeldWires, nHeldValues, nPristine
	a2, a3 := segLimits(thorough)
	out.SegLimits = fmt.Sprintf("every 2-segment cut for encodings <= %d bytes, boundary-directed cuts (first/last 8 offsets, every element start/value-start/end of every nesting level and its two neighbours, the midpoint of every element value, every 1/16 of the length) above; every 3-segment cut pair for encodings <= %d bytes; plus the wire exactly as Encode() returned it, the all-1-byte-segments wire for encodings <= 4096 bytes, and for every opaque element value of >= 3 bytes at every nesting level 2 and 3 cuts strictly inside the value (byte-like values: all pairs <= 12 bytes, all triples <= 8 bytes; numbers and longer values: first+1/middle/last-1)", a2, a3)
	out.Distinct = len(distinct)
	out.Samples = samples
	out.RawViolation = nRaw
	out.Violations = canonicalise()
	b, _ := json.MarshalIndent(out, "", " ")
	if *outPath == "" {
		os.Stdout.Write(b)
		return
	}
	if err := os.WriteFile(*outPath, b, 0o644); err != nil {
		fmt.Fprintln(os.Stderr, err)
		os.Exit(2)
	}
}

// canonicalise turns the raw records into violations whose keys name the root-cause symptom:
//   - a symptom seen for the same kind of field (or kind of model) in >= 2 models/fields is
//     reported once for that kind, with the list of values (a template / library problem);
//   - otherwise a symptom seen for >= 3 values of one field is reported once for that field;
//   - otherwise it is reported for the model field and value.
func canonicalise() []outViolation {
	var all []*rec
	for _, r := range recs {
		all = append(all, r)
	}
	sort.Slice(all, func(i, j int) bool {
		if all[i].ord != all[j].ord {
			return all[i].ord < all[j].ord
		}
		return all[i].Clause+all[i].Generic+all[i].Where < all[j].Clause+all[j].Generic+all[j].Where
	})
	all = explain(all)
	type grp struct{ labels, wheres map[string]bool }
	add := func(m map[string]*grp, k, label, where string) {
		if m[k] == nil {
			m[k] = &grp{map[string]bool{}, map[string]bool{}}
		}
		m[k].labels[label] = true
		m[k].wheres[where] = true
	}
	byField := map[string]*grp{} // clause|where|symptom
	byKind := map[string]*grp{}  // clause|kind|symptom
	for _, r := range all {
		add(byField, r.Clause+"|"+r.Where+"|"+r.Symptom, r.Label, r.Where)
		add(byKind, r.Clause+"|"+r.Kind+"|"+r.Symptom, r.Label, r.Where)
	}
	list := func(m map[string]bool, max int) string {
		var s []string
		for k := range m {
			s = append(s, k)
		}
		sort.Strings(s)
		if len(s) > max {
			s = append(s[:max], fmt.Sprintf("… (%d in total)", len(m)))
		}
		return strings.Join(s, ", ")
	}
	seen := map[string]bool{}
	var out []outViolation
	for _, r := range all {
		f := byField[r.Clause+"|"+r.Where+"|"+r.Symptom]
		k := byKind[r.Clause+"|"+r.Kind+"|"+r.Symptom]
		var key, extra string
		switch {
		case len(k.wheres) >= 2:
			key = fmt.Sprintf("%s = %s: %s [several models]", r.Kind, list(k.labels, 6), r.Symptom)
			extra = " | affected: " + list(k.wheres, 40)
		case len(f.labels) >= 3:
			key = fmt.Sprintf("%s (%s): %s [several cases]", r.Where, r.Kind, r.Symptom)
			extra = " | cases affected: " + list(f.labels, 12)
		default:
			key = fmt.Sprintf("%s (%s) = %s: %s", r.Where, r.Kind, r.Label, r.Symptom)
		}
		if seen[r.Clause+"|"+key] {
			continue
		}
		seen[r.Clause+"|"+key] = true
		out = append(out, outViolation{Clause: r.Clause, Key: key, Detail: r.Detail + extra, Replay: r.Replay})
	}
	return out
}

// reach returns m and every model nested in it.
func reach(m *Model, out map[*Model]bool) {
	if out[m] {
		return
	}
	out[m] = true
	for _, f := range m.vf {
		for _, d := range []*typeDesc{f.td, f.td.elem} {
			if d != nil && d.k == kStruct {
				reach(d.sub, out)
			}
		}
	}
}

// explain drops records that are consequences of a simpler failing case found in the same run
// (every simpler case is enumerated, so this is minimisation by look-up, not by search):
//   - a deviation applied to a base value (mid/max) of model M that fails in the same way as
//     that base value of M does on its own is masked by the base failure;
//   - a deviation from mid/max that also fails (any symptom) as a deviation from the all-minimal
//     base of the same model is represented by the latter;
//   - a failing base value of M is explained by a single deviation from the all-minimal base of
//     M, or of a model nested in M, that fails in the same way.
func explain(all []*rec) []*rec {
	baseFails := map[string]bool{} // clause|model|base|symptom
	simpleAt := map[string]bool{}  // clause|where|label
	simpleSym := map[string]map[*Model]bool{}
	for _, r := range all {
		if r.Ins || r.M == nil {
			continue
		}
		if r.IsBase {
			baseFails[fmt.Sprintf("%s|%s|%d|%s", r.Clause, r.M.ID(), r.Base, r.Symptom)] = true
		}
		if r.Simple {
			simpleAt[r.Clause+"|"+r.Where+"|"+r.Label] = true
			k := r.Clause + "|" + r.Symptom
			if simpleSym[k] == nil {
				simpleSym[k] = map[*Model]bool{}
			}
			simpleSym[k][r.M] = true
		}
	}
	var out []*rec
	for _, r := range all {
		if r.Ins || r.M == nil || r.Simple {
			out = append(out, r)
			continue
		}
		if r.NDev > 0 && baseFails[fmt.Sprintf("%s|%s|%d|%s", r.Clause, r.Top.ID(), r.TopBase, r.Symptom)] {
			continue // the undeviated value of the model under test already fails like this
		}
		if !r.IsBase {
			if simpleAt[r.Clause+"|"+r.Where+"|"+r.Label] || baseFails[fmt.Sprintf("%s|%s|%d|%s", r.Clause, r.M.ID(), r.Base, r.Symptom)] {
				continue
			}
			out = append(out, r)
			continue
		}
		rm := map[*Model]bool{}
		reach(r.M, rm)
		explained := false
		for m := range simpleSym[r.Clause+"|"+r.Symptom] {
			if rm[m] {
				explained = true
			}
		}
		if !explained {
			out = append(out, r)
		}
	}
	return out
}

// ---- segmented readers -----------------------------------------------------------------------

var nSegParses, nSegAll, nSegDirected, nSeg3, nSegSingle, nSegSpan int64

// spans enumerates cut sets that lie strictly inside the value of one opaque element.
func spans(lv *level, base int, f func(cuts []int)) {
	for _, e := range lv.elems {
		if e.sub != nil {
			spans(e.sub, base+e.val, f)
			continue
		}
		lo, hi := base+e.val+1, base+e.end-1 // inside positions lo..hi
		l := e.end - e.val
		if l < 3 {
			continue
		}
		numeric := false // numbers are read octet by octet: the selected cuts suffice
		if fs := lv.model.byType[e.typ]; len(fs) > 0 {
			k := fs[0].td.k
			if k == kSeq {
				k = fs[0].td.elem.k
			}
			numeric = k == kNat || k == kFixed || k == kTime
		}
		if l <= 12 && !numeric {
			for c1 := lo; c1 <= hi; c1++ {
				for c2 := c1 + 1; c2 <= hi; c2++ {
					f([]int{c1, c2})
					if l <= 8 {
						for c3 := c2 + 1; c3 <= hi; c3++ {
							f([]int{c1, c2, c3})
						}
					}
				}
			}
			if l > 8 && hi-lo >= 2 {
				f([]int{lo, (lo + hi) / 2, hi})
			}
			continue
		}
		mid := (lo + hi) / 2
		f([]int{lo, mid})
		f([]int{lo, hi})
		f([]int{mid, hi})
		f([]int{lo, mid, hi})
	}
}

func segLimits(thorough bool) (all2, all3 int) {
	if thorough {
		return 4096, 48
	}
	return 512, 24
}

// offsets collects the absolute offsets of every element start / value start / end.
func offsets(lv *level, base int, out map[int]bool) {
	for _, e := range lv.elems {
		out[base+e.start], out[base+e.val], out[base+e.end] = true, true, true
		if e.sub != nil {
			offsets(e.sub, base+e.val, out)
		}
	}
}

// mids adds the midpoint of every element value (one cut strictly inside each value).
func mids(lv *level, base int, out map[int]bool) {
	for _, e := range lv.elems {
		if e.end-e.val >= 2 {
			out[base+(e.val+e.end)/2] = true
		}
		if e.sub != nil {
			mids(e.sub, base+e.val, out)
		}
	}
}

// locate names what a cut position falls into (for the violation key).
func locate(lv *level, base, cut int) (where, kindS, pos string) {
	prevKey := false
	for _, e := range lv.elems {
		isVal := prevKey
		prevKey = e.mapKey
		if cut <= base+e.start || cut >= base+e.end {
			if cut == base+e.start {
				return lv.model.ID(), "element", "cut at an element boundary"
			}
			continue
		}
		name, k := fmt.Sprintf("type %#x", e.typ), "unrecognised element"
		if fs := lv.model.byType[e.typ]; len(fs) > 0 && !isVal {
			name, k = fs[0].name, fs[0].td.k.String()
			if fs[0].td.k == kSeq {
				k = fs[0].td.elem.k.String()
			}
			if fs[0].td.k == kMap {
				k = "map key (" + fs[0].td.key.k.String() + ")"
			}
		} else if isVal {
			name, k = "map value", "map value"
		}
		switch {
		case cut < base+e.val:
			return lv.model.ID() + "." + name, k + " field", "cut inside the type/length header"
		case cut == base+e.val:
			return lv.model.ID() + "." + name, k + " field", "cut between header and value"
		case e.sub != nil:
			return locate(e.sub, base+e.val, cut)
		}
		return lv.model.ID() + "." + name, k + " field", "cut inside the value"
	}
	return lv.model.ID(), "element", "cut at an element boundary"
}

// segmented parses the same bytes through enc.WireReader: the wire exactly as Encode() returned
// it, every 2-segment split (all cuts for short encodings, boundary-directed cuts for long
// ones) and every 3-segment split of very short encodings. The result must be the value the
// contiguous buffer gave (this is only run when C13.rt held).
func segmented(c *caseID, m *Model, e encoded, lv *level, thorough bool) {
	b := e.bytes
	n := len(b)
	parse := func(w enc.Wire, how string, cut int) {
		atomic.AddInt64(&nSegParses, 1)
		var got any
		var err error
		var pan string
		func() {
			defer func() {
				if p := recover(); p != nil {
					pan = normPanic(p)
				}
			}()
			got, err = m.Parse(enc.NewWireReader(w), false)
		}()
		sy, de := "", ""
		switch {
		case pan != "":
			sy, de = "parser "+pan, pan
		case err != nil:
			sy, de = "parse error "+shortErr(err), err.Error()
		case got == nil:
			sy = "parser returned nil without error"
		default:
			if d := diffStruct(m, e.v, reflect.ValueOf(got), m.Name); d != "" {
				sy, de = "decoded value differs", d
			}
		}
		if sy == "" {
			return
		}
		where, kindS, pos := m.ID(), "model", how
		if cut >= 0 {
			where, kindS, pos = locate(lv, 0, cut)
			pos = how + ", " + pos
		}
		var lens []int
		for _, s := range w {
			lens = append(lens, len(s))
		}
		symptom := "WireReader parse differs from the contiguous parse: " + coarse(sy)
		addRec(&rec{Clause: "C13.seg", Where: where, Kind: kindS, Label: pos, Symptom: symptom, Ins: true,
			Generic: kindS + " | " + pos + " | " + symptom,
			Detail: fmt.Sprintf("%s, encoding %s parsed through enc.NewWireReader with segment lengths %v: %s %s (the contiguous BufferReader parse reproduces the value)",
				c.describe(), hexBrief(b), lens, sy, de),
			Replay: map[string]any{"model": m.ImportPath + "." + m.Name, "value": c.describe(), "encoded": hexBrief(b), "segment_lengths": lens},
			ord:    c.ord})
	}
	if len(e.wire) > 0 {
		parse(e.wire, "segmentation produced by Encode()", -1)
	}
	if n < 2 {
		return
	}
	all2, all3 := segLimits(thorough)
	if n <= all2 {
		atomic.AddInt64(&nSegAll, 1)
		for cut := 1; cut < n; cut++ {
			parse(enc.Wire{b[:cut], b[cut:]}, "2 segments", cut)
		}
	} else {
		atomic.AddInt64(&nSegDirected, 1)
		set := map[int]bool{}
		for i := 1; i <= 8; i++ {
			set[i], set[n-i] = true, true
		}
		offs := map[int]bool{}
		offsets(lv, 0, offs)
		for o := range offs {
			set[o-1], set[o], set[o+1] = true, true, true
		}
		mids(lv, 0, set)
		for i := 1; i < 16; i++ {
			set[n*i/16] = true
		}
		cuts := make([]int, 0, len(set))
		for cut := range set {
			if cut >= 1 && cut < n {
				cuts = append(cuts, cut)
			}
		}
		sort.Ints(cuts)
		for _, cut := range cuts {
			parse(enc.Wire{b[:cut], b[cut:]}, "2 segments", cut)
		}
	}
	// all-singletons: every byte its own segment (every value spans as many segments as it has bytes)
	if n <= 4096 {
		atomic.AddInt64(&nSegSingle, 1)
		w := make(enc.Wire, n)
		for i := range w {
			w[i] = b[i : i+1]
		}
		parse(w, "every byte in its own segment", -1)
	}
	// one value spanning 3 and 4 segments: two / three cuts strictly inside the value of every
	// opaque element of every nesting level (all cut pairs for values up to 12 bytes and all
	// cut triples up to 8 bytes; first+1 / middle / last-1 for longer values)
	spans(lv, 0, func(cuts []int) {
		atomic.AddInt64(&nSegSpan, 1)
		w := make(enc.Wire, 0, len(cuts)+1)
		prev := 0
		for _, c := range cuts {
			w = append(w, b[prev:c])
			prev = c
		}
		w = append(w, b[prev:])
		parse(w, fmt.Sprintf("one value spanning %d segments", len(cuts)+1), cuts[0])
	})
	if n <= all3 {
		atomic.AddInt64(&nSeg3, 1)
		for c1 := 1; c1 < n-1; c1++ {
			for c2 := c1 + 1; c2 < n; c2++ {
				parse(enc.Wire{b[:c1], b[c1:c2], b[c2:]}, "3 segments", c1)
			}
		}
	}
}
