package main

// An independent TLV walker over encoded bytes (written against the NDN TLV specification, not
// against the generated code): finds element boundaries at every nesting level. Which elements
// are nested models (recursion) and which are opaque is decided from the Go type of the field
// whose type number matches (struct / sequence of struct / map with struct values).

import (
	"encoding/binary"
	"fmt"
)

type elem struct {
	typ             uint64
	start, val, end int // offsets relative to the level's byte slice
	sub             *level
	mapKey          bool // this element is a map key; the next element is its value
}

type level struct {
	model *Model
	elems []elem
}

func readVarNum(b []byte, p int) (uint64, int, error) {
	if p >= len(b) {
		return 0, 0, fmt.Errorf("truncated at offset %d", p)
	}
	switch x := b[p]; {
	case x <= 0xfc:
		return uint64(x), p + 1, nil
	case x == 0xfd:
		if p+3 > len(b) {
			return 0, 0, fmt.Errorf("truncated number at offset %d", p)
		}
		return uint64(binary.BigEndian.Uint16(b[p+1:])), p + 3, nil
	case x == 0xfe:
		if p+5 > len(b) {
			return 0, 0, fmt.Errorf("truncated number at offset %d", p)
		}
		return uint64(binary.BigEndian.Uint32(b[p+1:])), p + 5, nil
	default:
		if p+9 > len(b) {
			return 0, 0, fmt.Errorf("truncated number at offset %d", p)
		}
		return binary.BigEndian.Uint64(b[p+1:]), p + 9, nil
	}
}

func appendVarNum(b []byte, x uint64) []byte {
	switch {
	case x <= 0xfc:
		return append(b, byte(x))
	case x <= 0xffff:
		return append(b, 0xfd, byte(x>>8), byte(x))
	case x <= 0xffffffff:
		return append(b, 0xfe, byte(x>>24), byte(x>>16), byte(x>>8), byte(x))
	default:
		var t [8]byte
		binary.BigEndian.PutUint64(t[:], x)
		return append(append(b, 0xff), t[:]...)
	}
}

// subModelFor tells whether an element with this type number, at a level of model m, carries a
// nested model; mapKeyOf tells whether it is the key of a map field.
func subModelFor(m *Model, typ uint64) *Model {
	var sub *Model
	for _, f := range m.byType[typ] {
		var s *Model
		switch {
		case f.td.k == kStruct:
			s = f.td.sub
		case f.td.k == kSeq && f.td.elem.k == kStruct:
			s = f.td.elem.sub
		}
		if s == nil || (sub != nil && sub != s) {
			return nil
		}
		sub = s
	}
	return sub
}

func mapFieldFor(m *Model, typ uint64) *valField {
	for _, f := range m.byType[typ] {
		if f.td.k == kMap {
			return f
		}
	}
	return nil
}

// walk parses b as a sequence of TLV elements of model m; it fails unless the elements tile b
// exactly (that is part of C13.len: the encoder wrote exactly the bytes it announced).
func walk(b []byte, m *Model) (*level, error) {
	lv := &level{model: m}
	p := 0
	var pendingMapVal *valField
	for p < len(b) {
		typ, p1, err := readVarNum(b, p)
		if err != nil {
			return nil, fmt.Errorf("%s: type: %v", m.ID(), err)
		}
		l, p2, err := readVarNum(b, p1)
		if err != nil {
			return nil, fmt.Errorf("%s: length of element type %d: %v", m.ID(), typ, err)
		}
		if l > uint64(len(b)-p2) {
			return nil, fmt.Errorf("%s: element type %d at offset %d announces %d bytes, %d remain", m.ID(), typ, p, l, len(b)-p2)
		}
		e := elem{typ: typ, start: p, val: p2, end: p2 + int(l)}
		var sub *Model
		if pendingMapVal != nil {
			if pendingMapVal.td.elem.k == kStruct {
				sub = pendingMapVal.td.elem.sub
			}
			pendingMapVal = nil
		} else if mf := mapFieldFor(m, typ); mf != nil {
			e.mapKey = true
			pendingMapVal = mf
		} else {
			sub = subModelFor(m, typ)
		}
		if sub != nil {
			s, err := walk(b[e.val:e.end], sub)
			if err != nil {
				return nil, err
			}
			e.sub = s
		}
		lv.elems = append(lv.elems, e)
		p = e.end
	}
	return lv, nil
}

// insertion point: boundary index `at` (0..len(elems)) in the level reached by descending `path`.
type inspoint struct {
	path  []int
	at    int
	lv    *level
	mapKV bool // between a map key and its value
}

func points(lv *level, path []int, out *[]inspoint) {
	for at := 0; at <= len(lv.elems); at++ {
		ip := inspoint{path: append([]int{}, path...), at: at, lv: lv}
		if at > 0 && lv.elems[at-1].mapKey {
			ip.mapKV = true
		}
		*out = append(*out, ip)
	}
	for i, e := range lv.elems {
		if e.sub != nil {
			points(e.sub, append(path, i), out)
		}
	}
}

// rebuild re-serialises level lv of b with `ins` inserted at (path, at); the lengths of all
// enclosing elements are re-encoded (shortest form).
func rebuild(b []byte, lv *level, path []int, at int, ins []byte) []byte {
	if len(path) == 0 {
		cut := len(b)
		if at < len(lv.elems) {
			cut = lv.elems[at].start
		}
		out := make([]byte, 0, len(b)+len(ins))
		out = append(out, b[:cut]...)
		out = append(out, ins...)
		return append(out, b[cut:]...)
	}
	e := lv.elems[path[0]]
	inner := rebuild(b[e.val:e.end], e.sub, path[1:], at, ins)
	out := make([]byte, 0, len(b)+len(ins)+8)
	out = append(out, b[:e.start]...)
	out = appendVarNum(out, e.typ)
	out = appendVarNum(out, uint64(len(inner)))
	out = append(out, inner...)
	return append(out, b[e.end:]...)
}

// pickUnknown returns the first candidate type number that the level's model does not know and
// that does not occur in the level.
func pickUnknown(lv *level, cands []uint64) uint64 {
	for _, c := range cands {
		if lv.model.known[c] {
			continue
		}
		used := false
		for _, e := range lv.elems {
			if e.typ == c {
				used = true
			}
		}
		if !used {
			return c
		}
	}
	panic("no unknown type candidate left")
}

// NDN packet format, "TLV evolvability": types 0..31 are critical; above that, odd types are
// critical and even types are non-critical. Each list probes one side of one rule.
var (
	nonCritEven   = []uint64{0xf0, 0xf2, 0xf4, 0xf6, 0xf8, 0xfa}        // even, 1-byte type
	nonCritLowest = []uint64{0x20, 0x3fe, 0x400, 0x10000, 0x402, 0x404} // 32 = smallest non-critical; then 3- and 5-byte types
	nonCritWide   = []uint64{0x3fe, 0x400, 0x10000, 0x402, 0x404, 0x406}
	critLowEven   = []uint64{0x1e, 0x1c, 0x10, 0x0e, 0x04, 0x02, 0x1a} // <= 31 and even: critical only by the range rule
	critOddHigh   = []uint64{0xf1, 0x3ff, 0xf3, 0x10001, 0xf5, 0xf7}   // > 31 and odd: critical only by the parity rule
	critOddWide   = []uint64{0x3ff, 0x10001, 0x401, 0x403, 0x405, 0x407}
	// type numbers that need the 9-octet form (0xff + 8 octets)
	nonCrit9 = []uint64{1 << 32, 1 << 63, 1<<64 - 2, 1<<32 + 2}
	crit9    = []uint64{1<<64 - 1, 1<<32 + 1, 1<<63 + 1, 1<<32 + 3}
)
