package main

// Type-directed boundary domains and the value odometer. No randomness: every domain is a fixed
// finite list, every value is (base ∈ {min, mid, max}) + a list of ≤k single-field deviations.
//
// Domains contain only values the wire format can represent and that the encoder's contract
// admits: durations are whole non-negative milliseconds, fixed-width integers stay within their
// width, names consist of well-formed components (type 1..65535), elements of sequences and map
// values are never "absent" values (a nil element has no encoding).

import (
	"fmt"
	"math"
	"reflect"
	"sync"
	"time"

	enc "github.com/named-data/ndnd/std/encoding"
)

// attribution names the innermost field a deviation touches (used to build violation keys that
// identify the root cause rather than the outermost model).
type attribution struct {
	model  *Model // nil: the model/field holding the choice
	field  string
	kind   kind
	label  string
	base   int  // base (0 min, 1 mid, 2 max) of the innermost model the deviation is applied to; -1: that of the holder
	isBase bool // the choice is an undeviated base value of `model` (label = base name)
}

type choice struct {
	label  string
	mk     func() reflect.Value
	absent bool   // encodes to nothing (nil pointer/slice, false)
	sig    []byte // kSig: bytes the caller writes into the signature slot (nil: no signature)
	digest bool   // kIntName: encoder.<F>_needDigest
	attr   *attribution
}

type domain struct {
	c             []choice
	min, mid, max int
}

type genCfg struct {
	maxDepth int // struct-typed fields at depth >= maxDepth only take nil/min/mid/max
}

var cfg genCfg

func pattern(n int, seed byte) []byte {
	b := make([]byte, n)
	for i := range b {
		b[i] = byte(i*7) + seed
	}
	return b
}

func asciiPattern(n int) string {
	b := make([]byte, n)
	for i := range b {
		b[i] = byte('a' + i%26)
	}
	return string(b)
}

var natVals = []uint64{0, 1, 0xff, 0x100, 0xffff, 0x10000, 0xffffffff, 0x100000000, math.MaxUint64}

// milliseconds; the largest is the largest whole number of milliseconds a time.Duration holds
var timeVals = []uint64{0, 1, 0xff, 0x100, 0xffff, 0x10000, 0xffffffff, 0x100000000, uint64(math.MaxInt64 / int64(time.Millisecond))}

var byteLens = []int{0, 1, 8, 252, 253, 65536}

// The all-maximal base takes 253-byte contents (the shortest length that needs the 3-byte length
// form); 65536-byte contents (5-byte form) occur as single deviations from every base. An
// all-65536 base would make every value of the larger models a megabyte and every insertion a
// megabyte copy, for no additional behaviour in the generated code.
const maxLenIdx = 4

func scalarDomain(td *typeDesc, vals []uint64, mkv func(t reflect.Type, x uint64) reflect.Value, noAbsent bool) *domain {
	d := &domain{}
	base := td.t
	if td.opt {
		base = td.t.Elem()
		if !noAbsent {
			t := td.t
			d.c = append(d.c, choice{label: "nil", absent: true, mk: func() reflect.Value { return reflect.Zero(t) }})
		}
	}
	first := len(d.c)
	for _, x := range vals {
		x := x
		lab := fmt.Sprintf("%#x", x)
		if td.opt {
			d.c = append(d.c, choice{label: lab, mk: func() reflect.Value {
				p := reflect.New(base)
				p.Elem().Set(mkv(base, x))
				return p
			}})
		} else {
			d.c = append(d.c, choice{label: lab, mk: func() reflect.Value { return mkv(base, x) }})
		}
	}
	d.min = 0
	d.mid = first + 1
	d.max = len(d.c) - 1
	return d
}

func mkUint(t reflect.Type, x uint64) reflect.Value {
	v := reflect.New(t).Elem()
	v.SetUint(x)
	return v
}

func mkDur(t reflect.Type, ms uint64) reflect.Value {
	v := reflect.New(t).Elem()
	v.SetInt(int64(ms) * int64(time.Millisecond))
	return v
}

func comp(typ uint64, val []byte) enc.Component {
	return enc.Component{Typ: enc.TLNum(typ), Val: val}
}

type nameChoice struct {
	label string
	mk    func() enc.Name
}

// empties builds a name of n zero-length generic components; where: 0 alone, 1 followed by /a,
// 2 preceded by /a.
func empties(n, where int) enc.Name {
	var nm enc.Name
	if where == 2 {
		nm = append(nm, comp(8, []byte("a")))
	}
	for i := 0; i < n; i++ {
		nm = append(nm, comp(8, []byte{}))
	}
	if where == 1 {
		nm = append(nm, comp(8, []byte("a")))
	}
	return nm
}

func nameChoices() []nameChoice {
	many := func() enc.Name {
		n := make(enc.Name, 0, 131)
		for i := 0; i < 130; i++ {
			n = append(n, comp(8, []byte{byte(i)}))
		}
		n = append(n, comp(8, pattern(252, 9)))
		return n
	}
	return []nameChoice{
		{"empty", func() enc.Name { return enc.Name{} }},
		{"/a", func() enc.Name { return enc.Name{comp(8, []byte("a"))} }},
		{"/a/b", func() enc.Name { return enc.Name{comp(8, []byte("a")), comp(8, []byte("b"))} }},
		{"/<empty component>", func() enc.Name { return enc.Name{comp(8, []byte{})} }},
		{"/typed(1,0x32,0xfd,0xffff)", func() enc.Name {
			return enc.Name{comp(1, pattern(32, 1)), comp(0x32, []byte{0}), comp(0xfd, []byte("x")), comp(0xffff, []byte("yz"))}
		}},
		// many zero-length components: 2 bytes each, the densest a name can be (component count
		// is bounded by length/2, which is what parsers pre-size from)
		{"4 empty components", func() enc.Name { return empties(4, 0) }},
		{"5 empty components", func() enc.Name { return empties(5, 0) }},
		{"8 empty components", func() enc.Name { return empties(8, 0) }},
		{"4 empty components + /a", func() enc.Name { return empties(4, 1) }},
		{"5 empty components + /a", func() enc.Name { return empties(5, 1) }},
		{"8 empty components + /a", func() enc.Name { return empties(8, 1) }},
		{"/a + 4 empty components", func() enc.Name { return empties(4, 2) }},
		{"/a + 5 empty components", func() enc.Name { return empties(5, 2) }},
		{"/a + 8 empty components", func() enc.Name { return empties(8, 2) }},
		// component type numbers that need the 9-octet form (enc.Component.Typ is a 64-bit TLNum)
		{"/typed(2^32,2^64-1)", func() enc.Name {
			return enc.Name{comp(1<<32, []byte("p")), comp(1<<64-1, pattern(9, 2))}
		}},
		{"total252", func() enc.Name { return enc.Name{comp(8, pattern(250, 3))} }},
		{"total253", func() enc.Name { return enc.Name{comp(8, pattern(251, 3))} }},
		{"comp252", func() enc.Name { return enc.Name{comp(8, pattern(252, 3))} }},
		{"comp253", func() enc.Name { return enc.Name{comp(8, pattern(253, 3))} }},
		{"comp65536", func() enc.Name { return enc.Name{comp(8, pattern(65536, 3))} }},
		{"131comps", many},
	}
}

func wireChoices() []struct {
	label string
	mk    func() enc.Wire
} {
	type wc = struct {
		label string
		mk    func() enc.Wire
	}
	return []wc{
		{"empty", func() enc.Wire { return enc.Wire{} }},
		{"[len0]", func() enc.Wire { return enc.Wire{[]byte{}} }},
		{"[len1]", func() enc.Wire { return enc.Wire{pattern(1, 5)} }},
		{"[1,1]", func() enc.Wire { return enc.Wire{pattern(1, 5), pattern(1, 6)} }},
		{"[1,0,1]", func() enc.Wire { return enc.Wire{pattern(1, 5), []byte{}, pattern(1, 6)} }},
		{"[252]", func() enc.Wire { return enc.Wire{pattern(252, 5)} }},
		{"[253]", func() enc.Wire { return enc.Wire{pattern(253, 5)} }},
		{"[200,53]", func() enc.Wire { return enc.Wire{pattern(200, 5), pattern(53, 6)} }},
		{"[65536]", func() enc.Wire { return enc.Wire{pattern(65536, 5)} }},
	}
}

type domKey struct {
	td       *typeDesc
	depth    int
	noAbsent bool
	nested   bool
}

var (
	domCache = map[domKey]*domain{}
	domMu    sync.RWMutex
)

// domOf builds the domain of a field/element of the given type. depth is the nesting depth of
// the struct that holds it (0 = the model under test). nested is true below the top level
// (encoder inputs such as <F>_estLen cannot be reached there).
func domOf(td *typeDesc, depth int, noAbsent bool) *domain {
	k := domKey{td, depth, noAbsent, depth > 0}
	domMu.RLock()
	d, ok := domCache[k]
	domMu.RUnlock()
	if ok {
		return d
	}
	d = buildDom(td, depth, noAbsent) // deterministic: concurrent builders produce equal domains
	domMu.Lock()
	if d2, ok := domCache[k]; ok {
		d = d2
	} else {
		domCache[k] = d
	}
	domMu.Unlock()
	return d
}

func buildDom(td *typeDesc, depth int, noAbsent bool) *domain {
	t := td.t
	switch td.k {
	case kNat:
		return scalarDomain(td, natVals, mkUint, noAbsent)
	case kFixed:
		base := t
		if td.opt {
			base = t.Elem()
		}
		max := uint64(1)<<(8*uint(base.Size())) - 1
		return scalarDomain(td, []uint64{0, 1, max / 2, max}, mkUint, noAbsent)
	case kTime:
		return scalarDomain(td, timeVals, mkDur, noAbsent)
	case kBool:
		d := &domain{}
		if !noAbsent {
			d.c = append(d.c, choice{label: "false", absent: true, mk: func() reflect.Value { return reflect.ValueOf(false) }})
		}
		d.c = append(d.c, choice{label: "true", mk: func() reflect.Value { return reflect.ValueOf(true) }})
		d.mid, d.max = len(d.c)-1, len(d.c)-1
		return d
	case kString:
		d := &domain{}
		base := t
		if td.opt {
			base = t.Elem()
			if !noAbsent {
				d.c = append(d.c, choice{label: "nil", absent: true, mk: func() reflect.Value { return reflect.Zero(t) }})
			}
		}
		first := len(d.c)
		add := func(label string, s func() string) {
			d.c = append(d.c, choice{label: label, mk: func() reflect.Value {
				v := reflect.New(base).Elem()
				v.SetString(s())
				if td.opt {
					p := reflect.New(base)
					p.Elem().Set(v)
					return p
				}
				return v
			}})
		}
		for _, n := range byteLens {
			n := n
			add(fmt.Sprintf("len%d", n), func() string { return asciiPattern(n) })
		}
		add("utf8", func() string { return "häß€𝄞" })
		d.min = 0
		d.mid = first + 1
		d.max = first + maxLenIdx
		return d
	case kBinary:
		d := &domain{}
		if !noAbsent {
			d.c = append(d.c, choice{label: "nil", absent: true, mk: func() reflect.Value { return reflect.Zero(t) }})
		}
		first := len(d.c)
		for _, n := range byteLens {
			n := n
			d.c = append(d.c, choice{label: fmt.Sprintf("len%d", n), mk: func() reflect.Value {
				return reflect.ValueOf(pattern(n, 11)).Convert(t)
			}})
		}
		d.min = 0
		d.mid = first + 1
		d.max = first + maxLenIdx
		return d
	case kWire:
		d := &domain{}
		if !noAbsent {
			d.c = append(d.c, choice{label: "nil", absent: true, mk: func() reflect.Value { return reflect.Zero(t) }})
		}
		first := len(d.c)
		for _, w := range wireChoices() {
			w := w
			d.c = append(d.c, choice{label: w.label, mk: func() reflect.Value { return reflect.ValueOf(w.mk()) }})
		}
		d.min = 0
		d.mid = first + 2
		d.max = len(d.c) - 2 // [200,53]: 253 bytes in two segments
		return d
	case kSig:
		d := &domain{}
		d.c = append(d.c, choice{label: "nosig", absent: true, mk: func() reflect.Value { return reflect.Zero(t) }})
		if depth == 0 {
			for _, n := range []int{1, 32, 252, 253} {
				n := n
				d.c = append(d.c, choice{label: fmt.Sprintf("sig%d", n), sig: pattern(n, 17), mk: func() reflect.Value { return reflect.Zero(t) }})
			}
			d.mid = 2
		}
		d.max = len(d.c) - 1
		return d
	case kName, kIntName:
		d := &domain{}
		if !noAbsent {
			d.c = append(d.c, choice{label: "nil", absent: true, mk: func() reflect.Value { return reflect.Zero(t) }})
		}
		first := len(d.c)
		ncs := nameChoices()
		for _, n := range ncs {
			n := n
			d.c = append(d.c, choice{label: n.label, mk: func() reflect.Value { return reflect.ValueOf(n.mk()) }})
		}
		d.min = 0
		d.mid = first + 1
		d.max = len(d.c) - 1
		if td.k == kIntName {
			// a name that already ends with a ParametersSha256Digest component (the encoder drops it
			// or replaces it, depending on needDigest)
			dig := func() reflect.Value {
				return reflect.ValueOf(enc.Name{comp(8, []byte("a")), comp(2, pattern(32, 0))})
			}
			d.c = append(d.c, choice{label: "/a/<digest>", mk: dig})
			if depth == 0 {
				for _, n := range ncs {
					switch n.label {
					case "empty", "/a", "/a/b", "total253", "8 empty components":
					default:
						continue
					}
					n := n
					d.c = append(d.c, choice{label: n.label + "+needDigest", digest: true, mk: func() reflect.Value { return reflect.ValueOf(n.mk()) }})
				}
				d.c = append(d.c, choice{label: "/a/<digest>+needDigest", digest: true, mk: dig})
			}
		}
		return d
	case kStruct:
		return structDomain(td, depth, noAbsent)
	case kSeq:
		return seqDomain(td, depth, noAbsent)
	case kMap:
		return mapDomain(td, depth, noAbsent)
	}
	panic("unreachable")
}

// fieldDoms returns the domains of the value fields of model m when m sits at nesting depth d.
func fieldDoms(m *Model, depth int) []*domain {
	out := make([]*domain, len(m.vf))
	for i, f := range m.vf {
		out[i] = domOf(f.td, depth, false)
	}
	return out
}

type dev struct{ field, choice int }

// knobs collects the encoder inputs requested by top-level choices.
type knobs struct {
	sigField string
	sig      []byte
	digField string
	digest   bool
}

// buildStruct makes a fresh *struct of model m: every field at the base choice, then deviations.
func buildStruct(m *Model, depth int, base int, devs []dev, kn *knobs) reflect.Value {
	doms := fieldDoms(m, depth)
	p := reflect.New(m.Type)
	for i, f := range m.vf {
		ci := [3]int{doms[i].min, doms[i].mid, doms[i].max}[base]
		for _, dv := range devs {
			if dv.field == i {
				ci = dv.choice
			}
		}
		c := &doms[i].c[ci]
		p.Elem().Field(f.index).Set(c.mk())
		if kn != nil {
			if f.td.k == kSig {
				kn.sigField, kn.sig = f.name, c.sig
			}
			if f.td.k == kIntName {
				kn.digField, kn.digest = f.name, c.digest
			}
		}
	}
	return p
}

var baseNames = [3]string{"min", "mid", "max"}

func structDomain(td *typeDesc, depth int, noAbsent bool) *domain {
	m := td.sub
	d := &domain{}
	t := td.t
	if !noAbsent {
		d.c = append(d.c, choice{label: "nil", absent: true, mk: func() reflect.Value { return reflect.Zero(t) }})
	}
	first := len(d.c)
	for b := 0; b < 3; b++ {
		b := b
		d.c = append(d.c, choice{label: "{" + baseNames[b] + "}", attr: &attribution{model: m, label: baseNames[b], base: b, isBase: true},
			mk: func() reflect.Value { return buildStruct(m, depth+1, b, nil, nil) }})
	}
	d.min, d.mid, d.max = 0, first+1, first+2
	if depth+1 < cfg.maxDepth {
		doms := fieldDoms(m, depth+1)
		for b := 0; b < 3; b++ {
			b := b
			for i := range m.vf {
				baseCi := [3]int{doms[i].min, doms[i].mid, doms[i].max}[b]
				for ci := range doms[i].c {
					if ci == baseCi {
						continue
					}
					i, ci := i, ci
					c := doms[i].c[ci]
					at := c.attr
					if at == nil {
						at = &attribution{model: m, field: m.vf[i].name, kind: m.vf[i].td.k, label: c.label, base: b}
					} else if at.model == nil {
						at = &attribution{model: m, field: m.vf[i].name, kind: at.kind, label: at.label, base: b}
					}
					d.c = append(d.c, choice{
						label: fmt.Sprintf("{%s;%s=%s}", baseNames[b], m.vf[i].name, c.label),
						attr:  at,
						mk:    func() reflect.Value { return buildStruct(m, depth+1, b, []dev{{i, ci}}, nil) },
					})
				}
			}
		}
	}
	return d
}

func seqDomain(td *typeDesc, depth int, noAbsent bool) *domain {
	t := td.t
	ed := domOf(td.elem, depth, true)
	d := &domain{}
	mkSeq := func(idx ...int) func() reflect.Value {
		return func() reflect.Value {
			s := reflect.MakeSlice(t, 0, len(idx))
			for _, i := range idx {
				s = reflect.Append(s, ed.c[i].mk())
			}
			return s
		}
	}
	if !noAbsent {
		d.c = append(d.c, choice{label: "nil", absent: true, mk: func() reflect.Value { return reflect.Zero(t) }})
		d.c = append(d.c, choice{label: "[]", absent: true, mk: mkSeq()})
	}
	first := len(d.c)
	lab := func(i int) string { return ed.c[i].label }
	// sequences of nested models: a failure is attributed to the element model's base value
	// (mid or max) so that it is recognised as a consequence of that base failing on its own
	var atMid, atMax *attribution
	if td.elem.k == kStruct {
		atMid, atMax = ed.c[ed.mid].attr, ed.c[ed.max].attr
	}
	d.c = append(d.c, choice{label: "[" + lab(ed.mid) + "]", attr: atMid, mk: mkSeq(ed.mid)})
	d.c = append(d.c, choice{label: "[" + lab(ed.min) + "," + lab(ed.max) + "]", attr: atMax, mk: mkSeq(ed.min, ed.max)})
	d.c = append(d.c, choice{label: "[" + lab(ed.max) + "," + lab(ed.min) + "]", attr: atMax, mk: mkSeq(ed.max, ed.min)})
	d.c = append(d.c, choice{label: "[" + lab(ed.mid) + "," + lab(ed.mid) + "]", attr: atMid, mk: mkSeq(ed.mid, ed.mid)})
	for i := range ed.c {
		if i == ed.mid {
			continue
		}
		at := ed.c[i].attr
		if at == nil && td.elem.k != kStruct {
			// attribute to the element kind: "name field = comp253" whether or not it sits in a sequence
			at = &attribution{kind: td.elem.k, label: ed.c[i].label, base: -1}
		}
		d.c = append(d.c, choice{label: "[" + lab(i) + "]", attr: at, mk: mkSeq(i)})
	}
	// siblings that are all present and pairwise different (appended last: the indices of the
	// choices above do not move). In [min,max] / [max,min] one sibling is the all-absent value and
	// in [mid,mid] the siblings are equal, so state that leaks from one sibling to the next (the
	// nested encoder / parsing context of a sequence field is ONE object used for every element)
	// is invisible there: it needs >= 2 elements that each hold something - for elements that are
	// models with a sequence of their own, two non-empty inner sequences of different content and
	// different length - in both orders, and a third element after the pair (a longer sibling
	// after a shorter one after a longer one; 3 elements also cross the first two growth steps of
	// an appended slice).
	if ed.mid != ed.max {
		d.c = append(d.c, choice{label: "[" + lab(ed.mid) + "," + lab(ed.max) + "]", attr: atMax, mk: mkSeq(ed.mid, ed.max)})
		d.c = append(d.c, choice{label: "[" + lab(ed.max) + "," + lab(ed.mid) + "]", attr: atMax, mk: mkSeq(ed.max, ed.mid)})
		d.c = append(d.c, choice{label: "[" + lab(ed.max) + "," + lab(ed.mid) + "," + lab(ed.max) + "]", attr: atMax, mk: mkSeq(ed.max, ed.mid, ed.max)})
		d.c = append(d.c, choice{label: "[" + lab(ed.mid) + "," + lab(ed.max) + "," + lab(ed.mid) + "]", attr: atMax, mk: mkSeq(ed.mid, ed.max, ed.mid)})
	}
	d.min, d.mid, d.max = 0, first, first+1
	return d
}

func mapDomain(td *typeDesc, depth int, noAbsent bool) *domain {
	t := td.t
	kd := domOf(td.key, depth, true)
	vd := domOf(td.elem, depth, true)
	d := &domain{}
	type kv struct{ k, v int }
	mkMap := func(es ...kv) func() reflect.Value {
		return func() reflect.Value {
			mp := reflect.MakeMapWithSize(t, len(es))
			for _, e := range es {
				mp.SetMapIndex(kd.c[e.k].mk(), vd.c[e.v].mk())
			}
			return mp
		}
	}
	lab := func(es ...kv) string {
		s := "{"
		for i, e := range es {
			if i > 0 {
				s += ","
			}
			s += kd.c[e.k].label + ":" + vd.c[e.v].label
		}
		return s + "}"
	}
	if !noAbsent {
		d.c = append(d.c, choice{label: "nil", absent: true, mk: func() reflect.Value { return reflect.Zero(t) }})
		d.c = append(d.c, choice{label: "{}", absent: true, mk: mkMap()})
	}
	first := len(d.c)
	add := func(es ...kv) {
		var at *attribution
		if td.elem.k == kStruct {
			at = vd.c[es[len(es)-1].v].attr
		}
		d.c = append(d.c, choice{label: lab(es...), attr: at, mk: mkMap(es...)})
	}
	add(kv{kd.mid, vd.mid})
	add(kv{kd.min, vd.min}, kv{kd.max, vd.max})
	add(kv{kd.min, vd.max}, kv{kd.mid, vd.mid})
	for i := range kd.c {
		if i != kd.mid {
			add(kv{i, vd.mid})
		}
	}
	for i := range vd.c {
		if i != vd.mid {
			d.c = append(d.c, choice{label: lab(kv{kd.mid, i}), attr: vd.c[i].attr, mk: mkMap(kv{kd.mid, i})})
		}
	}
	d.min, d.mid, d.max = 0, first, first+1
	return d
}
