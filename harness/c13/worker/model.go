// The C13 worker: linked (through a registry source generated at check time by the discovery
// step of harness/c13) against every generated TLV model of the tree under test; enumerates
// values with a type-directed odometer and evaluates the clauses C13.len, C13.rt, C13.skip and
// C13.crit on the real generated encoders and parsers.
package main

import (
	"fmt"
	"reflect"
	"strings"
	"time"

	enc "github.com/named-data/ndnd/std/encoding"
)

// FieldInfo is what the discovery step read from the generated parser for one field.
type FieldInfo struct {
	Name    string
	TypeNum uint64 // type number the generated parser recognises (valid iff HasCase)
	HasCase bool
}

// Model is one registry entry (filled by the generated registry source).
type Model struct {
	Pkg, ImportPath, Dir, Name string
	Ordered                    bool
	Type                       reflect.Type
	Fields                     []FieldInfo
	EncFields                  []string
	NewEnc                     func() any
	Init                       func(e, v any)
	Encode                     func(e, v any) enc.Wire
	Parse                      func(r enc.ParseReader, ic bool) (any, error)
	// the exported EncodeInto (memory supplied by the caller): exactly one of the two is set when
	// the generator emitted the method
	EncodeIntoBuf  func(e, v any, buf []byte)
	EncodeIntoWire func(e, v any, w enc.Wire)
	// a parsing context object the caller keeps: Init() + Parse() per value
	NewCtx   func() any
	CtxInit  func(c any)
	CtxParse func(c any, r enc.ParseReader, ic bool) (any, error)

	PubEncode func(v any) enc.Wire
	PubBytes  func(v any) []byte
	PubParse  func(r enc.ParseReader, ic bool) (any, error)

	// derived
	vf       []*valField // TLV value fields in definition order
	noCopy   bool
	skipWhy  string // non-empty: the model cannot be driven generically
	byType   map[uint64][]*valField
	known    map[uint64]bool
	encField map[string]bool
}

func (m *Model) ID() string { return m.Pkg + "." + m.Name }

var registry []*Model

var modelByType = map[reflect.Type]*Model{}

// kinds of TLV value fields, derived from the Go type of the struct field.
type kind int

const (
	kNat     kind = iota // uint64
	kFixed               // uint8/16/32 (fixed width)
	kTime                // time.Duration (whole non-negative milliseconds)
	kBool                // bool (presence)
	kString              // string
	kBinary              // []byte
	kWire                // enc.Wire
	kName                // enc.Name
	kStruct              // *Model
	kSeq                 // []elem
	kMap                 // map[k]v
	kSig                 // enc.Wire written by the caller into a slot sized by <F>_estLen
	kIntName             // enc.Name with optional ParametersSha256Digest handling (<F>_needDigest)
)

func (k kind) String() string {
	return [...]string{"natural", "fixedUint", "time", "bool", "string", "binary", "wire", "name", "struct", "sequence", "map", "signature", "interestName"}[k]
}

type typeDesc struct {
	k    kind
	t    reflect.Type
	opt  bool      // pointer to scalar
	sub  *Model    // kStruct
	elem *typeDesc // kSeq element, kMap value
	key  *typeDesc // kMap key
}

type valField struct {
	info  FieldInfo
	index int // struct field index
	name  string
	td    *typeDesc
}

var (
	tName     = reflect.TypeOf(enc.Name{})
	tWire     = reflect.TypeOf(enc.Wire{})
	tBytes    = reflect.TypeOf([]byte{})
	tDuration = reflect.TypeOf(time.Duration(0))
	tHolder   = reflect.TypeOf(enc.PlaceHolder{})
)

func describe(t reflect.Type) (*typeDesc, error) {
	switch {
	case t == tName:
		return &typeDesc{k: kName, t: t}, nil
	case t == tWire:
		return &typeDesc{k: kWire, t: t}, nil
	case t == tDuration:
		return &typeDesc{k: kTime, t: t}, nil
	case t.Kind() == reflect.Slice && t.Elem().Kind() == reflect.Uint8:
		return &typeDesc{k: kBinary, t: t}, nil
	}
	switch t.Kind() {
	case reflect.Uint64:
		return &typeDesc{k: kNat, t: t}, nil
	case reflect.Uint8, reflect.Uint16, reflect.Uint32:
		return &typeDesc{k: kFixed, t: t}, nil
	case reflect.Bool:
		return &typeDesc{k: kBool, t: t}, nil
	case reflect.String:
		return &typeDesc{k: kString, t: t}, nil
	case reflect.Ptr:
		e := t.Elem()
		if e.Kind() == reflect.Struct {
			sub, ok := modelByType[e]
			if !ok {
				return nil, fmt.Errorf("pointer to %s which is not a generated model", e)
			}
			return &typeDesc{k: kStruct, t: t, sub: sub}, nil
		}
		d, err := describe(e)
		if err != nil {
			return nil, err
		}
		switch d.k {
		case kNat, kFixed, kTime, kString:
			return &typeDesc{k: d.k, t: t, opt: true}, nil
		}
		return nil, fmt.Errorf("unsupported pointer type %s", t)
	case reflect.Slice:
		d, err := describe(t.Elem())
		if err != nil {
			return nil, err
		}
		return &typeDesc{k: kSeq, t: t, elem: d}, nil
	case reflect.Map:
		kd, err := describe(t.Key())
		if err != nil {
			return nil, err
		}
		if kd.opt || (kd.k != kNat && kd.k != kString) {
			return nil, fmt.Errorf("unsupported map key type %s", t.Key())
		}
		vd, err := describe(t.Elem())
		if err != nil {
			return nil, err
		}
		return &typeDesc{k: kMap, t: t, key: kd, elem: vd}, nil
	}
	return nil, fmt.Errorf("unsupported field type %s", t)
}

// prepare derives the value-field descriptions of every model. A model whose fields cannot be
// classified is marked (skipWhy) and reported, never silently dropped.
func prepare() {
	for _, m := range registry {
		modelByType[m.Type] = m
	}
	for _, m := range registry {
		m.encField = map[string]bool{}
		for _, f := range m.EncFields {
			m.encField[f] = true
		}
		m.noCopy = m.encField["wirePlan"]
		if !m.encField["length"] {
			m.skipWhy = "encoder has no length field"
		}
		m.byType = map[uint64][]*valField{}
		m.known = map[uint64]bool{}
		for _, fi := range m.Fields {
			sf, ok := m.Type.FieldByName(fi.Name)
			if !ok {
				m.skipWhy = "generated parser names field " + fi.Name + " which the struct does not have"
				continue
			}
			if sf.Type == tHolder {
				continue // marker / procedure argument: carries no TLV value
			}
			if !sf.IsExported() {
				m.skipWhy = "TLV value field " + fi.Name + " is unexported (cannot be set from outside the package)"
				continue
			}
			td, err := describe(sf.Type)
			if err != nil {
				m.skipWhy = "field " + fi.Name + ": " + err.Error()
				continue
			}
			if td.k == kWire && m.encField[fi.Name+"_estLen"] {
				td.k = kSig
				if !m.noCopy || !m.encField[fi.Name+"_wireIdx"] {
					m.skipWhy = "signature field " + fi.Name + " in a model that is not nocopy (slot position not exposed)"
				}
			}
			if td.k == kName && m.encField[fi.Name+"_needDigest"] {
				td.k = kIntName
			}
			vf := &valField{info: fi, index: sf.Index[0], name: fi.Name, td: td}
			m.vf = append(m.vf, vf)
			if fi.HasCase {
				m.byType[fi.TypeNum] = append(m.byType[fi.TypeNum], vf)
				m.known[fi.TypeNum] = true
			}
		}
		if m.skipWhy == "" && len(m.vf) == 0 {
			m.skipWhy = "no TLV value fields"
		}
	}
	// a model that nests a skipped model is skipped as well
	for changed := true; changed; {
		changed = false
		for _, m := range registry {
			if m.skipWhy != "" {
				continue
			}
			for _, f := range m.vf {
				for _, d := range []*typeDesc{f.td, f.td.elem} {
					if d != nil && d.k == kStruct && d.sub.skipWhy != "" {
						m.skipWhy = "nests " + d.sub.ID() + " which is skipped"
						changed = true
					}
				}
			}
		}
	}
}

func maskDigits(s string) string {
	b := []byte(s)
	out := b[:0:0]
	prev := false
	for _, c := range b {
		if c >= '0' && c <= '9' {
			if !prev {
				out = append(out, '#')
			}
			prev = true
			continue
		}
		prev = false
		out = append(out, c)
	}
	return string(out)
}

func shortErr(err error) string {
	if err == nil {
		return "<nil>"
	}
	// innermost error (type and message, numbers masked): stable across values and nesting
	e := err
	for {
		u, ok := e.(interface{ Unwrap() error })
		if !ok || u.Unwrap() == nil {
			break
		}
		e = u.Unwrap()
	}
	t := strings.TrimPrefix(strings.TrimPrefix(fmt.Sprintf("%T", e), "*"), "encoding.")
	msg := e.Error()
	if len(msg) > 80 {
		msg = msg[:80]
	}
	return t + " (" + maskDigits(msg) + ")"
}
