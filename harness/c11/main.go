// C11: stream framing delivers each TLV exactly once for any chunking of the stream.
//
// The REAL readTlvStream (fw/face/stream-transport.go, the receive loop of the TCP and Unix stream
// transports) and its application-side twin StreamFace.Run are fed streams of well-formed TLV
// blocks through a scripted io.Reader / net.Conn that decides the size of every Read result.
//
// Two builds of this same program are run (see README.md):
//   - the binary built by ./check has defn.MaxNDNPacketSize scaled to 24 (xform.args), which makes
//     the receive buffer 768 bytes: every partition of short streams and every placement of <= 2
//     (thorough: 3) short reads in streams of >= 4 buffers are enumerated;
//   - the parent then builds the same program without the constant override and runs it as a child
//     (VERIF_C11_CHILD=real): block sizes around the 1-/3-byte length boundary and the maximum, streams
//     of >= 3 buffers (845 KB), <= 2 short reads, uniform chunkings.
//
// Nothing is sampled; a time cap ends an enumeration early with exhaustive=false.
package main

import (
	"bytes"
	"encoding/json"
	"fmt"
	"os"
	"os/exec"
	"path/filepath"
	"strings"
	"sync"
	"sync/atomic"
	"time"

	fwface "github.com/named-data/ndnd/fw/face"
	enc "github.com/named-data/ndnd/std/encoding"
	sface "github.com/named-data/ndnd/std/engine/face"
	ndnlog "github.com/named-data/ndnd/std/log"
	"verif/mc/enum"
	"verif/mc/report"
)

const (
	scaledMax = 24
	realMax   = 8800
)

// ---------------------------------------------------------------------------------------------
// running one (stream, chunking) case against one target

type target int

const (
	tFw   target = iota // fw/face readTlvStream
	tTwin               // std/engine/face StreamFace.Run
)

func (t target) String() string {
	if t == tFw {
		return "readTlvStream"
	}
	return "StreamFace.Run"
}

type verdict struct {
	clause  string
	symptom string
	detail  string
}

// checker compares the frames with the blocks as they are delivered (the callback's slice is
// only valid during the call: it is compared, and copied only when it is wrong).
type checker struct {
	st  *stream
	k   int
	bad *verdict
}

func (c *checker) frame(b []byte) {
	if c.bad != nil {
		return
	}
	n := c.st.blocks()
	if c.k >= n {
		c.bad = &verdict{"C11.seq", "extra frame after the last block", fmt.Sprintf("frame %d of %d bytes, the stream has only %d blocks", c.k, len(b), n)}
		return
	}
	exp := c.st.data[c.st.offs[c.k]:c.st.offs[c.k+1]]
	if !bytes.Equal(b, exp) {
		if len(b) != len(exp) {
			c.bad = &verdict{"C11.seq", "frame is not the next block (split, merged or shifted)",
				fmt.Sprintf("frame %d has %d bytes (%s), block %d has %d bytes (%s)", c.k, len(b), hexHead(b), c.k, len(exp), hexHead(exp))}
		} else {
			d := 0
			for d < len(b) && b[d] == exp[d] {
				d++
			}
			c.bad = &verdict{"C11.seq", "frame has the length of the next block but other bytes (corrupted)",
				fmt.Sprintf("frame %d (%d bytes) differs from block %d from offset %d on", c.k, len(b), c.k, d)}
		}
		return
	}
	c.k++
}

func hexHead(b []byte) string {
	if len(b) > 12 {
		return fmt.Sprintf("%x…", b[:12])
	}
	return fmt.Sprintf("%x", b)
}

// runCase executes the target on the scripted reader and returns nil if every clause holds.
func runCase(t target, st *stream, rd *scriptReader) (v *verdict) {
	rd.arm()
	ck := checker{st: st}
	var err error
	panicked := ""
	func() {
		defer func() {
			if r := recover(); r != nil {
				panicked = fmt.Sprint(r)
			}
		}()
		if t == tFw {
			// TCP and Unix stream transports pass no predicate; the UDP transports pass
			// udpIgnoreError. It only matters when the script answers with that error.
			var pred func(error) bool
			if rd.usesErr() {
				pred = udpIgnoreError
			}
			err = fwface.VerifC11ReadTlvStream(rd, ck.frame, pred)
		} else {
			f := sface.NewStreamFace("verif", "verif", true)
			f.SetCallback(func(r enc.ParseReader) error {
				w, e := r.ReadWire(r.Length())
				if e != nil {
					return e
				}
				b := w.Join() // one segment: no copy, still the face's own buffer
				ck.frame(b)
				// C11.retain: the application engine keeps what it is handed (std/engine/basic stores
				// the raw wire of pending packets without copying), so keep it WITHOUT copying
				rd.kept = append(rd.kept, b)
				return nil
			}, func(e error) error { return e })
			f.VerifC11SetConn(scriptConn{rd})
			f.Run()
		}
	}()
	switch {
	case panicked != "":
		return &verdict{"C11.seq", "panic: " + stripNumbers(panicked), panicked}
	case rd.guardTrip && rd.emptyBuf > 4:
		return &verdict{"C11.term", "busy loop: Read is called again and again with an empty buffer", fmt.Sprintf("after %d bytes of the stream", rd.pos)}
	case rd.guardTrip:
		return &verdict{"C11.term", "does not terminate: keeps calling Read (step guard)", fmt.Sprintf("%d Read calls for a %d-byte stream, %d of them after EOF", rd.steps, len(st.data), rd.afterEOF)}
	case ck.bad != nil:
		return ck.bad
	case err != nil:
		return &verdict{"C11.seq", "error returned for a well-formed stream: " + stripNumbers(err.Error()), err.Error()}
	case rd.pos != len(st.data) || !rd.eofSeen:
		return &verdict{"C11.term", "returns before the end of the stream", fmt.Sprintf("returned after %d of %d bytes", rd.pos, len(st.data))}
	case ck.k != st.blocks():
		return &verdict{"C11.seq", "fewer frames than blocks at the end of the stream (block lost)", fmt.Sprintf("%d of %d blocks delivered", ck.k, st.blocks())}
	}
	// StreamFace.Run only: every block handed over is still intact after the whole stream was delivered
	for k, b := range rd.kept {
		if exp := st.data[st.offs[k]:st.offs[k+1]]; !bytes.Equal(b, exp) {
			d := 0
			for d < len(b) && d < len(exp) && b[d] == exp[d] {
				d++
			}
			return &verdict{"C11.retain", "a delivered block is overwritten by later blocks (receive buffer reused)",
				fmt.Sprintf("block %d (%d bytes) was delivered intact but differs from offset %d on once all %d blocks were delivered", k, len(exp), d, st.blocks())}
		}
	}
	return nil
}

func stripNumbers(s string) string {
	var b strings.Builder
	for _, r := range s {
		if r >= '0' && r <= '9' {
			if !strings.HasSuffix(b.String(), "N") {
				b.WriteByte('N')
			}
			continue
		}
		b.WriteRune(r)
	}
	return b.String()
}

// ---------------------------------------------------------------------------------------------
// violation collection: one key per (target, symptom); the example kept is the simplest one

type vio struct {
	Clause string         `json:"clause"`
	Key    string         `json:"key"`
	Detail string         `json:"detail"`
	Replay map[string]any `json:"replay"`
	Rank   int            `json:"rank"` // stream length * 8 + number of deviations: smaller = simpler
	Count  int64          `json:"count"`
}

var (
	vioMu sync.Mutex
	vios  = map[string]*vio{}
)

func record(pass string, t target, st *stream, rd *scriptReader, v *verdict) {
	key := t.String() + ": " + v.symptom
	rank := len(st.data)*8 + rd.ncuts
	vioMu.Lock()
	defer vioMu.Unlock()
	if e, ok := vios[v.clause+"|"+key]; ok {
		e.Count++
		if rank >= e.Rank {
			return
		}
	}
	var sizes []int
	for k := 0; k < st.blocks() && k < 40; k++ {
		sizes = append(sizes, st.offs[k+1]-st.offs[k])
	}
	cnt := int64(1)
	if e, ok := vios[v.clause+"|"+key]; ok {
		cnt = e.Count
	}
	vios[v.clause+"|"+key] = &vio{Clause: v.clause, Key: key, Rank: rank, Count: cnt,
		Detail: fmt.Sprintf("%s [pass=%s, stream %q of %d bytes / %d blocks, %s]", v.detail, pass, st.name, len(st.data), st.blocks(), rd.describe()),
		Replay: replayDoc(pass, t, st, rd, sizes)}
}

// ---------------------------------------------------------------------------------------------
// enumerations

type passStats struct {
	Runs       int64          `json:"runs"`
	Classes    int64          `json:"distinct_nontrivial"`
	Complete   bool           `json:"complete"`
	Parts      map[string]any `json:"parts"`
	Samples    []string       `json:"samples"`
	Observed   []string       `json:"out_of_scope_observations"`
	MaxPktSize int            `json:"max_packet_size"`
}

// allPartitions runs every partition of every stream into Read results. streams must be <= 24 bytes.
// errMaxLen > 0 (readTlvStream only): for streams of at most that many bytes, additionally every choice
// of <= 2 reads of every partition answered together with the ignorable error.
func allPartitions(pass string, t target, streams []*stream, errMaxLen int, deadline time.Time) (runs int64, complete bool) {
	var total int64
	_, complete = enum.Range(int64(len(streams)), deadline, func(i int64) {
		st := streams[i]
		var rd scriptReader
		rd.reset(st.data)
		rd.useMask = true
		n := uint32(1) << uint(len(st.data)-1)
		cnt := int64(0)
		for m := uint32(0); m < n; m++ {
			rd.mask, rd.errMask = m, 0
			if v := runCase(t, st, &rd); v != nil {
				record(pass, t, st, &rd, v)
			}
			cnt++
			if len(st.data) > errMaxLen {
				continue
			}
			// every choice of <= 2 reads (never the last one) answered together with the ignorable error
			for b1 := uint32(1); b1 != 0 && b1 <= m; b1 <<= 1 {
				if m&b1 == 0 {
					continue
				}
				rd.errMask = b1
				if v := runCase(t, st, &rd); v != nil {
					record(pass, t, st, &rd, v)
				}
				cnt++
				for b2 := b1 << 1; b2 != 0 && b2 <= m; b2 <<= 1 {
					if m&b2 == 0 {
						continue
					}
					rd.errMask = b1 | b2
					if v := runCase(t, st, &rd); v != nil {
						record(pass, t, st, &rd, v)
					}
					cnt++
				}
			}
		}
		atomic.AddInt64(&total, cnt)
	})
	return total, complete
}

// cutSets runs every placement of <= maxCuts short reads at the given positions, buffer-filling
// reads elsewhere. single: the kinds (plain, +0-byte read, returned with the ignorable error, +read
// returning only the ignorable error) tried for one short read; pairs: the kind combinations tried
// for two. A third short read is only added to plain pairs.
// near > 0 restricts the second/third cut to the next `near` positions after the previous one
// unless the first cut is among the first `head` positions.
func cutSets(pass string, t target, st *stream, pos []int, maxCuts int, single []uint8, pairs [][2]uint8, near, head int, deadline time.Time) (runs int64, complete bool) {
	var total int64
	// no cut
	{
		var rd scriptReader
		rd.reset(st.data)
		if v := runCase(t, st, &rd); v != nil {
			record(pass, t, st, &rd, v)
		}
		total++
	}
	if maxCuts < 1 {
		return total, true
	}
	_, complete = enum.Range(int64(len(pos)), deadline, func(i int64) {
		var rd scriptReader
		rd.reset(st.data)
		var n int64
		run := func() {
			if v := runCase(t, st, &rd); v != nil {
				record(pass, t, st, &rd, v)
			}
			n++
		}
		for _, k1 := range single {
			rd.ncuts = 1
			rd.cuts[0], rd.kind[0] = pos[i], k1
			run()
		}
		if maxCuts < 2 {
			atomic.AddInt64(&total, n)
			return
		}
		hi := len(pos)
		if near > 0 && int(i) >= head && int(i)+1+near < hi {
			hi = int(i) + 1 + near
		}
		for j := int(i) + 1; j < hi; j++ {
			for _, pk := range pairs {
				rd.ncuts = 2
				rd.cuts[0], rd.kind[0] = pos[i], pk[0]
				rd.cuts[1], rd.kind[1] = pos[j], pk[1]
				run()
				if maxCuts < 3 || pk[0] != kPlain || pk[1] != kPlain {
					continue
				}
				hi3 := len(pos)
				if near > 0 && j+1+near < hi3 {
					hi3 = j + 1 + near
				}
				for l := j + 1; l < hi3; l++ {
					rd.ncuts = 3
					rd.cuts[2], rd.kind[2] = pos[l], kPlain
					run()
				}
				rd.ncuts = 2
			}
		}
		atomic.AddInt64(&total, n)
	})
	return total, complete
}

// kind sets
var (
	kindsPlain   = []uint8{kPlain}
	kindsZero    = []uint8{kPlain, kZero}
	kindsAll     = []uint8{kPlain, kZero, kErrWithData, kErrAlone}
	pairsPlain   = [][2]uint8{{kPlain, kPlain}}
	pairsWithErr = [][2]uint8{{kPlain, kPlain}, {kErrWithData, kErrWithData}, {kErrAlone, kErrWithData}}
)

func allPairs(k []uint8) [][2]uint8 {
	var out [][2]uint8
	for _, a := range k {
		for _, b := range k {
			out = append(out, [2]uint8{a, b})
		}
	}
	return out
}

func uniform(pass string, t target, st *stream, chunks []int) int64 {
	var rd scriptReader
	for _, c := range chunks {
		rd.reset(st.data)
		rd.chunk = c
		if v := runCase(t, st, &rd); v != nil {
			record(pass, t, st, &rd, v)
		}
	}
	return int64(len(chunks))
}

// shortStreams: every sequence of blocks over the alphabet with total length <= maxLen.
func shortStreams(alpha []blockForm, maxLen int) []*stream {
	var out []*stream
	var rec func(cur []blockForm, n int)
	rec = func(cur []blockForm, n int) {
		if len(cur) > 0 {
			st, err := mkStream(fmt.Sprintf("short%v", cur), cur)
			if err != nil {
				report.Fatal("stream builder: %v", err)
			}
			out = append(out, st)
		}
		for _, f := range alpha {
			if n+f.total <= maxLen {
				rec(append(append([]blockForm{}, cur...), f), n+f.total)
			}
		}
	}
	rec(nil, 0)
	return out
}

func must(st *stream, err error) *stream {
	if err != nil {
		report.Fatal("stream builder: %v", err)
	}
	return st
}

func rep(f blockForm, n int) []blockForm {
	out := make([]blockForm, n)
	for i := range out {
		out[i] = f
	}
	return out
}

// ---------------------------------------------------------------------------------------------

func main() {
	max := fwface.VerifC11MaxPacketSize()
	for i, a := range os.Args {
		if a == "--replay" && i+1 < len(os.Args) {
			os.Exit(replayFile(os.Args[i+1], max))
		}
	}
	if why := checkPredicateSource(); why != "" {
		report.Fatal("ignoreError predicate: %s", why)
	}
	if os.Getenv("VERIF_C11_CHILD") == "real" {
		if max != realMax {
			report.Fatal("child build: MaxNDNPacketSize is %d, expected %d", max, realMax)
		}
		thorough := os.Getenv("VERIF_TIER") == "thorough"
		st := realPass(thorough)
		// the real stream transports (their callbacks, MTU changed at run time) on real sockets
		ndnlog.SetLevel(ndnlog.FatalLevel)
		cov, runs, classes, ok := transportPass(thorough, max)
		st.Parts["stream_transports"] = cov
		st.Runs += runs
		st.Classes += classes
		st.Complete = st.Complete && ok
		st.Samples = append(st.Samples, fmt.Sprintf("real: UnicastTCPTransport.runReceive and UnixStreamTransport.runReceive on real sockets with a recording link service: %d runs (streams x MTU histories x chunkings of the peer's writes), MTU default %d and lowered at run time to 1500 / 128", runs, max))
		writeChild(st)
		return
	}
	if max != scaledMax {
		report.Fatal("scaled build: MaxNDNPacketSize is %d, expected %d (xform -const did not apply)", max, scaledMax)
	}
	r := report.New("C11", "exploration")
	// build the real-constant binary first (the build directory is only needed up to here)
	bin, err := buildChild()
	if err != nil {
		report.Fatal("real-constant pass: %v", err)
	}
	// the -race companion of the interleaving pass is built in the background (same overlay as the child)
	type raceBuilt struct {
		bin string
		err error
	}
	raceCh := make(chan raceBuilt, 1)
	go func() {
		b, e := buildRaceBin()
		raceCh <- raceBuilt{b, e}
	}()
	// interleaving pass first: the scheduler is process-global, nothing else may run meanwhile
	sendCov, sendFound, err := sendPass(r.Thorough())
	if err != nil {
		report.Fatal("interleaving pass: %v", err)
	}
	for _, f := range sendFound {
		clause := f.clause
		if clause == "crash" || clause == "deadlock" {
			clause = "C11.send"
			if strings.HasPrefix(f.scenario, "reopen") {
				clause = "C11.reopen"
			}
		}
		vios[clause+"|"+f.key] = &vio{Clause: clause, Key: f.key, Count: 1,
			Detail: fmt.Sprintf("%s [scenario %s, schedule trace %v]", f.detail, f.scenario, f.trace),
			Replay: map[string]any{"pass": "send", "scenario": f.scenario, "schedule": f.schedule}}
	}
	scaled := scaledPass(r.Thorough())
	real, err := runChild(bin)
	if err != nil {
		report.Fatal("real-constant pass: %v", err)
	}
	rb := <-raceCh
	if rb.err != nil {
		report.Fatal("race pass: %v", rb.err)
	}
	raceCov, err := runRaceBin(rb.bin, r.Thorough())
	if err != nil {
		report.Fatal("race pass: %v", err)
	}
	for _, v := range vios {
		r.Add(report.Violation{Clause: v.Clause, Key: v.Key, Detail: fmt.Sprintf("%s [%d cases]", v.Detail, v.Count), Replay: v.Replay})
	}
	samples := append(append([]string{}, scaled.Samples...), real.Samples...)
	r.Finish(report.Coverage{
		"evaluations":               scaled.Runs + real.Runs + int64(sendCov["schedules_executed"].(int)),
		"distinct_nontrivial":       scaled.Classes + real.Classes,
		"rule":                      "distinct (target, stream, set of short-read positions) classes with at least one read ending inside a block, plus distinct (target, short stream) pairs whose every partition was run",
		"samples":                   samples,
		"exhaustive":                scaled.Complete && real.Complete && sendCov["complete_within_bound"] == true,
		"scaled_pass":               scaled,
		"real_constant_pass":        real,
		"send_interleaving_pass":    sendCov,
		"send_race_pass":            raceCov,
		"out_of_scope_observations": append(append([]string{}, scaled.Observed...), real.Observed...),
	}, []string{
		"Seam: readTlvStream called directly (hook, build tag verif) with a scripted io.Reader; StreamFace.Run called synchronously on a scripted net.Conn installed through a hook. No sockets, no goroutines.",
		"Well-formed = minimal-length TLV-TYPE/TLV-LENGTH encodings (NDN packet format 0.3: the shortest encoding MUST be used), block size 2..MaxNDNPacketSize. The 5-byte form therefore only occurs for TLV-TYPE (>= 65536); a 5-byte TLV-LENGTH cannot be minimal for a block <= 8800 bytes. Non-minimal lengths, oversize blocks and Read results that carry data together with io.EOF are run for information only (out_of_scope_observations).",
		"Scaled model: defn.MaxNDNPacketSize := 24 through the check-time source overlay (the buffer is 32x, both thresholds 1x the constant; no other use in readTlvStream). The real-constant build re-checks the boundary classes with 8800.",
		"Deviation bounding: long streams are read with buffer-filling reads except for <= 2 (thorough: 3 in the scaled model) short reads placed at every boundary class of every block; short streams (<= 16/18 bytes) get every partition.",
		"C11.retain applies to StreamFace.Run only: the reader/wire handed to onPkt is kept without copying and compared again after the whole stream was delivered, because the application engine retains the raw wire of packets (fresh buffer per block is part of that face's contract). readTlvStream reuses its buffer by design and documents the callback slice as valid during the call only, so there the comparison stays inside the callback.",
		"Environment answers of the scripted reader: a short read may be plain, followed by a (0, nil) read, returned TOGETHER with an error, or followed by a read that returns only that error. The error is a connected UDP socket's 'read udp: recvfrom: connection refused' and readTlvStream is then given the predicate that unicast-udp-transport.go and multicast-udp-transport.go pass (strings.Contains(err.Error(), \"connection refused\"); the check verifies that both files still contain it); without such an answer readTlvStream gets a nil predicate, as the TCP and Unix transports call it. The error-with-data answer is never the last read of a stream (readTlvStream parses only after an error-free read, and sockets that report this error never report EOF).",
		"C11.send: std/engine/face is rebuilt with sync and sync/atomic redirected to the cooperative scheduler (mc/sched); the scheduling points are every mutex/atomic operation of StreamFace.Send and every Write of the fake connection; all interleavings of 2-3 sender threads (wires of 1-3 segments) with <= 2 (thorough 3) preemptions are executed and the written bytes must split into exactly the blocks sent. Unsynchronised accesses are invisible to a cooperative scheduler: the same bodies also run free under the Go race detector (send_race_pass, sampled, auxiliary).",
		"C11.reopen: same scheduler, lifecycle scenario on the real StreamFace: the first session's Run loop (its onPkt callback yields), the application calling Close() and then the real Open() at once (retrying once the old loop has ended if Open refuses), and the goroutine Open starts. Open dials a Unix socket the harness listens on; the dialled connection is replaced by a scripted one through a hook before any other thread can run. Once Open returned nil every block of the new stream must be delivered exactly once in order. A refusal of the immediate Open ('face is already running') is accepted.",
		"Stream transports pass (real-constant build): UnicastTCPTransport and UnixStreamTransport are built by their own constructors on real connected loopback/Unix sockets (their conn fields are concrete socket types), get a recording link service through a hook, and their own runReceive is run until the peer closes; the MTU of the face is left at its default or changed with LinkService.SetMTU (before the loop starts / from inside the hand-over of block k, i.e. between two blocks as the management thread may do). The MTU limits what the forwarder sends; the oracle for received blocks is C11.seq/C11.term unchanged. The peer's writes are gated on the kernel's queue counters so that a Read returns at most one chunk; the verdict does not depend on the chunk boundaries observed. C11.term for this pass is 'no progress for 60 s on a local socket'.",
		"A Read with an empty buffer is answered (0, nil) as sockets do; more than 4 of those, or more Read calls than bytes+deviations+8, is reported as non-termination (step counter, no wall clock).",
	})
}

func writeChild(st *passStats) {
	out := map[string]any{"stats": st, "violations": vios}
	b, _ := json.Marshal(out)
	if err := os.WriteFile(os.Getenv("VERIF_C11_CHILD_OUT"), b, 0o644); err != nil {
		report.Fatal("child: %v", err)
	}
}

// buildChild builds this same program against the overlay WITHOUT the rewritten (scaled) files.
func buildChild() (string, error) {
	bdir := os.Getenv("VERIF_BUILD_DIR")
	ovPath := os.Getenv("VERIF_OVERLAY")
	root := report.Root()
	if bdir == "" || ovPath == "" {
		return "", fmt.Errorf("VERIF_BUILD_DIR / VERIF_OVERLAY not set (run through ./check)")
	}
	raw, err := os.ReadFile(ovPath)
	if err != nil {
		return "", err
	}
	var ov struct{ Replace map[string]string }
	if err := json.Unmarshal(raw, &ov); err != nil {
		return "", err
	}
	dropped := 0
	for src, dst := range ov.Replace {
		if strings.HasPrefix(dst, filepath.Join(bdir, "ov")+string(os.PathSeparator)) {
			delete(ov.Replace, src) // a rewritten copy (the scaled constant); hook files live elsewhere
			dropped++
		}
	}
	if dropped == 0 {
		return "", fmt.Errorf("no rewritten file found in the overlay: where did the scaled constant come from?")
	}
	b, _ := json.Marshal(ov)
	ov2 := filepath.Join(bdir, "ov", "overlay-real.json")
	if err := os.WriteFile(ov2, b, 0o644); err != nil {
		return "", err
	}
	bin := filepath.Join(bdir, "harness-real")
	args := []string{"build"}
	if _, err := os.Stat(filepath.Join(bdir, "alt.mod")); err == nil && os.Getenv("VERIF_REPO_DIR") != "/repo" {
		args = append(args, "-modfile="+filepath.Join(bdir, "alt.mod"))
	}
	args = append(args, "-tags", "verif", "-overlay", ov2, "-o", bin, "./harness/c11")
	cmd := exec.Command("go", args...)
	cmd.Dir = root
	if out, err := cmd.CombinedOutput(); err != nil {
		return "", fmt.Errorf("building the real-constant binary: %v\n%s", err, out)
	}
	return bin, nil
}

// runChild runs the real-constant binary and merges its results.
func runChild(bin string) (*passStats, error) {
	bdir := os.Getenv("VERIF_BUILD_DIR")
	outFile := filepath.Join(bdir, "child-real.json")
	os.Remove(outFile)
	cmd := exec.Command(bin)
	cmd.Env = append(os.Environ(), "VERIF_C11_CHILD=real", "VERIF_C11_CHILD_OUT="+outFile)
	cmd.Stdout, cmd.Stderr = os.Stdout, os.Stderr
	if err := cmd.Run(); err != nil {
		return nil, fmt.Errorf("running the real-constant binary: %v", err)
	}
	raw, err := os.ReadFile(outFile)
	if err != nil {
		return nil, err
	}
	var res struct {
		Stats      *passStats      `json:"stats"`
		Violations map[string]*vio `json:"violations"`
	}
	if err := json.Unmarshal(raw, &res); err != nil {
		return nil, err
	}
	for k, v := range res.Violations {
		if e, ok := vios[k]; ok {
			e.Count += v.Count // same root cause seen in both passes: keep the scaled (simpler) example
			continue
		}
		vios[k] = v
	}
	return res.Stats, nil
}

// buildRaceBin builds harness/c11/racebin with -race against the overlay without rewritten files
// (real sync package, real constant).
func buildRaceBin() (string, error) {
	bdir := os.Getenv("VERIF_BUILD_DIR")
	ov2 := filepath.Join(bdir, "ov", "overlay-real.json")
	bin := filepath.Join(bdir, "racebin")
	args := []string{"build", "-race"}
	if _, err := os.Stat(filepath.Join(bdir, "alt.mod")); err == nil && os.Getenv("VERIF_REPO_DIR") != "/repo" {
		args = append(args, "-modfile="+filepath.Join(bdir, "alt.mod"))
	}
	args = append(args, "-tags", "verif", "-overlay", ov2, "-o", bin, "./harness/c11/racebin")
	cmd := exec.Command("go", args...)
	cmd.Dir = report.Root()
	if out, err := cmd.CombinedOutput(); err != nil {
		return "", fmt.Errorf("building the -race binary: %v\n%s", err, out)
	}
	return bin, nil
}

func runRaceBin(bin string, thorough bool) (map[string]any, error) {
	reps := "300"
	if thorough {
		reps = "5000"
	}
	cmd := exec.Command(bin, reps)
	var stdout, stderr bytes.Buffer
	cmd.Stdout, cmd.Stderr = &stdout, &stderr
	cmd.Env = append(os.Environ(), "GORACE=halt_on_error=0")
	runErr := cmd.Run() // exit 66 when races were reported
	var res struct {
		Runs      int    `json:"runs"`
		Misframed int    `json:"misframed"`
		First     string `json:"first"`
	}
	if err := json.Unmarshal(stdout.Bytes(), &res); err != nil {
		return nil, fmt.Errorf("race binary gave no result (%v): %s", runErr, stderr.String())
	}
	races := strings.Count(stderr.String(), "WARNING: DATA RACE")
	if races > 0 {
		rpt := stderr.String()
		if len(rpt) > 3000 {
			rpt = rpt[:3000]
		}
		vios["C11.send|StreamFace.Send: data race reported by the Go race detector"] = &vio{Clause: "C11.send", Key: "StreamFace.Send: data race reported by the Go race detector",
			Detail: rpt, Count: int64(races), Replay: map[string]any{"pass": "race"}}
	}
	if res.Misframed > 0 {
		k := "C11.send|StreamFace.Send: segments of concurrent sends interleave (the written stream does not parse into the blocks sent)"
		if _, ok := vios[k]; !ok {
			vios[k] = &vio{Clause: "C11.send", Key: strings.SplitN(k, "|", 2)[1], Detail: "free-running goroutines: " + res.First, Count: int64(res.Misframed), Replay: map[string]any{"pass": "race"}}
		}
	}
	return map[string]any{"executions": res.Runs, "race_reports": races, "misframed_streams": res.Misframed,
		"note": "auxiliary sampled evidence: free-running goroutines, real sync, Go race detector"}, nil
}
