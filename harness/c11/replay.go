package main

import (
	"encoding/json"
	"fmt"
	"os"
	"os/exec"

	ndnlog "github.com/named-data/ndnd/std/log"
)

// replayDoc records everything needed to re-execute one case.
func replayDoc(pass string, t target, st *stream, rd *scriptReader, sizes []int) map[string]any {
	d := map[string]any{"pass": pass, "target": t.String(), "stream": st.name, "block_sizes_first40": sizes,
		"stream_bytes": len(st.data), "chunking": rd.describe(),
		"cuts": append([]int{}, rd.cuts[:rd.ncuts]...), "kinds": kindInts(rd), "err_mask": rd.errMask,
		"chunk": rd.chunk, "use_mask": rd.useMask, "mask": rd.mask}
	if len(st.forms) <= 64 {
		var f [][2]int
		for _, x := range st.forms {
			f = append(f, [2]int{x.tl, x.total})
		}
		d["forms"] = f // (type bytes, total bytes) per block; long streams are rebuilt from their name
	}
	return d
}

// replayFile re-executes the case of a replay file (./check C11 --replay <file>). A case of the
// real-constant pass is handed to the real-constant build of this program.
func replayFile(path string, max int) int {
	raw, err := os.ReadFile(path)
	if err != nil {
		fmt.Printf("CHECK-ERROR: %v\n", err)
		return 2
	}
	var doc struct {
		Replay struct {
			Pass, Target, Stream string
			Scenario             string
			Schedule             []int
			Forms                [][2]int
			Cuts                 []int
			Kinds                []int
			ErrMask              uint32 `json:"err_mask"`
			Chunk                int
			UseMask              bool `json:"use_mask"`
			Mask                 uint32
			Transport            string
			MtuPlan              []mtuEvent `json:"mtu_plan"`
		}
	}
	if err := json.Unmarshal(raw, &doc); err != nil {
		fmt.Printf("CHECK-ERROR: %v\n", err)
		return 2
	}
	r := doc.Replay
	if r.Pass == "send" {
		if max != scaledMax {
			fmt.Printf("CHECK-ERROR: an interleaving replay needs the build made by ./check\n")
			return 2
		}
		return replaySend(r.Scenario, r.Schedule)
	}
	if r.Pass == "race" {
		fmt.Println("CHECK-ERROR: findings of the free-running race pass have no deterministic replay")
		return 2
	}
	if (r.Pass == "real" || r.Pass == "transport") && max != realMax {
		bin, err := buildChild()
		if err != nil {
			fmt.Printf("CHECK-ERROR: %v\n", err)
			return 2
		}
		cmd := exec.Command(bin, "--replay", path)
		cmd.Stdout, cmd.Stderr = os.Stdout, os.Stderr
		if err := cmd.Run(); err != nil {
			if ee, ok := err.(*exec.ExitError); ok {
				return ee.ExitCode()
			}
			return 2
		}
		return 0
	}
	if r.Pass == "transport" {
		var st *stream
		if len(r.Forms) > 0 {
			var forms []blockForm
			for _, f := range r.Forms {
				forms = append(forms, blockForm{f[0], f[1]})
			}
			st = must(mkStream(r.Stream, forms))
		} else {
			for _, s := range trStreams(max) {
				if s.name == r.Stream {
					st = s
				}
			}
		}
		if st == nil {
			fmt.Printf("CHECK-ERROR: cannot rebuild stream %q\n", r.Stream)
			return 2
		}
		var err error
		if trFactory, err = newSockFactory(); err != nil {
			fmt.Printf("CHECK-ERROR: %v\n", err)
			return 2
		}
		defer trFactory.close()
		ndnlog.SetLevel(ndnlog.FatalLevel)
		c := &trCase{kind: r.Transport, st: st, chunk: r.Chunk, cuts: r.Cuts, plan: r.MtuPlan}
		v, err := runTrCase(c, max)
		fmt.Printf("%s: stream %q: %d bytes, %d blocks; %s\n", c.target(), st.name, len(st.data), st.blocks(), c.describe())
		if err != nil {
			fmt.Printf("CHECK-ERROR: %v\n", err)
			return 2
		}
		if v == nil {
			fmt.Println("REPLAY property=C11: no violation")
			return 0
		}
		fmt.Printf("REPLAY property=C11 clause=%s key=%q :: %s\n", v.clause, c.target()+": "+v.symptom, v.detail)
		return 1
	}
	if r.Pass == "scaled" && max != scaledMax {
		fmt.Printf("CHECK-ERROR: a scaled-pass replay needs the scaled build (run through ./check)\n")
		return 2
	}
	var st *stream
	if len(r.Forms) > 0 {
		var forms []blockForm
		for _, f := range r.Forms {
			forms = append(forms, blockForm{f[0], f[1]})
		}
		st = must(mkStream(r.Stream, forms))
	} else {
		all := scaledLongStreams()
		if r.Pass == "real" {
			all = realLongStreams()
		}
		for _, s := range all {
			if s.name == r.Stream {
				st = s
			}
		}
	}
	if st == nil || len(r.Cuts) > 3 {
		fmt.Printf("CHECK-ERROR: cannot rebuild stream %q\n", r.Stream)
		return 2
	}
	var rd scriptReader
	rd.reset(st.data)
	rd.ncuts = len(r.Cuts)
	for i, c := range r.Cuts {
		rd.cuts[i] = c
		if i < len(r.Kinds) {
			rd.kind[i] = uint8(r.Kinds[i])
		}
	}
	rd.chunk, rd.useMask, rd.mask, rd.errMask = r.Chunk, r.UseMask, r.Mask, r.ErrMask
	t := tFw
	if r.Target == tTwin.String() {
		t = tTwin
	}
	v := runCase(t, st, &rd)
	fmt.Printf("stream %q: %d bytes, %d blocks; %s; MaxNDNPacketSize=%d\n", st.name, len(st.data), st.blocks(), rd.describe(), max)
	if v == nil {
		fmt.Println("REPLAY property=C11: no violation")
		return 0
	}
	fmt.Printf("REPLAY property=C11 clause=%s key=%q :: %s\n", v.clause, t.String()+": "+v.symptom, v.detail)
	return 1
}

func kindInts(rd *scriptReader) []int {
	out := []int{}
	for i := 0; i < rd.ncuts; i++ {
		out = append(out, int(rd.kind[i]))
	}
	return out
}
