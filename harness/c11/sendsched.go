package main

import (
	"bytes"
	"fmt"
	"sort"
	"strings"
	"time"

	enc "github.com/named-data/ndnd/std/encoding"
	sface "github.com/named-data/ndnd/std/engine/face"
	"verif/mc/sched"
	"verif/shim/vsched"
)

// Interleaving pass for the sending side of the application stream face (C11.send).
//
// std/engine/face is built with its sync / sync/atomic imports redirected to the scheduler shims
// (xform.args: -sync std/engine/face), so every mutex and atomic operation of StreamFace.Send is a
// scheduling point; the fake connection's Write is one too (a socket write can stall). 2..3 sender
// threads call the REAL Send with wires of 1..3 segments; mc/sched enumerates ALL interleavings
// with at most `bound` preemptions. Oracle: the bytes written to the connection split into exactly
// the multiset of blocks sent, each intact.

type sendConn struct {
	scriptConn
	log    []byte
	writes int
}

func (c *sendConn) Write(p []byte) (int, error) {
	sched.Point() // the socket may stall here: another sender may run before these bytes are out
	c.log = append(c.log, p...)
	c.writes++
	return len(p), nil
}

type sendState struct {
	f     *sface.StreamFace
	conn  *sendConn
	wires [][]enc.Wire // per thread, the wires it sends in order
	errs  []string
}

// mkWire: one well-formed block (<= 24 bytes, the scaled maximum) cut into `segs` segments; the
// first segment ends inside the header or value so that a foreign block landing between two
// segments breaks the framing.
func mkWire(thread, k, segs int) enc.Wire {
	v := 6 + 2*segs
	b := []byte{byte(0x05 + thread%2), byte(v)}
	for i := 0; i < v; i++ {
		b = append(b, byte(0xa0+thread*16+k*4+i%4))
	}
	if segs == 1 {
		return enc.Wire{b}
	}
	var w enc.Wire
	step := len(b) / segs
	for i := 0; i < segs; i++ {
		lo, hi := i*step, (i+1)*step
		if i == segs-1 {
			hi = len(b)
		}
		w = append(w, append([]byte{}, b[lo:hi]...))
	}
	return w
}

func sendScenario(name string, shape [][]int) sched.Scenario {
	return sched.Scenario{
		Name: name,
		Setup: func() any {
			st := &sendState{conn: &sendConn{}}
			st.f = sface.NewStreamFace("verif", "verif", true)
			st.f.SetCallback(func(enc.ParseReader) error { return nil }, func(e error) error { return e })
			st.f.VerifC11SetConn(st.conn)
			for t, ws := range shape {
				var l []enc.Wire
				for k, segs := range ws {
					l = append(l, mkWire(t, k, segs))
				}
				st.wires = append(st.wires, l)
			}
			return st
		},
		Threads: func(s any) []func(*sched.Ctx) {
			st := s.(*sendState)
			var out []func(*sched.Ctx)
			for t := range st.wires {
				t := t
				out = append(out, func(c *sched.Ctx) {
					for _, w := range st.wires[t] {
						if err := st.f.Send(w); err != nil {
							st.errs = append(st.errs, err.Error())
						}
					}
				})
			}
			return out
		},
		Check: func(s any, e *sched.Exec) []sched.Finding {
			st := s.(*sendState)
			if len(st.errs) > 0 {
				return []sched.Finding{{Clause: "C11.send", Key: "StreamFace.Send: error on a running face", Detail: fmt.Sprint(st.errs)}}
			}
			var want [][]byte
			for _, l := range st.wires {
				for _, w := range l {
					want = append(want, w.Join())
				}
			}
			if why := parsesInto(st.conn.log, want); why != "" {
				return []sched.Finding{{Clause: "C11.send",
					Key:    "StreamFace.Send: segments of concurrent sends interleave (the written stream does not parse into the blocks sent)",
					Detail: fmt.Sprintf("%s; wires (segments per wire, per thread) %v; bytes on the connection %x", why, shape, st.conn.log)}}
			}
			return nil
		},
	}
}

// parsesInto splits the written bytes into TLV blocks with the harness's own splitter (the wires
// use 1-byte types and lengths) and compares them with the blocks sent, as multisets. "" = equal.
// The real receive loops are not used here on purpose: their framing of a stream is what C11.seq
// checks, and a defect there must not be blamed on Send.
func parsesInto(written []byte, want [][]byte) string {
	var got [][]byte
	for b := written; len(b) > 0; {
		if len(b) < 2 || len(b) < 2+int(b[1]) {
			return fmt.Sprintf("the written stream ends inside a block (%d stray bytes)", len(b))
		}
		got = append(got, b[:2+int(b[1])])
		b = b[2+int(b[1]):]
	}
	if len(got) != len(want) {
		return fmt.Sprintf("%d blocks sent, %d blocks on the connection", len(want), len(got))
	}
	srt := func(l [][]byte) { sort.Slice(l, func(i, j int) bool { return bytes.Compare(l[i], l[j]) < 0 }) }
	w := append([][]byte{}, want...)
	srt(w)
	srt(got)
	for i := range w {
		if !bytes.Equal(w[i], got[i]) {
			return fmt.Sprintf("a block on the connection (%x) is not one of the blocks sent", got[i])
		}
	}
	return ""
}

type sendFound struct {
	clause, key, detail, scenario string
	schedule                      []int
	trace                         []string
}

// sendPass explores all scenarios; returns evidence and findings.
func sendPass(thorough bool) (map[string]any, []sendFound, error) {
	bound, budget := 2, 25*time.Second
	if thorough {
		bound, budget = 3, 6*time.Minute
	}
	shapes := sendShapes(thorough)
	budget = budgetEnv("VERIF_C11_BUDGET_SEND_S", budget)
	deadline := time.Now().Add(budget)
	var found []sendFound
	seen := map[string]bool{}
	var stats []sched.Stats
	execs, points := 0, 0
	complete := true
	var scns []sched.Scenario
	for _, sh := range shapes {
		scns = append(scns, sendScenario(fmt.Sprintf("send%v", sh), sh))
	}
	if _, err := reopenListener(); err != nil {
		return nil, nil, fmt.Errorf("cannot listen on a Unix socket for Open(): %v", err)
	}
	ro := reopenScenarios(thorough)
	scns = append(scns, ro...)
	defer func() { vsched.Spawn = nil }()
	for _, scn := range scns {
		st, err := sched.Explore(scn, bound, deadline, func(f sched.Found) {
			if seen[f.Clause+f.Key] {
				return
			}
			seen[f.Clause+f.Key] = true
			found = append(found, sendFound{f.Clause, f.Key, f.Detail, scn.Name, f.Schedule, f.Trace})
		})
		if err != nil {
			return nil, nil, err
		}
		stats = append(stats, st)
		execs += st.Executions
		points += st.Points
		complete = complete && st.Complete
	}
	return map[string]any{"scenarios": len(scns), "close_reopen_scenarios": len(ro), "wires_segments_per_thread": fmt.Sprint(shapes), "preemption_bound": bound,
		"schedules_executed": execs, "scheduling_points": points, "complete_within_bound": complete, "per_scenario": stats,
		"scheduling_points_are": "every sync.Mutex / atomic.Bool operation of std/engine/face (shimmed) and every Write on the fake connection"}, found, nil
}

func budgetEnv(env string, def time.Duration) time.Duration { return budget(env, def) }

// sendShapes: per scenario, per thread, the number of segments of each wire it sends.
func sendShapes(thorough bool) [][][]int {
	shapes := [][][]int{
		{{1}, {2}}, {{2}, {2}}, {{1}, {1}}, {{1}, {3}}, {{3}, {2}}, {{2}, {1, 1}}, {{2, 1}, {2}},
		{{1}, {2}, {1}}, {{2}, {2}, {1}}, {{1}, {2}, {3}},
	}
	if thorough {
		shapes = append(shapes, [][]int{{3}, {3}}, [][]int{{2}, {2}, {2}}, [][]int{{1, 2}, {2, 1}, {1}}, [][]int{{3}, {1}, {2}})
	}
	return shapes
}

// replaySend re-executes one schedule of one scenario.
func replaySend(name string, schedule []int) int {
	if strings.HasPrefix(name, "reopen") {
		if _, err := reopenListener(); err != nil {
			fmt.Printf("CHECK-ERROR: %v\n", err)
			return 2
		}
		defer func() { vsched.Spawn = nil }()
		for _, scn := range reopenScenarios(true) {
			if scn.Name != name {
				continue
			}
			e, st, err := sched.Replay(scn, schedule)
			if err != nil {
				fmt.Printf("CHECK-ERROR: %v\n", err)
				return 2
			}
			var fs []sched.Finding
			switch {
			case e.Crash != "":
				fs = append(fs, sched.Finding{Clause: "C11.reopen", Key: "panic " + e.Crash})
			case e.Dead:
				fs = append(fs, sched.Finding{Clause: "C11.reopen", Key: "deadlock"})
			default:
				fs = scn.Check(st, e)
			}
			rs := st.(*reopenState)
			fmt.Printf("scenario %s, schedule %v, %d deliveries, notes %v\n", name, schedule, len(rs.delivered), rs.notes)
			for _, f := range fs {
				fmt.Printf("REPLAY property=C11 clause=%s key=%q :: %s\n", f.Clause, f.Key, f.Detail)
			}
			if len(fs) == 0 {
				fmt.Println("REPLAY property=C11: no violation")
				return 0
			}
			return 1
		}
	}
	for _, sh := range sendShapes(true) {
		scn := sendScenario(fmt.Sprintf("send%v", sh), sh)
		if scn.Name != name {
			continue
		}
		e, st, err := sched.Replay(scn, schedule)
		if err != nil {
			fmt.Printf("CHECK-ERROR: %v\n", err)
			return 2
		}
		fs := scn.Check(st, e)
		if e.Crash != "" {
			fs = append(fs, sched.Finding{Clause: "C11.send", Key: "panic " + e.Crash})
		}
		if e.Dead {
			fs = append(fs, sched.Finding{Clause: "C11.send", Key: "deadlock"})
		}
		fmt.Printf("scenario %s, schedule %v, bytes written %x\n", name, schedule, st.(*sendState).conn.log)
		for _, f := range fs {
			fmt.Printf("REPLAY property=C11 clause=%s key=%q :: %s\n", f.Clause, f.Key, f.Detail)
		}
		if len(fs) == 0 {
			fmt.Println("REPLAY property=C11: no violation")
			return 0
		}
		return 1
	}
	fmt.Printf("CHECK-ERROR: unknown scenario %q\n", name)
	return 2
}
