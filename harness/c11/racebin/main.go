// Free-running companion of the C11.send interleaving pass: the same sender bodies on real
// goroutines with the real sync package, built with -race. Auxiliary, sampled evidence: it decides
// only "no data race reported"; a mis-framed stream seen here is reported too, its absence proves
// nothing (the controlled pass enumerates the interleavings).
// usage: racebin <repetitions>; prints {"runs":..,"misframed":..,"first":".."}; race reports go to stderr.
package main

import (
	"bytes"
	"encoding/json"
	"fmt"
	"net"
	"os"
	"runtime"
	"sort"
	"strconv"
	"sync"
	"time"

	enc "github.com/named-data/ndnd/std/encoding"
	sface "github.com/named-data/ndnd/std/engine/face"
)

type conn struct {
	mu  sync.Mutex // a socket write is atomic; the harness's log must not race by itself
	log []byte
}

type addr struct{}

func (addr) Network() string { return "verif" }
func (addr) String() string  { return "verif" }

func (c *conn) Write(p []byte) (int, error) {
	runtime.Gosched() // give the other senders a chance between two segments
	c.mu.Lock()
	c.log = append(c.log, p...)
	c.mu.Unlock()
	runtime.Gosched()
	return len(p), nil
}
func (c *conn) Read(p []byte) (int, error)         { select {} }
func (c *conn) Close() error                       { return nil }
func (c *conn) LocalAddr() net.Addr                { return addr{} }
func (c *conn) RemoteAddr() net.Addr               { return addr{} }
func (c *conn) SetDeadline(t time.Time) error      { return nil }
func (c *conn) SetReadDeadline(t time.Time) error  { return nil }
func (c *conn) SetWriteDeadline(t time.Time) error { return nil }

func mkWire(thread, k, segs int) enc.Wire {
	v := 6 + 2*segs
	b := []byte{byte(0x05 + thread%2), byte(v)}
	for i := 0; i < v; i++ {
		b = append(b, byte(0xa0+thread*16+k*4+i%4))
	}
	var w enc.Wire
	step := len(b) / segs
	for i := 0; i < segs; i++ {
		lo, hi := i*step, (i+1)*step
		if i == segs-1 {
			hi = len(b)
		}
		w = append(w, append([]byte{}, b[lo:hi]...))
	}
	return w
}

// split: 1-byte type, 1-byte length blocks
func split(b []byte) ([][]byte, bool) {
	var out [][]byte
	for len(b) > 0 {
		if len(b) < 2 || len(b) < 2+int(b[1]) {
			return out, false
		}
		out = append(out, b[:2+int(b[1])])
		b = b[2+int(b[1]):]
	}
	return out, true
}

func main() {
	reps, _ := strconv.Atoi(os.Args[1])
	shapes := [][][]int{{{1, 1, 1}, {2, 2, 2}}, {{2, 1}, {2, 3}, {1, 1}}, {{3, 3}, {1, 1, 1}, {2, 2}}}
	runs, bad := 0, 0
	first := ""
	for r := 0; r < reps; r++ {
		for _, sh := range shapes {
			c := &conn{}
			f := sface.NewStreamFace("verif", "verif", true)
			f.SetCallback(func(enc.ParseReader) error { return nil }, func(e error) error { return e })
			f.VerifC11SetConn(c)
			var want [][]byte
			var wg sync.WaitGroup
			start := make(chan struct{})
			for t, ws := range sh {
				var l []enc.Wire
				for k, segs := range ws {
					w := mkWire(t, k, segs)
					l = append(l, w)
					want = append(want, w.Join())
				}
				wg.Add(1)
				go func() {
					defer wg.Done()
					<-start
					for _, w := range l {
						f.Send(w)
					}
				}()
			}
			close(start)
			wg.Wait()
			runs++
			got, ok := split(c.log)
			srt := func(l [][]byte) { sort.Slice(l, func(i, j int) bool { return bytes.Compare(l[i], l[j]) < 0 }) }
			srt(got)
			srt(want)
			same := ok && len(got) == len(want)
			for i := 0; same && i < len(got); i++ {
				same = bytes.Equal(got[i], want[i])
			}
			if !same {
				bad++
				if first == "" {
					first = fmt.Sprintf("wires %v: bytes on the connection %x", sh, c.log)
				}
			}
		}
	}
	json.NewEncoder(os.Stdout).Encode(map[string]any{"runs": runs, "misframed": bad, "first": first})
}
