package main

import (
	"fmt"
	"os"
	"time"
)

func budget(env string, def time.Duration) time.Duration {
	if v := os.Getenv(env); v != "" {
		var s int
		fmt.Sscan(v, &s)
		return time.Duration(s) * time.Second
	}
	return def
}

// ---------------------------------------------------------------------------------------------
// scaled model: MaxNDNPacketSize = 24, receive buffer 768 bytes

func scaledPass(thorough bool) *passStats {
	ps := &passStats{Complete: true, Parts: map[string]any{}, MaxPktSize: scaledMax}
	B := 32 * scaledMax
	dl := time.Now().Add(budget("VERIF_C11_BUDGET_SCALED_S", map[bool]time.Duration{false: 55 * time.Second, true: 14 * time.Minute}[thorough]))

	// (1) every partition of every short stream: the full 7-form alphabet up to fullLen bytes, three
	// 3-form alphabets up to maxLen bytes (2^(n-1) partitions per stream of n bytes)
	fullLen, maxLen, maxLenTwin, errLen := 12, 16, 10, 10
	if thorough {
		fullLen, maxLen, maxLenTwin, errLen = 14, 18, 12, 12
	}
	fullAlpha := []blockForm{{1, 2}, {1, 3}, {3, 4}, {1, 5}, {5, 6}, {1, 7}, {3, 7}}
	subAlphas := [][]blockForm{{{1, 2}, {1, 3}, {3, 7}}, {{3, 4}, {5, 6}, {1, 7}}, {{1, 2}, {1, 5}, {5, 7}}}
	seen := map[string]bool{}
	var ss []*stream
	addAll := func(l []*stream) {
		for _, s := range l {
			if !seen[s.name] {
				seen[s.name] = true
				ss = append(ss, s)
			}
		}
	}
	addAll(shortStreams(fullAlpha, fullLen))
	if !thorough {
		subAlphas = subAlphas[:2]
	}
	for _, a := range subAlphas {
		addAll(shortStreams(a, maxLen))
	}
	// single blocks up to the (scaled) maximum
	for _, f := range []blockForm{{1, 9}, {1, 17}, {3, 18}, {5, 18}} {
		addAll([]*stream{must(mkStream(fmt.Sprintf("short[%v]", f), []blockForm{f}))})
	}
	runs, ok := allPartitions("scaled", tFw, ss, errLen, dl)
	ps.Runs += runs
	ps.Classes += int64(len(ss))
	ps.Complete = ps.Complete && ok
	ps.Parts["short_streams_all_partitions"] = map[string]any{"target": "readTlvStream", "forms": "(type bytes, total bytes)",
		"full_alphabet": fmt.Sprint(fullAlpha), "full_alphabet_max_stream_bytes": fullLen, "sub_alphabets": fmt.Sprint(subAlphas), "sub_alphabets_max_stream_bytes": maxLen,
		"streams": len(ss), "runs": runs, "complete": ok}
	ps.Samples = append(ps.Samples, fmt.Sprintf("scaled: %d short streams (every block sequence over %v up to %d bytes and over each of %v up to %d bytes), every one of the 2^(n-1) partitions into reads: %d runs of readTlvStream",
		len(ss), fullAlpha, fullLen, subAlphas, maxLen, runs))
	var st2 []*stream
	for _, s := range ss {
		if len(s.data) <= maxLenTwin {
			st2 = append(st2, s)
		}
	}
	runs, ok = allPartitions("scaled", tTwin, st2, 0, dl)
	ps.Runs += runs
	ps.Classes += int64(len(st2))
	ps.Complete = ps.Complete && ok
	ps.Parts["short_streams_all_partitions_twin"] = map[string]any{"target": "StreamFace.Run", "max_stream_bytes": maxLenTwin, "streams": len(st2), "runs": runs, "complete": ok}

	// (2) long streams (>= 4 buffers), every placement of <= k short reads
	long := scaledLongStreams()
	k := 2
	longParts := []any{}
	for i, st := range long {
		pos := st.cutPositions(nil)
		kk, near := k, 0
		if thorough && i < 3 {
			kk = 3
			if i == 0 {
				near = 40 // third/second cut within the next 40 positions unless the first is among the first 60
			}
		}
		head, zp := 60, thorough // quick: the 0-byte-read variant for single short reads only
		if i == 3 {
			near, head, zp = 12, 16, false // 2-byte blocks: 3000 positions; pairs restricted to neighbours + head
		}
		// every short read plain / +0-byte read / returned with the ignorable error / +read returning
		// only that error; pairs: quick the plain pair and the combinations with the error answers,
		// thorough all 16 combinations
		pk := pairsWithErr
		if zp {
			pk = allPairs(kindsAll)
		}
		if i == 3 {
			pk = [][2]uint8{{kPlain, kPlain}, {kErrWithData, kErrWithData}}
		}
		runs, ok := cutSets("scaled", tFw, st, pos, kk, kindsAll, pk, near, head, dl)
		ps.Runs += runs
		ps.Classes += runs - 1
		ps.Complete = ps.Complete && ok
		longParts = append(longParts, map[string]any{"stream": st.name, "bytes": len(st.data), "blocks": st.blocks(), "cut_positions": len(pos),
			"max_short_reads": kk, "neighbour_window": near, "head": head, "short_read_kinds": "plain, +0-byte read, with ignorable error, +error-only read", "pair_kind_combinations": len(pk), "runs": runs, "complete": ok})
		if i == 0 {
			ps.Samples = append(ps.Samples, fmt.Sprintf("scaled: stream %q (%d bytes = %.1f buffers, %d blocks): every placement of <= %d short reads (plain or followed by a 0-byte read) at %d boundary offsets: %d runs",
				st.name, len(st.data), float64(len(st.data))/float64(B), st.blocks(), kk, len(pos), runs))
		}
		ps.Runs += uniform("scaled", tFw, st, []int{1, 2, 3, 5, 7, 23, 24, 25, 100, B - 1, B, B + 1})
		// twin: single short reads + uniform chunkings
		r2, ok2 := cutSets("scaled", tTwin, st, pos, 1, kindsPlain, nil, 0, 0, dl)
		ps.Runs += r2 + uniform("scaled", tTwin, st, []int{1, 2, 3, 7, 24, 100, 4095, 4096, 4097})
		ps.Classes += r2 - 1
		ps.Complete = ps.Complete && ok2
	}
	ps.Parts["long_streams_short_read_placements"] = longParts
	ps.Observed = observations("scaled", scaledMax)
	return ps
}

// ---------------------------------------------------------------------------------------------
// real constant: MaxNDNPacketSize = 8800, receive buffer 281600 bytes

func realPass(thorough bool) *passStats {
	ps := &passStats{Complete: true, Parts: map[string]any{}, MaxPktSize: realMax}
	B := 32 * realMax
	dl := time.Now().Add(budget("VERIF_C11_BUDGET_REAL_S", map[bool]time.Duration{false: 45 * time.Second, true: 12 * time.Minute}[thorough]))
	alpha := realAlpha
	long := realLongStreams()
	parts := []any{}
	for i, st := range long {
		var filter func(k int) bool
		near, head, kk := 12, 24, 2
		if thorough {
			near = 0 // all pairs
		}
		if i == 3 {
			// 422 409 two-byte blocks: short reads at the first blocks and at the blocks around every multiple of the buffer size
			nb := st.blocks()
			filter = func(k int) bool {
				if k < 6 || k >= nb-3 {
					return true
				}
				off := st.offs[k] % B
				return off < 6 || off > B-6
			}
			near, head = 0, 0
			if !thorough {
				kk = 1
			}
		}
		pos := st.cutPositions(filter)
		sk := kindsAll
		if i == 3 {
			sk = []uint8{kPlain, kErrWithData}
		}
		runs, ok := cutSets("real", tFw, st, pos, kk, sk, [][2]uint8{{kPlain, kPlain}, {kErrWithData, kErrWithData}}, near, head, dl)
		ps.Runs += runs
		ps.Classes += runs - 1
		ps.Complete = ps.Complete && ok
		parts = append(parts, map[string]any{"stream": st.name, "bytes": len(st.data), "blocks": st.blocks(), "cut_positions": len(pos),
			"max_short_reads": kk, "neighbour_window": near, "head": head, "runs": runs, "complete": ok})
		if i == 0 {
			ps.Samples = append(ps.Samples, fmt.Sprintf("real: stream %q (%d bytes = %.2f buffers, %d blocks of %v): <= %d short reads at %d boundary offsets (second within the next %d offsets, 0 = anywhere, or first among the first %d): %d runs",
				st.name, len(st.data), float64(len(st.data))/float64(B), st.blocks(), alpha, kk, len(pos), near, head, runs))
		}
		ch := []int{1, 2, 3, 5, 7, 253, 1448, 4096, 8799, 8800, 8801, 65536, B - 1, B, B + 1}
		if i == 3 {
			ch = []int{1, 2, 3, 1448, B}
		}
		ps.Runs += uniform("real", tFw, st, ch)
		// twin: single short reads (mixed stream only) + uniform chunkings
		if i == 0 {
			r2, ok2 := cutSets("real", tTwin, st, pos, 1, kindsPlain, nil, 0, 0, dl)
			ps.Runs += r2
			ps.Classes += r2 - 1
			ps.Complete = ps.Complete && ok2
		}
		if i != 3 {
			ps.Runs += uniform("real", tTwin, st, []int{1, 7, 1448, 4095, 4096, 4097, 8800})
		}
	}
	ps.Parts["long_streams_short_read_placements"] = parts
	ps.Observed = observations("real", realMax)
	return ps
}

// ---------------------------------------------------------------------------------------------
// informational probes outside the property statement (never reported as violations)

func observations(pass string, max int) []string {
	var out []string
	B := 32 * max
	// (a) last chunk returned together with io.EOF (allowed by io.Reader, never done by net.Conn)
	{
		st := must(mkStream("eof-with-data", []blockForm{{1, 7}, {1, 7}}))
		var rd scriptReader
		rd.reset(st.data)
		rd.eofWith = true
		v := runCase(tFw, st, &rd)
		res := "all blocks delivered"
		if v != nil {
			res = v.symptom + " (" + v.detail + ")"
		}
		out = append(out, fmt.Sprintf("[%s] Read returning the last bytes together with io.EOF: %s -- not a violation: TCP/Unix sockets return (n, nil) and then (0, EOF)", pass, res))
	}
	// (b) non-minimal TLV-LENGTH (3-byte form for a small value): malformed per the packet format
	{
		st := &stream{name: "non-minimal-length"}
		blk := []byte{0x06, 0xfd, 0x00, 0x03, 1, 2, 3}
		for i := 0; i < 2; i++ {
			st.offs = append(st.offs, len(st.data))
			st.hdr = append(st.hdr, 4)
			st.data = append(st.data, blk...)
		}
		st.offs = append(st.offs, len(st.data))
		var rd scriptReader
		rd.reset(st.data)
		v := runCase(tFw, st, &rd)
		res := "delivered as sent"
		if v != nil {
			res = v.symptom
		}
		out = append(out, fmt.Sprintf("[%s] block with a non-minimal 3-byte TLV-LENGTH: %s -- out of scope (malformed block); the frame size is computed from the minimal encoding lengths", pass, res))
	}
	// (c) DESIGN §4 #7: buffer exactly full. 31 maximum-size blocks followed by the first
	// MaxNDNPacketSize bytes of an OVERSIZE block (declared size max+1), all in one buffer-filling read.
	{
		st := &stream{name: "oversize-at-full-buffer"}
		for i := 0; i < 31; i++ {
			b, h, err := mkBlock(blockForm{1, max}, i)
			if err != nil {
				return append(out, "probe failed: "+err.Error())
			}
			st.offs = append(st.offs, len(st.data))
			st.hdr = append(st.hdr, h)
			st.data = append(st.data, b...)
		}
		// oversize block: total max+1
		var big []byte
		v := max + 1 - 2
		if v <= 252 {
			big = append(big, 0x06, byte(v))
		} else {
			v = max + 1 - 4
			big = append(big, 0x06, 0xfd, byte(v>>8), byte(v))
		}
		for len(big) < max+1 {
			big = append(big, 0x41)
		}
		st.offs = append(st.offs, len(st.data))
		st.hdr = append(st.hdr, 2)
		st.data = append(st.data, big...)
		st.offs = append(st.offs, len(st.data))
		var rd scriptReader
		rd.reset(st.data)
		rd.ncuts = 1
		rd.cuts[0] = B // first read fills the buffer exactly: 31 blocks + max bytes of the oversize block
		vd := runCase(tFw, st, &rd)
		res := "all 32 blocks delivered (no size check hit)"
		if vd != nil {
			res = vd.symptom + " (" + vd.detail + ")"
		}
		out = append(out, fmt.Sprintf("[%s] oversize block (max+1 bytes) whose first max bytes end exactly at the end of the receive buffer: %s -- out of scope for C11 (block larger than the maximum); relevant to C04", pass, res))
	}
	return out
}

// ---------------------------------------------------------------------------------------------
// the long streams (also rebuilt by name when a replay file is re-executed)

func scaledLongStreams() []*stream {
	B := 32 * scaledMax
	alpha := []blockForm{{1, 2}, {1, 24}, {1, 3}, {3, 24}, {1, 7}, {1, 23}, {3, 7}, {5, 24}, {5, 7}, {1, 24}, {3, 4}, {3, 23}, {5, 6}, {1, 24}, {1, 2}, {5, 23}}
	return []*stream{
		must(mkStream("scaled-mixed", cyc(alpha, 4*B+50))),
		must(mkStream("scaled-all-24", rep(blockForm{1, 24}, 4*32+5))), // a buffer-filling read holds exactly 32 blocks
		must(mkStream("scaled-all-23", rep(blockForm{1, 23}, 4*32+12))),
		must(mkStream("scaled-all-2", rep(blockForm{1, 2}, 4*B/2+7))),
	}
}

// total sizes 2, 252..259 (both sides of the 1-/3-byte length switch at value length 253), 4400, 8799, 8800;
// 255 and 256 exist only with a 3-byte type
var realAlpha = []blockForm{{1, 2}, {1, 252}, {1, 253}, {1, 254}, {3, 255}, {3, 256}, {1, 257}, {5, 258}, {3, 259}, {1, 4400}, {3, 4400}, {1, 8799}, {1, 8800}, {3, 8800}, {5, 8800}, {3, 4}, {1, 8800}}

func realLongStreams() []*stream {
	B := 32 * realMax
	return []*stream{
		must(mkStream("real-mixed", cyc(realAlpha, 3*B+1000))),
		must(mkStream("real-all-8800", rep(blockForm{1, 8800}, 3*32+4))), // a buffer-filling read holds exactly 32 blocks
		must(mkStream("real-all-8799", rep(blockForm{1, 8799}, 3*32+5))),
		must(mkStream("real-all-2", rep(blockForm{1, 2}, 3*B/2+9))),
	}
}
