package main

import (
	"errors"
	"fmt"
	"io"
	"net"
	"os"
	"strings"
	"syscall"
	"time"
)

// ---------------------------------------------------------------------------------------------
// well-formed TLV blocks and streams

// blockForm: tl = bytes of the TLV-TYPE field (1, 3 or 5), total = size of the whole block.
type blockForm struct{ tl, total int }

// mkBlock builds block number idx of a stream: minimal-length encodings only (NDN packet format:
// "a number MUST be encoded in the shortest format"), value bytes from a position dependent pattern
// that contains 0x00, 0xfd, 0xfe, 0xff and small numbers, so that a parser that lost
// synchronisation reads nonsense type/length fields.
func mkBlock(f blockForm, idx int) ([]byte, int, error) {
	var b []byte
	switch f.tl {
	case 1:
		b = append(b, []byte{0x05, 0x06, 0x64, 0x50}[idx%4])
	case 3:
		b = append(b, 0xfd, 0x03, byte(0x20+idx%7))
	case 5:
		b = append(b, 0xfe, 0x00, 0x01, byte(idx%3), byte(idx%251))
	default:
		return nil, 0, fmt.Errorf("bad type form %d", f.tl)
	}
	v := f.total - f.tl - 1
	switch {
	case v >= 0 && v <= 252:
		b = append(b, byte(v))
	case f.total-f.tl-3 >= 253 && f.total-f.tl-3 <= 0xffff:
		v = f.total - f.tl - 3
		b = append(b, 0xfd, byte(v>>8), byte(v))
	default:
		return nil, 0, fmt.Errorf("no minimal TLV with a %d-byte type has %d bytes", f.tl, f.total)
	}
	hdr := len(b)
	for i := 0; i < v; i++ {
		x := byte((idx*31 + i*7) ^ (i >> 8))
		switch (i + idx) % 11 {
		case 3:
			x = 0xfd
		case 5:
			x = 0xff
		case 7:
			x = 0x00
		case 9:
			x = 0xfe
		}
		b = append(b, x)
	}
	if len(b) != f.total {
		return nil, 0, fmt.Errorf("internal: block has %d bytes, wanted %d", len(b), f.total)
	}
	return b, hdr, nil
}

type stream struct {
	name  string
	forms []blockForm
	data  []byte
	offs  []int // start offset of block k; offs[n] = len(data)
	hdr   []int // header (T+L) length of block k
}

func (s *stream) blocks() int { return len(s.offs) - 1 }

func mkStream(name string, forms []blockForm) (*stream, error) {
	s := &stream{name: name, forms: forms}
	for i, f := range forms {
		b, h, err := mkBlock(f, i)
		if err != nil {
			return nil, err
		}
		s.offs = append(s.offs, len(s.data))
		s.hdr = append(s.hdr, h)
		s.data = append(s.data, b...)
	}
	s.offs = append(s.offs, len(s.data))
	return s, nil
}

// cyclic stream: repeat the alphabet until at least minLen bytes
func cyc(alpha []blockForm, minLen int) []blockForm {
	var out []blockForm
	n := 0
	for i := 0; n < minLen; i++ {
		f := alpha[i%len(alpha)]
		out = append(out, f)
		n += f.total
	}
	return out
}

// cutPositions: the boundary classes of every block: every offset inside and at the end of the
// header (1 byte received, inside T, inside L, header complete), one byte before the end of the
// block, the exact end (= start of the next block). "1 byte into the next block" is the next
// block's first class. Offsets 0 and len(data) are not cuts.
func (s *stream) cutPositions(blockFilter func(k int) bool) []int {
	seen := map[int]bool{}
	var out []int
	add := func(p int) {
		if p > 0 && p < len(s.data) && !seen[p] {
			seen[p] = true
			out = append(out, p)
		}
	}
	for k := 0; k < s.blocks(); k++ {
		if blockFilter != nil && !blockFilter(k) {
			continue
		}
		st, end := s.offs[k], s.offs[k+1]
		for p := st + 1; p <= st+s.hdr[k] && p <= end; p++ {
			add(p)
		}
		add(end - 1)
		add(end)
	}
	// ascending
	for i := 1; i < len(out); i++ {
		for j := i; j > 0 && out[j-1] > out[j]; j-- {
			out[j-1], out[j] = out[j], out[j-1]
		}
	}
	return out
}

// ---------------------------------------------------------------------------------------------
// scripted reader

var errGuard = errors.New("verif: step guard")

// What a short read may come with.
const (
	kPlain       uint8 = iota // (n, nil)
	kZero                     // (n, nil) and then one (0, nil)
	kErrWithData              // (n, ignorable error): the io.Reader contract allows data AND an error
	kErrAlone                 // (n, nil) and then one (0, ignorable error)
)

// errRefused is the error the UDP transports' ignoreError predicate accepts (what a connected UDP
// socket reports after an ICMP port-unreachable): "read udp: recvfrom: connection refused".
var errRefused error = &net.OpError{Op: "read", Net: "udp", Err: os.NewSyscallError("recvfrom", syscall.ECONNREFUSED)}

// udpIgnoreError is, verbatim, the predicate that unicast-udp-transport.go and
// multicast-udp-transport.go pass to readTlvStream (an anonymous closure there, so it cannot be
// called; checkPredicateSource makes sure the repository still contains exactly this expression).
func udpIgnoreError(err error) bool {
	return strings.Contains(err.Error(), "connection refused")
}

const predicateSource = `return strings.Contains(err.Error(), "connection refused")`

// checkPredicateSource: "" if both UDP transports still pass the predicate reproduced above.
func checkPredicateSource() string {
	root := os.Getenv("VERIF_REPO_DIR")
	if root == "" {
		root = "/repo"
	}
	for _, f := range []string{"fw/face/unicast-udp-transport.go", "fw/face/multicast-udp-transport.go"} {
		b, err := os.ReadFile(root + "/" + f)
		if err != nil {
			return err.Error()
		}
		src := string(b)
		i := strings.Index(src, "readTlvStream(")
		if i < 0 || !strings.Contains(src[i:], predicateSource) {
			return f + " no longer passes `" + predicateSource + "` to readTlvStream: update udpIgnoreError in harness/c11/stream.go"
		}
	}
	return ""
}

// usesErr: does this script ever answer with the ignorable error?
func (r *scriptReader) usesErr() bool {
	if r.useMask && r.errMask != 0 {
		return true
	}
	for i := 0; i < r.ncuts; i++ {
		if r.kind[i] >= kErrWithData {
			return true
		}
	}
	return false
}

// scriptReader returns the stream in scripted chunks. Default: as many bytes as the caller's
// buffer takes. cuts: ascending offsets at which a read must end; kind[i] says what else happens
// there (see the kind constants). chunk > 0: uniform chunks. mask: partition of a short stream
// (bit i set = a read ends after byte i+1); errMask: the reads ending at those bits are returned
// together with the ignorable error.
type scriptReader struct {
	data    []byte
	cuts    [3]int
	kind    [3]uint8
	ncuts   int
	chunk   int
	useMask bool
	mask    uint32
	errMask uint32
	eofWith bool // informational mode: the last chunk is returned together with io.EOF

	pos       int
	ci        int
	pend      uint8 // next Read answers (0, nil) [kZero] or (0, ignorable error) [kErrAlone]
	steps     int
	maxSteps  int
	emptyBuf  int // number of Read calls with len(p) == 0
	afterEOF  int // number of Read calls answered (0, EOF)
	eofSeen   bool
	guardTrip bool
	kept      [][]byte // StreamFace.Run: the slices handed to onPkt, NOT copied (C11.retain)
}

func (r *scriptReader) reset(data []byte) {
	*r = scriptReader{data: data}
}

func (r *scriptReader) arm() {
	r.pos, r.ci, r.pend, r.steps, r.emptyBuf, r.afterEOF, r.guardTrip, r.eofSeen = 0, 0, 0, 0, 0, 0, false, false
	r.kept = r.kept[:0]
	// every legitimate run needs at most one read per byte + one per zero-read + EOF
	r.maxSteps = len(r.data) + r.ncuts + 8
}

func (r *scriptReader) Read(p []byte) (int, error) {
	r.steps++
	if r.steps > r.maxSteps {
		r.guardTrip = true
		return 0, errGuard
	}
	if len(p) == 0 {
		// what a socket does for an empty buffer; a caller that keeps doing this spins
		r.emptyBuf++
		if r.emptyBuf > 4 {
			r.guardTrip = true
			return 0, errGuard
		}
		return 0, nil
	}
	if r.pend != 0 {
		k := r.pend
		r.pend = 0
		if k == kErrAlone {
			return 0, errRefused
		}
		return 0, nil
	}
	if r.pos >= len(r.data) {
		r.afterEOF++
		r.eofSeen = true
		return 0, io.EOF
	}
	withErr := false
	n := len(r.data) - r.pos
	if n > len(p) {
		n = len(p)
	}
	if r.chunk > 0 && n > r.chunk {
		n = r.chunk
	}
	if r.useMask {
		k := 1
		for k < n && r.mask&(1<<uint(r.pos+k-1)) == 0 {
			k++
		}
		n = k
	}
	for r.ci < r.ncuts && r.cuts[r.ci] <= r.pos {
		r.ci++
	}
	if r.ci < r.ncuts && r.cuts[r.ci]-r.pos <= n {
		n = r.cuts[r.ci] - r.pos
		switch r.kind[r.ci] {
		case kZero, kErrAlone:
			r.pend = r.kind[r.ci]
		case kErrWithData:
			withErr = true
		}
		r.ci++
	}
	if r.useMask && r.pos+n < len(r.data) && r.errMask&(1<<uint(r.pos+n-1)) != 0 {
		withErr = true
	}
	copy(p, r.data[r.pos:r.pos+n])
	r.pos += n
	if withErr {
		return n, errRefused
	}
	if r.eofWith && r.pos == len(r.data) {
		r.eofSeen = true
		return n, io.EOF
	}
	return n, nil
}

// describe the chunking for replays / details
func (r *scriptReader) describe() string {
	switch {
	case r.useMask:
		var sizes []int
		last := 0
		for i := 0; i < len(r.data); i++ {
			if i == len(r.data)-1 || r.mask&(1<<uint(i)) != 0 {
				sizes = append(sizes, i+1-last)
				last = i + 1
			}
		}
		d := fmt.Sprintf("reads of %v bytes", sizes)
		if r.errMask != 0 {
			var ends []int
			for i := 0; i < len(r.data); i++ {
				if r.errMask&(1<<uint(i)) != 0 {
					ends = append(ends, i+1)
				}
			}
			d += fmt.Sprintf("; the reads ending at offsets %v are returned together with the ignorable error %q", ends, errRefused.Error())
		}
		return d
	case r.chunk > 0:
		return fmt.Sprintf("every read returns at most %d bytes", r.chunk)
	case r.ncuts == 0:
		return "every read fills the caller's buffer"
	}
	s := "buffer-filling reads except: "
	for i := 0; i < r.ncuts; i++ {
		if i > 0 {
			s += ", "
		}
		s += fmt.Sprintf("a read ends at stream offset %d", r.cuts[i])
		switch r.kind[i] {
		case kZero:
			s += " followed by a 0-byte read"
		case kErrWithData:
			s += fmt.Sprintf(" and is returned together with the ignorable error %q", errRefused.Error())
		case kErrAlone:
			s += fmt.Sprintf(" followed by a read returning (0, %q)", errRefused.Error())
		}
	}
	return s
}

// scriptConn wraps the reader as a net.Conn for StreamFace.
type scriptConn struct{ r *scriptReader }

type dummyAddr struct{}

func (dummyAddr) Network() string { return "verif" }
func (dummyAddr) String() string  { return "verif" }

func (c scriptConn) Read(p []byte) (int, error)         { return c.r.Read(p) }
func (c scriptConn) Write(p []byte) (int, error)        { return len(p), nil }
func (c scriptConn) Close() error                       { return nil }
func (c scriptConn) LocalAddr() net.Addr                { return dummyAddr{} }
func (c scriptConn) RemoteAddr() net.Addr               { return dummyAddr{} }
func (c scriptConn) SetDeadline(t time.Time) error      { return nil }
func (c scriptConn) SetReadDeadline(t time.Time) error  { return nil }
func (c scriptConn) SetWriteDeadline(t time.Time) error { return nil }
