package main

import (
	"bytes"
	"fmt"
	"io"
	"net"
	"os"
	"path/filepath"
	"sync"

	enc "github.com/named-data/ndnd/std/encoding"
	sface "github.com/named-data/ndnd/std/engine/face"
	"verif/mc/sched"
	"verif/shim/vsched"
)

// Close / re-open scenario of the interleaving pass (clause C11.reopen): lifecycle x schedule on the
// REAL StreamFace.
//
//   thread A  the receive loop of the first session (Run on scripted connection 1) delivering blocks;
//             the application's onPkt callback yields (the application is busy inside it);
//   thread B  the application: Close(), then Open() at once; if Open refuses ("face is already
//             running") it waits until the old receive loop has ended and calls Open() again;
//   thread C  the goroutine that Open() starts (`go f.Run()` is owned by the scheduler).
//
// Open() is the real one: it dials a Unix socket the harness listens on; right after it returns
// (before any other thread can run) the dialled connection is replaced by scripted connection 2
// through a hook. Oracle: once Open() has returned nil, every block written on connection 2 is
// handed to onPkt exactly once, in order; no panic, no deadlock.

type schedConn struct {
	scriptConn
	data   []byte
	pos    int
	closed bool
	eof    bool // report EOF at the end of the data (else block until closed)
}

func (c *schedConn) Read(p []byte) (int, error) {
	sched.Point() // a socket read may stall
	for {
		if c.closed {
			return 0, net.ErrClosed
		}
		if c.pos < len(c.data) {
			n := copy(p, c.data[c.pos:])
			c.pos += n
			return n, nil
		}
		if c.eof {
			return 0, io.EOF
		}
		sched.Block(c)
	}
}
func (c *schedConn) Close() error {
	c.closed = true
	sched.Wake(c)
	return nil
}

type reopenState struct {
	f         *sface.StreamFace
	c1, c2    *schedConn
	s1, s2    *stream
	delivered [][]byte
	spawn     func()
	noSpawn   bool
	aDone     bool
	reopened  bool
	notes     []string
}

var (
	reopenSock   string
	reopenListen sync.Once
	reopenErr    error
)

// listener that accepts and drops every connection (Open only needs Dial to succeed)
func reopenListener() (string, error) {
	reopenListen.Do(func() {
		dir, err := os.MkdirTemp("", "verif-c11-")
		if err != nil {
			reopenErr = err
			return
		}
		reopenSock = filepath.Join(dir, "s")
		ln, err := net.Listen("unix", reopenSock)
		if err != nil {
			reopenErr = err
			return
		}
		go func() {
			for {
				c, err := ln.Accept()
				if err != nil {
					return
				}
				c.Close()
			}
		}()
	})
	return reopenSock, reopenErr
}

func reopenScenario(name string, n1, n2 int, yieldInCallback bool) sched.Scenario {
	return sched.Scenario{
		Name: name,
		Setup: func() any {
			st := &reopenState{}
			st.s1 = must(mkStream("session-1", rep(blockForm{1, 5}, n1)))
			st.s2 = must(mkStream("session-2", rep(blockForm{3, 9}, n2)))
			st.c1 = &schedConn{data: st.s1.data}
			st.c2 = &schedConn{data: st.s2.data, eof: true}
			st.f = sface.NewStreamFace("unix", reopenSock, true)
			st.f.SetCallback(func(r enc.ParseReader) error {
				w, e := r.ReadWire(r.Length())
				if e != nil {
					return e
				}
				st.delivered = append(st.delivered, append([]byte{}, w.Join()...))
				if yieldInCallback {
					sched.Point() // the application is busy in its callback
				}
				return nil
			}, func(e error) error { return e })
			st.f.VerifC11SetConn(st.c1)
			vsched.Spawn = func(f func()) {
				st.spawn = f
				sched.Wake(st)
			}
			return st
		},
		Threads: func(s any) []func(*sched.Ctx) {
			st := s.(*reopenState)
			return []func(*sched.Ctx){
				func(c *sched.Ctx) { // A: receive loop of the first session
					st.f.Run()
					st.aDone = true
					sched.Wake(&st.aDone)
				},
				func(c *sched.Ctx) { // B: the application closes and re-opens
					if err := st.f.Close(); err != nil {
						st.notes = append(st.notes, "Close: "+err.Error())
					}
					err := st.f.Open()
					if err != nil {
						st.notes = append(st.notes, "first Open: "+err.Error())
						for !st.aDone {
							sched.Block(&st.aDone)
						}
						err = st.f.Open()
					}
					if err != nil {
						st.notes = append(st.notes, "second Open: "+err.Error())
						st.noSpawn = true
						sched.Wake(st)
						return
					}
					st.reopened = true
					if !st.f.VerifC11SwapConn(st.c2) {
						st.notes = append(st.notes, "the face holds no connection right after Open() returned nil")
					}
				},
				func(c *sched.Ctx) { // C: the goroutine started by Open
					for st.spawn == nil && !st.noSpawn {
						sched.Block(st)
					}
					if st.spawn != nil {
						st.spawn()
					}
				},
			}
		},
		Check: func(s any, e *sched.Exec) []sched.Finding {
			st := s.(*reopenState)
			if !st.reopened {
				return []sched.Finding{{Clause: "C11.reopen", Key: "StreamFace: the face cannot be re-opened after Close() even when the old receive loop has ended", Detail: fmt.Sprint(st.notes)}}
			}
			// the blocks of session 2 among the deliveries, in delivery order
			var got [][]byte
			for _, d := range st.delivered {
				for k := 0; k < st.s2.blocks(); k++ {
					if bytes.Equal(d, st.s2.data[st.s2.offs[k]:st.s2.offs[k+1]]) {
						got = append(got, d)
						break
					}
				}
			}
			ok := len(got) == st.s2.blocks()
			for k := 0; ok && k < len(got); k++ {
				ok = bytes.Equal(got[k], st.s2.data[st.s2.offs[k]:st.s2.offs[k+1]])
			}
			if !ok {
				return []sched.Finding{{Clause: "C11.reopen",
					Key:    "StreamFace: blocks written on a re-opened stream are lost (the receive loop of the closed session ends the new session)",
					Detail: fmt.Sprintf("%d of %d blocks of the re-opened stream delivered (%d deliveries in all, %d bytes of the new stream read); notes %v", len(got), st.s2.blocks(), len(st.delivered), st.c2.pos, st.notes)}}
			}
			return nil
		},
	}
}

func reopenScenarios(thorough bool) []sched.Scenario {
	out := []sched.Scenario{
		reopenScenario("reopen(1 old block, 2 new, callback yields)", 1, 2, true),
		reopenScenario("reopen(2 old blocks, 3 new, callback yields)", 2, 3, true),
		reopenScenario("reopen(0 old blocks, 2 new)", 0, 2, false),
	}
	if thorough {
		out = append(out, reopenScenario("reopen(3 old blocks, 3 new, callback yields)", 3, 3, true),
			reopenScenario("reopen(2 old blocks, 2 new, callback returns at once)", 2, 2, false))
	}
	return out
}
