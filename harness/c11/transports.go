package main

// The REAL stream transports. readTlvStream is only the framing loop; what a stream face hands
// the link layer is decided by the callback that UnicastTCPTransport.runReceive and
// UnixStreamTransport.runReceive pass to it. This pass builds both transports with their own
// constructors (AcceptUnicastTCPTransport / MakeUnixStreamTransport, as the listeners do) on real
// connected sockets - their conn fields are *net.TCPConn / *net.UnixConn, a scripted net.Conn
// cannot be put there -, attaches a recording link service (hook VerifC11Sink: handleIncomingFrame
// records) and runs the transport's own runReceive until the peer closes. Blocks travel
//
//	peer socket -> kernel -> conn.Read -> readTlvStream -> the transport's callback -> link service
//
// Dimensions: transport kind x stream (one block of every size class around 128 / 253 / 1500 / 4400
// / 8800 in every type form; the long mixed stream of the real pass = 3 receive buffers; all-8800)
// x the face's MTU history (default; lowered with LinkService.SetMTU - what management faces/update
// and faces/create call - before the receive loop starts, or while block k is being handed over;
// lowered and raised again) x chunking of the peer's writes (one write; uniform chunks; one short
// write ending at every boundary class of every block). The MTU of a face limits what the forwarder
// SENDS in one frame; the peer may send any well-formed block up to the maximum packet size, so the
// oracle is C11.seq / C11.term unchanged: every block reaches the link layer exactly once, in
// order, byte-identical, and the loop returns when the peer has closed.
//
// Chunking on a real socket: the peer writes one chunk and waits until the kernel reports that
// nothing is in flight (SIOCOUTQ of the writing socket = 0 and SIOCINQ of the transport's socket =
// 0), i.e. the receive loop has taken the chunk out of the socket, before it writes the next one.
// A Read therefore returns at most one chunk; a chunk larger than a socket buffer may be split by
// the kernel. The verdict never depends on the chunk boundaries actually observed.

import (
	"bytes"
	"fmt"
	"net"
	"os"
	"path/filepath"
	"sort"
	"sync"
	"sync/atomic"
	"syscall"
	"time"
	"unsafe"

	fwface "github.com/named-data/ndnd/fw/face"
	"verif/mc/enum"
)

type mtuEvent struct {
	After int `json:"after_block"` // -1: before the receive loop starts; k: while block k is handed to the link layer
	MTU   int `json:"mtu"`
}

type trCase struct {
	kind  string // "tcp" | "unix"
	st    *stream
	chunk int   // > 0: uniform chunks
	cuts  []int // short writes ending at these offsets (ascending), one write per remaining stretch
	plan  []mtuEvent
}

func (c *trCase) target() string {
	if c.kind == "tcp" {
		return "UnicastTCPTransport.runReceive"
	}
	return "UnixStreamTransport.runReceive"
}

func (c *trCase) describe() string {
	s := "the peer writes the whole stream in one call"
	if c.chunk > 0 {
		s = fmt.Sprintf("the peer writes chunks of %d bytes, each after the previous one was read", c.chunk)
	} else if len(c.cuts) > 0 {
		s = fmt.Sprintf("the peer's writes end at stream offsets %v (each after the previous one was read), the rest in one call", c.cuts)
	}
	if len(c.plan) == 0 {
		return s + "; MTU of the face never changed (default = maximum packet size)"
	}
	for _, e := range c.plan {
		if e.After < 0 {
			s += fmt.Sprintf("; SetMTU(%d) before the receive loop starts", e.MTU)
		} else {
			s += fmt.Sprintf("; SetMTU(%d) while block %d is handed to the link layer", e.MTU, e.After)
		}
	}
	return s
}

// ---- sockets ----

type sockFactory struct {
	tcp  *net.TCPListener
	unix *net.UnixListener
	path string
	mu   sync.Mutex // dial+accept as one step, so that the accepted connection is the one just dialled
}

func newSockFactory() (*sockFactory, error) {
	f := &sockFactory{}
	var err error
	f.tcp, err = net.ListenTCP("tcp4", &net.TCPAddr{IP: net.IPv4(127, 0, 0, 1)})
	if err != nil {
		return nil, fmt.Errorf("cannot listen on a loopback TCP port: %v", err)
	}
	dir, err := os.MkdirTemp("", "verif-c11-sock")
	if err != nil {
		return nil, err
	}
	f.path = filepath.Join(dir, "s")
	f.unix, err = net.ListenUnix("unix", &net.UnixAddr{Name: f.path, Net: "unix"})
	if err != nil {
		return nil, fmt.Errorf("cannot listen on a Unix socket: %v", err)
	}
	return f, nil
}

func (f *sockFactory) close() {
	f.tcp.Close()
	f.unix.Close()
	os.RemoveAll(filepath.Dir(f.path))
}

// pair returns (server side = the transport's conn, peer side).
func (f *sockFactory) pair(kind string) (net.Conn, net.Conn, error) {
	f.mu.Lock()
	defer f.mu.Unlock()
	if kind == "tcp" {
		peer, err := net.DialTCP("tcp4", nil, f.tcp.Addr().(*net.TCPAddr))
		if err != nil {
			return nil, nil, err
		}
		srv, err := f.tcp.AcceptTCP()
		if err != nil {
			peer.Close()
			return nil, nil, err
		}
		peer.SetNoDelay(true)
		return srv, peer, nil
	}
	peer, err := net.DialUnix("unix", nil, &net.UnixAddr{Name: f.path, Net: "unix"})
	if err != nil {
		return nil, nil, err
	}
	srv, err := f.unix.AcceptUnix()
	if err != nil {
		peer.Close()
		return nil, nil, err
	}
	return srv, peer, nil
}

const (
	ioctlINQ  = 0x541B // SIOCINQ / FIONREAD
	ioctlOUTQ = 0x5411 // SIOCOUTQ / TIOCOUTQ
)

func sockQueue(c net.Conn, req uintptr) int {
	sc, ok := c.(syscall.Conn)
	if !ok {
		return -1
	}
	rc, err := sc.SyscallConn()
	if err != nil {
		return -1
	}
	val := int32(-1)
	rc.Control(func(fd uintptr) {
		if _, _, e := syscall.Syscall(syscall.SYS_IOCTL, fd, req, uintptr(unsafe.Pointer(&val))); e != 0 {
			val = -1
		}
	})
	return int(val)
}

const trStall = 60 * time.Second // the receive loop takes microseconds per chunk; see C11.term below

// drained waits until nothing the peer wrote is in flight any more (false: the receive loop has
// stopped reading, or ended).
func drained(srv, peer net.Conn, done <-chan struct{}) bool {
	start, idle := time.Time{}, time.Time{}
	for i := 0; ; i++ {
		in, out := sockQueue(srv, ioctlINQ), sockQueue(peer, ioctlOUTQ)
		if in == 0 && out <= 0 {
			return true
		}
		if in == 0 {
			// read, but not yet acknowledged to the writing socket (TCP): do not wait for a delayed ACK
			if idle.IsZero() {
				idle = time.Now()
			} else if time.Since(idle) > 2*time.Millisecond {
				return true
			}
		} else {
			idle = time.Time{}
		}
		if in < 0 {
			return false // the transport closed its socket
		}
		select {
		case <-done:
			return false
		default:
		}
		if i < 200 {
			continue
		}
		if start.IsZero() {
			start = time.Now()
		} else if time.Since(start) > trStall {
			return false
		}
		time.Sleep(20 * time.Microsecond)
	}
}

// trChecker: the frames handed to the link layer against the blocks sent; knows which MTU was in
// force, and tells a lost block from a mis-framed one.
type trChecker struct {
	st   *stream
	k    int
	mtu  int
	bad  *verdict
	plan []mtuEvent
	sink *fwface.VerifC11Sink
}

func (c *trChecker) frame(b []byte) {
	if c.bad != nil {
		return
	}
	n := c.st.blocks()
	blk := func(k int) []byte { return c.st.data[c.st.offs[k]:c.st.offs[k+1]] }
	switch {
	case c.k >= n:
		c.bad = &verdict{"C11.seq", "extra frame after the last block", fmt.Sprintf("frame %d of %d bytes, the stream has only %d blocks", c.k, len(b), n)}
		return
	case !bytes.Equal(b, blk(c.k)):
		for j := c.k + 1; j < n && j <= c.k+40; j++ {
			if bytes.Equal(b, blk(j)) {
				c.bad = &verdict{"C11.seq", trLost,
					fmt.Sprintf("block %d (%d bytes, not larger than the maximum packet size) never reached the link layer; the next frame is block %d (%d bytes); MTU of the face at that moment: %d",
						c.k, len(blk(c.k)), j, len(b), c.mtu)}
				return
			}
		}
		c.bad = &verdict{"C11.seq", "frame is not the next block (split, merged, shifted or corrupted)",
			fmt.Sprintf("frame %d has %d bytes (%s), block %d has %d bytes (%s)", c.k, len(b), hexHead(b), c.k, len(blk(c.k)), hexHead(blk(c.k)))}
		return
	}
	for _, e := range c.plan {
		if e.After == c.k {
			c.sink.SetMTU(e.MTU) // LinkService.SetMTU, the run-time setter of faces/update
			c.mtu = e.MTU
		}
	}
	c.k++
}

const trLost = "a well-formed block never reaches the link layer (lost)"

var trFactory *sockFactory

// runTrCase runs one case; nil = every clause holds. An error is an environment failure.
func runTrCase(c *trCase, max int) (*verdict, error) {
	srv, peer, err := trFactory.pair(c.kind)
	if err != nil {
		return nil, err
	}
	defer peer.Close()
	ck := &trChecker{st: c.st, mtu: max, plan: c.plan}
	var tr *fwface.VerifC11StreamTransport
	if c.kind == "tcp" {
		tr, err = fwface.VerifC11AcceptTCP(srv, ck.frame)
	} else {
		tr, err = fwface.VerifC11AcceptUnix(srv, trFactory.path, ck.frame)
	}
	if err != nil {
		srv.Close()
		return nil, fmt.Errorf("constructing the %s transport: %v", c.kind, err)
	}
	ck.sink = tr.Sink
	if got := tr.Sink.MTU(); got != max {
		srv.Close()
		return nil, fmt.Errorf("%s: default MTU is %d, expected the maximum packet size %d", tr, got, max)
	}
	for _, e := range c.plan {
		if e.After < 0 {
			tr.Sink.SetMTU(e.MTU)
			ck.mtu = e.MTU
		}
	}
	done := make(chan struct{})
	panicked := ""
	go func() {
		defer close(done)
		defer func() {
			if r := recover(); r != nil {
				panicked = fmt.Sprint(r)
				srv.Close()
			}
		}()
		tr.RunReceive()
	}()
	// the peer
	data := c.st.data
	stalled := false
	write := func(lo, hi int, gate bool) bool {
		if lo >= hi {
			return true
		}
		if _, err := peer.Write(data[lo:hi]); err != nil {
			return false // the transport closed the connection: judged below
		}
		if gate && !drained(srv, peer, done) {
			select {
			case <-done:
			default:
				stalled = true
			}
			return false
		}
		return true
	}
	ok := true
	switch {
	case c.chunk > 0:
		for lo := 0; lo < len(data) && ok; lo += c.chunk {
			hi := lo + c.chunk
			if hi > len(data) {
				hi = len(data)
			}
			ok = write(lo, hi, true)
		}
	default:
		lo := 0
		for _, p := range c.cuts {
			if ok && p > lo && p < len(data) {
				ok = write(lo, p, true)
				lo = p
			}
		}
		if ok {
			write(lo, len(data), false)
		}
	}
	// end of stream
	if cw, isCW := peer.(interface{ CloseWrite() error }); isCW {
		cw.CloseWrite()
	} else {
		peer.Close()
	}
	returned := true
	if !stalled {
		select {
		case <-done:
		case <-time.After(trStall):
			returned = false
		}
	} else {
		returned = false
	}
	if !returned {
		srv.Close() // unblock the loop; the goroutine ends on its own
		return &verdict{"C11.term", "receive loop stops reading or does not return after the peer closed the connection",
			fmt.Sprintf("%d of %d blocks delivered; no progress for %v on a local socket", ck.k, c.st.blocks(), trStall)}, nil
	}
	switch {
	case panicked != "":
		return &verdict{"C11.seq", "panic: " + stripNumbers(panicked), panicked}, nil
	case ck.bad != nil:
		return ck.bad, nil
	case ck.k != c.st.blocks():
		return &verdict{"C11.seq", trLost,
			fmt.Sprintf("%d of %d blocks delivered; block %d has %d bytes; MTU of the face at the end: %d", ck.k, c.st.blocks(), ck.k, c.st.offs[ck.k+1]-c.st.offs[ck.k], ck.mtu)}, nil
	}
	return nil, nil
}

func recordTr(c *trCase, v *verdict) {
	key := c.target() + ": " + v.symptom
	rank := len(c.st.data)*8 + len(c.cuts) + len(c.plan)
	if c.chunk > 0 {
		rank++
	}
	vioMu.Lock()
	defer vioMu.Unlock()
	cnt := int64(1)
	if e, ok := vios[v.clause+"|"+key]; ok {
		e.Count++
		if rank >= e.Rank {
			return
		}
		cnt = e.Count
	}
	d := map[string]any{"pass": "transport", "transport": c.kind, "target": c.target(), "stream": c.st.name, "stream_bytes": len(c.st.data),
		"chunk": c.chunk, "cuts": append([]int{}, c.cuts...), "mtu_plan": c.plan, "chunking": c.describe()}
	if len(c.st.forms) <= 80 {
		var f [][2]int
		for _, x := range c.st.forms {
			f = append(f, [2]int{x.tl, x.total})
		}
		d["forms"] = f
	}
	vios[v.clause+"|"+key] = &vio{Clause: v.clause, Key: key, Rank: rank, Count: cnt,
		Detail: fmt.Sprintf("%s [pass=transport, stream %q of %d bytes / %d blocks, %s]", v.detail, c.st.name, len(c.st.data), c.st.blocks(), c.describe()),
		Replay: d}
}

// ---- the enumeration ----

// trSizeStream: one block of every size class, in every type form that has a minimal encoding.
func trSizeStream(max int) *stream {
	sizes := []int{2, 3, 127, 128, 129, 252, 253, 254, 255, 256, 257, 258, 259, 1499, 1500, 1501, 4400, max - 1, max}
	if max < 1000 { // scaled constant
		sizes = []int{2, 3, 4, 5, 6, 7, 11, 12, 13, max - 1, max}
	}
	var forms []blockForm
	for _, s := range sizes {
		for _, tl := range []int{1, 3, 5} {
			if _, _, err := mkBlock(blockForm{tl, s}, 0); err == nil {
				forms = append(forms, blockForm{tl, s})
			}
		}
	}
	return must(mkStream("transport-size-classes", forms))
}

// trSmallStream: the small blocks only (both sides of 128 and of the 1-/3-byte length switch), for
// the fine-grained chunkings (1 and 7 bytes per write).
func trSmallStream() *stream {
	var forms []blockForm
	for _, s := range []int{2, 127, 128, 129, 252, 253, 256, 259} {
		for _, tl := range []int{1, 3} {
			if _, _, err := mkBlock(blockForm{tl, s}, 0); err == nil {
				forms = append(forms, blockForm{tl, s})
				break
			}
		}
	}
	return must(mkStream("transport-small-blocks", forms))
}

func trStreams(max int) []*stream {
	out := []*stream{trSizeStream(max), trSmallStream()}
	for _, s := range realLongStreams() {
		if s.name == "real-mixed" || s.name == "real-all-8800" {
			out = append(out, s)
		}
	}
	return out
}

// trPlans: MTU histories for a stream of n blocks. Lowered values: 1500 (Ethernet) and 128 (the
// smallest MTU management accepts), thorough also 576, 1280 and 8799.
func trPlans(n, max int, thorough bool) [][]mtuEvent {
	low := []int{1500, 128}
	if thorough {
		low = []int{1500, 128, 576, 1280, max - 1}
	}
	plans := [][]mtuEvent{nil}
	for _, m := range low {
		plans = append(plans, []mtuEvent{{-1, m}})
		plans = append(plans, []mtuEvent{{0, m}})
		if n > 4 {
			plans = append(plans, []mtuEvent{{n / 2, m}})
			plans = append(plans, []mtuEvent{{-1, m}, {n / 2, max}})        // lowered, raised again
			plans = append(plans, []mtuEvent{{n / 3, m}, {2 * n / 3, max}}) // lowered in mid-stream, raised again
		}
	}
	return plans
}

func transportPass(thorough bool, max int) (map[string]any, int64, int64, bool) {
	var err error
	trFactory, err = newSockFactory()
	if err != nil {
		// no usable loopback TCP / Unix stream sockets in this environment: the pass is skipped and the
		// evidence says so (the scripted-reader passes of this check do not need sockets)
		return map[string]any{"skipped": "no usable local sockets in this environment: " + err.Error(), "complete": false}, 0, 0, false
	}
	defer trFactory.close()
	dl := time.Now().Add(budget("VERIF_C11_BUDGET_TRANSPORT_S", map[bool]time.Duration{false: 20 * time.Second, true: 4 * time.Minute}[thorough]))
	var cases []*trCase
	perStream := []any{}
	for si, st := range trStreams(max) {
		plans := trPlans(st.blocks(), max, thorough)
		chunks := []int{0, 1448, max, 65536}
		var cuts []int
		if si == 0 {
			chunks = []int{0, 253, 1448, max - 1, max, max + 1}
			cuts = st.cutPositions(nil)
		} else if si == 1 {
			chunks = []int{1, 2, 7, 127, 128, 129}
		} else if thorough {
			chunks = []int{0, 253, 1448, 4096, max - 1, max, max + 1, 65536, 32 * max}
		}
		n0 := len(cases)
		for _, kind := range []string{"tcp", "unix"} {
			for _, pl := range plans {
				for _, ch := range chunks {
					cases = append(cases, &trCase{kind: kind, st: st, chunk: ch, plan: pl})
				}
				// one short write ending at every boundary class of every block
				for _, p := range cuts {
					if !thorough && (len(pl) > 1 || (len(pl) == 1 && pl[0].After >= 0)) {
						continue // quick: MTU never changed, or lowered before the loop starts
					}
					cases = append(cases, &trCase{kind: kind, st: st, cuts: []int{p}, plan: pl})
				}
			}
		}
		var sizes []int
		seen := map[int]bool{}
		for k := 0; k < st.blocks(); k++ {
			if s := st.offs[k+1] - st.offs[k]; !seen[s] {
				seen[s] = true
				sizes = append(sizes, s)
			}
		}
		sort.Ints(sizes)
		perStream = append(perStream, map[string]any{"stream": st.name, "bytes": len(st.data), "blocks": st.blocks(), "distinct_block_sizes": fmt.Sprint(sizes),
			"mtu_histories": len(plans), "uniform_chunkings": fmt.Sprint(chunks), "single_short_write_positions": len(cuts), "cases": len(cases) - n0})
	}
	var runs, envErr int64
	var firstErr atomic.Value
	t0 := time.Now()
	_, complete := enum.Range(int64(len(cases)), dl, func(i int64) {
		c := cases[i]
		v, err := runTrCase(c, max)
		if err != nil {
			atomic.AddInt64(&envErr, 1)
			firstErr.CompareAndSwap(nil, err.Error())
			return
		}
		atomic.AddInt64(&runs, 1)
		if v != nil {
			recordTr(c, v)
		}
	})
	envNote := ""
	if envErr > 0 {
		// a socket pair that cannot be set up is the environment's business, not a verdict
		envNote = fmt.Sprintf("%d cases could not be set up (environment): %v", envErr, firstErr.Load())
		complete = false
	}
	cov := map[string]any{
		"environment_errors": envNote,
		"targets":            "UnicastTCPTransport.runReceive (AcceptUnicastTCPTransport on a loopback TCP connection), UnixStreamTransport.runReceive (MakeUnixStreamTransport on a Unix stream socket); recording link service",
		"mtu":                fmt.Sprintf("default %d; LinkService.SetMTU before the receive loop starts / while block 0, n/2 is handed over / lowered and raised again", max),
		"streams":            perStream,
		"cases":              len(cases),
		"runs":               runs,
		"complete":           complete,
		"wall_s":             time.Since(t0).Seconds(),
		"chunking":           "peer writes gated on SIOCINQ/SIOCOUTQ = 0 (a Read returns at most one chunk; the kernel may split chunks larger than a socket buffer)",
		"term_rule":          fmt.Sprintf("C11.term here: no progress for %v on a local socket (the only wall-clock rule of this check; a run takes milliseconds)", trStall),
	}
	return cov, runs, runs, complete
}
