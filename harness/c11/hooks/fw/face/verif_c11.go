//go:build verif

// White-box access for the C11 check (stream framing). Added to package face through the build
// overlay of the C11 harness only; never part of a normal build.
package face

import (
	"io"

	defn "github.com/named-data/ndnd/fw/defn"
)

// VerifC11ReadTlvStream is readTlvStream (the receive loop body of the TCP and Unix stream transports).
func VerifC11ReadTlvStream(reader io.Reader, onFrame func([]byte), ignoreError func(error) bool) error {
	return readTlvStream(reader, onFrame, ignoreError)
}

// VerifC11MaxPacketSize is the value of defn.MaxNDNPacketSize this binary was built with
// (8800, or the scaled value of the scaled-model build).
func VerifC11MaxPacketSize() int { return defn.MaxNDNPacketSize }
