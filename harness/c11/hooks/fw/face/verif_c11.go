//go:build verif

// White-box access for the C11 check (stream framing). Added to package face through the build
// overlay of the C11 harness only; never part of a normal build.
package face

import (
	"io"
	"net"

	defn "github.com/named-data/ndnd/fw/defn"
)

// VerifC11ReadTlvStream is readTlvStream (the receive loop body of the TCP and Unix stream transports).
func VerifC11ReadTlvStream(reader io.Reader, onFrame func([]byte), ignoreError func(error) bool) error {
	return readTlvStream(reader, onFrame, ignoreError)
}

// VerifC11MaxPacketSize is the value of defn.MaxNDNPacketSize this binary was built with
// (8800, or the scaled value of the scaled-model build).
func VerifC11MaxPacketSize() int { return defn.MaxNDNPacketSize }

// ---------------------------------------------------------------------------------------------
// The REAL stream transports (unicast TCP, Unix stream) with a recording link layer.
//
// VerifC11Sink is a link service whose handleIncomingFrame only records: it is what the
// transport's receive callback hands each block to ("the receiver hands the link layer exactly
// those blocks"). Everything else is linkServiceBase; SetMTU is therefore the run-time setter that
// management faces/update calls (LinkService.SetMTU -> transport.SetMTU).
type VerifC11Sink struct {
	linkServiceBase
	OnFrame func([]byte)
}

func (s *VerifC11Sink) handleIncomingFrame(frame []byte) { s.OnFrame(frame) }
func (s *VerifC11Sink) Run(initial []byte)               {}

// VerifC11StreamTransport is one of the repository's stream transports, built by its own
// constructor on a real connected socket, with a VerifC11Sink as its link service.
type VerifC11StreamTransport struct {
	t    transport
	Sink *VerifC11Sink
}

func verifC11Attach(t transport, onFrame func([]byte)) *VerifC11StreamTransport {
	s := &VerifC11Sink{OnFrame: onFrame}
	s.makeLinkServiceBase()
	s.transport = t
	t.setLinkService(s)
	s.SetFaceID(4711)
	return &VerifC11StreamTransport{t: t, Sink: s}
}

// VerifC11AcceptTCP: what TCPListener.Run does with an accepted connection.
func VerifC11AcceptTCP(conn net.Conn, onFrame func([]byte)) (*VerifC11StreamTransport, error) {
	t, err := AcceptUnicastTCPTransport(conn, nil, PersistencyPersistent)
	if err != nil {
		return nil, err
	}
	return verifC11Attach(t, onFrame), nil
}

// VerifC11AcceptUnix: what UnixStreamListener.Run does with an accepted connection.
func VerifC11AcceptUnix(conn net.Conn, localPath string, onFrame func([]byte)) (*VerifC11StreamTransport, error) {
	t, err := MakeUnixStreamTransport(defn.MakeFDFaceURI(7), defn.MakeUnixFaceURI(localPath), conn)
	if err != nil {
		return nil, err
	}
	return verifC11Attach(t, onFrame), nil
}

// RunReceive is the transport's receive loop (what the face's receive goroutine runs); it returns
// when the peer has closed the connection.
func (v *VerifC11StreamTransport) RunReceive() { v.t.runReceive() }

func (v *VerifC11StreamTransport) String() string   { return v.t.String() }
func (v *VerifC11StreamTransport) NInBytes() uint64 { return v.t.NInBytes() }
func (v *VerifC11StreamTransport) IsRunning() bool  { return v.t.IsRunning() }
func (v *VerifC11StreamTransport) Close()           { v.t.Close() }
