//go:build verif

// White-box access for the C11 check: lets the harness run StreamFace.Run on a scripted
// connection instead of a dialled socket. Only part of the C11 harness build.
package face

import "net"

// VerifC11SetConn installs the connection and marks the face running (what Open does after Dial,
// without starting the goroutine: the harness calls Run synchronously).
func (f *StreamFace) VerifC11SetConn(c net.Conn) {
	f.conn = c
	f.running.Store(true)
}
