//go:build verif

// White-box access for the C11 check: lets the harness run StreamFace.Run on a scripted
// connection instead of a dialled socket. Only part of the C11 harness build.
package face

import "net"

// VerifC11SetConn installs the connection and marks the face running (what Open does after Dial,
// without starting the goroutine: the harness calls Run synchronously).
func (f *StreamFace) VerifC11SetConn(c net.Conn) {
	f.conn = c
	f.running.Store(true)
}

// VerifC11SwapConn replaces the connection that the real Open() has just dialled by a scripted
// one (closing the dialled one). It does nothing, and says so, when the face holds no connection
// any more. Called by the harness right after Open() returned, before any other thread runs.
func (f *StreamFace) VerifC11SwapConn(c net.Conn) bool {
	if f.conn == nil {
		return false
	}
	f.conn.Close()
	f.conn = c
	return true
}
