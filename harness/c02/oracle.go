package main

// Reference model and three-valued oracle of C02. The property text, clause by clause:
//
//  C02.nh       An Interest is sent upstream only on a face that is a next hop of the
//               longest-prefix FIB entry for its name (or for its forwarding hint outside the
//               producer region, or the consumer-chosen next hop on faces where that is enabled).
//  C02.noback   ... never back out of the point-to-point face it arrived on.
//  C02.best     best-route uses the lowest-cost usable next hop and multicast uses all of them.
//  C02.first    The first Interest for content not in the cache that has a usable next hop is
//               forwarded, with its hop limit reduced by one.
//  C02.drop     an Interest repeating the nonce of one still pending from another face, or a nonce
//               recorded as dead, or arriving with hop limit zero, or lacking a nonce, is not
//               forwarded.
//  C02.suppress a different-nonce retransmission inside the suppression interval is aggregated
//               instead of forwarded.
//  C02.token    (design clause, links to C01) the token attached by the outgoing Interest pipeline
//               is 6 bytes = thread id + the PIT entry's token, one token per pending entry, and
//               a Data echoing it is matched.
//
// Everything else is "may": the oracle accepts both forwarding and not forwarding for
// retransmissions outside the window, same-nonce retransmissions from the same face, repeated
// nonces that are neither dead nor pending, Interests whose content may be in the cache, next
// hops that hold an in-record of the same entry, the ad-hoc arrival face, non-local next hops once
// the hop limit reached 0, and retransmissions that name their next hop themselves.

import (
	"fmt"
	"sort"
	"strings"
	"time"

	"github.com/named-data/ndnd/fw/table"
	"verif/harness/fwsim"
	"verif/mc/report"
)

var stats = map[string]int{}

type key struct{ name, hint string }

func (k key) String() string {
	if k.hint != "" {
		return k.name + ",hint=" + k.hint
	}
	return k.name
}

type rec struct {
	nonce  uint32
	expiry time.Time
	// displaced: earlier Interests of the same downstream face for the same pending entry whose
	// nonce a retransmission with ANOTHER nonce pushed out of the face's record. They were neither
	// satisfied nor have they expired: each is still pending from that face until its own lifetime
	// ends (see the C02.drop clause below).
	displaced []rec
}

type fwd struct {
	nonce uint32
	ts    time.Time
}

// ent = one pending Interest in the PIT sense (name + forwarding hint outside the region).
type ent struct {
	recs      map[uint64]*rec // downstream faces
	fwds      map[uint64]*fwd // upstream transmissions observed, per face
	last      *fwd            // the most recent upstream transmission
	lastViaNH bool            // ... was made on the NextHopFaceId path
	tok       *uint32         // entry token seen on strategy transmissions
}

type ref struct {
	ents      map[key]*ent
	fib       map[string]map[uint64]uint64
	strat     map[string]string
	cacheOn   bool
	cache     map[string]bool      // Data names admitted to the cache so far
	lastNonce map[string]uint32    // per name: the latest nonce issued ("dup" repeats it)
	deadSince map[string]time.Time // ... since when the real dead nonce list holds it
	// only maintained when the alphabet can repeat the nonce issued BEFORE the latest one ("old"):
	trackPrev     bool
	prevNonce     map[string]uint32
	deadSincePrev map[string]time.Time
	nonceCtr      uint32
	issued        map[uint32]key
	dnlLife       time.Duration // configured lifetime of dead-nonce records
	// seenPair: every (name, nonce) that arrived in an Interest so far. The dead nonce list is
	// believed ("recorded as dead") only for pairs that arrived before: a nonce can have been
	// recorded as dead for a name only after an Interest with that name carried it.
	seenPair map[string]bool
	// firstSeen: when each (name, nonce) arrived for the first time
	firstSeen map[string]time.Time
}

func pairKey(name string, nonce uint32) string { return fmt.Sprintf("%s|%x", name, nonce) }

func newRef(cfg fwsim.Config) *ref {
	r := &ref{ents: map[key]*ent{}, fib: map[string]map[uint64]uint64{}, strat: map[string]string{}, cacheOn: cfg.CsAdmit && cfg.CsServe,
		cache: map[string]bool{}, lastNonce: map[string]uint32{}, deadSince: map[string]time.Time{}, issued: map[uint32]key{},
		prevNonce: map[string]uint32{}, deadSincePrev: map[string]time.Time{}, seenPair: map[string]bool{}, firstSeen: map[string]time.Time{}}
	r.dnlLife = cfg.DnlLifetime
	if r.dnlLife == 0 {
		r.dnlLife = 6 * time.Second // as shipped (fwsim default)
	}
	r.strat["/"] = fwsim.BestRoute
	for _, s := range cfg.Strategies {
		r.strat[s.Prefix] = s.Strategy
	}
	for _, rt := range cfg.Routes {
		r.addRoute(rt.Prefix, rt.Face, rt.Cost)
	}
	return r
}

func (r *ref) addRoute(p string, f, c uint64) {
	if r.fib[p] == nil {
		r.fib[p] = map[uint64]uint64{}
	}
	r.fib[p][f] = c
}

func (r *ref) remRoute(p string, f uint64) {
	if m := r.fib[p]; m != nil {
		delete(m, f)
		if len(m) == 0 {
			delete(r.fib, p)
		}
	}
}

func prefixes(n string) []string {
	out := []string{}
	for n != "/" && n != "" {
		out = append(out, n)
		i := strings.LastIndex(n, "/")
		if i <= 0 {
			break
		}
		n = n[:i]
	}
	return append(out, "/")
}

// lpmHops: next hops of the longest-prefix FIB entry (entries without next hops do not count).
func (r *ref) lpmHops(name string) (map[uint64]uint64, string) {
	for _, p := range prefixes(name) {
		if m := r.fib[p]; len(m) > 0 {
			return m, p
		}
	}
	return nil, ""
}

func (r *ref) lpmStrat(name string) string {
	for _, p := range prefixes(name) {
		if s, ok := r.strat[p]; ok {
			return s
		}
	}
	return ""
}

func (r *ref) fibStr() string {
	var x []string
	for p, m := range r.fib {
		for f, c := range m {
			x = append(x, fmt.Sprintf("%s>%d:%d", p, f, c))
		}
	}
	for p, s := range r.strat {
		x = append(x, p+"="+strings.TrimPrefix(s, "/localhost/nfd/strategy/"))
	}
	sort.Strings(x)
	return "{" + strings.Join(x, " ") + "}"
}

func (r *ref) sortedKeys() []key {
	ks := make([]key, 0, len(r.ents))
	for k := range r.ents {
		ks = append(ks, k)
	}
	sort.Slice(ks, func(a, b int) bool {
		if ks[a].name != ks[b].name {
			return ks[a].name < ks[b].name
		}
		return ks[a].hint < ks[b].hint
	})
	return ks
}

// hintDelegations returns the delegation names of a hint shape and whether one of them lies in
// the producer region (/r): then the Interest has reached the region and is forwarded by name.
func hintDelegations(shape string) (names []string, reached bool) {
	if shape == "" {
		return nil, false
	}
	for _, x := range strings.Split(shape, "+") {
		switch x {
		case "in":
			names = append(names, hintIn)
			reached = true
		case "site":
			names = append(names, hintSite)
			reached = true
		case "out":
			names = append(names, hintOut)
		case "out2":
			names = append(names, hintOut2)
		}
	}
	return
}

func p2p(f uint64) bool      { return f != fwsim.A6 }
func nonLocal(f uint64) bool { return f != fwsim.L1 && f != fwsim.L5 }
func ccf(f uint64) bool      { return f == fwsim.L1 || f == fwsim.L5 }
func exists(f uint64) bool   { return f >= 1 && f <= 6 }

func implRec(d table.VerifPitCsDump, k key, face uint64) *table.VerifInRec {
	for i := range d.Pit {
		e := &d.Pit[i]
		if e.Name == k.name && !e.CanBePrefix && !e.MustBeFresh && e.Hint == k.hint {
			for j := range e.In {
				if e.In[j].Face == face {
					return &e.In[j]
				}
			}
		}
	}
	return nil
}

func viol(clause, k, detail string) report.Violation {
	return report.Violation{Clause: clause, Key: k, Detail: detail}
}

func sendsStr(s []fwsim.Send) string {
	x := make([]string, 0, len(s))
	for _, e := range s {
		hl := "-"
		if e.HopLimit != nil {
			hl = fmt.Sprint(*e.HopLimit)
		}
		x = append(x, fmt.Sprintf("%s %s ->%s hl=%s tok=%x", e.Kind, e.NameStr, faceLabel[e.Face], hl, e.PitToken))
	}
	sort.Strings(x)
	return "[" + strings.Join(x, "; ") + "]"
}

func (r *ref) noInterest(sends []fwsim.Send, when string) (v []report.Violation) {
	for _, s := range sends {
		if s.Kind == fwsim.KInterest {
			v = append(v, viol("C02.nh", "Interest emitted without an Interest arrival ("+when+")", fmt.Sprintf("%s caused %s", when, sendsStr(sends))))
		}
	}
	return
}

func (r *ref) get(k key) *ent {
	e := r.ents[k]
	if e == nil {
		e = &ent{recs: map[uint64]*rec{}, fwds: map[uint64]*fwd{}}
		r.ents[k] = e
	}
	return e
}

func (r *ref) onInterest(in *inst, o *iOp, nonce uint32, hasNonce, dead bool, before table.VerifPitCsDump, sends []fwsim.Send, now time.Time) (v []report.Violation) {
	stats["interest arrivals"]++
	k := key{name: o.name}
	hintNames, reached := hintDelegations(o.hint)
	if len(hintNames) > 0 && !reached {
		k.hint = hintNames[0] // the PIT aggregates by the delegation used (adopted: the first one)
	}
	var is, ds []fwsim.Send
	for _, s := range sends {
		if s.Kind == fwsim.KInterest {
			is = append(is, s)
		} else {
			ds = append(ds, s)
		}
	}
	chosen := o.nh != "" && ccf(o.face)
	path := "strategy"
	if chosen {
		path = "NextHopFaceId"
	}
	ctx := fmt.Sprintf("Interest %s nonce=%v/%s hl=%d hint=%q nh=%q arriving on %s (%s path); reference: pending %s, FIB %s; sent %s",
		o.name, hasNonce, o.nonce, o.hl, o.hint, o.nh, faceLabel[o.face], path, r.entStr(k, now), r.fibStr(), sendsStr(is))
	if hasNonce {
		pk := pairKey(o.name, nonce)
		if dead && !r.seenPair[pk] {
			// no Interest with this name ever carried this nonce: it cannot have been recorded as
			// dead for this name, so the Interest is judged like any other
			stats["dead nonce list claims a (name, nonce) that never arrived before (not believed)"]++
			dead = false
			ctx += "; the dead nonce list holds this (name, nonce) although no Interest with this name carried this nonce before"
		}
		r.seenPair[pk] = true
		if _, ok := r.firstSeen[pk]; !ok {
			r.firstSeen[pk] = now
		}
	}

	// hop limit in the sent wire = received - 1
	for _, s := range is {
		p := fwsim.Parse(s.Wire)
		bad := p == nil || p.Interest == nil
		if !bad {
			got := p.Interest.HopLimitV
			if o.hl < 0 {
				bad = got != nil
			} else {
				bad = got == nil || int(*got) != o.hl-1
			}
		}
		if bad {
			v = append(v, viol("C02.first", "hop limit in the sent wire is not the received hop limit minus one ("+path+" path)", ctx))
		}
	}
	// never back out of the point-to-point arrival face
	seen := map[uint64]int{}
	for _, s := range is {
		seen[s.Face]++
		if s.Face == o.face && p2p(o.face) {
			v = append(v, viol("C02.noback", "Interest sent back out of the point-to-point face it arrived on ("+path+" path)", ctx))
		}
	}
	for f, n := range seen {
		if n > 1 {
			v = append(v, viol("C02.best", "Interest forwarded more than once on one face for one arrival ("+path+" path)", fmt.Sprintf("%d copies on %s; %s", n, faceLabel[f], ctx)))
		}
	}

	if hasNonce && o.nonce == "fresh" {
		if l, ok := r.lastNonce[o.name]; ok && r.trackPrev {
			r.prevNonce[o.name] = l
			if t, ok := r.deadSince[o.name]; ok {
				r.deadSincePrev[o.name] = t
			} else {
				delete(r.deadSincePrev, o.name)
			}
		}
		r.lastNonce[o.name] = nonce
		delete(r.deadSince, o.name)
	}
	e := r.ents[k]

	// ---- C02.drop ----
	reason := ""
	switch {
	case o.hl == 0:
		reason = "hop limit 0"
	case !hasNonce:
		reason = "no nonce"
	case dead:
		reason = "nonce recorded as dead"
	case e != nil:
		for f, rc := range e.recs {
			if f != o.face && rc.nonce == nonce && now.Before(rc.expiry) {
				reason = "nonce of an Interest still pending from another face"
			}
			// An Interest whose nonce was pushed out of its face's record by that face's
			// retransmission is "still pending from another face" as well: it was not satisfied and
			// its lifetime has not ended. The forwarder can remember such a nonce only through the
			// dead nonce list, whose CONFIGURED lifetime the operator may set below the Interest
			// lifetime; the drop is demanded only while less than that lifetime has passed since
			// the (name, nonce) arrived for the first time (no record of it can be older), and
			// otherwise left open.
			for _, d := range rc.displaced {
				if f != o.face && d.nonce == nonce && now.Before(d.expiry) && reason == "" {
					if now.Before(r.firstSeen[pairKey(o.name, nonce)].Add(r.dnlLife)) {
						reason = "nonce of an Interest still pending from another face (its nonce was replaced in that face's record by a retransmission)"
					} else {
						stats["may forward: nonce of a displaced pending Interest, older than the configured dead-nonce lifetime"]++
					}
				}
			}
		}
	}
	if reason != "" {
		stats["must not forward: "+reason]++
		if len(is) > 0 {
			v = append(v, viol("C02.drop", "Interest forwarded although: "+reason+" ("+path+" path)", ctx))
		}
		// whether such an Interest is nevertheless recorded as pending is not C02's subject
		if ir := implRec(in.dump, k, o.face); hasNonce && ir != nil && ir.Nonce == nonce && ir.ExpireIn == o.life() {
			r.accept(k, o.face, nonce, now.Add(o.life()), before, in.dump, now)
		}
		return
	}
	// same nonce seen on another face in a way the text does not call "still pending"
	mayDrop := false
	for k2, e2 := range r.ents {
		if k2.name != o.name {
			continue
		}
		for f, rc := range e2.recs {
			if f != o.face && rc.nonce == nonce {
				mayDrop = true
			}
		}
	}
	answered := len(ds) > 0
	// "The first Interest ... that has a usable next hop is forwarded": as long as nothing was
	// TRANSMITTED for the pending Interest (earlier arrivals had no usable next hop, e.g. their hop
	// limit was exhausted, or named a next hop that does not exist) the next arrival is that first
	// one. Transmissions are what was observed on the faces, never the forwarder's out-records.
	first := e == nil || e.last == nil
	cacheMiss := !r.cacheOn || !r.cache[o.name]
	if answered {
		stats["answered from the cache"]++
	}

	if chosen {
		// ---- consumer-chosen next hop ----
		target := map[string]uint64{"N2": fwsim.N2, "self": o.face, "missing": missingFace}[o.nh]
		for _, s := range is {
			if s.Face != target {
				v = append(v, viol("C02.nh", "Interest with NextHopFaceId sent to a face other than the chosen one", ctx))
			}
		}
		must := first && cacheMiss && !answered && !mayDrop && exists(target) && !(target == o.face && p2p(o.face))
		if must {
			stats["must forward: first Interest, consumer-chosen next hop"]++
			if len(is) == 0 {
				v = append(v, viol("C02.first", "first Interest with a usable consumer-chosen next hop was not forwarded", ctx))
			}
		} else {
			stats["may forward: NextHopFaceId (retransmission / unusable / cache)"]++
		}
	} else {
		// ---- FIB + strategy ----
		// The FIB is consulted for the Interest name, or - while no delegation of the forwarding
		// hint lies in the producer region - for the forwarding hint. With several delegations
		// outside the region the text does not say which one: each is a legal choice.
		lookups, by := []string{o.name}, "name"
		if len(hintNames) > 0 && !reached {
			lookups, by = hintNames, "forwarding hint"
		}
		eval := func(lookup string, count bool) (v []report.Violation) {
			note := func(s string) {
				if count {
					stats[s]++
				}
			}
			hops, _ := r.lpmHops(lookup)
			for _, s := range is {
				if _, ok := hops[s.Face]; !ok {
					v = append(v, viol("C02.nh", "Interest sent to a face that is not a next hop of the longest-prefix FIB entry (lookup by "+by+")", ctx))
				}
			}
			// usable?
			const (
				unusable = iota
				may
				must
			)
			class := map[uint64]int{}
			minMust, nMust := uint64(0), 0
			for h, c := range hops {
				cl := must
				switch {
				case h == o.face && p2p(o.face):
					cl = unusable
				case h == o.face:
					cl = may // ad-hoc arrival face
				case (e != nil && e.recs[h] != nil) || implRec(before, k, h) != nil:
					cl = may // the next hop is itself a downstream of this Interest
				case o.hl == 1 && nonLocal(h):
					cl = may // hop limit reached 0
				}
				class[h] = cl
				if cl == must {
					if nMust == 0 || c < minMust {
						minMust = c
					}
					nMust++
				}
			}
			// suppression
			mustSuppress, pending := false, false
			if e != nil {
				for _, rc := range e.recs {
					if now.Before(rc.expiry) {
						pending = true
					}
				}
				if pending && e.last != nil && e.last.nonce != nonce && now.Before(e.last.ts.Add(suppression)) {
					mustSuppress = true
				}
			}
			strat := r.lpmStrat(o.name)
			sname := strings.TrimSuffix(strings.TrimPrefix(strat, "/localhost/nfd/strategy/"), "/v=1")
			switch {
			case mustSuppress:
				note("must not forward: different-nonce retransmission inside the suppression interval")
				if len(is) > 0 {
					prev := "by the strategy"
					if e.lastViaNH {
						prev = "on the NextHopFaceId path"
					}
					v = append(v, viol("C02.suppress", "different-nonce retransmission inside the suppression interval was forwarded (previous transmission "+prev+")",
						fmt.Sprintf("previous transmission %s ago with another nonce; %s", now.Sub(e.last.ts), ctx)))
				}
			case len(is) > 0:
				note("forwarded by " + sname)
				if strat == fwsim.BestRoute {
					if len(seen) > 1 {
						v = append(v, viol("C02.best", "best-route used more than one next hop", ctx))
					}
					for f := range seen {
						if c, ok := hops[f]; ok && nMust > 0 && c > minMust {
							v = append(v, viol("C02.best", "best-route did not use the lowest-cost usable next hop", fmt.Sprintf("used %s (cost %d), a usable next hop of cost %d exists; %s", faceLabel[f], c, minMust, ctx)))
						}
					}
				} else {
					for h, cl := range class {
						if cl == must && seen[h] == 0 {
							v = append(v, viol("C02.best", "multicast did not use every usable next hop", fmt.Sprintf("%s not used; %s", faceLabel[h], ctx)))
						}
					}
				}
			}
			if first && cacheMiss && !answered && !mayDrop && nMust > 0 {
				note("must forward: first Interest with a usable next hop (" + sname + ", lookup by " + by + ")")
				if len(is) == 0 {
					v = append(v, viol("C02.first", "first Interest with a usable next hop was not forwarded ("+sname+", lookup by "+by+")", ctx))
				}
			} else if !mustSuppress {
				switch {
				case !first:
					note("may forward: retransmission outside the suppression interval")
				case nMust == 0:
					note("may forward: no next hop that must count as usable")
				default:
					note("may forward: cache / repeated nonce")
				}
			}
			return
		}
		var best []report.Violation
		for i, lk := range lookups {
			vv := eval(lk, i == 0)
			if i == 0 || len(vv) < len(best) {
				best = vv
			}
			if len(vv) == 0 {
				break
			}
		}
		v = append(v, best...)
		// ---- C02.token (first half) ----
		var tv *uint32
		for _, s := range is {
			th, t, ok := fwsim.IssuedToken(s.PitToken)
			if !ok || th != 0 {
				v = append(v, viol("C02.token", "PIT token attached by the outgoing Interest pipeline is not 6 bytes (thread id + entry token)", ctx))
				continue
			}
			if tv != nil && *tv != t {
				v = append(v, viol("C02.token", "one arrival forwarded with different PIT tokens", ctx))
			}
			tt := t
			tv = &tt
		}
		if tv != nil {
			if e != nil && e.tok != nil && *e.tok != *tv {
				v = append(v, viol("C02.token", "PIT token of a pending entry changed between transmissions", ctx))
			}
			for k2, e2 := range r.ents {
				if k2 != k && e2.tok != nil && *e2.tok == *tv {
					v = append(v, viol("C02.token", "two pending entries were forwarded with the same PIT token", ctx))
				}
			}
			r.issued[*tv] = k
			r.get(k).tok = tv
		}
	}

	// ---- reference update ----
	if answered {
		if e != nil {
			delete(e.recs, o.face)
		}
	} else {
		accepted := true
		if mayDrop {
			ir := implRec(in.dump, k, o.face)
			accepted = ir != nil && ir.Nonce == nonce && ir.ExpireIn == o.life()
		}
		if accepted {
			r.accept(k, o.face, nonce, now.Add(o.life()), before, in.dump, now)
		}
	}
	if len(is) > 0 {
		e = r.get(k)
		for _, s := range is {
			e.fwds[s.Face] = &fwd{nonce: nonce, ts: now}
		}
		e.last = &fwd{nonce: nonce, ts: now}
		e.lastViaNH = chosen
	}
	return
}

// accept records an Interest as pending from a downstream face. The Interest it replaces in the
// face's record (another nonce, lifetime not over, and the forwarder's own record of the face held
// that nonce too) stays pending as a displaced one; so do the ones displaced earlier.
func (r *ref) accept(k key, face uint64, nonce uint32, expiry time.Time, before, after table.VerifPitCsDump, now time.Time) {
	e := r.get(k)
	nr := &rec{nonce: nonce, expiry: expiry}
	if old := e.recs[face]; old != nil {
		for _, d := range old.displaced {
			if d.nonce != nonce && now.Before(d.expiry) {
				nr.displaced = append(nr.displaced, d)
			}
		}
		ir, ia := implRec(before, k, face), implRec(after, k, face)
		if old.nonce != nonce && now.Before(old.expiry) && ir != nil && ir.Nonce == old.nonce && ia != nil && ia.Nonce == nonce {
			nr.displaced = append(nr.displaced, rec{nonce: old.nonce, expiry: old.expiry})
			stats["a pending Interest's nonce is replaced by a same-face retransmission"]++
		}
	}
	e.recs[face] = nr
}

func (r *ref) entStr(k key, now time.Time) string {
	e := r.ents[k]
	if e == nil {
		return "none"
	}
	x := []string{}
	for f, rc := range e.recs {
		x = append(x, fmt.Sprintf("%s(nonce %x, %s left)", faceLabel[f], rc.nonce, rc.expiry.Sub(now)))
		for _, d := range rc.displaced {
			x = append(x, fmt.Sprintf("%s(replaced nonce %x, %s left)", faceLabel[f], d.nonce, d.expiry.Sub(now)))
		}
	}
	sort.Strings(x)
	s := "{" + strings.Join(x, " ") + "}"
	if e.last != nil {
		s += fmt.Sprintf(" last sent %s ago nonce %x", now.Sub(e.last.ts), e.last.nonce)
	}
	return s
}

// sync adopts from the white-box dump what C02 does not judge: a downstream record that vanished
// is taken as consumed only right after a Data arrival, and as expired only once its lifetime has
// elapsed. A record that disappears from the name tree at any other moment (e.g. its node
// detached while pruning a descendant) stays pending in the reference: the Interest it stands for
// was neither satisfied nor has it expired, so loop detection and suppression still apply to it.
func (r *ref) sync(in *inst, dataArrived bool) (v []report.Violation) {
	now := in.sim.Now()
	for k, e := range r.ents {
		for f, rc := range e.recs {
			if implRec(in.dump, k, f) == nil && (dataArrived || !now.Before(rc.expiry)) {
				delete(e.recs, f)
			}
		}
		if len(e.recs) == 0 {
			delete(r.ents, k)
		}
	}
	// Which nonces get recorded as dead is adopted from the real list (the property text does not
	// say when a nonce is to be recorded); HOW LONG a record lasts is not adopted: a (name, nonce)
	// first seen in the list at time t is recorded as dead until t + the configured lifetime, so
	// it must still be there (an Interest repeating it must not be forwarded) at every earlier
	// moment, whatever was reported, expired or reaped meanwhile.
	track := func(n string, nonce uint32, since map[string]time.Time) {
		if in.sim.DnlHas(fwsim.Name(n), nonce) {
			if _, ok := since[n]; !ok {
				since[n] = now
			}
			stats["dead nonce record of a repeatable nonce present"]++
			return
		}
		if t, ok := since[n]; ok && now.Before(t.Add(r.dnlLife)) {
			v = append(v, viol("C02.drop", "a (name, nonce) recorded as dead is forgotten before the configured lifetime of the dead nonce list has elapsed (forwarding thread)",
				fmt.Sprintf("(%s, %x) was first seen in the dead nonce list %s ago and is no longer there, configured lifetime %s: an Interest repeating it would be forwarded", n, nonce, now.Sub(t), r.dnlLife)))
		}
		delete(since, n)
	}
	for n, nonce := range r.lastNonce {
		track(n, nonce, r.deadSince)
	}
	for n, nonce := range r.prevNonce {
		track(n, nonce, r.deadSincePrev)
	}
	return
}
