// C02: Interests go only to FIB next hops, without loops or duplicate forwarding.
//
// Explicit-state search (verif/mc/explore) over histories of Interest arrivals (names, fresh /
// repeated / missing nonces, hop limits, forwarding hints, NextHopFaceId on faces with and without
// consumer-controlled forwarding), Data arrivals, clock steps straddling the 500 ms suppression
// window and PIT expiry, and FIB / strategy-choice changes BETWEEN packets, executed on ONE real
// fw.Thread (verif/harness/fwsim) with its real PIT-CS, dead nonce list, FIB (name tree and hash
// table) and strategies (best-route, multicast). Every SendPacket of an Interest is compared with
// a reference (FIB map, pending Interests, upstream transmissions) kept by this harness; the
// oracle is three-valued and states only what the property text states (oracle.go).
package main

import (
	"fmt"
	"os"
	"runtime/debug"
	"sort"
	"strconv"
	"strings"
	"time"

	"github.com/named-data/ndnd/fw/defn"
	"github.com/named-data/ndnd/fw/table"
	"verif/harness/fwsim"
	"verif/mc/explore"
	"verif/mc/report"
)

const (
	lifetime    = 4 * time.Second        // no InterestLifetime element: the forwarder assumes 4 s
	lifeShort   = 500 * time.Millisecond // the other lifetime of the alphabet (nested names expire at different times)
	suppression = 500 * time.Millisecond // BestRouteSuppressionTime == MulticastSuppressionTime
	missingFace = uint64(99)
	hintOut     = "/a/b/h"     // delegation outside the producer region (LPM: /a/b, /a, /)
	hintIn      = "/r/x"       // delegation inside the producer region /r
	hintOut2    = "/c/h"       // a second delegation outside the region (LPM: /c, /)
	hintSite    = "/r/site/gw" // delegation inside the nested producer region /r/site
)

var faceLabel = map[uint64]string{fwsim.L1: "L1", fwsim.N2: "N2", fwsim.N3: "N3", fwsim.N4: "N4", fwsim.L5: "L5", fwsim.A6: "A6", missingFace: "missing"}

// ---- alphabet ----

type iOp struct {
	face  uint64
	name  string
	nonce string // fresh | dup (the latest nonce issued for the name) | old (the one issued before that) | none | sib (the latest nonce issued for the TWIN name, see twinOf)
	hl    int    // -1 absent
	hint  string // "" | in | out
	nh    string // "" | N2 | self | missing
	short bool   // InterestLifetime 500 ms instead of the 4 s default
}

func (o iOp) life() time.Duration {
	if o.short {
		return lifeShort
	}
	return lifetime
}

type dOp struct {
	face uint64
	name string
	tok  string // none | echo0
}

type tOp struct{ dt time.Duration }

// fOp changes the FIB / strategy choice between packets.
type fOp struct {
	kind   string // add | rem | set | unset
	prefix string
	face   uint64
	cost   uint64
	strat  string
}

// uOp installs one FIB universe; enabled only as the very first step of a history.
type uOp struct {
	routes []fwsim.Route
	strats []fwsim.StrategyChoice // per-prefix strategy choices ("" = as configured)
}

type opDef struct {
	i *iOp
	d *dOp
	t *tOp
	f *fOp
	u *uOp
}

func (o iOp) label() string {
	s := fmt.Sprintf("I(%s,%s,%s", faceLabel[o.face], o.name, o.nonce)
	if o.hl >= 0 {
		s += fmt.Sprintf(",hl=%d", o.hl)
	}
	if o.hint != "" {
		s += ",hint=" + o.hint
	}
	if o.nh != "" {
		s += ",nh=" + o.nh
	}
	if o.short {
		s += ",short"
	}
	return s + ")"
}

type slice struct {
	routes    []fwsim.Route // initial FIB (unless universes)
	universes bool          // first step chooses a subset of the four routes with costs {1,2}
	costs     bool          // first step chooses two or three next hops of /a with boundary costs
	strats    bool          // first step chooses a strategy (none / best-route / multicast) for each of stratPrefixes
	iops      []iOp
	dops      []dOp
	tops      []time.Duration
	fops      []fOp
	deep      []string      // labels of ops placed first (simplest first); the rest follow
	dnlLife   time.Duration // configured dead-nonce-list lifetime (0 = 6 s as shipped)
}

func prod(faces []uint64, names []string, f func(face uint64, name string) []iOp) (out []iOp) {
	for _, n := range names {
		for _, fc := range faces {
			out = append(out, f(fc, n)...)
		}
	}
	return
}

var theRoutes = []struct {
	prefix string
	face   uint64
}{{"/", fwsim.N2}, {"/a", fwsim.N2}, {"/a", fwsim.N3}, {"/a/b", fwsim.N4}}

// siblingRoute is a fifth optional route (absent / cost 1) under a SIBLING prefix of /a, installed
// last: emptying and pruning /a must not disturb it (name-tree FIB pruning).
var siblingRoute = fwsim.Route{Prefix: "/c", Face: fwsim.N4, Cost: 1}

// boundaryCosts: route costs are 64-bit unsigned; "last resort" routes use very large values.
var boundaryCosts = []uint64{0, 1, 1 << 31, 1 << 32, 1<<63 - 1, 1 << 63, ^uint64(0)}
var boundaryLabels = []string{"0", "1", "2^31", "2^32", "2^63-1", "2^63", "max"}

var slices = map[string]slice{
	// cost boundaries: /a has two or three next hops whose costs are drawn from boundaryCosts
	// (every ordered pair and triple), Interests arrive from a local face and from one of the
	// next hops; best-route must use the numerically lowest usable cost
	"cost": {
		costs: true,
		// (the arrival face is unusable as a next hop: with arrivals on N2, N3 and N4 the unusable
		// next hop is the first, a middle and the last one of the entry, at every cost order)
		iops: []iOp{{face: fwsim.L1, name: "/a", nonce: "fresh", hl: -1}, {face: fwsim.N2, name: "/a", nonce: "fresh", hl: -1},
			{face: fwsim.N3, name: "/a", nonce: "fresh", hl: -1}, {face: fwsim.N4, name: "/a", nonce: "fresh", hl: -1}},
		tops: []time.Duration{600 * time.Millisecond},
	},
	// per-prefix strategy choices: the first step assigns none / best-route / multicast to each of
	// /a, /a/b, /c, /c/h (81 assignments, on top of the configured default for "/"); every FIB entry
	// has two next hops, so that best-route and multicast are told apart by what is sent. Interests
	// with and without a forwarding hint outside the producer region: the STRATEGY is the one chosen
	// for the Interest name, the NEXT HOPS are those of the hint's FIB entry; name and hint lie
	// under different prefixes (/c with hint /a/b/h, /a with hint /c/h, /a/b with hint /c/h).
	// Strategy choices also change between packets.
	"strat": {
		strats: true,
		routes: []fwsim.Route{{Prefix: "/", Face: fwsim.N2, Cost: 1}, {Prefix: "/a", Face: fwsim.N3, Cost: 1}, {Prefix: "/a", Face: fwsim.N2, Cost: 2},
			{Prefix: "/a/b", Face: fwsim.N4, Cost: 2}, {Prefix: "/a/b", Face: fwsim.N2, Cost: 1}, {Prefix: "/c", Face: fwsim.N4, Cost: 1}, {Prefix: "/c", Face: fwsim.N2, Cost: 2},
			{Prefix: "/c/h", Face: fwsim.L5, Cost: 1}, {Prefix: "/c/h", Face: fwsim.N3, Cost: 1}},
		iops: append(prod([]uint64{fwsim.L1}, []string{"/a", "/a/b", "/c"}, func(f uint64, n string) []iOp {
			return []iOp{{face: f, name: n, nonce: "fresh", hl: -1}, {face: f, name: n, nonce: "fresh", hl: -1, hint: "out"}, {face: f, name: n, nonce: "fresh", hl: -1, hint: "out2"}}
		}), iOp{face: fwsim.N3, name: "/c", nonce: "fresh", hl: -1, hint: "out"}, iOp{face: fwsim.N4, name: "/a", nonce: "fresh", hl: -1, hint: "out2"},
			iOp{face: fwsim.L1, name: "/c", nonce: "fresh", hl: -1, hint: "out2+out"}, iOp{face: fwsim.L1, name: "/a", nonce: "fresh", hl: -1, hint: "in"}),
		tops: []time.Duration{600 * time.Millisecond},
		fops: []fOp{{kind: "set", prefix: "/a", strat: "other"}, {kind: "unset", prefix: "/a"}, {kind: "set", prefix: "/c", strat: "other"}, {kind: "set", prefix: "/a/b", strat: "other"},
			{kind: "set", prefix: "/", strat: "other"}},
	},
	// FIB universes: every subset of {(/,N2),(/a,N2),(/a,N3),(/a/b,N4)} with costs from {1,2}
	// (81 universes incl. equal-cost ties), each with and without the sibling route (/c,N4), as
	// the first step, then Interests from a local and from
	// a non-local face that is itself a next hop, Data, a clock step and FIB/strategy changes
	"route": {
		universes: true,
		iops: prod([]uint64{fwsim.L1, fwsim.N3}, []string{"/a", "/a/b", "/c"}, func(f uint64, n string) []iOp {
			return []iOp{{face: f, name: n, nonce: "fresh", hl: -1}}
		}),
		dops: []dOp{{fwsim.N2, "/a/b", "none"}},
		tops: []time.Duration{600 * time.Millisecond},
		fops: []fOp{
			{kind: "add", prefix: "/a", face: fwsim.N3, cost: 1}, {kind: "add", prefix: "/a/b", face: fwsim.N4, cost: 2},
			{kind: "rem", prefix: "/a", face: fwsim.N2}, {kind: "rem", prefix: "/a/b", face: fwsim.N4},
			{kind: "set", prefix: "/a", strat: "other"}, {kind: "unset", prefix: "/a"},
		},
	},
	// loops and duplicates: fresh / repeated / missing nonces from three faces, Data (dead
	// nonces), clock steps on both sides of the suppression window and beyond PIT expiry
	"nonce": {
		routes: []fwsim.Route{{Prefix: "/a", Face: fwsim.N2, Cost: 1}, {Prefix: "/a", Face: fwsim.N3, Cost: 2}},
		iops: prod([]uint64{fwsim.L1, fwsim.N3, fwsim.N4}, []string{"/a", "/a/b"}, func(f uint64, n string) []iOp {
			if n == "/a/b" && f == fwsim.N4 {
				return []iOp{{face: f, name: n, nonce: "fresh", hl: -1}}
			}
			if n == "/a/b" && f == fwsim.L1 {
				// nested names pending with different expiry: the longer one goes first
				return []iOp{{face: f, name: n, nonce: "fresh", hl: -1}, {face: f, name: n, nonce: "dup", hl: -1}, {face: f, name: n, nonce: "fresh", hl: -1, short: true}}
			}
			return []iOp{{face: f, name: n, nonce: "fresh", hl: -1}, {face: f, name: n, nonce: "dup", hl: -1}, {face: f, name: n, nonce: "none", hl: -1}}
		}),
		dops: []dOp{{fwsim.N2, "/a", "none"}, {fwsim.N2, "/a/b", "none"}, {fwsim.N2, "/a", "echo0"}},
		tops: []time.Duration{100 * time.Millisecond, 400 * time.Millisecond, 600 * time.Millisecond, 5 * time.Second},
		fops: []fOp{{kind: "rem", prefix: "/a", face: fwsim.N2}},
	},
	// hop limits (absent, 0, 1, 2) towards non-local and local next hops; forwarding hints inside
	// and outside the producer region
	"hop": {
		routes: []fwsim.Route{{Prefix: "/", Face: fwsim.N2, Cost: 1}, {Prefix: "/a", Face: fwsim.N3, Cost: 1}, {Prefix: "/a", Face: fwsim.L5, Cost: 2}, {Prefix: "/a/b", Face: fwsim.N4, Cost: 1}},
		iops: append(prod([]uint64{fwsim.L1, fwsim.N3}, []string{"/a", "/c"}, func(f uint64, n string) []iOp {
			out := []iOp{}
			for _, hl := range []int{-1, 0, 1, 2} {
				out = append(out, iOp{face: f, name: n, nonce: "fresh", hl: hl})
			}
			out = append(out, iOp{face: f, name: n, nonce: "dup", hl: -1}, iOp{face: f, name: n, nonce: "dup", hl: 2})
			return out
		}), iOp{face: fwsim.L1, name: "/c", nonce: "fresh", hl: 1, hint: "out"}, iOp{face: fwsim.L1, name: "/a", nonce: "fresh", hl: 2, hint: "in"}),
		dops: []dOp{{fwsim.N4, "/c", "none"}, {fwsim.N3, "/a", "none"}},
		tops: []time.Duration{100 * time.Millisecond, 600 * time.Millisecond},
		fops: []fOp{{kind: "rem", prefix: "/a/b", face: fwsim.N4}, {kind: "set", prefix: "/", strat: "other"}},
	},
	// forwarding hints: none, one delegation inside / outside the producer region /r, two
	// delegations in both orders (outside then inside, inside then outside) and two outside ones;
	// FIB routes make the lookup by name and the lookup by each delegation end on different faces
	"hint": {
		routes: []fwsim.Route{{Prefix: "/", Face: fwsim.N2, Cost: 1}, {Prefix: "/a", Face: fwsim.N3, Cost: 1}, {Prefix: "/a/b", Face: fwsim.N4, Cost: 1}, {Prefix: "/c/h", Face: fwsim.L5, Cost: 1}},
		iops: append(prod([]uint64{fwsim.L1, fwsim.N3}, []string{"/a", "/c"}, func(f uint64, n string) []iOp {
			out := []iOp{}
			for _, h := range []string{"", "in", "site", "out", "out+in", "in+out", "out+out2"} {
				out = append(out, iOp{face: f, name: n, nonce: "fresh", hl: -1, hint: h})
			}
			return out
		}), iOp{face: fwsim.L1, name: "/c", nonce: "dup", hl: -1, hint: "out"}, iOp{face: fwsim.N3, name: "/c", nonce: "dup", hl: -1, hint: "out+in"}, iOp{face: fwsim.L1, name: "/a", nonce: "dup", hl: -1}),
		dops: []dOp{{fwsim.N4, "/c", "none"}, {fwsim.N3, "/a", "none"}},
		tops: []time.Duration{100 * time.Millisecond, 600 * time.Millisecond},
		fops: []fOp{{kind: "rem", prefix: "/a/b", face: fwsim.N4}},
	},
	// a handful of interacting ops (two consumers on one name, their retransmissions with the
	// same nonce, Data by name and by token, clock steps on both sides of the suppression window):
	// explored DEEP and WITHOUT state de-duplication
	"tiny": {
		routes: []fwsim.Route{{Prefix: "/a", Face: fwsim.N2, Cost: 1}, {Prefix: "/a", Face: fwsim.N3, Cost: 2}},
		iops:   []iOp{{face: fwsim.L1, name: "/a", nonce: "fresh", hl: -1}, {face: fwsim.N4, name: "/a", nonce: "fresh", hl: -1}, {face: fwsim.N4, name: "/a", nonce: "dup", hl: -1}},
		dops:   []dOp{{fwsim.N2, "/a", "none"}, {fwsim.N2, "/a", "echo0"}},
		tops:   []time.Duration{100 * time.Millisecond, 600 * time.Millisecond},
	},
	// dead nonces over a tiny alphabet, explored deep: one name, a consumer that retransmits with
	// fresh nonces (forwarded / aggregated / replaced) and can repeat the nonce issued BEFORE its
	// latest one, a second face on which that older nonce and the latest one come back, Data, clock
	// steps on both sides of the suppression window; the dead nonce list is CONFIGURED with a 1 s
	// lifetime so that records are made, absorbed, expire and are made again within a few steps
	"dead": {
		routes: []fwsim.Route{{Prefix: "/a", Face: fwsim.N2, Cost: 1}, {Prefix: "/a", Face: fwsim.N3, Cost: 2}},
		iops: []iOp{{face: fwsim.L1, name: "/a", nonce: "fresh", hl: -1}, {face: fwsim.L1, name: "/a", nonce: "old", hl: -1},
			{face: fwsim.N4, name: "/a", nonce: "old", hl: -1}, {face: fwsim.N4, name: "/a", nonce: "dup", hl: -1}},
		dops:    []dOp{{fwsim.N2, "/a", "none"}},
		tops:    []time.Duration{100 * time.Millisecond, 600 * time.Millisecond},
		dnlLife: time.Second,
	},
	// consumer-chosen next hop on a face with local fields (L1) and on one without (N3):
	// NextHopFaceId naming N2, the arrival face itself, a face that does not exist
	"nexthop": {
		routes: []fwsim.Route{{Prefix: "/a", Face: fwsim.N3, Cost: 1}, {Prefix: "/a", Face: fwsim.N2, Cost: 2}},
		iops: prod([]uint64{fwsim.L1, fwsim.N3}, []string{"/a"}, func(f uint64, n string) []iOp {
			out := []iOp{{face: f, name: n, nonce: "fresh", hl: -1}, {face: f, name: n, nonce: "dup", hl: -1}}
			for _, nh := range []string{"N2", "self", "missing"} {
				out = append(out, iOp{face: f, name: n, nonce: "fresh", hl: -1, nh: nh})
			}
			out = append(out, iOp{face: f, name: n, nonce: "dup", hl: -1, nh: "N2"}, iOp{face: f, name: n, nonce: "fresh", hl: 0, nh: "N2"}, iOp{face: f, name: n, nonce: "fresh", hl: 1, nh: "N2"})
			return out
		}),
		dops: []dOp{{fwsim.N2, "/a", "none"}, {fwsim.N2, "/a", "echo0"}, {fwsim.N3, "/a", "none"}},
		tops: []time.Duration{100 * time.Millisecond, 600 * time.Millisecond, 5 * time.Second},
		fops: []fOp{{kind: "rem", prefix: "/a", face: fwsim.N3}, {kind: "add", prefix: "/a", face: fwsim.L5, cost: 1}},
	},
	// names that differ in the TYPE of one component only: the generic component x (type 8), the
	// keyword component 32=x and 264=x, whose type equals 8 modulo 256. They are three different
	// names: each has its own pending Interest, its own dead nonces and its own longest-prefix FIB
	// entry (a route is registered under one of the typed names and added/removed under another
	// between packets). Fresh and repeated nonces from a local and a non-local face, and the nonce
	// last issued for the twin name ("sib": equal nonces under different names are unrelated).
	"ctype": {
		routes: []fwsim.Route{{Prefix: "/a", Face: fwsim.N2, Cost: 1}, {Prefix: "/a", Face: fwsim.N3, Cost: 2}, {Prefix: "/a/264=x", Face: fwsim.N4, Cost: 1}},
		iops: prod([]uint64{fwsim.L1, fwsim.N3}, []string{"/a/x", "/a/264=x", "/a/32=x"}, func(f uint64, n string) []iOp {
			out := []iOp{{face: f, name: n, nonce: "fresh", hl: -1}, {face: f, name: n, nonce: "dup", hl: -1}}
			if f == fwsim.N3 {
				out = append(out, iOp{face: f, name: n, nonce: "sib", hl: -1})
			}
			return out
		}),
		dops: []dOp{{fwsim.N2, "/a/x", "none"}, {fwsim.N4, "/a/264=x", "none"}, {fwsim.N2, "/a/32=x", "none"}},
		tops: []time.Duration{100 * time.Millisecond, 600 * time.Millisecond, 5 * time.Second},
		fops: []fOp{{kind: "rem", prefix: "/a/264=x", face: fwsim.N4}, {kind: "add", prefix: "/a/32=x", face: fwsim.N4, cost: 1}},
	},
	// an ad-hoc face that is both a downstream and a next hop (sending back is allowed there),
	// equal-cost ties, a next hop that is also a downstream of the same Interest
	"adhoc": {
		routes: []fwsim.Route{{Prefix: "/a", Face: fwsim.A6, Cost: 1}, {Prefix: "/a", Face: fwsim.N2, Cost: 1}, {Prefix: "/a", Face: fwsim.N3, Cost: 2}},
		iops: prod([]uint64{fwsim.A6, fwsim.N2, fwsim.L1}, []string{"/a", "/a/b"}, func(f uint64, n string) []iOp {
			return []iOp{{face: f, name: n, nonce: "fresh", hl: -1}, {face: f, name: n, nonce: "dup", hl: -1}}
		}),
		dops: []dOp{{fwsim.N3, "/a", "none"}, {fwsim.A6, "/a", "echo0"}},
		tops: []time.Duration{400 * time.Millisecond, 600 * time.Millisecond},
		fops: []fOp{{kind: "rem", prefix: "/a", face: fwsim.A6}, {kind: "add", prefix: "/a", face: fwsim.N3, cost: 1}},
	},
}

// twinOf: the name whose latest nonce a "sib" Interest carries (names that differ in the type of
// one component only).
// stratPrefixes: the prefixes a strategy universe assigns a strategy to.
var stratPrefixes = []string{"/a", "/a/b", "/c", "/c/h"}

// Nonce values. The property speaks of nonces only through equality (and of Interests LACKING a
// nonce); the 32-bit VALUE must not matter. "std": the k-th fresh nonce is 0x3000+k. "edge" and
// "edge2": the fresh nonces run through the boundary values of the 32-bit range first - 0 (a legal
// nonce, not "no nonce"), 2^32-1, 1, 2^31, ... - in two different orders, so that each boundary
// value is the first, the replaced, the repeated and the dead nonce of some history.
var edgeNonces = []uint32{0, 0xFFFFFFFF, 1, 0x80000000, 0xFFFFFFFE, 2, 0x7FFFFFFF, 0x100, 0xFFFF, 0x10000, 0xFF, 0x80000001}

func nonceValue(mode string, k uint32) uint32 { // k = 1, 2, ...
	i := int(k) - 1
	switch mode {
	case "edge":
		if i < len(edgeNonces) {
			return edgeNonces[i]
		}
	case "edge2":
		if i < len(edgeNonces) {
			return edgeNonces[i^1] // pairs swapped: 2^32-1, 0, 2^31, 1, ...
		}
	}
	return 0x3000 + k
}

var twinOf = map[string]string{"/a/x": "/a/264=x", "/a/264=x": "/a/x", "/a/32=x": "/a/x"}

// ---- system ----

type sys struct {
	cfgName string
	cfg     fwsim.Config
	mc      bool // default strategy is multicast
	names   []string
	defs    map[string]opDef
	allOps  []explore.Op
	uni     bool
	old     bool // the alphabet repeats the nonce before the latest one
	nv      string // nonce values: "" (std) | edge | edge2
	sib     bool // the alphabet repeats, under one name, the latest nonce issued for its twin name
}

type inst struct {
	sim     *fwsim.Sim
	ref     *ref
	started bool
	live    []liveTok
	dump    table.VerifPitCsDump
}

type liveTok struct {
	tok uint32
	key key
}

func otherStrategy(mc bool) string {
	if mc {
		return fwsim.BestRoute
	}
	return fwsim.Multicast
}

func build(cfgName string) explore.System {
	debug.SetGCPercent(400)
	// stored counterexamples name the configuration by its display name
	if i := strings.Index(cfgName, "(no dedup) "); i >= 0 {
		cfgName = cfgName[i+len("(no dedup) "):]
	}
	if strings.HasPrefix(cfgName, "dnl ") {
		return buildDnl(cfgName)
	}
	var sl, st, cs, fib string
	if _, err := fmt.Sscanf(cfgName, "%s %s %s %s", &sl, &st, &cs, &fib); err != nil {
		report.Fatal("bad config name %q", cfgName)
	}
	// producer regions as configured (order matters to networkRegionTable.Add): the reference
	// treats them as a set - a name is in the producer region iff some listed region is a prefix
	regions := []string{"/r"}
	nv := ""
	if f := strings.Fields(cfgName); len(f) >= 5 {
		for _, x := range f[4:] {
			switch x {
			case "regions=/r/site,/r":
				regions = []string{"/r/site", "/r"}
			case "regions=/r,/r/site":
				regions = []string{"/r", "/r/site"}
			case "nv=edge", "nv=edge2":
				nv = strings.TrimPrefix(x, "nv=")
			default:
				report.Fatal("bad variant %q in %q", x, cfgName)
			}
		}
	}
	slc, ok := slices[sl]
	if !ok {
		report.Fatal("unknown slice %q", sl)
	}
	s := &sys{cfgName: cfgName, defs: map[string]opDef{}, uni: slc.universes || slc.costs || slc.strats, nv: nv}
	s.cfg = fwsim.Config{Routes: slc.routes, Regions: regions, DnlLifetime: slc.dnlLife}
	for _, o := range slc.iops {
		s.old = s.old || o.nonce == "old"
		s.sib = s.sib || o.nonce == "sib"
	}
	switch st {
	case "br":
		s.cfg.Strategies = []fwsim.StrategyChoice{{Prefix: "/", Strategy: fwsim.BestRoute}}
	case "mc":
		s.mc = true
		s.cfg.Strategies = []fwsim.StrategyChoice{{Prefix: "/", Strategy: fwsim.Multicast}}
	default:
		report.Fatal("unknown strategy %q", st)
	}
	s.cfg.CsAdmit, s.cfg.CsServe = cs == "cs1", cs == "cs1"
	switch fib {
	case "tree":
		s.cfg.FibAlgo = "nametree"
	case "ht":
		s.cfg.FibAlgo, s.cfg.HashtableM = "hashtable", 2
	default:
		report.Fatal("unknown fib %q", fib)
	}
	add := func(n string, d opDef) {
		if _, dup := s.defs[n]; dup {
			return
		}
		s.names = append(s.names, n)
		s.defs[n] = d
		s.allOps = append(s.allOps, explore.Op{Name: n})
	}
	if slc.universes {
		// odometer over {absent, cost 1, cost 2}^4 x {sibling absent, present}
		for code := 0; code < 162; code++ {
			var rs []fwsim.Route
			lab := []string{}
			c := code
			for _, r := range theRoutes {
				d := c % 3
				c /= 3
				lab = append(lab, strconv.Itoa(d))
				if d > 0 {
					rs = append(rs, fwsim.Route{Prefix: r.prefix, Face: r.face, Cost: uint64(d)})
				}
			}
			lab = append(lab, strconv.Itoa(c))
			if c == 1 {
				rs = append(rs, siblingRoute)
			}
			add("U("+strings.Join(lab, "")+")", opDef{u: &uOp{routes: rs}})
		}
	}
	if slc.costs {
		// every ordered pair (N2,N3) and every ordered triple (N2,N3,N4) of boundary costs
		for i, c2 := range boundaryCosts {
			for j, c3 := range boundaryCosts {
				add(fmt.Sprintf("U(N2=%s,N3=%s)", boundaryLabels[i], boundaryLabels[j]), opDef{u: &uOp{routes: []fwsim.Route{{Prefix: "/a", Face: fwsim.N2, Cost: c2}, {Prefix: "/a", Face: fwsim.N3, Cost: c3}}}})
			}
		}
		for i, c2 := range boundaryCosts {
			for j, c3 := range boundaryCosts {
				for k, c4 := range boundaryCosts {
					add(fmt.Sprintf("U(N2=%s,N3=%s,N4=%s)", boundaryLabels[i], boundaryLabels[j], boundaryLabels[k]), opDef{u: &uOp{routes: []fwsim.Route{{Prefix: "/a", Face: fwsim.N2, Cost: c2}, {Prefix: "/a", Face: fwsim.N3, Cost: c3}, {Prefix: "/a", Face: fwsim.N4, Cost: c4}}}})
				}
			}
		}
	}
	if slc.strats {
		// odometer over {no choice, best-route, multicast}^4
		n := 1
		for range stratPrefixes {
			n *= 3
		}
		for code := 0; code < n; code++ {
			var sc []fwsim.StrategyChoice
			lab := []string{}
			c := code
			for _, p := range stratPrefixes {
				d := c % 3
				c /= 3
				lab = append(lab, p+"="+[]string{"-", "br", "mc"}[d])
				if d > 0 {
					sc = append(sc, fwsim.StrategyChoice{Prefix: p, Strategy: []string{"", fwsim.BestRoute, fwsim.Multicast}[d]})
				}
			}
			add("S("+strings.Join(lab, ",")+")", opDef{u: &uOp{strats: sc}})
		}
	}
	// simplest first: plain fresh Interests, Data, clock, FIB changes, then the richer Interests
	for pass := 0; pass < 2; pass++ {
		for _, o := range slc.iops {
			plain := o.nonce == "fresh" && o.hl < 0 && o.hint == "" && o.nh == "" && !o.short
			if plain != (pass == 0) {
				continue
			}
			oo := o
			add(o.label(), opDef{i: &oo})
		}
		if pass == 0 {
			for _, o := range slc.dops {
				oo := o
				add(fmt.Sprintf("D(%s,%s,%s)", faceLabel[o.face], o.name, o.tok), opDef{d: &oo})
			}
			for _, dt := range slc.tops {
				add(fmt.Sprintf("T(%s)", dt), opDef{t: &tOp{dt}})
			}
			for _, o := range slc.fops {
				oo := o
				var n string
				switch o.kind {
				case "add":
					n = fmt.Sprintf("Add(%s,%s,c%d)", o.prefix, faceLabel[o.face], o.cost)
				case "rem":
					n = fmt.Sprintf("Rem(%s,%s)", o.prefix, faceLabel[o.face])
				case "set":
					oo.strat = otherStrategy(s.mc)
					n = fmt.Sprintf("SetStrategy(%s,%s)", o.prefix, strings.TrimPrefix(oo.strat, "/localhost/nfd/strategy/"))
				case "unset":
					n = fmt.Sprintf("UnsetStrategy(%s)", o.prefix)
				}
				add(n, opDef{f: &oo})
			}
		}
	}
	return s
}

func (s *sys) New() any {
	in := &inst{sim: fwsim.New(s.cfg)}
	in.ref = newRef(s.cfg)
	in.ref.trackPrev = s.old
	in.refresh()
	return in
}

func (in *inst) refresh() {
	in.dump = in.sim.Dump()
	in.live = in.live[:0]
	for _, e := range in.dump.Pit {
		if !e.InTokenMap {
			continue
		}
		if k, ok := in.ref.issued[e.Token]; ok {
			in.live = append(in.live, liveTok{e.Token, k})
		}
	}
}

func (s *sys) Ops(i any) []explore.Op {
	in := i.(*inst)
	out := make([]explore.Op, 0, len(s.allOps))
	for _, op := range s.allOps {
		d := s.defs[op.Name]
		if d.u != nil {
			if !in.started {
				out = append(out, op)
			}
			continue
		}
		if s.uni && !in.started {
			continue // a universe is chosen first
		}
		if d.i != nil && d.i.nonce == "dup" {
			if _, ok := in.ref.lastNonce[d.i.name]; !ok {
				continue
			}
		}
		if d.i != nil && d.i.nonce == "old" {
			if _, ok := in.ref.prevNonce[d.i.name]; !ok {
				continue
			}
		}
		if d.i != nil && d.i.nonce == "sib" {
			if _, ok := in.ref.lastNonce[twinOf[d.i.name]]; !ok {
				continue
			}
		}
		if d.d != nil && d.d.tok == "echo0" && len(in.live) < 1 {
			continue
		}
		out = append(out, op)
	}
	return out
}

func (s *sys) Apply(i any, op explore.Op) []report.Violation { return s.step(i.(*inst), op) }
func (s *sys) Do(i any, op explore.Op)                       { s.step(i.(*inst), op) }

func (s *sys) step(in *inst, op explore.Op) (v []report.Violation) {
	d, ok := s.defs[op.Name]
	if !ok {
		report.Fatal("unknown op %q", op.Name)
	}
	in.started = true
	r := in.ref
	now := in.sim.Now()
	switch {
	case d.u != nil:
		for _, rt := range d.u.routes {
			in.sim.AddRoute(rt.Prefix, rt.Face, rt.Cost)
			r.addRoute(rt.Prefix, rt.Face, rt.Cost)
		}
		for _, sc := range d.u.strats {
			in.sim.SetStrategy(sc.Prefix, sc.Strategy)
			r.strat[sc.Prefix] = sc.Strategy
		}
	case d.f != nil:
		o := d.f
		switch o.kind {
		case "add":
			in.sim.AddRoute(o.prefix, o.face, o.cost)
			r.addRoute(o.prefix, o.face, o.cost)
		case "rem":
			in.sim.RemoveRoute(o.prefix, o.face)
			r.remRoute(o.prefix, o.face)
		case "set":
			in.sim.SetStrategy(o.prefix, o.strat)
			r.strat[o.prefix] = o.strat
		case "unset":
			in.sim.UnsetStrategy(o.prefix)
			delete(r.strat, o.prefix)
		}
	case d.i != nil:
		o := d.i
		is := fwsim.InterestSpec{Name: o.name}
		if o.short {
			is.Lifetime = fwsim.Dur(lifeShort)
		}
		var nonce uint32
		hasNonce := true
		switch o.nonce {
		case "fresh":
			r.nonceCtr++
			nonce = nonceValue(s.nv, r.nonceCtr)
		case "dup":
			nonce = r.lastNonce[o.name]
		case "old":
			nonce = r.prevNonce[o.name]
		case "sib":
			nonce = r.lastNonce[twinOf[o.name]]
		case "none":
			hasNonce = false
		}
		if hasNonce {
			is.Nonce = fwsim.U32(nonce)
		}
		if o.hl >= 0 {
			is.HopLimit = fwsim.Uint(uint(o.hl))
		}
		is.Hint, _ = hintDelegations(o.hint)
		var lp fwsim.LP
		switch o.nh {
		case "N2":
			lp.NextHopFaceID = fwsim.U64(fwsim.N2)
		case "self":
			lp.NextHopFaceID = fwsim.U64(o.face)
		case "missing":
			lp.NextHopFaceID = fwsim.U64(missingFace)
		}
		dead := hasNonce && in.sim.DnlHas(fwsim.Name(o.name), nonce)
		before := in.dump
		sends := in.sim.Interest(o.face, is, lp)
		in.refresh()
		v = r.onInterest(in, o, nonce, hasNonce, dead, before, sends, now)
	case d.d != nil:
		o := d.d
		var lp fwsim.LP
		if o.tok == "echo0" {
			lp.PitToken = fwsim.MakeToken(0, in.live[0].tok)
		}
		sends := in.sim.Data(o.face, fwsim.DataSpec{Name: o.name, Content: "x", Freshness: fwsim.Dur(10 * time.Second)}, lp)
		in.refresh()
		v = r.noInterest(sends, "a Data arrival")
		if r.cacheOn {
			r.cache[o.name] = true
		}
	case d.t != nil:
		in.sim.Advance(d.t.dt)
		sends := in.sim.Tick()
		in.refresh()
		v = r.noInterest(sends, "the periodic reaper")
	}
	return append(v, r.sync(in, d.d != nil)...)
}

// CheckState is the second half of C02.token: a Data echoing the token attached to a pending
// Interest is matched, i.e. reaches a face that holds that pending Interest (the link to C01).
// Run after the canonical state was taken; destroys the instance.
func (s *sys) CheckState(i any) (v []report.Violation) {
	in := i.(*inst)
	r := in.ref
	now := in.sim.Now()
	keys := r.sortedKeys()
	for _, k := range keys {
		e := r.ents[k]
		if e.tok == nil {
			continue
		}
		// an upstream face that is not a downstream of this entry
		var up uint64
		for _, f := range []uint64{fwsim.N4, fwsim.N2, fwsim.N3, fwsim.A6} {
			if e.recs[f] == nil {
				up = f
				break
			}
		}
		want := []uint64{}
		for f, rc := range e.recs {
			if now.Before(rc.expiry) && f != up {
				want = append(want, f)
			}
		}
		if up == 0 || len(want) == 0 {
			continue
		}
		sends := in.sim.Data(up, fwsim.DataSpec{Name: k.name, Content: "probe"}, fwsim.LP{PitToken: fwsim.MakeToken(0, *e.tok)})
		got := map[uint64]bool{}
		for _, sd := range sends {
			if sd.Kind == fwsim.KData {
				got[sd.Face] = true
			}
		}
		for _, f := range want {
			if !got[f] {
				v = append(v, report.Violation{Clause: "C02.token", Key: "Data echoing the PIT token attached to a forwarded Interest is not matched",
					Detail: fmt.Sprintf("entry %s was forwarded with token %08x and face %s still holds an unexpired pending Interest on it, but Data %s echoing that token (arriving on %s) was not delivered there; sent: %v", k, *e.tok, faceLabel[f], k.name, faceLabel[up], sends)})
			}
		}
		break // one probe per state: the Data consumed the entry
	}
	return
}

// ---- canonical state ----

func (s *sys) Canon(i any) string {
	in := i.(*inst)
	r := in.ref
	now := in.sim.Now()
	liveIdx := map[uint32]int{}
	for k, lt := range in.live {
		liveIdx[lt.tok] = k
	}
	tokName := func(t uint32) string {
		if k, ok := liveIdx[t]; ok {
			return fmt.Sprintf("T%d", k)
		}
		return "u"
	}
	nonceName := func(name string, n uint32) string {
		if l, ok := r.lastNonce[name]; ok && l == n {
			return "L"
		}
		if p, ok := r.prevNonce[name]; ok && p == n {
			return "P"
		}
		if s.sib {
			// a nonce stored under one name that a "sib" or "dup" Interest can still repeat
			for _, m := range []string{"/a/264=x", "/a/32=x", "/a/x"} {
				if l, ok := r.lastNonce[m]; ok && l == n {
					return "L@" + m
				}
			}
		}
		return "o"
	}
	var b strings.Builder
	if !in.started {
		b.WriteString("ROOT|")
	}
	for _, k := range r.sortedKeys() {
		e := r.ents[k]
		fmt.Fprintf(&b, "E[%s", k)
		if e.tok != nil {
			b.WriteString(" t=" + tokName(*e.tok))
		}
		fs := make([]uint64, 0, len(e.recs))
		for f := range e.recs {
			fs = append(fs, f)
		}
		sort.Slice(fs, func(a, c int) bool { return fs[a] < fs[c] })
		for _, f := range fs {
			rc := e.recs[f]
			fmt.Fprintf(&b, " i%d:%s:%s", f, nonceName(k.name, rc.nonce), fwsim.Saturate(rc.expiry.Sub(now), 0, time.Hour))
			// displaced pending Interests whose nonce can still be repeated
			for _, d := range rc.displaced {
				if nn := nonceName(k.name, d.nonce); nn != "o" && now.Before(d.expiry) {
					fmt.Fprintf(&b, "(displaced %s:%s first=%s)", nn, d.expiry.Sub(now), fwsim.Saturate(now.Sub(r.firstSeen[pairKey(k.name, d.nonce)]), 0, r.dnlLife))
				}
			}
		}
		fs = fs[:0]
		for f := range e.fwds {
			fs = append(fs, f)
		}
		sort.Slice(fs, func(a, c int) bool { return fs[a] < fs[c] })
		for _, f := range fs {
			fw := e.fwds[f]
			fmt.Fprintf(&b, " o%d:%s:%s", f, nonceName(k.name, fw.nonce), fwsim.Saturate(now.Sub(fw.ts), 0, suppression+time.Millisecond))
		}
		if e.last != nil {
			fmt.Fprintf(&b, " last:%s:%s:%v", nonceName(k.name, e.last.nonce), fwsim.Saturate(now.Sub(e.last.ts), 0, suppression+time.Millisecond), e.lastViaNH)
		}
		b.WriteString("]")
	}
	for k, lt := range in.live {
		fmt.Fprintf(&b, "T%d=%s;", k, lt.key)
	}
	b.WriteString("F" + r.fibStr())
	nn := make([]string, 0, len(r.lastNonce))
	for n := range r.lastNonce {
		nn = append(nn, n)
	}
	sort.Strings(nn)
	_, dnlQ := table.VerifDnlDump(in.sim.Thread.VerifDnl())
	// the pair (name, latest nonce of the twin name) a "sib" Interest carries: whether it arrived
	// before, whether the dead nonce list holds it and when its record falls due
	sibInfo := func(n string) string {
		tw, ok := r.lastNonce[twinOf[n]]
		if !ok {
			return ""
		}
		x := fmt.Sprintf(" S:%v:%v", r.seenPair[pairKey(n, tw)], in.sim.DnlHas(fwsim.Name(n), tw))
		for _, it := range dnlQ {
			if it.Key == table.VerifDnlKey(fwsim.Name(n), tw) {
				x += fmt.Sprintf(" qS@%s", fwsim.Saturate(time.Duration(it.Prio-now.UnixNano()), -1, 7*time.Second))
			}
		}
		return x
	}
	for _, n := range nn {
		fmt.Fprintf(&b, "N[%s", n)
		if t, ok := r.deadSince[n]; ok {
			fmt.Fprintf(&b, " dead=%s", fwsim.Saturate(now.Sub(t), 0, 7*time.Second))
		}
		if _, ok := r.prevNonce[n]; ok {
			b.WriteString(" P")
			if t, ok := r.deadSincePrev[n]; ok {
				fmt.Fprintf(&b, " dead=%s", fwsim.Saturate(now.Sub(t), 0, 7*time.Second))
			}
		}
		// the private expiry-queue items of the dead nonce list that concern a repeatable nonce
		for _, it := range dnlQ {
			if it.Key == table.VerifDnlKey(fwsim.Name(n), r.lastNonce[n]) {
				fmt.Fprintf(&b, " qL@%s", fwsim.Saturate(time.Duration(it.Prio-now.UnixNano()), -1, 7*time.Second))
			} else if p, ok := r.prevNonce[n]; ok && it.Key == table.VerifDnlKey(fwsim.Name(n), p) {
				fmt.Fprintf(&b, " qP@%s", fwsim.Saturate(time.Duration(it.Prio-now.UnixNano()), -1, 7*time.Second))
			}
		}
		if s.sib {
			b.WriteString(sibInfo(n))
		}
		b.WriteString("]")
	}
	if s.sib {
		// ... also for names no Interest was issued for yet
		for _, n := range []string{"/a/264=x", "/a/32=x", "/a/x"} {
			if _, own := r.lastNonce[n]; !own {
				b.WriteString("N[" + n + sibInfo(n) + "]")
			}
		}
	}
	cn := make([]string, 0, len(r.cache))
	for n := range r.cache {
		cn = append(cn, n)
	}
	sort.Strings(cn)
	fmt.Fprintf(&b, "W%v|", cn)
	b.WriteString(fwsim.CanonPitCs(in.dump, in.sim.Queue(), fwsim.CanonOpts{Token: tokName, Nonce: nonceName}))
	nodes, aux := table.VerifDumpFib(table.FibStrategyTable)
	fmt.Fprintf(&b, "|FIB%v%v", nodes, aux)
	return b.String()
}

// ---- tiers ----

func devDepth(d int) int {
	if v, err := strconv.Atoi(os.Getenv("VERIF_DEPTH")); err == nil && v > 0 {
		return v
	}
	return d
}

func configs(th bool) []explore.Config {
	var c []explore.Config
	add := func(sl, st, cs, fib string, depth int) {
		if only := os.Getenv("VERIF_ONLY"); only != "" && only != sl {
			return
		}
		c = append(c, explore.Config{Name: fmt.Sprintf("%s %s %s %s", sl, st, cs, fib), MaxDepth: devDepth(depth), MaxDev: -1})
	}
	// the dead nonce list on its own (dnl.go): with de-duplication over the full alphabet, and a
	// history search WITHOUT de-duplication over the tiny one; two configured lifetimes
	dnl := func(variant, life string, depth int, nodedup bool) {
		if only := os.Getenv("VERIF_ONLY"); only != "" && only != "dnl" {
			return
		}
		b := fmt.Sprintf("dnl %s L=%s", variant, life)
		if nodedup {
			c = append(c, explore.Config{Name: "history search (no dedup) " + b, BuildName: b, MaxDepth: devDepth(depth), MaxDev: -1, NoDedup: true})
		} else {
			c = append(c, explore.Config{Name: b, MaxDepth: devDepth(depth), MaxDev: -1})
		}
	}
	if !th {
		dnl("full", "6s", 10, false) // reaches its fixpoint at depth 9
		dnl("full", "600ms", 10, false)
		dnl("tiny", "6s", 6, true)
		dnl("typed", "6s", 10, false)
		dnl("burst", "6s", 6, false)
		dnl("edge", "6s", 10, false)
	} else {
		dnl("full", "6s", 12, false)
		dnl("full", "600ms", 12, false)
		dnl("full", "100ms", 10, false)
		dnl("tiny", "6s", 7, true)
		dnl("tiny", "600ms", 7, true)
		dnl("typed", "6s", 12, false)
		dnl("typed", "600ms", 12, false)
		dnl("burst", "6s", 8, false)
		dnl("burst", "600ms", 8, false)
		dnl("edge", "6s", 12, false)
		dnl("edge", "600ms", 12, false)
	}
	if !th {
		// every slice under both strategies; cache and FIB implementation rotate so that each of
		// the eight combinations is used by at least one slice (route: universe choice + 3 steps)
		add("dead", "br", "cs0", "tree", 10)
		add("dead", "mc", "cs1", "ht", 9)
		add("dead", "br", "cs1", "ht nv=edge", 9) // boundary nonce values (0, 2^32-1, 1, ...)
		add("dead", "mc", "cs0", "tree nv=edge2", 8)
		add("strat", "br", "cs0", "tree", 3) // strategy universe + 2 steps
		add("strat", "mc", "cs1", "ht", 3)
		add("ctype", "br", "cs0", "ht", 5)
		add("ctype", "mc", "cs1", "tree", 5)
		add("nexthop", "br", "cs1", "tree", 7)
		add("nexthop", "mc", "cs0", "ht", 7)
		add("adhoc", "br", "cs0", "tree", 5)
		add("adhoc", "mc", "cs1", "ht", 5)
		add("nonce", "br", "cs1", "ht", 5)
		add("nonce", "mc", "cs0", "tree nv=edge", 5)
		add("hint", "br", "cs0", "tree", 4)
		add("hint", "mc", "cs1", "ht", 4)
		add("hint", "mc", "cs0", "tree regions=/r/site,/r", 4)
		add("hint", "br", "cs1", "ht regions=/r,/r/site", 4)
		add("hop", "br", "cs0", "ht", 5)
		add("hop", "mc", "cs1", "tree", 5)
		nd := func(label, b string, depth int) {
			c = append(c, explore.Config{Name: label + " (no dedup) " + b, BuildName: b, MaxDepth: devDepth(depth), MaxDev: -1, NoDedup: true})
		}
		add("cost", "br", "cs0", "tree", 3)
		add("cost", "br", "cs1", "ht", 3)
		add("cost", "mc", "cs0", "ht", 2)
		nd("audit", "nexthop br cs1 tree", 3)
		nd("history search", "tiny br cs0 tree", 6)
		nd("history search", "tiny mc cs1 ht nv=edge", 6)
		add("route", "br", "cs0", "tree", 5)
		add("route", "mc", "cs0", "ht", 4)
		return c
	}
	add("cost", "br", "cs0", "tree", 4)
	add("cost", "br", "cs1", "ht", 4)
	add("cost", "mc", "cs0", "tree", 3)
	c = append(c, explore.Config{Name: "audit (no dedup) nexthop br cs1 tree", BuildName: "nexthop br cs1 tree", MaxDepth: 4, MaxDev: -1, NoDedup: true})
	for _, b := range []string{"tiny br cs0 tree", "tiny mc cs1 ht", "tiny mc cs0 tree", "tiny br cs1 ht"} {
		c = append(c, explore.Config{Name: "history search (no dedup) " + b, BuildName: b, MaxDepth: 7, MaxDev: -1, NoDedup: true})
	}
	c = append(c, explore.Config{Name: "history search (no dedup) dead br cs0 tree", BuildName: "dead br cs0 tree", MaxDepth: 7, MaxDev: -1, NoDedup: true})
	for _, st := range []string{"br", "mc"} {
		for _, cs := range []string{"cs0", "cs1"} {
			for _, fib := range []string{"tree", "ht"} {
				add("dead", st, cs, fib, 13)
				add("dead", st, cs, fib+" nv=edge", 11)
				add("dead", st, cs, fib+" nv=edge2", 10)
				add("strat", st, cs, fib, 4)
				add("nonce", st, cs, fib+" nv=edge", 5)
				add("nexthop", st, cs, fib, 8)
				add("adhoc", st, cs, fib, 6)
				add("nonce", st, cs, fib, 6)
				add("ctype", st, cs, fib, 6)
				add("hint", st, cs, fib, 5)
				add("hint", st, cs, fib+" regions=/r/site,/r", 5)
				add("hint", st, cs, fib+" regions=/r,/r/site", 4)
				add("hop", st, cs, fib, 5)
				add("route", st, cs, fib, 6)
			}
		}
	}
	return c
}

func main() {
	explore.Main(explore.Spec{
		ID: "C02", PanicClause: "C02.panic", Build: build,
		Configs: configs,
		Budget: func(th bool) time.Duration {
			if th {
				return 25 * time.Minute
			}
			return 90 * time.Second
		},
		Extra: func(rep *report.Reporter, cov report.Coverage) {
			if os.Getenv("VERIF_ONLY") != "" {
				return
			}
			o := map[string]any{}
			for _, c := range []struct {
				cfg   string
				depth int
			}{{"nonce br cs0 tree", 3}, {"hint mc cs0 tree", 2}, {"hop mc cs0 tree", 2}, {"nexthop br cs0 tree", 3}, {"adhoc mc cs0 tree", 3}, {"dead br cs0 tree", 4}, {"ctype br cs0 ht", 3}, {"dnl full L=6s", 4}, {"dnl typed L=6s", 4}, {"dnl burst L=6s", 4}, {"dnl tiny L=600ms", 6}} {
				o[fmt.Sprintf("%s (all histories of length %d, before de-duplication)", c.cfg, c.depth)] = sweep(rep, c.cfg, c.depth)
			}
			cov["oracle_branches_exercised"] = o
		},
		Rule: "BFS over histories of Interest arrivals (names /a,/a/b,/c, and /a/x,/a/264=x,/a/32=x which differ in the TYPE of one component only, with a FIB entry under one typed name and routes added/removed under another, and the latest nonce of one name repeated under its twin name; nonce fresh|repeated|absent; hop limit absent|0|1|2; forwarding hint none|in-region|in-nested-region|out-of-region|(out,in)|(in,out)|(out,out'), producer regions [/r], [/r/site,/r], [/r,/r/site]; NextHopFaceId none|N2|self|missing on a face with and one without consumer-controlled forwarding; local, non-local and ad-hoc arrival faces), Data arrivals (by name, echoing a live token), clock steps 100/400/600 ms and 5 s, and FIB/strategy changes between packets (AddRoute, RemoveRoute, SetStrategy, UnsetStrategy) on one real fw.Thread with real PIT-CS, dead nonce list, FIB (tree / hash table) and strategies; a dead-nonce slice (one name, nonce fresh|latest|the one before the latest from two faces, Data, clock steps 100/600 ms, dead nonce list configured with a 1 s lifetime) explored to depth 9-10 (thorough: 13, and to depth 7 without de-duplication); forwarding hints with two delegations in either order; FIB universes: all 81 subsets of {(/,N2),(/a,N2),(/a,N3),(/a/b,N4)} with costs {1,2}, each with and without a sibling route (/c,N4), as first step of the route slice, every ordered pair and triple of next-hop costs from {0,1,2^31,2^32,2^63-1,2^63,2^64-1} as first step of the cost slice, plus fixed FIBs with ties, a local and an ad-hoc next hop; every Interest SendPacket is compared with a three-valued reference (C02.nh/noback/best/first/drop/suppress/token); NONCE VALUES: the k-th fresh nonce is 0x3000+k, or (configurations nv=edge / nv=edge2: dead, nonce and tiny slices) runs through 0, 2^32-1, 1, 2^31, 2^32-2, 2, ... in two orders, so that each boundary value is the first, the replaced, the repeated and the dead nonce of some history (0 is a nonce, not the absence of one); PER-PREFIX STRATEGY CHOICES (strat slice): the first step assigns none|best-route|multicast to each of /a, /a/b, /c, /c/h (81 assignments) on top of the default, every FIB entry has two next hops, Interests carry no hint or a hint outside the region whose prefix has ANOTHER strategy choice than the name's (strategy by name, next hops by hint), SetStrategy/UnsetStrategy between packets; in the cost slice the Interest arrives on L1, N2, N3 and N4, so the unusable (arrival) next hop is the first, a middle and the last of the entry at every cost order; states de-duplicated on reference + white-box PIT-CS dump + FIB dump + dead-nonce expiry-queue items of repeatable nonces. Separately, the real table.DeadNonceList on its own (dnl.go): histories of Insert (2 names x 2 nonces), clock steps 0.4/0.7/1.0 x the configured lifetime (6 s, 600 ms; thorough also 100 ms) with and without a reaper pass, RemoveExpiredEntries alone, Find of every key after every step, against a three-valued record-lifetime reference (C02.drop: recorded at t => found before t+L; C02.first: never recorded => not found), with de-duplication (to the fixpoint, reached at depth 9) and as a history search without de-duplication over a two-key alphabet (depth 6 / 7); the same search over keys whose names differ in the type of one component only (/a/x, /a/264=x, /a/32=x with one nonce: variant typed, fixpoint at depth 8), over keys at the ends of the 32-bit nonce range ((/a,0), (/a,2^32-1), (/a/b,0), (/a/b,1): variant edge) and with a burst step that records 205 distinct nonces at once, more than two reaper passes remove (the pass stops after 100), every one of them looked up after every step (variant burst, depth 6 / 8)",
		Assumptions: []string{
			"faces are simulated at the dispatch.Face seam (verif/harness/fwsim): a received frame becomes a defn.Pkt exactly as NDNLPLinkService.handleIncomingFrame + dispatchInterest/dispatchData build it; NextHopFaceId is honoured only on faces with local fields enabled; one forwarding thread (id 0)",
			"'usable' is three-valued: a next hop equal to a point-to-point arrival face is unusable (C02.noback); a next hop that is the ad-hoc arrival face, that itself holds an in-record of the same PIT entry, or that is non-local while the decremented hop limit is 0, may or may not be used; every other next hop of the LPM entry must count as usable",
			"WHICH nonces are recorded as dead is read from the real dead nonce list before the arrival, and believed only for a (name, nonce) that arrived in an Interest before (a nonce cannot have been recorded as dead for a name no Interest carried it under; an Interest with a never-seen pair is judged like any other) (the property text does not say when a nonce is to be recorded, so no own 'must be dead by now' set is kept: e.g. whether the replaced nonce of an aggregated retransmission is recorded is not judged); HOW LONG a record lasts is not adopted: a (name, nonce) first seen in the list at t, or inserted into the list on its own while not listed, must be found until t + the configured lifetime; a report of an entry that is already listed may or may not extend it (the shipped code keeps the older expiry); when records disappear is left to C08; 'still pending from another face' = an unexpired record of the same PIT entry (name, selectors, forwarding hint) in the reference; an Interest whose nonce was replaced in its face's record by a same-face retransmission with another nonce counts as still pending from that face (it was neither satisfied nor did its lifetime end) while the face's record exists and the forwarder's own record held that nonce when it was replaced; because the forwarder can remember such a nonce only through the dead nonce list, whose lifetime is configurable, the drop of an Interest repeating it from another face is demanded only while less than the configured dead-nonce lifetime has passed since that (name, nonce) first arrived, and is otherwise left open; same-nonce retransmissions from the same face, repeated nonces that are neither dead nor pending, retransmissions outside the suppression window, and retransmissions that carry NextHopFaceId may or may not be forwarded",
			"whether Data consumes a pending Interest and when expired records disappear is adopted from the white-box PIT dump (C01 and C08 judge that); upstream transmission times and nonces are tracked from the observed sends only, never from the forwarder's out-records",
			"equal canonical state (reference entries with record/transmission ages saturated at expiry and at the 500 ms window, reference FIB and strategy choices, per-name nonce and dead-nonce status (in the ctype slice also for the pair name + latest nonce of the twin name: arrived before, listed, queue item), displaced pending Interests whose nonce the alphabet can still repeat (remaining lifetime, age of the pair's first arrival saturated at the dead-nonce lifetime), cache contents, private PIT-CS dump with queue priorities, private FIB dump) implies equal futures",
		},
	})
}

// sweep enumerates in-process every history of the given length of one configuration and returns
// which oracle branches were exercised how often (a measured account for the evidence file).
func sweep(rep *report.Reporter, cfg string, depth int) map[string]int {
	for k := range stats {
		delete(stats, k)
	}
	s := build(cfg)
	do := s.(explore.Replayer)
	var rec func(h []explore.Op)
	rec = func(h []explore.Op) {
		in := s.New()
		for i, op := range h {
			if i < len(h)-1 {
				do.Do(in, op)
				continue
			}
			for _, v := range s.Apply(in, op) {
				names := []string{}
				for _, o := range h {
					names = append(names, o.Name)
				}
				v.Detail = "[" + cfg + "] after " + strings.Join(names, " ; ") + " :: " + v.Detail
				v.Replay = map[string]any{"config": cfg, "ops": names}
				rep.Add(v)
			}
		}
		if len(h) == depth {
			return
		}
		for _, op := range s.Ops(in) {
			rec(append(append([]explore.Op{}, h...), op))
		}
	}
	rec(nil)
	out := map[string]int{}
	for k, v := range stats {
		out[k] = v
	}
	return out
}

var _ = defn.Local
