//go:build verif

// White-box access for the C02 harness (added through the build overlay, tag verif).
package table

import (
	"sort"

	enc "github.com/named-data/ndnd/std/encoding"
)

// VerifDnlKey is the key under which the dead nonce list files (name, nonce).
func VerifDnlKey(name enc.Name, nonce uint32) uint64 { return name.Hash() + uint64(nonce) }

// VerifDnlItem is one item of the dead nonce list's expiry queue.
type VerifDnlItem struct {
	Key  uint64
	Prio int64 // UnixNano at which the reaper may pop it
}

// VerifDnlDump returns the keys in the set (sorted) and the expiry-queue items (sorted by
// priority, then key), without touching either.
func VerifDnlDump(d *DeadNonceList) (listed []uint64, queue []VerifDnlItem) {
	for k := range d.list {
		listed = append(listed, k)
	}
	sort.Slice(listed, func(i, j int) bool { return listed[i] < listed[j] })
	vals, prios := d.expirationQueue.VerifItems()
	for i := range vals {
		queue = append(queue, VerifDnlItem{Key: vals[i], Prio: prios[i]})
	}
	sort.Slice(queue, func(i, j int) bool {
		if queue[i].Prio != queue[j].Prio {
			return queue[i].Prio < queue[j].Prio
		}
		return queue[i].Key < queue[j].Key
	})
	return
}
