//go:build verif

// White-box access for the C02 harness (added through the build overlay, tag verif).
package priority_queue

// VerifItems returns the queued values and their priorities in heap (storage) order, without
// touching the queue.
func (pq *Queue[V, P]) VerifItems() (vals []V, prios []P) {
	for _, it := range pq.pq {
		if it == nil {
			continue
		}
		vals = append(vals, it.object)
		prios = append(prios, it.priority)
	}
	return
}
