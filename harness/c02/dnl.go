package main

// Component-level search on the REAL dead nonce list (fw/table/dead-nonce-list.go), the state
// behind the C02 clause "an Interest repeating ... a nonce recorded as dead ... is not forwarded".
//
// The forwarding thread uses the list through exactly three calls: Insert(name, nonce) when a
// nonce is to be recorded as dead, Find(name, nonce) on every Interest arrival (true = drop), and
// RemoveExpiredEntries() from its 100 ms ticker arm. This search drives those three calls directly:
// histories over Insert (2 names x 2 nonces), clock steps that are fractions of the CONFIGURED
// lifetime (tables.dead_nonce_list.lifetime: 0.4 L, 0.7 L, exactly L), the reaper pass alone, and
// "tick" = clock step followed by a reaper pass, with Find of every key after every step.
//
// Reference (three-valued, nothing beyond the property text):
//
//	must     a (name, nonce) that was recorded at time t is found at every moment before t + L
//	         (C02: "a nonce recorded as dead ... is not forwarded"; the record lasts "their
//	         configured lifetime", C08) - whatever else was reported, expired or reaped meanwhile.
//	may      a report of a (name, nonce) that the list says it already holds (Find just before) is
//	         absorbed by the existing record: the unchanged code keeps the OLDER expiry (also when
//	         the old record has outlived its lifetime and only lingers until the next reaper pass);
//	         an implementation that extends the record is equally legal. So such a report moves no
//	         "must" bound; from the end of the must window on, found and not found are both accepted
//	         (when records disappear is C08's subject, not C02's).
//	must not a (name, nonce) that was never reported is not found (an Interest with a nonce that
//	         was never recorded as dead is not to be dropped as dead: C02.first).
//
// A report made while Find says "not listed" opens a new record: must until t + L.

import (
	"fmt"
	"sort"
	"strings"
	"time"

	"github.com/named-data/ndnd/fw/table"
	"verif/harness/fwsim"
	"verif/mc/explore"
	"verif/mc/report"
	"verif/shim/vtime"
)

const burstN = 205

type dnlKey struct {
	name  string
	nonce uint32
}

type dnlOp struct {
	ins  int           // key index, -1 = none
	many []int         // key indices inserted one after the other in ONE step (a burst)
	dt   time.Duration // clock step (0 = none)
	reap bool          // reaper pass (after the clock step)
}

type dnlSys struct {
	cfgName string
	life    time.Duration
	keys    []dnlKey
	ops     []explore.Op
	defs    map[string]dnlOp
}

type dnlRec struct {
	reported bool
	must     time.Time // found required while now < must
	may      time.Time // latest t + L over the reports absorbed by the current record (statistics only)
}

type dnlInst struct {
	d   *table.DeadNonceList
	ref []dnlRec
}

// buildDnl: cfgName = "dnl <full|tiny> L=<duration>".
func buildDnl(cfgName string) explore.System {
	f := strings.Fields(cfgName)
	if len(f) != 3 || !strings.HasPrefix(f[2], "L=") {
		report.Fatal("bad dead-nonce-list config %q", cfgName)
	}
	life, err := time.ParseDuration(strings.TrimPrefix(f[2], "L="))
	if err != nil || life <= 0 || life%10 != 0 {
		report.Fatal("bad lifetime in %q", cfgName)
	}
	s := &dnlSys{cfgName: cfgName, life: life, defs: map[string]dnlOp{}}
	add := func(n string, o dnlOp) {
		s.defs[n] = o
		s.ops = append(s.ops, explore.Op{Name: n})
	}
	frac := func(tenths int) time.Duration { return life / 10 * time.Duration(tenths) }
	var ticks, advs, burst []int
	switch f[1] {
	case "full":
		// two names x two nonces; every clock step with and without a reaper pass behind it
		s.keys = []dnlKey{{"/a", 0x3001}, {"/a", 0x3002}, {"/a/b", 0x3001}, {"/a/b", 0x3002}}
		ticks, advs = []int{4, 7, 10}, []int{4, 7, 10}
	case "edge":
		// boundary values of the 32-bit nonce range (0 is a legal nonce, not "no nonce"); the list
		// keys on hash(name) + nonce, so 0 and 2^32-1 are the ends of one name's key range
		s.keys = []dnlKey{{"/a", 0}, {"/a", 0xFFFFFFFF}, {"/a/b", 0}, {"/a/b", 1}}
		ticks, advs = []int{4, 7, 10}, []int{4, 7, 10}
	case "tiny":
		// the alphabet of the history search without de-duplication: same name, two nonces
		s.keys = []dnlKey{{"/a", 0x3001}, {"/a", 0x3002}}
		ticks, advs = []int{4, 7}, []int{7}
	case "typed":
		// names that differ in the TYPE of one component only (generic x, keyword 32=x, and 264=x
		// whose type equals the generic one modulo 256), all with the same nonce, plus a second
		// nonce: a record of one name says nothing about the others
		s.keys = []dnlKey{{"/a/x", 0x3001}, {"/a/264=x", 0x3001}, {"/a/32=x", 0x3001}, {"/a/x", 0x3002}}
		ticks, advs = []int{4, 7}, []int{7}
	case "burst":
		// MORE records than one reaper pass removes (the pass stops after 100) fall due at once:
		// one step records burstN = 205 distinct nonces of one name (> 2 passes' worth); every one
		// of them, and one unrelated key, is looked up after every step
		s.keys = []dnlKey{{"/a", 0x3001}}
		for i := 0; i < burstN; i++ {
			burst = append(burst, len(s.keys))
			s.keys = append(s.keys, dnlKey{"/a/b", uint32(0x5000 + i)})
		}
		ticks, advs = []int{4, 7}, []int{7}
	default:
		report.Fatal("unknown dead-nonce-list variant in %q", cfgName)
	}
	for i, k := range s.keys {
		if f[1] == "burst" && i > 2 && i != burstN/2 {
			continue // single reports: the unrelated key, the first two and one middle key of the burst
		}
		add(fmt.Sprintf("Ins(%s,%x)", k.name, k.nonce), dnlOp{ins: i})
	}
	if len(burst) > 0 {
		add(fmt.Sprintf("Burst(/a/b,%d nonces)", burstN), dnlOp{ins: -1, many: burst})
	}
	for _, t := range ticks {
		add(fmt.Sprintf("Tick(%s)", frac(t)), dnlOp{ins: -1, dt: frac(t), reap: true})
	}
	for _, t := range advs {
		add(fmt.Sprintf("Adv(%s)", frac(t)), dnlOp{ins: -1, dt: frac(t)})
	}
	add("Reap", dnlOp{ins: -1, reap: true})
	return s
}

func (s *dnlSys) New() any {
	vtime.Reset(false)
	table.VerifConfigure(1024, false, false, s.life)
	return &dnlInst{d: table.NewDeadNonceList(), ref: make([]dnlRec, len(s.keys))}
}

func (s *dnlSys) Ops(any) []explore.Op { return s.ops }

func (s *dnlSys) Apply(i any, op explore.Op) []report.Violation { return s.step(i.(*dnlInst), op) }
func (s *dnlSys) Do(i any, op explore.Op)                       { s.step(i.(*dnlInst), op) }

func (s *dnlSys) find(in *dnlInst, k int) bool {
	return in.d.Find(fwsim.Name(s.keys[k].name), s.keys[k].nonce)
}

func (s *dnlSys) step(in *dnlInst, op explore.Op) (v []report.Violation) {
	o, ok := s.defs[op.Name]
	if !ok {
		report.Fatal("unknown op %q", op.Name)
	}
	ins := o.many
	if o.ins >= 0 {
		ins = []int{o.ins}
	}
	for _, ki := range ins {
		now := vtime.Now()
		r := &in.ref[ki]
		listed := s.find(in, ki)
		in.d.Insert(fwsim.Name(s.keys[ki].name), s.keys[ki].nonce)
		switch {
		case !listed:
			stats["dnl report: not listed -> new record (must until t+L)"]++
			r.must, r.may = now.Add(s.life), now.Add(s.life)
		case now.Before(r.must):
			stats["dnl report: already recorded, inside its lifetime (absorbed: may extend)"]++
		default:
			stats["dnl report: listed but past its lifetime, not yet reaped (absorbed: may extend)"]++
		}
		if listed && now.Add(s.life).After(r.may) {
			r.may = now.Add(s.life)
		}
		r.reported = true
	}
	if o.dt > 0 {
		vtime.Advance(o.dt)
	}
	if o.reap {
		in.d.RemoveExpiredEntries()
	}
	now := vtime.Now()
	for k := range s.keys {
		r := in.ref[k]
		found := s.find(in, k)
		key := fmt.Sprintf("(%s, %x)", s.keys[k].name, s.keys[k].nonce)
		switch {
		case !r.reported:
			stats["dnl find: never reported (must not be found)"]++
			if found {
				v = append(v, viol("C02.first", "dead nonce list reports a (name, nonce) that was never recorded as dead",
					fmt.Sprintf("Find%s = true although it was never inserted; %s", key, s.describe(in))))
			}
		case now.Before(r.must):
			stats["dnl find: recorded, inside its lifetime (must be found)"]++
			if !found {
				v = append(v, viol("C02.drop", "a (name, nonce) recorded as dead is forgotten before the configured lifetime of the dead nonce list has elapsed (DeadNonceList)",
					fmt.Sprintf("Find%s = false, but it was recorded %s ago (not listed at that moment) and the configured lifetime is %s: an Interest repeating it would be forwarded; %s",
						key, now.Sub(r.must.Add(-s.life)), s.life, s.describe(in))))
			}
		case found && now.Before(r.may):
			stats["dnl find: past the record's lifetime, re-reported meanwhile, found (may)"]++
		case found:
			stats["dnl find: past every lifetime, found (may: lingering until reaped, C08)"]++
		default:
			stats["dnl find: past the record's lifetime, not found (may)"]++
		}
	}
	return
}

func (s *dnlSys) keyIndex() map[uint64]int {
	m := map[uint64]int{}
	for i, k := range s.keys {
		m[table.VerifDnlKey(fwsim.Name(k.name), k.nonce)] = i
	}
	return m
}

// describe prints the private state (set and expiry queue, relative to now) for reports.
func (s *dnlSys) describe(in *dnlInst) string {
	return "dead nonce list: " + s.white(in)
}

func (s *dnlSys) white(in *dnlInst) string {
	idx := s.keyIndex()
	now := vtime.Now().UnixNano()
	listed, queue := table.VerifDnlDump(in.d)
	name := func(h uint64) string {
		if i, ok := idx[h]; ok {
			return fmt.Sprintf("k%d", i)
		}
		return fmt.Sprintf("?%x", h)
	}
	var l, q []string
	for _, h := range listed {
		l = append(l, name(h))
	}
	sort.Strings(l)
	for _, it := range queue {
		rel := "due"
		if it.Prio >= now {
			rel = time.Duration(it.Prio - now).String()
		}
		q = append(q, name(it.Key)+"@"+rel)
	}
	sort.Strings(q)
	return fmt.Sprintf("set%v queue%v", l, q)
}

// Canon: reference must-bounds relative to now (only "still running" matters once elapsed) plus
// the private set and expiry queue with priorities relative to now ("due" once the reaper would
// pop them). The may-bound is statistics only and influences no verdict.
func (s *dnlSys) Canon(i any) string {
	in := i.(*dnlInst)
	now := vtime.Now()
	var b strings.Builder
	for k, r := range in.ref {
		m := "x"
		if now.Before(r.must) {
			m = r.must.Sub(now).String()
		}
		fmt.Fprintf(&b, "k%d:%v:%s ", k, r.reported, m)
	}
	b.WriteString(s.white(in))
	return b.String()
}
