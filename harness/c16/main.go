// C16: shared tables tolerate concurrent updates, teardown and lookups.
// (a) Stateless exhaustive interleaving exploration (mc/sched) of 2-3 thread scenarios on the real
// RIB/FIB code with fw/table's sync operations redirected to the controlled scheduler; every
// complete execution is checked for crash, deadlock, linearizability of the recorded history
// against the SAME implementation run sequentially, torn lookup results and final-state
// equivalence with some sequential order. Every value a lookup returns is kept by reference with a
// deep snapshot taken at the return and read again later (after the lookup thread's next scheduling
// point, after every completed operation, after all threads finished): a difference means the
// returned list/name was rewritten under its holder (C16.torn). (b) Auxiliary: the same bodies free-running under the Go
// race detector (sampling; decides only the "no data race" clause).
// Family E walks one entry (prefix /e) through its life cycle from every starting shape; the final
// state asks the face and dispatch tables under every id and repeats the threads' own lookups.
// Round 10: what the readvertisers are told is part of the final state (last command per prefix,
// commands per prefix in the order sent, the readvertiser's count, the RIB's notifications per
// prefix in the order delivered), with programs that register / unregister / tear down the same
// readvertised route from two threads in families A, D and E.
// Family D of the scenarios makes face teardown a first-class operation: registered faces that own
// routes, the real face.Table.Remove / faces/destroy (also two teardowns of one face) against the
// real face-guarded management handlers (rib/register, fib/add-nexthop, ...), lookups and probes.
package main

import (
	"bufio"
	"bytes"
	"context"
	"encoding/json"
	"fmt"
	"os"
	"os/exec"
	"path/filepath"
	"regexp"
	"sort"
	"strings"
	"sync"
	"sync/atomic"
	"time"

	"verif/harness/c16/scn"
	"verif/mc/enum"
	"verif/mc/report"
	"verif/mc/sched"
)

type seqOutcome struct {
	results []string
	final   string
	blocked string // the sequential execution itself blocks for ever (or panics): what it said
}

type opRef struct{ t, k int }

type scnCtx struct {
	fib   string
	s     scn.Scenario
	ids   map[opRef]int
	ops   []scn.Op
	thr   []int // op id -> thread
	seq   map[string]seqOutcome
	order [][]int
	kept  int // lookup results retained by reference and re-read, over all checked executions
}

func newCtx(fib string, s scn.Scenario) *scnCtx {
	c := &scnCtx{fib: fib, s: s, ids: map[opRef]int{}, seq: map[string]seqOutcome{}}
	for t, prog := range s.Threads {
		for k, op := range prog {
			c.ids[opRef{t, k}] = len(c.ops)
			c.ops = append(c.ops, op)
			c.thr = append(c.thr, t)
		}
	}
	// all interleavings respecting program order
	pos := make([]int, len(s.Threads))
	var cur []int
	var rec func()
	rec = func() {
		if len(cur) == len(c.ops) {
			c.order = append(c.order, append([]int{}, cur...))
			return
		}
		for t := range s.Threads {
			if pos[t] < len(s.Threads[t]) {
				cur = append(cur, c.ids[opRef{t, pos[t]}])
				pos[t]++
				rec()
				pos[t]--
				cur = cur[:len(cur)-1]
			}
		}
	}
	rec()
	return c
}

func (c *scnCtx) sequential(order []int) seqOutcome {
	k := fmt.Sprint(order)
	if o, ok := c.seq[k]; ok {
		return o
	}
	res := make([]string, len(c.ops))
	var o seqOutcome
	func() {
		// a lock that is never released makes a plain sequential run block: the shim reports that
		// as a panic ("would deadlock") instead of hanging; it is a finding, not a harness error
		defer func() {
			if r := recover(); r != nil {
				o = seqOutcome{blocked: fmt.Sprint(r)}
			}
		}()
		scn.Setup(c.fib, c.s)
		for _, id := range order {
			res[id] = c.ops[id].Run(func() {})
		}
		o = seqOutcome{results: res, final: scn.FinalFor(c.s)}
	}()
	c.seq[k] = o
	return o
}

// safeFinal reads the final state; a lock some operation never released shows as the shim's
// "would deadlock" panic.
func safeFinal(s scn.Scenario) (final, held string) {
	defer func() {
		if r := recover(); r != nil {
			held = fmt.Sprint(r)
		}
	}()
	return scn.FinalFor(s), ""
}

func kinds(s scn.Scenario) string {
	set := map[string]bool{}
	for _, p := range s.Threads {
		for _, op := range p {
			set[op.Kind] = true
		}
	}
	var l []string
	for k := range set {
		l = append(l, k)
	}
	sort.Strings(l)
	return strings.Join(l, "||")
}

// keptKey: a value a lookup returned was rewritten while the caller still held it. The key names
// the lookup and the kinds of the updates that ran next to it, not the schedule.
func keptKey(fib, lookupKind string, s scn.Scenario) string {
	return fib + " " + lookupKind + " result changed after the lookup returned it (value kept by reference, compared with a deep snapshot taken at the return): updates " + strings.Join(updateKinds(s), "||")
}

// updateKinds: the kinds of the operations of s that are not lookups.
func updateKinds(s scn.Scenario) []string {
	var w []string
	for _, k := range strings.Split(kinds(s), "||") {
		if k != "Lookup" && k != "LookupStrategy" && k != "FaceProbe" && k != "" {
			w = append(w, k)
		}
	}
	return w
}

func (c *scnCtx) scenario() sched.Scenario {
	return sched.Scenario{
		Name: c.fib + " " + c.s.Name,
		Setup: func() any {
			scn.Setup(c.fib, c.s)
			return nil
		},
		Threads: func(any) []func(*sched.Ctx) {
			var bodies []func(*sched.Ctx)
			for t, prog := range c.s.Threads {
				t, prog := t, prog
				bodies = append(bodies, func(x *sched.Ctx) {
					for k, op := range prog {
						id := x.Begin(fmt.Sprint(c.ids[opRef{t, k}]))
						r := op.Run(x.Yield)
						x.End(id, r)
						// every lookup result kept so far (by any thread) is read again
						scn.Recheck("after " + op.Name + " completed")
					}
				})
			}
			return bodies
		},
		Check: func(_ any, e *sched.Exec) []sched.Finding {
			// lookup results kept by reference: read once more now that every thread has finished
			// (before anything below re-creates the tables)
			scn.Recheck("after all operations completed")
			changed, nkept := scn.KeptChanged()
			c.kept += nkept
			var keptFs []sched.Finding
			for _, k := range changed {
				keptFs = append(keptFs, sched.Finding{Clause: "C16.torn", Key: keptKey(c.fib, k.Kind, c.s), Detail: k.String()})
			}
			final, held := safeFinal(c.s)
			var deadRefs []uint64
			if held == "" && scn.Family(c.s.Name) == "D" {
				deadRefs = scn.DeadFaceRefs()
			}
			// (family D) a lookup issued, in program order, after a teardown of a face by the same
			// thread had returned, that still got the face as next hop: names the symptom if the
			// history turns out not to be linearizable
			staleLookup := ""
			if scn.Family(c.s.Name) == "D" {
				for t, prog := range c.s.Threads {
					down := map[uint64]bool{}
					for k, op := range prog {
						if sl, is := scn.TeardownSlot(op); is && op.Kind == "FaceDown" {
							down[scn.SlotFace(sl)] = true
						}
						if op.Kind != "Lookup" {
							continue
						}
						for _, e := range e.Hist {
							if e.Op != fmt.Sprint(c.ids[opRef{t, k}]) {
								continue
							}
							for _, h := range strings.Split(e.Result, ",") {
								var f uint64
								if _, err := fmt.Sscanf(h, "%d:", &f); err == nil && down[f] && staleLookup == "" {
									staleLookup = fmt.Sprintf("%s returned {%s} after the teardown of face %d by the same thread had returned", op.Name, e.Result, f)
								}
							}
						}
					}
				}
			}
			if held != "" {
				return append(keptFs, sched.Finding{Clause: "C16.deadlock", Key: c.fib + " a lock is still held after all operations returned: " + kinds(c.s), Detail: "reading the tables after the execution of " + c.s.Name + " blocks: " + held})
			}
			n := len(c.ops)
			inv, resp, res := make([]int, n), make([]int, n), make([]string, n)
			for _, h := range e.Hist {
				var id int
				fmt.Sscan(h.Op, &id)
				inv[id], resp[id], res[id] = h.Inv, h.Resp, h.Result
			}
			fs := keptFs
			// torn results: duplicate faces / nil entries in a consumed lookup result
			for id, op := range c.ops {
				if op.Kind == "Lookup" || op.Kind == "ListFib" {
					for _, ent := range strings.Split(res[id], ";") {
						list := ent
						if i := strings.Index(ent, "->"); i >= 0 {
							list = ent[i+2:]
						}
						seen := map[string]bool{}
						for _, h := range strings.Split(list, ",") {
							f := strings.Split(h, ":")[0]
							if f == "nil" || (f != "" && seen[f]) {
								fs = append(fs, sched.Finding{Clause: "C16.torn", Key: c.fib + " " + op.Kind + " result torn (duplicate/nil next hop) with " + kinds(c.s), Detail: fmt.Sprintf("%s returned {%s}", op.Name, res[id])})
							}
							seen[f] = true
						}
					}
				}
			}
			finalOK, linOK, seqBlocked := false, false, false
			var firstDiff string
			var closest []string // the sections in which the final state differs from the closest sequential outcome
			// Three-valued part of the oracle. A management command that is guarded by the existence
			// of a face (rib/register, fib/add-nexthop with a FaceId; faces/destroy) and that found the
			// face already unpublished by a teardown still in progress has left the tables untouched.
			// The property says nothing about the status such a command reports while the teardown
			// overlaps it, and an operation that changed nothing constrains no lookup: its position
			// among the operations of OTHER threads that follow it in real time is left free. (Its own
			// result is still compared, and so is everything ordered before it.) For a registration the
			// refusal is its status 410; faces/destroy reports 200 either way, so it is left free only
			// where a teardown of the same face by another thread overlaps it.
			free := make([]bool, n)
			for x, op := range c.ops {
				m := scn.Meta(op)
				switch m.Guard {
				case "register":
					free[x] = res[x] == "410"
				case "destroy":
					for y, oy := range c.ops {
						if sl, is := scn.TeardownSlot(oy); is && sl == m.Slot && c.thr[y] != c.thr[x] && inv[y] <= resp[x] && inv[x] <= resp[y] {
							free[x] = true
						}
					}
				}
			}
			for _, ord := range c.order {
				// real-time order
				p := make([]int, n)
				for i, id := range ord {
					p[id] = i
				}
				ok := true
				for x := 0; x < n && ok; x++ {
					for y := 0; y < n; y++ {
						if x != y && resp[x] < inv[y] && p[x] > p[y] && !(free[x] && c.thr[x] != c.thr[y]) {
							ok = false
							break
						}
					}
				}
				if !ok {
					continue
				}
				o := c.sequential(ord)
				if o.blocked != "" {
					if !seqBlocked {
						seqBlocked = true
						clause, what := "C16.deadlock", "blocks for ever"
						if !strings.Contains(o.blocked, "would deadlock") {
							clause, what = "C16.crash", "panics"
						}
						fs = append(fs, sched.Finding{Clause: clause, Key: c.fib + " a sequential execution " + what + ": " + kinds(c.s), Detail: fmt.Sprintf("running the operations of %s one after the other in order %v %s: %s", c.s.Name, ord, what, o.blocked)})
					}
					continue
				}
				if o.final != final {
					if d := scn.DiffSections(final, o.final); closest == nil || len(d) < len(closest) {
						closest = d
					}
					continue
				}
				finalOK = true
				same := true
				for id := range res {
					if res[id] != o.results[id] {
						same = false
						if firstDiff == "" {
							firstDiff = fmt.Sprintf("%s observed {%s}, sequential order %v gives {%s}", c.ops[id].Name, res[id], ord, o.results[id])
						}
					}
				}
				if same {
					linOK = true
					break
				}
			}
			if seqBlocked {
				return fs
			}
			if !finalOK {
				what := kinds(c.s)
				if scn.Family(c.s.Name) == "D" {
					what = strings.Join(updateKinds(c.s), "||") // (the key names the updates that collided, not the readers next to them)
				}
				onlyStrategy := len(closest) > 0
				for _, sec := range closest {
					onlyStrategy = onlyStrategy && strings.HasPrefix(sec, "strategy choices")
				}
				rvKey := ""
				onlyRv := len(closest) > 0
				for _, sec := range closest {
					onlyRv = onlyRv && scn.ReadvertiseSection(sec)
				}
				if onlyRv {
					// FIB, RIB, faces and strategy choices are those of some order; what the readvertisers
					// were told is not. The key names what differs (the net advertised set, the readvertiser's
					// counter, or only the order) and the RIB updates of the scenario.
					// (one root cause, one key: the RIB's own notifications if they are of no order - the FIB
					// implementation and the colliding update kinds play no part in that -, otherwise what the
					// NLSR readvertiser made of them)
					rvKey = "what the NLSR readvertiser sent / counted matches no sequential order although the tables and the RIB's notifications do (commands per prefix, last command per prefix = prefixes left advertised, count of advertised routes)"
					for _, sec := range closest {
						if strings.HasPrefix(sec, "readvertise notifications") {
							rvKey = "the RIB's announce/withdraw notifications to the readvertisers (per prefix, in the order delivered) match no sequential order although the tables do"
						}
					}
				} else if onlyStrategy {
					// next hops, routes and faces are those of some order, the strategy choices are not: the key
					// names the strategy updates of the scenario, whatever ran next to them
					var g []string
					for _, k := range updateKinds(c.s) {
						if strings.Contains(k, "Strategy") {
							g = append(g, k)
						}
					}
					what = "the strategy choices are those of no order (next hops, routes and faces are): " + strings.Join(g, "||")
				} else if stale := scn.StaleFaces(final); len(stale) > 0 {
					// the symptom is in the face/dispatch table itself: name it and the operations on faces
					set := map[string]bool{}
					for _, op := range c.ops {
						if strings.HasPrefix(op.Kind, "Face") {
							set[op.Kind] = true
						}
					}
					var g []string
					for k := range set {
						g = append(g, k)
					}
					sort.Strings(g)
					what = "a face that was torn down is still found under its id after all operations completed: " + strings.Join(g, "||")
				} else if len(deadRefs) > 0 {
					// one root cause, one key: name the teardown and the face-guarded command kind(s)
					set := map[string]bool{}
					for _, op := range c.ops {
						if scn.Meta(op).Guard == "register" {
							set[op.Kind] = true
						}
					}
					var g []string
					for k := range set {
						g = append(g, k)
					}
					sort.Strings(g)
					if len(g) > 0 {
						what = "face teardown || " + strings.Join(g, "||")
					}
					what = "a route or next hop of a torn-down face remains: " + what
				}
				key := c.fib + " final tables match no sequential order: " + what
				if rvKey != "" {
					key = rvKey
				}
				fs = append(fs, sched.Finding{Clause: "C16.final", Key: key, Detail: fmt.Sprintf("(faces no longer in the face table that still own a route or next hop: %v) ", deadRefs) + fmt.Sprintf("differs from the closest sequential outcome in %v; ", closest) + "final state " + final + " equals the outcome of no real-time-consistent sequential order of " + c.s.Name})
			} else if !linOK {
				// which op kinds have results that no order explains
				if staleLookup != "" {
					fs = append(fs, sched.Finding{Clause: "C16.lin", Key: c.fib + " a lookup issued after a face teardown had returned still gets the torn-down face as next hop (matches no state between overlapping operations): " + strings.Join(updateKinds(c.s), "||"), Detail: "history not linearizable: " + staleLookup + "; " + firstDiff})
				} else {
					fs = append(fs, sched.Finding{Clause: "C16.lin", Key: c.fib + " reader result matches no state between overlapping operations: " + kinds(c.s), Detail: "history not linearizable: " + firstDiff})
				}
			}
			return fs
		},
	}
}

type workItem struct {
	Fib string
	Idx int
}
type workResult struct {
	Stats sched.Stats
	Kept  int
	Found []foundRec
	Err   string
}
type foundRec struct {
	Clause, Key, Detail string
	Fib                 string
	Scenario            string
	Idx                 int
	Schedule            []int
	Trace               []string
	Preempt             int
}

func thorough() bool { return os.Getenv("VERIF_TIER") == "thorough" }

func runItem(it workItem, bound int, deadline time.Time) workResult {
	all := scn.All(thorough())
	c := newCtx(it.Fib, all[it.Idx])
	var wr workResult
	best := map[string]foundRec{}
	st, err := sched.Explore(c.scenario(), bound, deadline, func(f sched.Found) {
		k := f.Clause + "|" + f.Key
		if old, ok := best[k]; ok && len(old.Schedule) <= len(f.Schedule) {
			return
		}
		best[k] = foundRec{Clause: "C16." + strings.TrimPrefix(f.Clause, "C16."), Key: f.Key, Detail: f.Detail, Fib: it.Fib, Scenario: all[it.Idx].Name, Idx: it.Idx, Schedule: f.Schedule, Trace: f.Trace}
	})
	wr.Stats = st
	wr.Kept = c.kept
	if err != nil {
		wr.Err = err.Error()
	}
	for _, f := range best {
		wr.Found = append(wr.Found, f)
	}
	sort.Slice(wr.Found, func(i, j int) bool { return wr.Found[i].Key < wr.Found[j].Key })
	return wr
}

func workerMain() {
	// reads work items (JSON lines) on stdin, writes results on stdout
	var bound int
	fmt.Sscan(os.Getenv("C16_BOUND"), &bound)
	var dl time.Time
	if v := os.Getenv("C16_DEADLINE"); v != "" {
		var ns int64
		fmt.Sscan(v, &ns)
		dl = time.Unix(0, ns)
	}
	sc := bufio.NewScanner(os.Stdin)
	out := json.NewEncoder(os.Stdout)
	for sc.Scan() {
		var it workItem
		if json.Unmarshal(sc.Bytes(), &it) != nil {
			continue
		}
		out.Encode(runItem(it, bound, dl))
	}
}

var raceRe = regexp.MustCompile(`(?s)WARNING: DATA RACE.*?==================`)
var keptRe = regexp.MustCompile(`(?m)^KEPT-RESULT-CHANGED kind=(\w+) (.*)$`)

func racePass(rep *report.Reporter, cov report.Coverage, budget time.Duration, skip map[string]bool) {
	b := os.Getenv("VERIF_BUILD_DIR")
	repo := os.Getenv("VERIF_REPO_DIR")
	root := report.Root()
	ov := filepath.Join(b, "ov-race")
	os.RemoveAll(ov)
	if out, err := exec.Command(filepath.Join(b, "xform"), "-repo", repo, "-out", ov, "-hooks", filepath.Join(root, "hooks"), "-hooks", filepath.Join(root, "harness", "c16", "hooks")).CombinedOutput(); err != nil {
		report.Fatal("race pass: xform failed: %v %s", err, out)
	}
	args := []string{"build", "-race", "-tags", "verif", "-overlay", filepath.Join(ov, "overlay.json"), "-o", filepath.Join(b, "racebin")}
	if mf := filepath.Join(b, "alt.mod"); fileExists(mf) {
		args = append(args, "-modfile="+mf)
	}
	args = append(args, "./harness/c16/racebin")
	cmd := exec.Command("go", args...)
	cmd.Dir = root
	if out, err := cmd.CombinedOutput(); err != nil {
		report.Fatal("race pass: build failed: %v %s", err, out)
	}
	deadline := time.Now().Add(budget) // counted from the end of the -race build
	all := scn.All(thorough())
	reps := 300
	if thorough() {
		reps = 5000
	}
	type job struct {
		fib string
		idx int
	}
	// The budget usually ends the pass early. Families A and B keep their order (tree, then hash
	// table); the scenarios of family C (existing strategy choices re-pointed under lookups that
	// keep their results) are dealt in between, one after every three, so that both get their share
	// of whatever is completed.
	var jobs, jobsC []job
	for _, fib := range []string{"tree", "ht"} {
		// (family B is dealt into family A, one after every four, so that its scenarios are not all
		// behind the 171 of family A when the budget ends the pass early)
		var ja, jb []job
		for i := range all {
			switch scn.Family(all[i].Name) {
			case "A":
				ja = append(ja, job{fib, i})
			case "B":
				jb = append(jb, job{fib, i})
			}
		}
		for len(ja) > 0 || len(jb) > 0 {
			n := 4
			if len(ja) < n {
				n = len(ja)
			}
			jobs = append(jobs, ja[:n]...)
			ja = ja[n:]
			if len(jb) > 0 {
				jobs = append(jobs, jb[0])
				jb = jb[1:]
			}
		}
	}
	// (of family C first the scenarios that consist of lookups only: no sync operation separates
	// two readers inside the read lock, so the controlled scheduler cannot tell their schedules
	// apart and this pass is their only judge)
	for _, readersOnly := range []bool{true, false} {
		for i := range all {
			if scn.Family(all[i].Name) == "C" && (len(updateKinds(all[i])) == 0) == readersOnly {
				jobsC = append(jobsC, job{"tree", i}, job{"ht", i})
			}
		}
	}
	// family D (teardown of registered faces against face-guarded management commands): dealt in
	// the same way, alternating with family C
	{
		var jobsD, jobsE, cd []job
		for i := range all {
			if scn.Family(all[i].Name) == "D" {
				jobsD = append(jobsD, job{"tree", i}, job{"ht", i})
			}
			if scn.Family(all[i].Name) == "E" {
				jobsE = append(jobsE, job{"tree", i}, job{"ht", i})
			}
		}
		for len(jobsC) > 0 || len(jobsD) > 0 || len(jobsE) > 0 {
			if len(jobsD) > 0 {
				cd = append(cd, jobsD[0])
				jobsD = jobsD[1:]
			}
			if len(jobsE) > 0 {
				cd = append(cd, jobsE[0])
				jobsE = jobsE[1:]
			}
			if len(jobsC) > 0 {
				cd = append(cd, jobsC[0])
				jobsC = jobsC[1:]
			}
		}
		jobsC = cd
	}
	{
		var mixed []job
		for len(jobs) > 0 || len(jobsC) > 0 {
			n := 3
			if len(jobs) < n {
				n = len(jobs)
			}
			mixed = append(mixed, jobs[:n]...)
			jobs = jobs[n:]
			if len(jobsC) > 0 {
				mixed = append(mixed, jobsC[0])
				jobsC = jobsC[1:]
			}
		}
		jobs = mixed
	}
	var mu sync.Mutex
	runs, races, crashes, keptChanged := 0, 0, 0, 0
	perFam := map[string]int{}
	th := "0"
	if thorough() {
		th = "1"
	}
	var hungCount int32
	skipped := 0
	done, complete := enum.Range(int64(len(jobs)), deadline, func(i int64) {
		j := jobs[i]
		// scenarios in which the controlled exploration already found a deadlock would only hang
		// here; after three real hangs the rest of the pass is abandoned (reported below)
		if skip[fmt.Sprint(j.fib, j.idx)] || atomic.LoadInt32(&hungCount) >= 3 {
			mu.Lock()
			skipped++
			mu.Unlock()
			return
		}
		// A free-running execution that really deadlocks never returns: generous watchdog (a run
		// normally takes a second or two), and a hit is re-run once with three times the time
		// before it is believed.
		var stderr bytes.Buffer
		var err error
		hung := false
		for attempt, limit := 0, 120*time.Second; attempt < 2; attempt, limit = attempt+1, 3*limit {
			stderr.Reset()
			ctx, cancel := context.WithTimeout(context.Background(), limit)
			c := exec.CommandContext(ctx, filepath.Join(b, "racebin"), j.fib, fmt.Sprint(j.idx), fmt.Sprint(reps), th)
			c.Env = append(os.Environ(), "GORACE=halt_on_error=0", "GOMAXPROCS=4")
			c.Stderr = &stderr
			c.Stdout = nil
			err = c.Run()
			hung = ctx.Err() == context.DeadlineExceeded
			cancel()
			if !hung {
				break
			}
		}
		if hung {
			atomic.AddInt32(&hungCount, 1)
			mu.Lock()
			runs += reps
			crashes++
			rep.Add(report.Violation{Clause: "C16.deadlock", Key: "free-running execution never finishes (deadlock) : " + kinds(all[j.idx]), Detail: fmt.Sprintf("[%s %s] the scenario did not finish within 120 s and again within 360 s (it normally takes about a second)", j.fib, all[j.idx].Name),
				Replay: map[string]any{"mode": "race", "fib": j.fib, "scenario": all[j.idx].Name, "index": j.idx}})
			mu.Unlock()
			return
		}
		mu.Lock()
		defer mu.Unlock()
		runs += reps
		s := all[j.idx]
		perFam[scn.Family(s.Name)]++
		// a lookup result that no longer equals its snapshot when read after all writers finished
		kc := keptRe.FindStringSubmatch(stderr.String())
		if kc != nil {
			keptChanged++
			rep.Add(report.Violation{Clause: "C16.torn", Key: keptKey(j.fib, kc[1], s), Detail: fmt.Sprintf("[%s %s, free-running] %s", j.fib, s.Name, kc[2]),
				Replay: map[string]any{"mode": "race", "fib": j.fib, "scenario": s.Name, "index": j.idx}})
		}
		if ms := raceRe.FindAllString(stderr.String(), -1); len(ms) > 0 {
			races += len(ms)
			// root-cause key: the two innermost repository functions involved
			fn := regexp.MustCompile(`github\.com/named-data/ndnd/([\w/\.\(\)\*]+)\(\)`).FindAllStringSubmatch(ms[0], -1)
			set := map[string]bool{}
			var fl []string
			for _, m := range fn {
				if !set[m[1]] && len(fl) < 8 {
					set[m[1]] = true
					fl = append(fl, m[1])
				}
			}
			top := racePair(ms[0])
			rep.Add(report.Violation{Clause: "C16.race", Key: "data race: " + top, Detail: fmt.Sprintf("[%s %s] Go race detector: %s ; frames %v", j.fib, s.Name, top, fl),
				Replay: map[string]any{"mode": "race", "fib": j.fib, "scenario": s.Name, "index": j.idx, "report": ms[0]}})
		} else if err != nil && kc == nil {
			crashes++
			line := firstLine(stderr.String())
			rep.Add(report.Violation{Clause: "C16.crash", Key: "free-running crash: " + line, Detail: fmt.Sprintf("[%s %s] %v: %s", j.fib, s.Name, err, tail(stderr.String(), 600)),
				Replay: map[string]any{"mode": "race", "fib": j.fib, "scenario": s.Name, "index": j.idx}})
		}
	})
	cov["race_pass"] = map[string]any{"scenario_runs": done, "repetitions_each": reps, "executions": runs, "race_reports": races, "crashes": crashes, "kept_results_changed": keptChanged, "scenario_runs_per_family": perFam, "complete": complete && skipped == 0, "scenarios_skipped_because_deadlocked": skipped,
		"note": "auxiliary sampled evidence (free-running goroutines under the Go race detector); decides only the data-race clause. Lookup threads keep every result by reference, read it again after yielding the processor and once more after all writers finished"}
}

// racePair extracts "<access fn> vs <previous access fn>" from a race report.
func racePair(rep string) string {
	lines := strings.Split(rep, "\n")
	var fns []string
	for i, l := range lines {
		if (strings.Contains(l, " by goroutine ") || strings.Contains(l, " by main goroutine")) && (strings.HasPrefix(strings.TrimSpace(l), "Read") || strings.HasPrefix(strings.TrimSpace(l), "Write") || strings.HasPrefix(strings.TrimSpace(l), "Previous")) {
			for _, m := range lines[i+1:] {
				m = strings.TrimSpace(m)
				if strings.HasPrefix(m, "github.com/named-data/ndnd/") {
					m = strings.TrimPrefix(m, "github.com/named-data/ndnd/")
					if k := strings.LastIndex(m, "("); k > 0 {
						m = m[:k]
					}
					fns = append(fns, m)
					break
				}
				if m == "" {
					break
				}
			}
		}
	}
	sort.Strings(fns)
	return strings.Join(fns, " vs ")
}

func firstLine(s string) string {
	for _, l := range strings.Split(s, "\n") {
		if strings.Contains(l, "fatal error") || strings.Contains(l, "panic:") {
			return l
		}
	}
	return strings.SplitN(s, "\n", 2)[0]
}
func tail(s string, n int) string {
	if len(s) > n {
		return s[len(s)-n:]
	}
	return s
}
func fileExists(p string) bool { _, err := os.Stat(p); return err == nil }

func main() {
	if os.Getenv("C16_WORKER") == "1" {
		workerMain()
		return
	}
	if len(os.Args) >= 3 && os.Args[1] == "--replay" {
		os.Exit(replay(os.Args[2]))
	}
	rep := report.New("C16", "model_checking")
	bound, budget, raceBudget := 2, 65*time.Second, 35*time.Second
	if rep.Thorough() {
		bound, budget, raceBudget = 3, 18*time.Minute, 6*time.Minute
	}
	deadline := time.Now().Add(budget)
	all := scn.All(rep.Thorough())
	var items []workItem
	for _, fib := range []string{"tree", "ht"} {
		for i := range all {
			// (development aid, never set by ./check: restrict the run to one scenario family)
			if f := os.Getenv("C16_ONLY_FAMILY"); f != "" && scn.Family(all[i].Name) != f {
				continue
			}
			if f := os.Getenv("C16_ONLY_SCN"); f != "" && !regexp.MustCompile(f).MatchString(all[i].Name) {
				continue
			}
			items = append(items, workItem{fib, i})
		}
	}
	// The scenarios are dealt round-robin over the (FIB, family) groups, so that a deadline that
	// ends the run early on a loaded machine (exhaustive:false) takes its toll from every family
	// instead of dropping the families that happen to be listed last.
	{
		var order []string
		groups := map[string][]workItem{}
		for _, it := range items {
			g := it.Fib + scn.Family(all[it.Idx].Name)
			if scn.Readvertised(all[it.Idx].Name) {
				g += " readvertised routes" // (a group of their own in every family: small programs, dealt from the start)
			}
			if _, ok := groups[g]; !ok {
				order = append(order, g)
			}
			groups[g] = append(groups[g], it)
		}
		items = items[:0]
		for more := true; more; {
			more = false
			for _, g := range order {
				if len(groups[g]) > 0 {
					items = append(items, groups[g][0])
					groups[g] = groups[g][1:]
					more = true
				}
			}
		}
	}
	nw := enum.Workers()
	results := make([]workResult, len(items))
	var wg sync.WaitGroup
	next := 0
	var mu sync.Mutex
	for w := 0; w < nw; w++ {
		wg.Add(1)
		go func() {
			defer wg.Done()
			cmd := exec.Command(os.Args[0])
			cmd.Env = append(os.Environ(), "C16_WORKER=1", fmt.Sprint("C16_BOUND=", bound), fmt.Sprint("C16_DEADLINE=", deadline.UnixNano()), "GOMAXPROCS=2")
			in, _ := cmd.StdinPipe()
			outp, _ := cmd.StdoutPipe()
			cmd.Stderr = os.Stderr
			if err := cmd.Start(); err != nil {
				report.Fatal("worker: %v", err)
			}
			dec := json.NewDecoder(outp)
			enc := json.NewEncoder(in)
			for {
				mu.Lock()
				i := next
				next++
				mu.Unlock()
				if i >= len(items) {
					break
				}
				enc.Encode(items[i])
				if err := dec.Decode(&results[i]); err != nil {
					results[i].Err = fmt.Sprintf("worker died on %v: %v", items[i], err)
					break
				}
			}
			in.Close()
			cmd.Wait()
		}()
	}
	wg.Wait()
	deadlocked := map[string]bool{}
	execs, points, complete, outcomes, dbl, kept := 0, 0, true, 0, 0, 0
	famScn, famExec := map[string]int{}, map[string]int{}
	minBound := bound
	var samples []string
	var per []sched.Stats
	var checkErrs []string
	nviol := 0
	for i, r := range results {
		if r.Err != "" {
			// (an execution that is not a function of its schedule - e.g. an unlocked update racing with
			// a map-ordered clean-up - cannot be explored; it ends the check with CHECK-ERROR below
			// unless the other scenarios report violations, which stand on their own)
			checkErrs = append(checkErrs, fmt.Sprintf("[%s %s] %s", items[i].Fib, all[items[i].Idx].Name, r.Err))
			complete = false
			continue
		}
		execs += r.Stats.Executions
		kept += r.Kept
		famScn[scn.Family(all[items[i].Idx].Name)]++
		famExec[scn.Family(all[items[i].Idx].Name)] += r.Stats.Executions
		points += r.Stats.Points
		outcomes += r.Stats.Outcomes
		dbl += r.Stats.DoubleRuns
		if !r.Stats.Complete {
			complete = false
		}
		if r.Stats.Bound < minBound {
			minBound = r.Stats.Bound
		}
		per = append(per, r.Stats)
		for _, f := range r.Found {
			if f.Clause == "C16.deadlock" {
				deadlocked[fmt.Sprint(f.Fib, f.Idx)] = true
			}
			nviol++
			rep.Add(report.Violation{Clause: f.Clause, Key: f.Key, Detail: fmt.Sprintf("[%s %s] %s ; schedule trace %v", f.Fib, f.Scenario, f.Detail, f.Trace),
				Replay: map[string]any{"mode": "sched", "fib": f.Fib, "index": f.Idx, "scenario": f.Scenario, "schedule": f.Schedule, "thorough_scenarios": rep.Thorough()}})
		}
		if len(samples) < 6 && i%17 == 0 {
			samples = append(samples, fmt.Sprintf("%s %s: %d schedules, %d distinct histories", items[i].Fib, all[items[i].Idx].Name, r.Stats.Executions, r.Stats.Outcomes))
		}
	}
	if len(checkErrs) > 0 && nviol == 0 {
		report.Fatal("%s", strings.Join(checkErrs, " ; "))
	}
	cov := report.Coverage{
		"scenarios_abandoned_with_a_check_error": checkErrs,
		"states":                                 points, "transitions": points, "traces_validated_against_impl": execs,
		"schedules": execs, "scenarios": len(items), "preemption_bound_completed_all_scenarios": minBound,
		"preemption_bound_target": bound, "distinct_histories": outcomes, "determinism_double_runs": dbl,
		"exhaustive": complete, "samples": samples, "per_scenario": per,
		"lookup_results_kept_by_reference_and_reread": kept, "scenarios_per_family": famScn, "schedules_per_family": famExec,
		"rule":        "for each of the 2- and 3-thread scenarios (all pairs over 16 thread programs colliding on /a, /a/b and faces 1,2, plus selected triples; family B: the same from a state with leftovers of earlier removals; family C: strategy choices re-pointed/unset/re-created on prefixes that already have one, incl. the default on /, against strategy and next-hop lookups; family D: faces that really are in the face table and the dispatch table and own routes, torn down through the real face.Table.Remove and the real faces/destroy handler - also twice, by two threads - against the real rib/register, rib/unregister, fib/add-nexthop, fib/remove-nexthop handlers of the management thread (explicit FaceId: guarded by the face's existence; no FaceId: the arrival face), lookups and face-table / dispatch-table probes, incl. a lookup and a probe issued by the thread whose teardown has just returned; forwarding threads whose dispatch-table lookups alternate between the two faces and the real strategy-choice/set handler on the prefix whose only route belongs to the face torn down; family E: the life cycle of ONE entry - every operation addresses the leaf prefix /e, started in every shape {no entry, 1 next hop, (thorough: 2 next hops)} x {no strategy choice, a choice}: set / re-point / unset the choice, route add/remove, next-hop insert/remove, face teardown, remove-and-re-create, all pairs with a strategy update or the reader on one side (thorough: all pairs) plus triples) x {tree, hashtable FIB}: every schedule with at most the stated number of preemptions, scheduling points at every sync operation of fw/table and between obtaining and consuming a lookup result; each complete execution checked for crash, deadlock, linearizability against the same implementation run sequentially (brute force over all program-order- and real-time-consistent orders), torn results and final-state equivalence (final state = the face table and the dispatch table asked under EVERY face id of the universe, unlisted ids first and before anything else; every lookup the threads issued repeated once more, per thread last lookup first; next hops and strategy in effect over 14 names; FIB, RIB and strategy-choice listings; listed faces; what the readvertisers were told: number of commands sent to NLSR, last command per prefix = the prefixes left advertised, commands per prefix in the order sent with origin and cost, the NLSR readvertiser's own per-prefix count, and the RIB's announce/withdraw notifications for routes of every origin per prefix in the order delivered); every value a lookup returned is kept by reference with a deep snapshot taken at the return and read again after the lookup thread's next scheduling point, after every completed operation and after all threads finished (a difference = the returned list/name was rewritten under its holder: C16.torn)",
		"explanation": "states/transitions = scheduling points visited; every schedule is an execution of the real code under the controlled scheduler",
	}
	if os.Getenv("C16_ONLY_FAMILY") == "" && os.Getenv("C16_ONLY_SCN") == "" {
		racePass(rep, cov, raceBudget, deadlocked)
	}
	rep.Finish(cov, []string{
		"scheduling points exist only at sync operations of fw/table (and explicit yields in the bodies); unsynchronised accesses are covered by the separate free-running -race pass (sampled, auxiliary)",
		"Go lock fairness/writer preference and memory-model effects beyond sequential consistency are not modelled",
		"scenario universe: names /, /a, /a/b, /c (+lookups below), faces 1..4, strategies multicast and best-route, initial routes /a->f1(CI) /a->f2 /a/b->f2(CI); family C additionally starts with strategy choices /a=multicast /a/b=best-route /c=multicast",
		"family E: prefix /e (leaf below the root, sibling /a keeps a route), faces 1..3; between executions the face table and the dispatch table are emptied through the real Remove/RemoveFace for every id an execution can have used (nothing the implementation keeps per face next to the two maps is inherited)",
		"family D: at most one thread of a scenario issues management commands (the daemon has one management thread) and that thread issues no lookups; the status a face-guarded command (rib/register, fib/add-nexthop with FaceId; faces/destroy) reports while a teardown of that face overlaps it is not judged (the property is silent): a command that was refused (410) - for faces/destroy: that overlapped another thread's teardown of the same face - left the tables untouched and is not required to precede the operations other threads start after it; its own result and everything else stay under the linearizability and final-state clauses",
	})
}

func replay(path string) int {
	b, err := os.ReadFile(path)
	if err != nil {
		fmt.Println("CHECK-ERROR:", err)
		return 2
	}
	var f struct {
		Clause string `json:"clause"`
		Replay struct {
			Mode     string `json:"mode"`
			Fib      string `json:"fib"`
			Index    int    `json:"index"`
			Schedule []int  `json:"schedule"`
			Thorough bool   `json:"thorough_scenarios"`
		} `json:"replay"`
	}
	if err := json.Unmarshal(b, &f); err != nil || f.Replay.Mode != "sched" {
		fmt.Println("CHECK-ERROR: only sched-mode replays can be re-executed deterministically", err)
		return 2
	}
	all := scn.All(f.Replay.Thorough)
	c := newCtx(f.Replay.Fib, all[f.Replay.Index])
	s := c.scenario()
	e, st, err := sched.Replay(s, f.Replay.Schedule)
	if err != nil {
		fmt.Println("CHECK-ERROR:", err)
		return 2
	}
	hit := false
	if e.Crash != "" {
		fmt.Println("replayed: crash", e.Crash)
		hit = strings.HasSuffix(f.Clause, "crash")
	}
	if e.Dead {
		fmt.Println("replayed: deadlock")
		hit = hit || strings.HasSuffix(f.Clause, "deadlock")
	}
	if e.Crash == "" && !e.Dead {
		for _, x := range s.Check(st, e) {
			fmt.Printf("replayed: %s %s\n", x.Clause, x.Detail)
			if x.Clause == f.Clause {
				hit = true
			}
		}
	}
	if hit {
		fmt.Printf("VIOLATION property=C16 replay=%s\n", path)
		return 1
	}
	fmt.Println("replay: violation not reproduced")
	return 0
}
