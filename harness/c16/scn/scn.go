// Package scn holds the concurrent scenario bodies of C16. The SAME bodies are executed (a) under
// the controlled scheduler (fw/table's sync redirected to vsync; every interleaving up to a
// preemption bound) and (b) free-running with the real sync package under the Go race detector.
package scn

import (
	"fmt"
	"regexp"
	"sort"
	"strings"
	"sync"

	"github.com/named-data/ndnd/fw/core"
	"github.com/named-data/ndnd/fw/dispatch"
	"github.com/named-data/ndnd/fw/face"
	"github.com/named-data/ndnd/fw/mgmt"
	"github.com/named-data/ndnd/fw/table"
	enc "github.com/named-data/ndnd/std/encoding"
	ndnlog "github.com/named-data/ndnd/std/log"
	ndnmgmt "github.com/named-data/ndnd/std/ndn/mgmt_2022"
)

func nm(s string) enc.Name {
	n, err := enc.NameFromStr(s)
	if err != nil {
		panic(err)
	}
	return n
}

var (
	mc = "/localhost/nfd/strategy/multicast/v=1"
	br = "/localhost/nfd/strategy/best-route/v=1"
)

// ---- lookup results retained by reference ----
//
// A forwarding thread keeps using what a lookup returned (it iterates the next hops, hashes the
// strategy name) long after the table lock was released. Every value a lookup operation returns is
// therefore KEPT BY REFERENCE here, together with a deep snapshot taken at the moment the call
// returned, and is re-read later: by the lookup thread itself after its next scheduling point,
// after every operation that completes (controlled scheduler only) and once more when all threads
// have finished. A kept value that no longer equals its snapshot was rewritten under the thread
// that holds it: the lookup result is torn / partially updated, whatever it looked like at the
// moment of the return.

// Kept is one retained lookup result.
type Kept struct {
	Kind, Op string
	nh       []*table.FibNextHopEntry
	st       enc.Name
	isNH     bool
	held     bool   // a result is being kept (set by the lookup, cleared by Setup)
	Snap     string // deep snapshot at the moment the lookup returned
	Now      string // first differing deep rendering seen later ("" = never differed)
	When     string // when the difference was first seen
}

// Every lookup operation owns one slot (Op.Keep), written only by the thread that runs the
// operation: no lock or other synchronisation is shared between the threads on behalf of the
// harness, so the free-running -race pass sees exactly the ordering the tables themselves provide.
var current []*Kept // the slots of the scenario being executed (set by Setup, before threads start)

func deepNH(nh []*table.FibNextHopEntry) string {
	if nh == nil {
		return "nil"
	}
	x := make([]string, 0, len(nh))
	for _, h := range nh {
		if h == nil {
			x = append(x, "nil")
			continue
		}
		x = append(x, fmt.Sprintf("%d:%d", h.Nexthop, h.Cost))
	}
	return "[" + strings.Join(x, " ") + "]" // in the order returned
}

func deepName(n enc.Name) string {
	if n == nil {
		return "nil"
	}
	x := make([]string, 0, len(n))
	for _, c := range n {
		x = append(x, fmt.Sprintf("%d=%q", uint64(c.Typ), c.Val))
	}
	return "[" + strings.Join(x, " ") + "]"
}

func (k *Kept) render() string {
	if k.isNH {
		return deepNH(k.nh)
	}
	return deepName(k.st)
}

// keep stores a fresh lookup result in the operation's slot and snapshots it.
func (k *Kept) keep(v Kept) *Kept {
	kind, op := k.Kind, k.Op
	*k = v
	k.Kind, k.Op, k.held = kind, op, true
	k.Snap = k.render()
	return k
}

// Recheck re-reads one kept result.
func (k *Kept) Recheck(when string) {
	if !k.held || k.Now != "" {
		return
	}
	if now := k.render(); now != k.Snap {
		k.Now, k.When = now, when
	}
}

// Recheck re-reads every result kept so far in this execution. (Controlled scheduler: called
// after every completed operation; free-running: only after all goroutines have finished.)
func Recheck(when string) {
	for _, k := range current {
		k.Recheck(when)
	}
}

// KeptChanged returns the kept results that were seen to differ from their snapshot, and the
// number of results kept in this execution.
func KeptChanged() (changed []*Kept, kept int) {
	for _, k := range current {
		if k.held {
			kept++
			if k.Now != "" {
				changed = append(changed, k)
			}
		}
	}
	return changed, kept
}

func (k *Kept) String() string {
	return fmt.Sprintf("%s returned %s; the same value read again %s is %s", k.Op, k.Snap, k.When, k.Now)
}

// Op is one API call as a user of the tables sees it.
type Op struct {
	Kind string // root-cause level class (RibAdd, RibRemove, FaceDown, FibInsert, FibRemove, SetStrategy, UnsetStrategy, Lookup, LookupStrategy, ListFib, ListRib)
	Name string // printable, with arguments
	// Run performs the call; yield() is a scheduling point placed between obtaining a result and
	// consuming it (the forwarder iterates lookup results after the table lock was released).
	Run func(yield func()) string
	// Keep is the slot in which a lookup operation keeps, by reference, what the table returned.
	Keep *Kept
}

func nhStr(nh []*table.FibNextHopEntry) string {
	x := make([]string, 0, len(nh))
	for _, h := range nh {
		if h == nil {
			x = append(x, "nil")
			continue
		}
		x = append(x, fmt.Sprintf("%d:%d", h.Nexthop, h.Cost))
	}
	sort.Strings(x)
	return strings.Join(x, ",")
}

func RibAdd(p string, f, o, c, fl uint64) Op {
	return Op{"RibAdd", fmt.Sprintf("RibAdd(%s,f%d,o%d,c%d,fl%d)", p, f, o, c, fl), func(func()) string {
		table.Rib.AddEncRoute(nm(p), &table.Route{FaceID: f, Origin: o, Cost: c, Flags: fl})
		return ""
	}, nil}
}
func RibRemove(p string, f, o uint64) Op {
	return Op{"RibRemove", fmt.Sprintf("RibRemove(%s,f%d,o%d)", p, f, o), func(func()) string {
		table.Rib.RemoveRouteEnc(nm(p), f, o)
		return ""
	}, nil}
}
func FaceDown(f uint64) Op {
	return Op{"FaceDown", fmt.Sprintf("FaceDown(f%d)", f), func(func()) string {
		face.FaceTable.Remove(f)
		return ""
	}, nil}
}

// FaceAdd registers a new face (a null link service on a null transport) in the face table; the
// result is the face id it was given. The id is remembered in slot so that the same thread can
// tear down its own face later (a face is only ever removed after it was added).
var addedSlot [4]uint64

func FaceAdd(slot int) Op {
	return Op{"FaceAdd", fmt.Sprintf("FaceAdd(#%d)", slot), func(func()) string {
		l := face.MakeNullLinkService(face.MakeNullTransport())
		face.FaceTable.Add(l)
		addedSlot[slot] = l.FaceID()
		return fmt.Sprint("id=", l.FaceID())
	}, nil}
}

// FaceProbe is what a forwarding or management thread does with a face id it got from a packet or
// a command: look the face up in the face table and in the dispatch table and use its id. A face
// that can be found must already carry the id it was found under. (The face table and the dispatch
// table are two structures and Add() is not atomic over both - the property does not ask for that -
// so the result reports only a face found under an id it does not carry.)
func FaceProbe() Op {
	return Op{"FaceProbe", "FaceProbe()", func(yield func()) string {
		out := []string{}
		for id := uint64(10); id < 13; id++ {
			if l := face.FaceTable.Get(id); l != nil {
				yield()
				if l.FaceID() != id {
					out = append(out, fmt.Sprintf("table[%d].FaceID()=%d", id, l.FaceID()))
				}
			}
			if d := dispatch.GetFace(id); d != nil {
				yield()
				if d.FaceID() != id {
					out = append(out, fmt.Sprintf("dispatch[%d].FaceID()=%d", id, d.FaceID()))
				}
			}
		}
		return strings.Join(out, ",")
	}, nil}
}

// FaceDownOwn tears down the face this thread added in slot.
func FaceDownOwn(slot int) Op {
	downSlot[fmt.Sprintf("FaceDownOwn(#%d)", slot)] = slot
	return Op{"FaceDown", fmt.Sprintf("FaceDownOwn(#%d)", slot), func(func()) string {
		face.FaceTable.Remove(addedSlot[slot])
		return ""
	}, nil}
}

// ---- face teardown and face-guarded management commands on REGISTERED faces (family D) ----
//
// The operations below act on faces that really are in the face table and in the dispatch table
// (added by the scenario's Init through FaceAdd, ids 10, 11, ...) and that own routes. Teardown is
// the real face.Table.Remove, as the link service's goroutine calls it when its transport stops
// (FaceDownOwn), or the real faces/destroy command on the management thread (MgmtDestroy); the
// registrations are the real rib/register, rib/unregister, fib/add-nexthop and fib/remove-nexthop
// handlers of fw/mgmt, handed a command Interest the way Thread.Run does, with an explicit FaceId
// (the handler then guards the update with FaceTable.Get(id) != nil and answers 410 otherwise) or
// without one (the route goes to the face the command arrived on; no guard).

// OpMeta describes a management command for the oracle: which face (slot) it is guarded by.
type OpMeta struct {
	Guard string // "register": refused with 410 if the face is not in the face table; "destroy": does nothing if it is not
	Slot  int
}

var opMeta = map[string]OpMeta{}

// Meta returns the guard description of an operation (zero value: not a guarded command).
func Meta(op Op) OpMeta { return opMeta[op.Name] }

// TeardownSlot reports whether op tears down the face of a slot (Remove or faces/destroy).
func TeardownSlot(op Op) (slot int, ok bool) {
	if m, is := opMeta[op.Name]; is && m.Guard == "destroy" {
		return m.Slot, true
	}
	if s, is := downSlot[op.Name]; is {
		return s, true
	}
	return 0, false
}

var downSlot = map[string]int{}

func u64(v uint64) *uint64 { return &v }

func mgmtOp(kind, name string, meta OpMeta, module, verb string, args func() (*ndnmgmt.ControlArgs, uint64)) Op {
	opMeta[name] = meta
	return Op{kind, name, func(func()) string {
		a, inFace := args()
		status, _ := mgmt.VerifCommand(module, verb, a, inFace)
		return fmt.Sprint(status)
	}, nil}
}

// MgmtRegister is rib/register for prefix p with an explicit FaceId (the face of slot), arriving
// on another (local) face. The result is the status code of the ControlResponse.
func MgmtRegister(p string, slot int, o, c, fl uint64) Op {
	return mgmtOp("RibRegister", fmt.Sprintf("MgmtRegister(%s,#%d,o%d,c%d,fl%d)", p, slot, o, c, fl), OpMeta{"register", slot}, "rib", "register",
		func() (*ndnmgmt.ControlArgs, uint64) {
			return &ndnmgmt.ControlArgs{Name: nm(p), FaceId: u64(addedSlot[slot]), Origin: u64(o), Cost: u64(c), Flags: u64(fl)}, 1
		})
}

// MgmtRegisterSelf is rib/register without FaceId, arriving on the face of slot itself (an
// application announcing its own prefix): the handler does not consult the face table.
func MgmtRegisterSelf(p string, slot int, o, c, fl uint64) Op {
	return mgmtOp("RibRegisterSelf", fmt.Sprintf("MgmtRegisterSelf(%s,#%d,o%d,c%d,fl%d)", p, slot, o, c, fl), OpMeta{}, "rib", "register",
		func() (*ndnmgmt.ControlArgs, uint64) {
			return &ndnmgmt.ControlArgs{Name: nm(p), Origin: u64(o), Cost: u64(c), Flags: u64(fl)}, addedSlot[slot]
		})
}

// MgmtUnregister is rib/unregister with an explicit FaceId.
func MgmtUnregister(p string, slot int, o uint64) Op {
	return mgmtOp("RibUnregister", fmt.Sprintf("MgmtUnregister(%s,#%d,o%d)", p, slot, o), OpMeta{}, "rib", "unregister",
		func() (*ndnmgmt.ControlArgs, uint64) {
			return &ndnmgmt.ControlArgs{Name: nm(p), FaceId: u64(addedSlot[slot]), Origin: u64(o)}, 1
		})
}

// MgmtFibAdd is fib/add-nexthop with an explicit FaceId (guarded like rib/register).
func MgmtFibAdd(p string, slot int, c uint64) Op {
	return mgmtOp("FibAddNexthop", fmt.Sprintf("MgmtFibAdd(%s,#%d,c%d)", p, slot, c), OpMeta{"register", slot}, "fib", "add-nexthop",
		func() (*ndnmgmt.ControlArgs, uint64) {
			return &ndnmgmt.ControlArgs{Name: nm(p), FaceId: u64(addedSlot[slot]), Cost: u64(c)}, 1
		})
}

// MgmtFibRemove is fib/remove-nexthop with an explicit FaceId.
func MgmtFibRemove(p string, slot int) Op {
	return mgmtOp("FibRemoveNexthop", fmt.Sprintf("MgmtFibRemove(%s,#%d)", p, slot), OpMeta{}, "fib", "remove-nexthop",
		func() (*ndnmgmt.ControlArgs, uint64) {
			return &ndnmgmt.ControlArgs{Name: nm(p), FaceId: u64(addedSlot[slot])}, 1
		})
}

// MgmtDestroy is faces/destroy for the face of slot: the management thread's teardown (it calls
// face.Table.Remove if it still finds the face in the face table).
func MgmtDestroy(slot int) Op {
	return mgmtOp("FaceDestroy", fmt.Sprintf("MgmtDestroy(#%d)", slot), OpMeta{"destroy", slot}, "faces", "destroy",
		func() (*ndnmgmt.ControlArgs, uint64) {
			return &ndnmgmt.ControlArgs{FaceId: u64(addedSlot[slot])}, 1
		})
}

// MgmtStrategySet / MgmtStrategyUnset are strategy-choice/set and strategy-choice/unset through the
// real handlers of the management thread.
func MgmtStrategySet(p, which string) Op {
	st := mc
	if which == "br" {
		st = br
	}
	return mgmtOp("SetStrategy", fmt.Sprintf("MgmtStrategySet(%s,%s)", p, which), OpMeta{}, "strategy-choice", "set",
		func() (*ndnmgmt.ControlArgs, uint64) {
			return &ndnmgmt.ControlArgs{Name: nm(p), Strategy: &ndnmgmt.Strategy{Name: nm(st)}}, 1
		})
}
func MgmtStrategyUnset(p string) Op {
	return mgmtOp("UnsetStrategy", fmt.Sprintf("MgmtStrategyUnset(%s)", p), OpMeta{}, "strategy-choice", "unset",
		func() (*ndnmgmt.ControlArgs, uint64) { return &ndnmgmt.ControlArgs{Name: nm(p)}, 1 })
}

// RibAddSlot / LookupFaces: a route for the face of a slot (Init), and which slots' faces a name
// currently resolves to are visible through the ordinary Lookup.
func RibAddSlot(p string, slot int, o, c, fl uint64) Op {
	return Op{"RibAdd", fmt.Sprintf("RibAdd(%s,#%d,o%d,c%d,fl%d)", p, slot, o, c, fl), func(func()) string {
		table.Rib.AddEncRoute(nm(p), &table.Route{FaceID: addedSlot[slot], Origin: o, Cost: c, Flags: fl})
		return ""
	}, nil}
}

// FaceAlive is what the management thread asks about a face id it was given: is the face (still)
// in the face table? DispatchAlive is what a forwarding thread asks: is it in the dispatch table?
// (Two structures, and neither Add nor Remove is atomic over both - the property does not ask for
// that - so one probe reads one structure, and a thread program uses one kind of probe only.)
// After a teardown of the face has returned the answer must be no - and that is the only place the
// probes are used: Remove unpublishes the face first and cleans the RIB afterwards, two steps on two
// structures whose atomicity the property does not ask for, so a probe that OVERLAPS a teardown
// together with the RIB effects of later commands would demand more than the text (it did, in the
// thorough triple D2||G5||DM, before the probe was taken out of DM).
func FaceAlive(slot int) Op {
	return Op{"FaceProbe", fmt.Sprintf("FaceAlive(#%d)", slot), func(yield func()) string {
		return fmt.Sprintf("table:%v", face.FaceTable.Get(addedSlot[slot]) != nil)
	}, nil}
}
func DispatchAlive(slot int) Op {
	return Op{"FaceProbe", fmt.Sprintf("DispatchAlive(#%d)", slot), func(yield func()) string {
		return fmt.Sprintf("dispatch:%v", dispatch.GetFace(addedSlot[slot]) != nil)
	}, nil}
}

// SlotFace is the face id the face of a slot was given.
func SlotFace(slot int) uint64 { return addedSlot[slot] }

// DeadFaceRefs lists the faces added in slots that are no longer in the face table but still own a
// RIB route or a FIB next hop (used to name the symptom of a final-state mismatch, not to judge).
func DeadFaceRefs() []uint64 {
	var out []uint64
	for _, id := range addedSlot {
		if id == 0 || face.FaceTable.Get(id) != nil {
			continue
		}
		ref := false
		for _, e := range table.Rib.GetAllEntries() {
			for _, r := range e.GetRoutes() {
				ref = ref || r.FaceID == id
			}
		}
		for _, e := range table.FibStrategyTable.GetAllFIBEntries() {
			for _, h := range e.GetNextHops() {
				ref = ref || (h != nil && h.Nexthop == id)
			}
		}
		if ref {
			out = append(out, id)
		}
	}
	return out
}

func FibInsert(p string, f, c uint64) Op {
	return Op{"FibInsert", fmt.Sprintf("FibInsert(%s,f%d,c%d)", p, f, c), func(func()) string {
		table.FibStrategyTable.InsertNextHopEnc(nm(p), f, c)
		return ""
	}, nil}
}
func FibRemove(p string, f uint64) Op {
	return Op{"FibRemove", fmt.Sprintf("FibRemove(%s,f%d)", p, f), func(func()) string {
		table.FibStrategyTable.RemoveNextHopEnc(nm(p), f)
		return ""
	}, nil}
}
func SetStrategy(p string) Op { return SetStrategyTo(p, "mc") }

// SetStrategyTo sets the strategy choice of p to multicast ("mc") or best-route ("br").
func SetStrategyTo(p, which string) Op {
	s := mc
	if which == "br" {
		s = br
	}
	return Op{"SetStrategy", fmt.Sprintf("SetStrategy(%s,%s)", p, which), func(func()) string {
		table.FibStrategyTable.SetStrategyEnc(nm(p), nm(s))
		return ""
	}, nil}
}
func UnsetStrategy(p string) Op {
	return Op{"UnsetStrategy", fmt.Sprintf("UnsetStrategy(%s)", p), func(func()) string {
		table.FibStrategyTable.UnSetStrategyEnc(nm(p))
		return ""
	}, nil}
}
func Lookup(n string) Op {
	k := &Kept{Kind: "Lookup", Op: fmt.Sprintf("Lookup(%s)", n)}
	again[k.Op] = func() string { return nhStr(table.FibStrategyTable.FindNextHopsEnc(nm(n))) }
	return Op{k.Kind, k.Op, func(yield func()) string {
		nh := table.FibStrategyTable.FindNextHopsEnc(nm(n))
		k.keep(Kept{nh: nh, isNH: true})
		yield()
		k.Recheck("by the lookup thread after its next scheduling point")
		return nhStr(nh)
	}, k}
}
func LookupStrategy(n string) Op {
	k := &Kept{Kind: "LookupStrategy", Op: fmt.Sprintf("LookupStrategy(%s)", n)}
	again[k.Op] = func() string { return stStr(table.FibStrategyTable.FindStrategyEnc(nm(n))) }
	return Op{k.Kind, k.Op, func(yield func()) string {
		s := table.FibStrategyTable.FindStrategyEnc(nm(n))
		k.keep(Kept{st: s})
		yield()
		k.Recheck("by the lookup thread after its next scheduling point")
		return stStr(s)
	}, k}
}

// DispatchProbe looks the faces of the given slots up in the dispatch table, one after the other
// (a forwarding thread whose packets alternate between faces: incoming face, next hop, incoming
// face, ... - fw/fw/thread.go asks dispatch.GetFace for the incoming face and for every next hop of
// every packet). Like FaceProbe it reports only a face found under an id it does not carry: whether
// a face is still found while its teardown overlaps is not judged (either answer is legal). The
// probes matter through what they leave behind: the dispatch table is observed under every id once
// all operations have completed. (The ids are fixed by the program, not taken from a preceding
// lookup: the order in which a clean-up recomputes sibling prefixes is Go map order, and an
// execution must be a function of the schedule alone.)
func DispatchProbe(slots ...int) Op {
	return Op{"FaceProbe", fmt.Sprintf("DispatchProbe(#%v)", slots), func(yield func()) string {
		out := []string{}
		for _, sl := range slots {
			id := addedSlot[sl]
			if d := dispatch.GetFace(id); d != nil && d.FaceID() != id {
				out = append(out, fmt.Sprintf("dispatch[%d].FaceID()=%d", id, d.FaceID()))
			}
		}
		return strings.Join(out, ",")
	}, nil}
}

// TableProbe is the same on the face table (the management thread resolving FaceIds of commands).
func TableProbe(slots ...int) Op {
	return Op{"FaceProbe", fmt.Sprintf("TableProbe(#%v)", slots), func(yield func()) string {
		out := []string{}
		for _, sl := range slots {
			id := addedSlot[sl]
			if l := face.FaceTable.Get(id); l != nil && l.FaceID() != id {
				out = append(out, fmt.Sprintf("table[%d].FaceID()=%d", id, l.FaceID()))
			}
		}
		return strings.Join(out, ",")
	}, nil}
}

func stStr(s enc.Name) string {
	if s == nil {
		return "nil"
	}
	return s.String()
}
func ListFib() Op {
	return Op{"ListFib", "ListFib()", func(yield func()) string {
		es := table.FibStrategyTable.GetAllFIBEntries()
		yield()
		out := []string{}
		for _, e := range es {
			out = append(out, e.Name().String()+"->"+nhStr(e.GetNextHops()))
		}
		sort.Strings(out)
		return strings.Join(out, ";")
	}, nil}
}
func ListRib() Op {
	return Op{"ListRib", "ListRib()", func(yield func()) string {
		es := table.Rib.GetAllEntries()
		yield()
		out := []string{}
		for _, e := range es {
			for _, r := range e.GetRoutes() {
				out = append(out, fmt.Sprintf("%s f%d o%d c%d fl%d", e.Name.String(), r.FaceID, r.Origin, r.Cost, r.Flags))
			}
		}
		sort.Strings(out)
		return strings.Join(out, ";")
	}, nil}
}

// listStrategies renders the strategy-choice dataset (GetAllForwardingStrategies).
func listStrategies() string {
	out := []string{}
	for _, e := range table.FibStrategyTable.GetAllForwardingStrategies() {
		out = append(out, e.Name().String()+"="+stStr(e.GetStrategy()))
	}
	sort.Strings(out)
	return strings.Join(out, ";")
}

// faceIDUniverse: every face id a scenario can have used (raw ids 1..4 of the route-only faces,
// 10..13 handed out by the face table after a reset).
var faceIDUniverse = []uint64{1, 2, 3, 4, 10, 11, 12, 13}

// finalFaces observes the face table and the dispatch table under EVERY id of the universe, not
// only under the ids of the faces still listed: a face that was torn down must be found under its
// id in neither. The ids that are not listed in the face table are asked first (on a correct
// implementation these lookups find nothing and leave nothing behind, so they are the observation
// that disturbs least what the operations left in the tables).
func finalFaces() string {
	listed := map[uint64]bool{}
	for _, l := range face.FaceTable.GetAll() {
		listed[l.FaceID()] = true
	}
	res := map[uint64]string{}
	for _, first := range []bool{true, false} {
		for _, id := range faceIDUniverse {
			if listed[id] == first {
				continue
			}
			d := dispatch.GetFace(id)
			l := face.FaceTable.Get(id)
			r := ""
			if d != nil {
				r += fmt.Sprintf("dispatch(id=%d)", d.FaceID())
			}
			if l != nil {
				r += fmt.Sprintf("table(id=%d)", l.FaceID())
			}
			if d != nil && l != nil && any(d) != any(l) {
				r += "DIFFERENT-OBJECTS"
			}
			if listed[id] {
				r += "listed"
			}
			if r != "" {
				res[id] = r
			}
		}
	}
	out := []string{}
	for _, id := range faceIDUniverse {
		if r, ok := res[id]; ok {
			out = append(out, fmt.Sprintf("%d:%s", id, r))
		}
	}
	return strings.Join(out, ",")
}

// StaleFaces extracts from a final state (FinalFor) the ids under which the dispatch table or the
// face table still returned a face that the face table no longer lists (used to name the symptom
// of a final-state mismatch, not to judge).
func StaleFaces(final string) []string {
	var out []string
	final = strings.TrimPrefix(final, "faces by id (asked first):")
	if i := strings.Index(final, SecSep); i >= 0 {
		final = final[:i]
	}
	for _, ent := range strings.Split(final, ",") {
		if ent != "" && !strings.HasSuffix(ent, "listed") {
			out = append(out, ent)
		}
	}
	return out
}

// Scenario: initial sequential ops, then threads each running its ops in order.
type Scenario struct {
	Name    string
	Init    []Op
	Threads [][]Op
}

// Setup creates fresh global tables for the chosen FIB implementation and runs the Init ops.
func Setup(fib string, s Scenario) {
	ndnlog.SetLevel(ndnlog.FatalLevel)
	if fib == "tree" {
		table.VerifNewFibTree()
	} else {
		table.VerifNewFibHT(2)
	}
	table.VerifResetRib()
	face.VerifResetFaceTable()
	addedSlot = [4]uint64{}
	current = nil
	for _, prog := range s.Threads {
		for _, op := range prog {
			if op.Keep != nil {
				op.Keep.held, op.Keep.Now, op.Keep.When = false, "", ""
				current = append(current, op.Keep)
			}
		}
	}
	// a management thread object (not running) whose module handlers the Mgmt* operations call;
	// created here, before any thread starts (the readvertiser list is replaced right below)
	if core.GetConfig() == nil {
		c := core.DefaultConfig()
		c.Tables.Rib.ReadvertiseNlsr = false
		core.LoadConfig(c, "")
	}
	mgmt.VerifReset()
	mgmt.VerifCommand("none", "none", nil, 0)
	// the real NLSR readvertiser is registered with the RIB, as with readvertise_nlsr=true
	var rv *mgmt.NlsrReadvertiser
	rv, rvTransport = mgmt.VerifNewReadvertiser()
	rvNlsr = rv
	rvEvents = &ribEvents{}
	// (the recorder is registered after the real readvertiser: a notification is in its list once
	// the real readvertiser has returned from it)
	if RecordNotifications {
		table.VerifResetReadvertisers(rv, rvEvents)
	} else {
		table.VerifResetReadvertisers(rv)
	}
	for _, op := range s.Init {
		op.Run(func() {})
	}
}

var rvTransport *face.InternalTransport
var rvNlsr *mgmt.NlsrReadvertiser
var rvEvents *ribEvents

// RecordNotifications: register the recording readvertiser. Switched off by the free-running -race
// pass, which compares no final states: the recorder's lock would order the threads' notifications
// for the race detector, and that pass must see exactly the ordering the repository code provides.
var RecordNotifications = true

// ribEvents is a second readvertiser registered with the RIB: it records every Announce / Withdraw
// notification the RIB delivers (routes of EVERY origin, also the withdrawals the NLSR readvertiser
// swallows while other routes keep the prefix advertised) in the order delivered. It has a lock of
// its own, like the NLSR readvertiser (notifications may come from any thread); the lock is the
// real sync.Mutex and nothing yields while it is held.
type ribEvents struct {
	mu sync.Mutex
	ev []ribEvent
}
type ribEvent struct{ prefix, what string }

func (r *ribEvents) note(kind string, name enc.Name, route *table.Route) {
	e := ribEvent{prefix: "<nil>", what: kind + " <nil route>"}
	if name != nil {
		e.prefix = name.String()
	}
	if route != nil {
		e.what = fmt.Sprintf("%s f%d o%d c%d", kind, route.FaceID, route.Origin, route.Cost)
	}
	r.mu.Lock()
	r.ev = append(r.ev, e)
	r.mu.Unlock()
}
func (r *ribEvents) Announce(name enc.Name, route *table.Route) { r.note("announce", name, route) }
func (r *ribEvents) Withdraw(name enc.Name, route *table.Route) { r.note("withdraw", name, route) }

// perPrefix renders a list of (prefix, item) in the order given as "prefix[item item ...]" sorted by
// prefix: the order of the items of ONE prefix is kept, the order between prefixes is not (a face
// clean-up walks sibling prefixes in Go map order).
func perPrefix(prefix, item []string) string {
	m := map[string][]string{}
	for i, p := range prefix {
		m[p] = append(m[p], item[i])
	}
	keys := []string{}
	for k := range m {
		keys = append(keys, k)
	}
	sort.Strings(keys)
	out := []string{}
	for _, k := range keys {
		out = append(out, k+"["+strings.Join(m[k], ", ")+"]")
	}
	return strings.Join(out, " ")
}

// readvertised renders what the readvertisers were told, as sections of the final state:
//   - the number of commands sent to NLSR;
//   - the prefixes NLSR holds as advertised once all operations have completed = the last command
//     sent for each prefix (register / unregister);
//   - the commands per prefix in the order sent, with origin and cost;
//   - the NLSR readvertiser's own count of advertised routes per prefix (decides whether a later
//     withdrawal is passed on);
//   - the RIB's Announce/Withdraw notifications per prefix in the order delivered.
//
// After all operations completed each must be what SOME sequential order of the operations leaves
// (the same order that explains the tables).
func readvertised() string {
	cmds := mgmt.VerifReadvertised(rvTransport)
	var cp, ci []string
	last := map[string]string{}
	for _, c := range cmds {
		cp = append(cp, c.Prefix)
		ci = append(ci, c.Verb+" "+c.Args)
		last[c.Prefix] = c.Verb
	}
	var net []string
	for p, v := range last {
		net = append(net, p+"="+v)
	}
	sort.Strings(net)
	var cnt []string
	for _, n := range []string{"/", "/a", "/a/b", "/d", "/e", "/q", "/r"} {
		if c := rvNlsr.VerifAdvertisedCount(nm(n)); c != 0 {
			cnt = append(cnt, fmt.Sprintf("%s=%d", n, c))
		}
	}
	var ep, ei []string
	rvEvents.mu.Lock()
	for _, e := range rvEvents.ev {
		ep = append(ep, e.prefix)
		ei = append(ei, e.what)
	}
	rvEvents.mu.Unlock()
	return fmt.Sprintf("readvertised commands:%d", len(cmds)) +
		SecSep + "readvertised prefixes NLSR is left with (last command per prefix):" + strings.Join(net, ",") +
		SecSep + "readvertised commands per prefix in the order sent:" + perPrefix(cp, ci) +
		SecSep + "readvertiser count of advertised routes:" + strings.Join(cnt, ",") +
		SecSep + "readvertise notifications of the RIB per prefix in the order delivered:" + perPrefix(ep, ei)
}

// ReadvertiseSection reports whether a section name (DiffSections) is one of readvertised().
func ReadvertiseSection(sec string) bool { return strings.HasPrefix(sec, "readvertis") }

// again: for every lookup operation (by name) the same lookup as a plain read.
var again = map[string]func() string{}

// FinalFor is the observable final state of the tables after the operations of s: first every
// lookup the threads of s issued is issued once more (per thread, its last lookup first - a
// forwarding thread that repeats what it last asked, now that nothing is in flight any more, must
// get the answer of the final tables; whatever an implementation remembers between two lookups
// is most visible to exactly these), then the fixed universe of Final.
func FinalFor(s Scenario) string {
	ff := finalFaces()
	var nhAgain, stAgain strings.Builder
	for t, prog := range s.Threads {
		for k := len(prog) - 1; k >= 0; k-- {
			if f, ok := again[prog[k].Name]; ok {
				w := &nhAgain
				if prog[k].Kind == "LookupStrategy" {
					w = &stAgain
				}
				fmt.Fprintf(w, "t%d %s={%s} ", t, prog[k].Name, f())
			}
		}
	}
	return "faces by id (asked first):" + ff + SecSep + "next hops (the threads' lookups repeated):" + nhAgain.String() + SecSep + "strategy choices (the threads' lookups repeated):" + stAgain.String() + SecSep + Final()
}

// SecSep separates the sections of a final state; every section is "<what it observes>:<value>".
const SecSep = " | "

// DiffSections names the sections in which two final states differ.
func DiffSections(a, b string) []string {
	sa, sb := strings.Split(a, SecSep), strings.Split(b, SecSep)
	var out []string
	for i := range sa {
		if i >= len(sb) || sa[i] != sb[i] {
			out = append(out, strings.SplitN(sa[i], ":", 2)[0])
		}
	}
	return out
}

// Final is the observable final state of the tables.
func Final() string {
	var nh, st strings.Builder
	// (first, before any other lookup: the face and dispatch tables under every id)
	ff := finalFaces()
	for _, n := range []string{"/", "/a", "/a/b", "/a/b/c", "/a/zz", "/zz", "/c", "/c/zz", "/e", "/e/x", "/d", "/d/x", "/r", "/q"} {
		// (plain reads: observing the final state keeps nothing)
		fmt.Fprintf(&nh, "%s=>{%s} ", n, nhStr(table.FibStrategyTable.FindNextHopsEnc(nm(n))))
		fmt.Fprintf(&st, "%s=>%s ", n, stStr(table.FibStrategyTable.FindStrategyEnc(nm(n))))
	}
	var b strings.Builder
	b.WriteString("next hops:" + nh.String() + SecSep + "strategy choices in effect:" + st.String() + SecSep + "FIB entries:" + ListFib().Run(func() {}) + SecSep + "RIB routes:" + ListRib().Run(func() {}) + SecSep + "strategy choices listed:" + listStrategies())
	// face table and dispatch table: registered ids (each face under its own id)
	ids := []string{}
	for _, l := range face.FaceTable.GetAll() {
		ok := face.FaceTable.Get(l.FaceID()) == l && dispatch.GetFace(l.FaceID()) != nil
		ids = append(ids, fmt.Sprintf("%d=%v", l.FaceID(), ok))
	}
	sort.Strings(ids)
	b.WriteString(SecSep + "faces listed:" + strings.Join(ids, ",") + SecSep + "faces by id:" + ff)
	b.WriteString(SecSep + readvertised())
	return b.String()
}

const (
	CI  = table.RouteFlagChildInherit
	CAP = table.RouteFlagCapture
)

// All returns the scenario list: every pair and selected triples over thread programs that are
// forced to collide on /a, /a/b and faces 1,2.
func All(thorough bool) []Scenario {
	// the last two are client-origin routes (readvertised to NLSR) of two faces on one prefix
	init := []Op{RibAdd("/a", 1, 0, 1, CI), RibAdd("/a/b", 2, 0, 2, CI), RibAdd("/a", 2, 0, 5, 0),
		RibAdd("/r", 1, table.RouteOriginClient, 1, 0), RibAdd("/r", 2, table.RouteOriginClient, 1, 0)}
	progs := map[string][]Op{
		"M1": {RibAdd("/a/b", 1, 0, 3, CI)},
		"M2": {RibRemove("/a", 1, 0)},
		"M3": {RibAdd("/a", 3, 0, 1, CI)},
		"M4": {RibRemove("/a/b", 2, 0), RibAdd("/a/b", 2, 0, 7, 0)},
		"M5": {RibRemove("/r", 1, table.RouteOriginClient), RibAdd("/r", 3, table.RouteOriginClient, 2, 0)},
		"X1": {FibInsert("/a", 4, 7)},
		"X2": {FibRemove("/a", 1)},
		"X3": {FibInsert("/a", 1, 9)},
		"X4": {FibInsert("/a", 4, 8)},
		"S1": {SetStrategy("/a")},
		"S2": {SetStrategy("/a/b"), UnsetStrategy("/a/b")},
		"S3": {SetStrategy("/a/b")}, // a choice that STAYS, set on a leaf entry with next hops and no choice of its own
		"A1": {FaceAdd(0)},
		"A2": {FaceAdd(1), FaceDownOwn(1)},
		"F1": {FaceDown(1)},
		"F2": {FaceDown(2)},
		"P1": {FaceProbe()},
		// readvertised (client-origin) routes: registration, unregistration and teardown of the SAME
		// (prefix, face) - on /q, which nothing else advertises (every announce/withdraw becomes a
		// command to NLSR), and on /r, which two other faces keep advertised (the readvertiser only
		// counts) - and a second registration of the same route (the update path)
		"R1": {RibAdd("/q", 3, table.RouteOriginClient, 2, 0)},
		"R2": {RibRemove("/q", 3, table.RouteOriginClient)},
		"R3": {FaceDown(3)},
		"R4": {RibAdd("/r", 3, table.RouteOriginClient, 2, 0)},
		"R5": {RibRemove("/r", 3, table.RouteOriginClient)},
		"R6": {RibAdd("/q", 3, table.RouteOriginClient, 9, CI)},
		"R7": {RibAdd("/q", 3, table.RouteOriginClient, 4, 0), RibRemove("/q", 3, table.RouteOriginClient)},
		"L1": {Lookup("/a/b")},
		"L2": {Lookup("/a/zz"), LookupStrategy("/a/b")},
		"L3": {Lookup("/a/b/c"), Lookup("/a")},
	}
	keys := []string{}
	for k := range progs {
		keys = append(keys, k)
	}
	sort.Strings(keys)
	var out []Scenario
	// Dataset listings (fib/list, rib/list) are not among the operations the property names
	// (registration/removal, face teardown, FIB/strategy updates, forwarding lookups); they are
	// used only to observe the final state.
	isReader := func(k string) bool { return k[0] == 'L' || k[0] == 'P' }
	quickR := map[string]bool{}
	for _, k := range []string{"R1R2", "R1R3", "R1R6", "R1R7", "R2R6", "R2R7", "R3R6", "R3R7", "R6R7", "R4R5", "R3R4", "M5R4", "M5R5", "F1R4"} {
		quickR[k] = true // same (prefix, face) on both sides, or the same prefix and the counting path
	}
	for i, a := range keys {
		for _, b := range keys[i+1:] {
			if isReader(a) && isReader(b) {
				continue
			}
			// (quick tier: the readvertised-route programs R* against each other, against the other
			// client-origin program M5 and against the teardowns of the faces that keep /r advertised;
			// the thorough tier pairs them with everything)
			if !thorough && (a[0] == 'R' || b[0] == 'R') && !quickR[a+b] {
				continue
			}
			out = append(out, Scenario{Name: a + "||" + b, Init: init, Threads: [][]Op{progs[a], progs[b]}})
		}
	}
	triples := [][3]string{{"M1", "F1", "L1"}, {"M2", "M3", "L3"}, {"M1", "L1", "L3"}, {"X3", "X1", "L3"}, {"F1", "F2", "L1"}, {"M4", "F2", "L3"}, {"R1", "R2", "R3"}}
	if thorough {
		triples = append(triples, [3]string{"R4", "R5", "F1"}, [3]string{"R1", "R6", "R2"}, [3]string{"R7", "R3", "R6"}, [3]string{"M1", "M2", "L1"}, [3]string{"M3", "F1", "L2"}, [3]string{"X2", "M2", "L3"}, [3]string{"S1", "S2", "L2"}, [3]string{"M4", "M1", "L1"}, [3]string{"F1", "M3", "L3"})
	}
	for _, t := range triples {
		out = append(out, Scenario{Name: t[0] + "||" + t[1] + "||" + t[2], Init: init, Threads: [][]Op{progs[t[0]], progs[t[1]], progs[t[2]]}})
	}
	// Second family, started from a state with leftovers of earlier removals: /a was registered and
	// unregistered while /a/b exists below it (the RIB keeps a route-less /a node, the FIB has pruned
	// its /a entry), and /c holds a single next hop (its removal prunes the entry). The programs are
	// the operations whose corner cases live there: repeated unregistration, removal of the last
	// next hop from two sides, re-creation while a removal is in flight.
	initB := []Op{RibAdd("/a", 1, 0, 1, CI), RibAdd("/a/b", 2, 0, 2, CI), RibRemove("/a", 1, 0), FibInsert("/c", 1, 1), FibInsert("/c", 2, 1)}
	progsB := map[string][]Op{
		"N1": {RibRemove("/a", 1, 0)},
		"N2": {RibAdd("/a", 2, 0, 4, CI)},
		"N3": {RibRemove("/a/b", 2, 0)},
		"N4": {RibRemove("/a/b", 2, 0), RibAdd("/a/b", 1, 0, 3, 0)},
		"N5": {FibRemove("/c", 1), FibRemove("/c", 2)},
		"N6": {FibRemove("/c", 2), FibRemove("/c", 1)},
		"N7": {FibInsert("/c", 2, 6)},
		"NF": {FaceDown(2)},
		"NL": {Lookup("/a/b"), Lookup("/c")},
	}
	keysB := []string{}
	for k := range progsB {
		keysB = append(keysB, k)
	}
	sort.Strings(keysB)
	for i, a := range keysB {
		for _, b := range keysB[i+1:] {
			out = append(out, Scenario{Name: "B:" + a + "||" + b, Init: initB, Threads: [][]Op{progsB[a], progsB[b]}})
		}
	}
	triplesB := [][3]string{{"N5", "N6", "NL"}, {"N1", "N2", "NF"}, {"N3", "N4", "NL"}}
	if thorough {
		triplesB = append(triplesB, [3]string{"N5", "N6", "N7"}, [3]string{"N1", "N3", "NF"}, [3]string{"N2", "N4", "NL"})
	}
	for _, t := range triplesB {
		out = append(out, Scenario{Name: "B:" + t[0] + "||" + t[1] + "||" + t[2], Init: initB, Threads: [][]Op{progsB[t[0]], progsB[t[1]], progsB[t[2]]}})
	}
	// Third family, started from a state in which strategy choices ALREADY exist (on an entry with
	// next hops: /a multicast, /a/b best-route; on an entry without: /c; and the default on "/"):
	// the updates re-point an existing choice to the other strategy (and back), unset and set again,
	// create and prune a strategy-only entry, remove the last next hop of an entry that keeps its
	// choice - each racing with strategy and next-hop lookups whose results are kept by reference.
	initC := append(append([]Op{}, init...), SetStrategyTo("/a", "mc"), SetStrategyTo("/a/b", "br"), SetStrategyTo("/c", "mc"))
	progsC := map[string][]Op{
		"T1": {SetStrategyTo("/a", "br")},
		"T2": {SetStrategyTo("/a/b", "mc"), SetStrategyTo("/a/b", "br")},
		"T3": {SetStrategyTo("/", "mc")},
		"T4": {UnsetStrategy("/a/b"), SetStrategyTo("/a/b", "mc")},
		"T5": {UnsetStrategy("/c"), SetStrategyTo("/c", "br")},
		"T6": {FibRemove("/a/b", 2), FibInsert("/a/b", 3, 4)},
		"T7": {SetStrategyTo("/a", "mc")},
		"TL": {LookupStrategy("/a/b/c"), LookupStrategy("/a/zz")},
		"TM": {LookupStrategy("/zz"), LookupStrategy("/c/zz"), Lookup("/a/b")},
		"TN": {Lookup("/a/b/c"), Lookup("/a/b")}, // two lookups answered from the same entry: the later one must not rewrite what the earlier one returned
	}
	keysC := []string{}
	for k := range progsC {
		keysC = append(keysC, k)
	}
	sort.Strings(keysC)
	for i, a := range keysC {
		for _, b := range keysC[i+1:] {
			// (pairs of lookup-only programs included: two forwarding threads that only look things
			// up must not disturb each other either; the free-running -race pass is their judge)
			out = append(out, Scenario{Name: "C:" + a + "||" + b, Init: initC, Threads: [][]Op{progsC[a], progsC[b]}})
		}
	}
	triplesC := [][3]string{{"T1", "T2", "TL"}, {"T3", "T5", "TM"}, {"T1", "T7", "TL"}}
	if thorough {
		triplesC = append(triplesC, [3]string{"T2", "T4", "TL"}, [3]string{"T4", "T6", "TM"}, [3]string{"T1", "TL", "TM"})
	}
	for _, t := range triplesC {
		out = append(out, Scenario{Name: "C:" + t[0] + "||" + t[1] + "||" + t[2], Init: initC, Threads: [][]Op{progsC[t[0]], progsC[t[1]], progsC[t[2]]}})
	}
	// Fourth family: teardown of faces that really are registered (face table + dispatch table) and
	// own routes, through the real face.Table.Remove (the link service's goroutine) and the real
	// faces/destroy command, against the face-guarded registration commands of the management thread
	// (rib/register, fib/add-nexthop with an explicit FaceId: "410 unless FaceTable.Get(id) != nil"),
	// unregistration, self-registration on the arrival face, lookups and face probes. Two teardowns
	// of the SAME face are included (faces/destroy + the link service stopping, or two goroutines
	// calling Remove), followed in the same thread by what a lookup / a face probe sees once that
	// teardown has returned. At most one thread of a scenario is the management thread (the daemon
	// has one), and the management thread does not issue forwarding lookups.
	initD := []Op{FaceAdd(0), FaceAdd(1), RibAddSlot("/a", 0, 0, 1, CI), RibAddSlot("/a/b", 1, 0, 2, CI), RibAddSlot("/a", 1, 0, 5, 0),
		RibAddSlot("/r", 0, table.RouteOriginClient, 1, 0), RibAddSlot("/r", 1, table.RouteOriginClient, 1, 0)}
	progsD := map[string][]Op{
		"D1": {FaceDownOwn(0)},
		"D2": {FaceDownOwn(0), DispatchAlive(0), Lookup("/a")},
		"D3": {FaceDownOwn(1)},
		"D4": {FaceDownOwn(1), FaceAlive(1), Lookup("/a/b/c")},
		"G1": {MgmtRegister("/a/b", 0, 0, 3, CI)},
		"G2": {MgmtRegister("/d", 0, 0, 1, 0)},
		"G3": {MgmtFibAdd("/a", 0, 9)},
		"G4": {MgmtUnregister("/a", 0, 0), MgmtRegister("/a", 0, 0, 2, CI)},
		"G5": {MgmtRegisterSelf("/d", 0, 0, 1, CI)},
		"G6": {MgmtDestroy(0)},
		"G7": {MgmtDestroy(1), MgmtRegister("/a", 1, 0, 4, CI)},
		"G8": {MgmtFibRemove("/a", 0), MgmtFibAdd("/d", 1, 2)},
		"DL": {Lookup("/a/b"), Lookup("/a")},
		// (one lookup only: the clean-up recomputes sibling prefixes in map order, and the property asks
		// of EACH lookup a state between the operations overlapping it, not one state for two lookups
		// of sibling prefixes; nested prefixes, recomputed top-down, are read by DL)
		"DM": {Lookup("/d/x")},
		// forwarding threads that look next hops up and hand packets to the faces (/a resolves to both
		// faces, so the dispatch lookups alternate between two ids) / whose packets alternate between
		// two faces, and the management thread resolving FaceIds: judged through the final tables
		"DN": {Lookup("/a"), DispatchProbe(1, 0, 1)},
		"DP": {DispatchProbe(0, 1, 0)},
		"DQ": {DispatchProbe(1, 0, 1)},
		"DR": {TableProbe(0, 1, 0, 1)},
		// strategy choices through the real strategy-choice handlers, on the prefix whose only route
		// belongs to the face being torn down (G9) and on one that keeps a route (GA)
		"G9": {MgmtStrategySet("/a/b", "mc")},
		"GA": {MgmtStrategySet("/a", "br"), MgmtStrategyUnset("/a")},
		// readvertised (client-origin) routes of the face being torn down: a new prefix registered
		// (guarded by the face / on the arrival face), the existing route on /r unregistered and
		// registered again
		"GC": {MgmtRegister("/q", 0, table.RouteOriginClient, 1, 0)},
		"GD": {MgmtUnregister("/r", 0, table.RouteOriginClient), MgmtRegister("/r", 0, table.RouteOriginClient, 3, 0)},
		"GE": {MgmtRegisterSelf("/q", 0, table.RouteOriginClient, 1, 0)},
		"GF": {MgmtRegister("/q", 1, table.RouteOriginClient, 1, 0), MgmtUnregister("/q", 1, table.RouteOriginClient)},
	}
	keysD := []string{}
	for k := range progsD {
		// (quick tier: the second face's teardown-then-lookup, the unguarded self-registration and the
		// next-hop removal are left to the thorough tier)
		if !thorough && (k == "D4" || k == "G5" || k == "G8" || k == "DQ" || k == "DR" || k == "GA" || k == "GE" || k == "GF") {
			continue
		}
		keysD = append(keysD, k)
	}
	sort.Strings(keysD)
	for i, a := range keysD {
		for _, b := range keysD[i+1:] {
			if (a[0] == 'G' && b[0] == 'G') || (a[1] >= 'L' && b[1] >= 'L' && a[0] == 'D' && b[0] == 'D') {
				continue // one management thread; two reader-only threads are family C's subject
			}
			// (quick tier: the readvertised registrations only against the teardowns)
			if !thorough && (a == "GC" || a == "GD" || b == "GC" || b == "GD") && !(a[0] == 'D' && a[1] <= '9' || b[0] == 'D' && b[1] <= '9') {
				continue
			}
			out = append(out, Scenario{Name: "D:" + a + "||" + b, Init: initD, Threads: [][]Op{progsD[a], progsD[b]}})
		}
	}
	triplesD := [][3]string{{"D1", "G6", "DL"}, {"D1", "G2", "DM"}}
	if thorough {
		triplesD = append(triplesD, [3]string{"D1", "D2", "G1"}, [3]string{"D3", "G7", "DL"}, [3]string{"D1", "D2", "DL"}, [3]string{"D3", "D4", "G7"}, [3]string{"D1", "G4", "DL"}, [3]string{"D1", "D3", "G1"}, [3]string{"D2", "G5", "DM"}, [3]string{"D1", "G3", "DL"}, [3]string{"D2", "G6", "DM"})
	}
	for _, t := range triplesD {
		out = append(out, Scenario{Name: "D:" + t[0] + "||" + t[1] + "||" + t[2], Init: initD, Threads: [][]Op{progsD[t[0]], progsD[t[1]], progsD[t[2]]}})
	}
	out = append(out, familyE(thorough)...)
	return out
}

// familyE: the life cycle of ONE FIB/strategy entry. Every operation of a scenario addresses the
// same prefix /e, a leaf without children, and the scenarios are repeated for every shape the
// entry can start in: {no entry, one next hop, two next hops} x {no strategy choice, a choice}
// (next hops derived from RIB routes of faces 1 and 2, so that every removal path applies: route
// unregistration, face teardown, fib/remove-nexthop). The thread programs are the single updates -
// set / re-point / unset the choice, add / remove a route, insert / remove a next hop, tear a face
// down - and the two-step programs that remove and re-create; all pairs, plus a reader. This is
// where an entry is created by one operation while another prunes it, or is pruned between two
// steps of an operation that looked it up first.
func familyE(thorough bool) []Scenario {
	type shape struct {
		name string
		init []Op
	}
	var shapes []shape
	for _, hops := range []int{0, 1, 2} {
		for _, st := range []bool{false, true} {
			var init []Op
			// a sibling entry that stays, so that the tables are never empty
			init = append(init, RibAdd("/a", 1, 0, 1, CI))
			if hops >= 1 {
				init = append(init, RibAdd("/e", 1, 0, 1, 0))
			}
			if hops >= 2 {
				init = append(init, RibAdd("/e", 2, 0, 2, 0))
			}
			if st {
				init = append(init, SetStrategyTo("/e", "br"))
			}
			n := fmt.Sprintf("h%d", hops)
			if st {
				n += "s"
			}
			shapes = append(shapes, shape{n, init})
		}
	}
	progs := map[string][]Op{
		"W1": {SetStrategyTo("/e", "mc")},
		"W2": {SetStrategyTo("/e", "br")},
		"W3": {UnsetStrategy("/e")},
		"W4": {RibRemove("/e", 1, 0)},
		"W5": {FaceDown(1)},
		"W6": {FibRemove("/e", 1)},
		"W7": {RibAdd("/e", 2, 0, 3, 0)},
		"W8": {FibInsert("/e", 3, 4)},
		"W9": {RibRemove("/e", 1, 0), RibAdd("/e", 1, 0, 6, 0)},
		"WA": {UnsetStrategy("/e"), SetStrategyTo("/e", "mc")},
		"WB": {RibRemove("/e", 2, 0)},
		// a readvertised (client-origin) route of face 2 on /e: registered, unregistered, its face
		// torn down, registered and unregistered again by one thread
		"WC": {RibAdd("/e", 2, table.RouteOriginClient, 3, 0)},
		"WD": {RibRemove("/e", 2, table.RouteOriginClient)},
		"WE": {FaceDown(2)},
		"WG": {RibAdd("/e", 2, table.RouteOriginClient, 5, 0), RibRemove("/e", 2, table.RouteOriginClient)},
		"WL": {LookupStrategy("/e/x"), Lookup("/e/x")},
	}
	keys := []string{}
	for k := range progs {
		keys = append(keys, k)
	}
	sort.Strings(keys)
	isStrategy := func(k string) bool { return k == "W1" || k == "W2" || k == "W3" || k == "WA" }
	var out []Scenario
	for _, sh := range shapes {
		// quick tier: the shapes in which /e has at most one next hop (every removal is the removal of
		// the last one); the two-hop shapes are left to the thorough tier
		if !thorough && strings.HasPrefix(sh.name, "h2") {
			continue
		}
		for i, a := range keys {
			for _, b := range keys[i+1:] {
				// quick tier: the pairs in which at least one side is a strategy update or the reader
				// (pairs of two route/next-hop updates on one prefix are families A and B's subject and
				// are repeated here, per shape, in the thorough tier); of the second "set" program W2 and
				// the removal of face 2's route only W1||W2 (two sets colliding)
				isRv := func(k string) bool { return k == "WC" || k == "WD" || k == "WE" || k == "WG" }
				if !thorough && (isRv(a) || isRv(b)) {
					// quick tier: the readvertised-route programs against each other only, and only from
					// the shapes without a strategy choice (WD||WE: two removals of a route that is not there)
					if !(isRv(a) && isRv(b)) || a+b == "WDWE" || strings.HasSuffix(sh.name, "s") {
						continue
					}
				} else if !thorough && !isStrategy(a) && !isStrategy(b) && a != "WL" && b != "WL" {
					continue
				}
				if !thorough && (a == "WB" || b == "WB" || ((a == "W2" || b == "W2") && a+b != "W1W2")) {
					continue
				}
				out = append(out, Scenario{Name: "E:" + sh.name + ":" + a + "||" + b, Init: sh.init, Threads: [][]Op{progs[a], progs[b]}})
			}
		}
		triples := [][3]string{{"W1", "W4", "WL"}, {"W3", "W6", "WL"}}
		if thorough {
			triples = append(triples, [3]string{"W1", "W5", "W7"}, [3]string{"WA", "W9", "WL"}, [3]string{"W2", "W3", "W4"}, [3]string{"W1", "W6", "W8"})
		}
		for _, t := range triples {
			out = append(out, Scenario{Name: "E:" + sh.name + ":" + t[0] + "||" + t[1] + "||" + t[2], Init: sh.init, Threads: [][]Op{progs[t[0]], progs[t[1]], progs[t[2]]}})
		}
	}
	return out
}

var rvProg = regexp.MustCompile(`(^|:|\|)(R[0-9]|G[C-F]|W[CDEG])(\||$)`)

// Readvertised reports whether a scenario contains one of the thread programs that register,
// unregister or tear down a readvertised (client-origin) route of their own (R*, GC-GF, WC-WG).
func Readvertised(name string) bool { return rvProg.MatchString(name) }

// Family is the scenario family a scenario name belongs to ("A", "B", "C", "D", "E").
func Family(name string) string {
	if len(name) > 2 && name[1] == ':' {
		return name[:1]
	}
	return "A"
}
