// Package scn holds the concurrent scenario bodies of C16. The SAME bodies are executed (a) under
// the controlled scheduler (fw/table's sync redirected to vsync; every interleaving up to a
// preemption bound) and (b) free-running with the real sync package under the Go race detector.
package scn

import (
	"fmt"
	"sort"
	"strings"

	"github.com/named-data/ndnd/fw/dispatch"
	"github.com/named-data/ndnd/fw/face"
	"github.com/named-data/ndnd/fw/mgmt"
	"github.com/named-data/ndnd/fw/table"
	enc "github.com/named-data/ndnd/std/encoding"
	ndnlog "github.com/named-data/ndnd/std/log"
)

func nm(s string) enc.Name {
	n, err := enc.NameFromStr(s)
	if err != nil {
		panic(err)
	}
	return n
}

var (
	mc = "/localhost/nfd/strategy/multicast/v=1"
)

// Op is one API call as a user of the tables sees it.
type Op struct {
	Kind string // root-cause level class (RibAdd, RibRemove, FaceDown, FibInsert, FibRemove, SetStrategy, UnsetStrategy, Lookup, LookupStrategy, ListFib, ListRib)
	Name string // printable, with arguments
	// Run performs the call; yield() is a scheduling point placed between obtaining a result and
	// consuming it (the forwarder iterates lookup results after the table lock was released).
	Run func(yield func()) string
}

func nhStr(nh []*table.FibNextHopEntry) string {
	x := make([]string, 0, len(nh))
	for _, h := range nh {
		if h == nil {
			x = append(x, "nil")
			continue
		}
		x = append(x, fmt.Sprintf("%d:%d", h.Nexthop, h.Cost))
	}
	sort.Strings(x)
	return strings.Join(x, ",")
}

func RibAdd(p string, f, o, c, fl uint64) Op {
	return Op{"RibAdd", fmt.Sprintf("RibAdd(%s,f%d,o%d,c%d,fl%d)", p, f, o, c, fl), func(func()) string {
		table.Rib.AddEncRoute(nm(p), &table.Route{FaceID: f, Origin: o, Cost: c, Flags: fl})
		return ""
	}}
}
func RibRemove(p string, f, o uint64) Op {
	return Op{"RibRemove", fmt.Sprintf("RibRemove(%s,f%d,o%d)", p, f, o), func(func()) string {
		table.Rib.RemoveRouteEnc(nm(p), f, o)
		return ""
	}}
}
func FaceDown(f uint64) Op {
	return Op{"FaceDown", fmt.Sprintf("FaceDown(f%d)", f), func(func()) string {
		face.FaceTable.Remove(f)
		return ""
	}}
}

// FaceAdd registers a new face (a null link service on a null transport) in the face table; the
// result is the face id it was given. The id is remembered in slot so that the same thread can
// tear down its own face later (a face is only ever removed after it was added).
var addedSlot [4]uint64

func FaceAdd(slot int) Op {
	return Op{"FaceAdd", fmt.Sprintf("FaceAdd(#%d)", slot), func(func()) string {
		l := face.MakeNullLinkService(face.MakeNullTransport())
		face.FaceTable.Add(l)
		addedSlot[slot] = l.FaceID()
		return fmt.Sprint("id=", l.FaceID())
	}}
}

// FaceProbe is what a forwarding or management thread does with a face id it got from a packet or
// a command: look the face up in the face table and in the dispatch table and use its id. A face
// that can be found must already carry the id it was found under. (The face table and the dispatch
// table are two structures and Add() is not atomic over both - the property does not ask for that -
// so the result reports only a face found under an id it does not carry.)
func FaceProbe() Op {
	return Op{"FaceProbe", "FaceProbe()", func(yield func()) string {
		out := []string{}
		for id := uint64(10); id < 13; id++ {
			if l := face.FaceTable.Get(id); l != nil {
				yield()
				if l.FaceID() != id {
					out = append(out, fmt.Sprintf("table[%d].FaceID()=%d", id, l.FaceID()))
				}
			}
			if d := dispatch.GetFace(id); d != nil {
				yield()
				if d.FaceID() != id {
					out = append(out, fmt.Sprintf("dispatch[%d].FaceID()=%d", id, d.FaceID()))
				}
			}
		}
		return strings.Join(out, ",")
	}}
}

// FaceDownOwn tears down the face this thread added in slot.
func FaceDownOwn(slot int) Op {
	return Op{"FaceDown", fmt.Sprintf("FaceDownOwn(#%d)", slot), func(func()) string {
		face.FaceTable.Remove(addedSlot[slot])
		return ""
	}}
}

func FibInsert(p string, f, c uint64) Op {
	return Op{"FibInsert", fmt.Sprintf("FibInsert(%s,f%d,c%d)", p, f, c), func(func()) string {
		table.FibStrategyTable.InsertNextHopEnc(nm(p), f, c)
		return ""
	}}
}
func FibRemove(p string, f uint64) Op {
	return Op{"FibRemove", fmt.Sprintf("FibRemove(%s,f%d)", p, f), func(func()) string {
		table.FibStrategyTable.RemoveNextHopEnc(nm(p), f)
		return ""
	}}
}
func SetStrategy(p string) Op {
	return Op{"SetStrategy", fmt.Sprintf("SetStrategy(%s,mc)", p), func(func()) string {
		table.FibStrategyTable.SetStrategyEnc(nm(p), nm(mc))
		return ""
	}}
}
func UnsetStrategy(p string) Op {
	return Op{"UnsetStrategy", fmt.Sprintf("UnsetStrategy(%s)", p), func(func()) string {
		table.FibStrategyTable.UnSetStrategyEnc(nm(p))
		return ""
	}}
}
func Lookup(n string) Op {
	return Op{"Lookup", fmt.Sprintf("Lookup(%s)", n), func(yield func()) string {
		nh := table.FibStrategyTable.FindNextHopsEnc(nm(n))
		yield()
		return nhStr(nh)
	}}
}
func LookupStrategy(n string) Op {
	return Op{"LookupStrategy", fmt.Sprintf("LookupStrategy(%s)", n), func(yield func()) string {
		s := table.FibStrategyTable.FindStrategyEnc(nm(n))
		yield()
		if s == nil {
			return "nil"
		}
		return s.String()
	}}
}
func ListFib() Op {
	return Op{"ListFib", "ListFib()", func(yield func()) string {
		es := table.FibStrategyTable.GetAllFIBEntries()
		yield()
		out := []string{}
		for _, e := range es {
			out = append(out, e.Name().String()+"->"+nhStr(e.GetNextHops()))
		}
		sort.Strings(out)
		return strings.Join(out, ";")
	}}
}
func ListRib() Op {
	return Op{"ListRib", "ListRib()", func(yield func()) string {
		es := table.Rib.GetAllEntries()
		yield()
		out := []string{}
		for _, e := range es {
			for _, r := range e.GetRoutes() {
				out = append(out, fmt.Sprintf("%s f%d o%d c%d fl%d", e.Name.String(), r.FaceID, r.Origin, r.Cost, r.Flags))
			}
		}
		sort.Strings(out)
		return strings.Join(out, ";")
	}}
}

// Scenario: initial sequential ops, then threads each running its ops in order.
type Scenario struct {
	Name    string
	Init    []Op
	Threads [][]Op
}

// Setup creates fresh global tables for the chosen FIB implementation and runs the Init ops.
func Setup(fib string, s Scenario) {
	ndnlog.SetLevel(ndnlog.FatalLevel)
	if fib == "tree" {
		table.VerifNewFibTree()
	} else {
		table.VerifNewFibHT(2)
	}
	table.VerifResetRib()
	face.VerifResetFaceTable()
	addedSlot = [4]uint64{}
	// the real NLSR readvertiser is registered with the RIB, as with readvertise_nlsr=true
	var rv *mgmt.NlsrReadvertiser
	rv, rvTransport = mgmt.VerifNewReadvertiser()
	table.VerifResetReadvertisers(rv)
	for _, op := range s.Init {
		op.Run(func() {})
	}
}

var rvTransport *face.InternalTransport

// Final is the observable final state of the tables.
func Final() string {
	var b strings.Builder
	for _, n := range []string{"/", "/a", "/a/b", "/a/b/c", "/a/zz", "/zz", "/c", "/c/zz"} {
		fmt.Fprintf(&b, "%s=>{%s}/%s ", n, nhStr(table.FibStrategyTable.FindNextHopsEnc(nm(n))), LookupStrategy(n).Run(func() {}))
	}
	b.WriteString("| " + ListFib().Run(func() {}) + " | " + ListRib().Run(func() {}))
	// face table and dispatch table: registered ids (each face under its own id)
	ids := []string{}
	for _, l := range face.FaceTable.GetAll() {
		ok := face.FaceTable.Get(l.FaceID()) == l && dispatch.GetFace(l.FaceID()) != nil
		ids = append(ids, fmt.Sprintf("%d:%v", l.FaceID(), ok))
	}
	sort.Strings(ids)
	b.WriteString(" | faces " + strings.Join(ids, ","))
	fmt.Fprintf(&b, " | readvertised commands %d", rvTransport.VerifSendQueueLen())
	return b.String()
}

const (
	CI  = table.RouteFlagChildInherit
	CAP = table.RouteFlagCapture
)

// All returns the scenario list: every pair and selected triples over thread programs that are
// forced to collide on /a, /a/b and faces 1,2.
func All(thorough bool) []Scenario {
	// the last two are client-origin routes (readvertised to NLSR) of two faces on one prefix
	init := []Op{RibAdd("/a", 1, 0, 1, CI), RibAdd("/a/b", 2, 0, 2, CI), RibAdd("/a", 2, 0, 5, 0),
		RibAdd("/r", 1, table.RouteOriginClient, 1, 0), RibAdd("/r", 2, table.RouteOriginClient, 1, 0)}
	progs := map[string][]Op{
		"M1": {RibAdd("/a/b", 1, 0, 3, CI)},
		"M2": {RibRemove("/a", 1, 0)},
		"M3": {RibAdd("/a", 3, 0, 1, CI)},
		"M4": {RibRemove("/a/b", 2, 0), RibAdd("/a/b", 2, 0, 7, 0)},
		"M5": {RibRemove("/r", 1, table.RouteOriginClient), RibAdd("/r", 3, table.RouteOriginClient, 2, 0)},
		"X1": {FibInsert("/a", 4, 7)},
		"X2": {FibRemove("/a", 1)},
		"X3": {FibInsert("/a", 1, 9)},
		"X4": {FibInsert("/a", 4, 8)},
		"S1": {SetStrategy("/a")},
		"S2": {SetStrategy("/a/b"), UnsetStrategy("/a/b")},
		"A1": {FaceAdd(0)},
		"A2": {FaceAdd(1), FaceDownOwn(1)},
		"F1": {FaceDown(1)},
		"F2": {FaceDown(2)},
		"P1": {FaceProbe()},
		"L1": {Lookup("/a/b")},
		"L2": {Lookup("/a/zz"), LookupStrategy("/a/b")},
		"L3": {Lookup("/a/b/c"), Lookup("/a")},
	}
	keys := []string{}
	for k := range progs {
		keys = append(keys, k)
	}
	sort.Strings(keys)
	var out []Scenario
	// Dataset listings (fib/list, rib/list) are not among the operations the property names
	// (registration/removal, face teardown, FIB/strategy updates, forwarding lookups); they are
	// used only to observe the final state.
	isReader := func(k string) bool { return k[0] == 'L' || k[0] == 'P' }
	for i, a := range keys {
		for _, b := range keys[i+1:] {
			if isReader(a) && isReader(b) {
				continue
			}
			out = append(out, Scenario{Name: a + "||" + b, Init: init, Threads: [][]Op{progs[a], progs[b]}})
		}
	}
	triples := [][3]string{{"M1", "F1", "L1"}, {"M2", "M3", "L3"}, {"M1", "L1", "L3"}, {"X3", "X1", "L3"}, {"F1", "F2", "L1"}, {"M4", "F2", "L3"}}
	if thorough {
		triples = append(triples, [3]string{"M1", "M2", "L1"}, [3]string{"M3", "F1", "L2"}, [3]string{"X2", "M2", "L3"}, [3]string{"S1", "S2", "L2"}, [3]string{"M4", "M1", "L1"}, [3]string{"F1", "M3", "L3"})
	}
	for _, t := range triples {
		out = append(out, Scenario{Name: t[0] + "||" + t[1] + "||" + t[2], Init: init, Threads: [][]Op{progs[t[0]], progs[t[1]], progs[t[2]]}})
	}
	// Second family, started from a state with leftovers of earlier removals: /a was registered and
	// unregistered while /a/b exists below it (the RIB keeps a route-less /a node, the FIB has pruned
	// its /a entry), and /c holds a single next hop (its removal prunes the entry). The programs are
	// the operations whose corner cases live there: repeated unregistration, removal of the last
	// next hop from two sides, re-creation while a removal is in flight.
	initB := []Op{RibAdd("/a", 1, 0, 1, CI), RibAdd("/a/b", 2, 0, 2, CI), RibRemove("/a", 1, 0), FibInsert("/c", 1, 1), FibInsert("/c", 2, 1)}
	progsB := map[string][]Op{
		"N1": {RibRemove("/a", 1, 0)},
		"N2": {RibAdd("/a", 2, 0, 4, CI)},
		"N3": {RibRemove("/a/b", 2, 0)},
		"N4": {RibRemove("/a/b", 2, 0), RibAdd("/a/b", 1, 0, 3, 0)},
		"N5": {FibRemove("/c", 1), FibRemove("/c", 2)},
		"N6": {FibRemove("/c", 2), FibRemove("/c", 1)},
		"N7": {FibInsert("/c", 2, 6)},
		"NF": {FaceDown(2)},
		"NL": {Lookup("/a/b"), Lookup("/c")},
	}
	keysB := []string{}
	for k := range progsB {
		keysB = append(keysB, k)
	}
	sort.Strings(keysB)
	for i, a := range keysB {
		for _, b := range keysB[i+1:] {
			out = append(out, Scenario{Name: "B:" + a + "||" + b, Init: initB, Threads: [][]Op{progsB[a], progsB[b]}})
		}
	}
	triplesB := [][3]string{{"N5", "N6", "NL"}, {"N1", "N2", "NF"}, {"N3", "N4", "NL"}}
	if thorough {
		triplesB = append(triplesB, [3]string{"N5", "N6", "N7"}, [3]string{"N1", "N3", "NF"}, [3]string{"N2", "N4", "NL"})
	}
	for _, t := range triplesB {
		out = append(out, Scenario{Name: "B:" + t[0] + "||" + t[1] + "||" + t[2], Init: initB, Threads: [][]Op{progsB[t[0]], progsB[t[1]], progsB[t[2]]}})
	}
	return out
}
