//go:build verif

package face

import "github.com/named-data/ndnd/fw/dispatch"

// VerifResetFaceTable empties the global face table and the dispatch table and restarts face id
// allocation (what a fresh process starts with).
func VerifResetFaceTable() {
	FaceTable.faces.Range(func(k, _ any) bool { FaceTable.faces.Delete(k); return true })
	dispatch.FaceDispatch.Range(func(k, _ any) bool { dispatch.FaceDispatch.Delete(k); return true })
	FaceTable.nextFaceID.Store(10) // ids below 10 are used by the scenarios for routes of faces that are torn down
}

// VerifSetQueueSize sets the face queue size that Configure() would read from the configuration.
func VerifSetQueueSize(n int) { faceQueueSize = n }

// VerifSendQueueLen is the number of frames an internal component has sent and nobody consumed.
func (t *InternalTransport) VerifSendQueueLen() int { return len(t.sendQueue) }
