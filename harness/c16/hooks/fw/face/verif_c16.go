//go:build verif

package face

import "github.com/named-data/ndnd/fw/dispatch"

// VerifResetFaceTable empties the global face table and the dispatch table and restarts face id
// allocation (what a fresh process starts with). The faces are taken out through the real removal
// functions, for every id an execution can have used and not only for the ids still listed, so that
// whatever else the implementation keeps per face next to the two maps is invalidated the way the
// implementation itself invalidates it (executions must not inherit anything from each other).
// Called after the RIB was reset (Remove cleans the - then empty - RIB).
func VerifResetFaceTable() {
	ids := map[uint64]bool{}
	FaceTable.faces.Range(func(k, _ any) bool { ids[k.(uint64)] = true; return true })
	dispatch.FaceDispatch.Range(func(k, _ any) bool { ids[k.(uint64)] = true; return true })
	for _, id := range []uint64{0, 10, 11, 12, 13} { // (the face table hands out ids from 10)
		ids[id] = true
	}
	for id := uint64(0); id < 64; id++ { // (ascending: a deterministic order)
		if ids[id] {
			FaceTable.Remove(id)
			dispatch.RemoveFace(id)
		}
	}
	FaceTable.faces.Range(func(k, _ any) bool { FaceTable.faces.Delete(k); return true })
	dispatch.FaceDispatch.Range(func(k, _ any) bool { dispatch.FaceDispatch.Delete(k); return true })
	FaceTable.nextFaceID.Store(10) // ids below 10 are used by the scenarios for routes of faces that are torn down
}

// VerifSetQueueSize sets the face queue size that Configure() would read from the configuration.
func VerifSetQueueSize(n int) { faceQueueSize = n }

// VerifSendQueueLen is the number of frames an internal component has sent and nobody consumed.
func (t *InternalTransport) VerifSendQueueLen() int { return len(t.sendQueue) }

// VerifPeekSent returns the frames an internal component has sent and nobody consumed, in the
// order they were sent, and leaves them in the queue (called only while nothing else uses the
// transport).
func (t *InternalTransport) VerifPeekSent() [][]byte {
	n := len(t.sendQueue)
	out := make([][]byte, 0, n)
	for i := 0; i < n; i++ {
		f := <-t.sendQueue
		out = append(out, f)
		t.sendQueue <- f
	}
	return out
}
