//go:build verif

package mgmt

import (
	"fmt"

	"github.com/named-data/ndnd/fw/face"
	enc "github.com/named-data/ndnd/std/encoding"
	basic_engine "github.com/named-data/ndnd/std/engine/basic"
	ndn_mgmt "github.com/named-data/ndnd/std/ndn/mgmt_2022"
	spec "github.com/named-data/ndnd/std/ndn/spec_2022"
)

// VerifNewReadvertiser builds the real NLSR readvertiser on a management thread object that is
// not running: its commands go into the send queue of an internal transport nobody reads
// (VerifReadvertiserSent reports how many were sent).
func VerifNewReadvertiser() (*NlsrReadvertiser, *face.InternalTransport) {
	face.VerifSetQueueSize(4096)
	m := new(Thread)
	m.timer = basic_engine.NewTimer()
	m.transport = face.MakeInternalTransport()
	return NewNlsrReadvertiser(m), m.transport
}

// VerifReadvertised decodes the command Interests the readvertiser has sent to NLSR so far, in the
// order they were sent: "<verb> <prefix> origin=<o> cost=<c>" (verb = register / unregister, the
// prefix from the ControlParameters in the command name, origin and cost from the application
// parameters; "-" = absent). The frames stay in the queue.
func VerifReadvertised(t *face.InternalTransport) (out []VerifCmd) {
	for _, frame := range t.VerifPeekSent() {
		c := VerifCmd{Verb: "undecodable", Prefix: "?"}
		func() {
			pkt, _, err := spec.ReadPacket(enc.NewBufferReader(frame))
			if err != nil || pkt.LpPacket == nil {
				return
			}
			inner, _, err := spec.ReadPacket(enc.NewWireReader(pkt.LpPacket.Fragment))
			if err != nil || inner.Interest == nil {
				return
			}
			name := inner.Interest.NameV
			if len(name) < 5 {
				c.Verb = "short name " + name.String()
				return
			}
			c.Verb = name[:4].String()
			if len(name) >= 4 && name[:3].String() == "/localhost/nlsr/rib" {
				c.Verb = name[3].String()
			}
			if cp, err := ndn_mgmt.ParseControlParameters(enc.NewBufferReader(name[4].Val), true); err == nil && cp.Val != nil && cp.Val.Name != nil {
				c.Prefix = cp.Val.Name.String()
			}
			c.Args = "origin=- cost=-"
			if ap := inner.Interest.AppParam(); ap != nil {
				if a, err := ndn_mgmt.ParseControlArgs(enc.NewWireReader(ap), true); err == nil {
					o, cost, n := "-", "-", "-"
					if a.Origin != nil {
						o = fmt.Sprint(*a.Origin)
					}
					if a.Cost != nil {
						cost = fmt.Sprint(*a.Cost)
					}
					if a.Name != nil {
						n = a.Name.String()
					}
					c.Args = "origin=" + o + " cost=" + cost
					if n != c.Prefix {
						c.Args += " name-in-parameters=" + n
					}
				} else {
					c.Args = "parameters undecodable"
				}
			}
		}()
		out = append(out, c)
	}
	return out
}

// VerifCmd is one readvertised command.
type VerifCmd struct{ Verb, Prefix, Args string }

// VerifAdvertisedCount is the readvertiser's own count of advertised routes of a prefix.
func (r *NlsrReadvertiser) VerifAdvertisedCount(name enc.Name) int {
	r.mutex.Lock()
	defer r.mutex.Unlock()
	return r.advertised[name.Hash()]
}
