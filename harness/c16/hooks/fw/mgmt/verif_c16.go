//go:build verif

package mgmt

import (
	"github.com/named-data/ndnd/fw/face"
	basic_engine "github.com/named-data/ndnd/std/engine/basic"
)

// VerifNewReadvertiser builds the real NLSR readvertiser on a management thread object that is
// not running: its commands go into the send queue of an internal transport nobody reads
// (VerifReadvertiserSent reports how many were sent).
func VerifNewReadvertiser() (*NlsrReadvertiser, *face.InternalTransport) {
	face.VerifSetQueueSize(4096)
	m := new(Thread)
	m.timer = basic_engine.NewTimer()
	m.transport = face.MakeInternalTransport()
	return NewNlsrReadvertiser(m), m.transport
}
