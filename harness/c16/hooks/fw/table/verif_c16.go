//go:build verif

package table

// VerifResetReadvertisers replaces the registered RIB readvertisers.
func VerifResetReadvertisers(rs ...RibReadvertise) { readvertisers = append([]RibReadvertise{}, rs...) }
