// racebin: free-running execution of the C16 scenario bodies with the REAL sync package, built
// with -race. usage: racebin <fib> <scenario-index> <repetitions> <thorough 0|1>
package main

import (
	"fmt"
	"os"
	"runtime"
	"strconv"
	"sync"

	"verif/harness/c16/scn"
)

func main() {
	fib := os.Args[1]
	idx, _ := strconv.Atoi(os.Args[2])
	reps, _ := strconv.Atoi(os.Args[3])
	all := scn.All(os.Args[4] == "1")
	s := all[idx]
	scn.RecordNotifications = false // (no lock of the harness between the goroutines)
	for r := 0; r < reps; r++ {
		scn.Setup(fib, s)
		var wg sync.WaitGroup
		start := make(chan struct{})
		for _, prog := range s.Threads {
			prog := prog
			wg.Add(1)
			go func() {
				defer wg.Done()
				<-start
				for _, op := range prog {
					op.Run(runtime.Gosched)
				}
			}()
		}
		close(start)
		wg.Wait()
		// every lookup result the goroutines kept by reference is read again now that all writers
		// have finished: it must still be what the lookup returned
		scn.Recheck("after all goroutines finished")
		if changed, _ := scn.KeptChanged(); len(changed) > 0 {
			k := changed[0]
			fmt.Fprintf(os.Stderr, "KEPT-RESULT-CHANGED kind=%s repetition %d: %s\n", k.Kind, r, k.String())
			os.Exit(3)
		}
		_ = scn.Final()
	}
	fmt.Println("OK", s.Name)
}
