package main

import (
	"bytes"
	"fmt"
	"os"
	"path/filepath"
	"runtime"
	"runtime/debug"
	"strings"
	"sync"
	"sync/atomic"
	"time"

	enc "github.com/named-data/ndnd/std/encoding"
	"github.com/named-data/ndnd/std/ndn"
	"github.com/named-data/ndnd/std/object"
	"verif/mc/enum"
	"verif/mc/report"
)

// Store-level differential enumeration (clauses C15.stores, C15.removed, C15.newest at the
// ndn.Store API): every Put/Remove history up to a depth bound over a small packet universe is
// executed on a fresh MemoryStore and on an emptied BoltStore; afterwards Get(exact) and
// Get(prefix) on every query name of the universe are compared with a reference map
// name -> (version, wire) and with each other.
//
// Three-valued oracle: Get(name, exact) must be the stored wire or nil. Get(p, prefix) must be nil
// if nothing is stored under p, otherwise ANY stored packet under p whose version is the largest
// stored under p (ndn.Store: "prefix = return the newest Data wire with the given prefix"); which
// of several packets of that same newest version (e.g. its segments) is returned is left open. No
// packet name of the main, boundary and look-alike universes is a prefix of another (as with
// objects: <obj>/<v>/<seg>). The NESTED universe (mkNestedUniverse) is the opposite: a chain of
// packet names each a proper prefix of the next, plus siblings, so that an interior node of the
// MemoryStore tree / a key that is a byte prefix of other bolt keys holds a packet of its own.
// There Get(p, prefix) with a packet stored AT p may return that packet (the exact hit: what
// MemoryStore does) or any packet of the newest version under p (what BoltStore does): the
// interface comment does not say which, both are accepted. Everything else is two-valued: an exact
// Get returns what was last Put under exactly that name unless it was removed (by exact name, or by
// a prefix Remove of that name or of a name it extends) - and removing ANOTHER name, in a prefix
// relation or not, does not make it disappear.

type sPkt struct {
	name enc.Name
	s    string
	ver  uint64
}

type sOp struct {
	label  string
	put    *sPkt
	rem    enc.Name
	prefix bool
}

type sUniverse struct {
	pkts    []*sPkt
	ops     []sOp
	queries []enc.Name
}

func sName(obj string, ver int, seg int) enc.Name {
	n := mkName(obj, 0)
	if ver >= 0 {
		n = append(n, enc.NewVersionComponent(uint64(ver)))
	}
	if seg >= 0 {
		n = append(n, enc.NewSegmentComponent(uint64(seg)))
	}
	return n
}

func mkUniverse(thorough bool) *sUniverse {
	u := &sUniverse{}
	type pv struct {
		obj string
		ver int
		seg int
	}
	list := []pv{{"/a", 0, 0}, {"/a", 1, 0}, {"/a", 2, 0}, {"/a", 2, 1}, {"/a", 3, 0},
		{"/a/b", 0, 0}, {"/a/b", 3, 0}, {"/c", 2, 0}}
	if thorough {
		list = append(list, pv{"/a/b", 1, 0}, pv{"/c", 0, 0}, pv{"/a", 1, 1}, pv{"/a/b", 2, 0}, pv{"/a/b", 3, 1}, pv{"/c", 1, 0}, pv{"/c", 3, 0})
	}
	qset := map[string]enc.Name{}
	addq := func(n enc.Name) { qset[n.String()] = n }
	for _, p := range list {
		n := sName(p.obj, p.ver, p.seg)
		pk := &sPkt{name: n, s: n.String(), ver: uint64(p.ver)}
		u.pkts = append(u.pkts, pk)
		u.ops = append(u.ops, sOp{label: "Put(" + pk.s + ")", put: pk})
		for l := 0; l <= len(n); l++ {
			addq(n[:l])
		}
	}
	for _, p := range u.pkts {
		u.ops = append(u.ops, sOp{label: "Remove(" + p.s + ")", rem: p.name})
	}
	pfx := []enc.Name{{}, sName("/a", -1, -1), sName("/a/b", -1, -1), sName("/c", -1, -1), sName("/a", 2, -1)}
	if thorough {
		pfx = append(pfx, sName("/a", 0, -1), sName("/a/b", 3, -1), sName("/a", 1, -1))
	}
	for _, n := range pfx {
		s := n.String()
		if len(n) == 0 {
			s = "/"
		}
		u.ops = append(u.ops, sOp{label: "Remove(" + s + ",prefix)", rem: n, prefix: true})
	}
	keys := make([]string, 0, len(qset))
	for k := range qset {
		keys = append(keys, k)
	}
	sortStrings(keys)
	for _, k := range keys {
		u.queries = append(u.queries, qset[k])
	}
	return u
}

func sortStrings(s []string) {
	for i := 1; i < len(s); i++ {
		for j := i; j > 0 && s[j] < s[j-1]; j-- {
			s[j], s[j-1] = s[j-1], s[j]
		}
	}
}

type sRef struct {
	ver  uint64
	wire []byte
}

type storeStats struct {
	histories, gets, disagree, nontrivial, multiWorld int64
}

func nameStr(n enc.Name) string {
	if len(n) == 0 {
		return "/"
	}
	return n.String()
}

// runStores is the parent-side extra pass. Returns coverage.
func runStores(rep *report.Reporter, thorough bool, deadline time.Time) map[string]any {
	defer debug.SetGCPercent(debug.SetGCPercent(800)) // bolt allocates page buffers per transaction
	txDepth := 4
	if !thorough {
		txDepth = 3 // quick tier: transaction mode to depth 3
	}
	// version boundaries first (small): every Put/Remove history of depth <= 3 over one packet per
	// version in {0, 1, 2^31, 2^32, 2^63-1, 2^63, 2^64-2, 2^64-1}
	// mixed mode (Puts outside transactions interleaved with committed / rolled-back / multi-Put
	// transactions): depth 3 on the main and the boundary universe, depth 2 (thorough 3) on the others
	mixSmall := 2
	if thorough {
		mixSmall = 3
	}
	// Removes as members of transactions: every level of the mixed region, except (quick tier) the
	// deepest level of the boundary universe; at depth 3 of the main universe the quick tier runs
	// the assignments in which such a Remove matches a packet Put before it or in its group
	vbRem, hits := 2, 3
	if thorough {
		vbRem, hits = 3, 0
	}
	vb := enumStores(rep, mkBoundaryUniverse(), 3, 3, 3, vbRem, 0, deadline)
	// look-alike names (components that differ in type only): every history of depth <= 3
	ty := enumStores(rep, mkTypedUniverse(), 3, 3, mixSmall, mixSmall, 0, deadline)
	// prefix-related packet names: every history of depth <= 3 (thorough: 4, transaction mode 3)
	nd := 3
	if thorough {
		nd = 4
	}
	ne := enumStores(rep, mkNestedUniverse(), nd, 3, mixSmall, mixSmall, 0, deadline)
	cov := enumStores(rep, mkUniverse(thorough), 4, txDepth, 3, 3, hits, deadline)
	cov["version_boundaries"] = vb
	cov["lookalike_names"] = ty
	cov["prefix_related_names"] = ne
	for _, c := range []map[string]any{vb, ty, ne} {
		if e, _ := c["exhaustive"].(bool); !e {
			cov["exhaustive"] = false
		}
	}
	return cov
}

var boundaryVersions = []uint64{0, 1, 1 << 31, 1 << 32, 1<<63 - 1, 1 << 63, 1<<64 - 2, 1<<64 - 1}

func mkBoundaryUniverse() *sUniverse {
	u := &sUniverse{}
	obj := mkName("/a", 0)
	for _, v := range boundaryVersions {
		n := append(obj.Clone(), enc.NewVersionComponent(v), enc.NewSegmentComponent(0))
		pk := &sPkt{name: n, s: n.String(), ver: v}
		u.pkts = append(u.pkts, pk)
		u.ops = append(u.ops, sOp{label: "Put(" + pk.s + ")", put: pk})
	}
	for _, p := range u.pkts {
		u.ops = append(u.ops, sOp{label: "Remove(" + p.s + ")", rem: p.name})
	}
	u.queries = []enc.Name{{}, obj}
	for _, p := range u.pkts {
		u.queries = append(u.queries, p.name[:2], p.name)
	}
	return u
}

// mkTypedUniverse: packet names that are equal except for the TYPE of one component, or where the
// value bytes of a generic component equal those of a typed one next to it:
//
//	/p/doc/32=metadata/v=1/seg=0   metadata packet of object /p/doc (keyword component)
//	/p/doc/metadata/v=3/seg=0      segment of the application object /p/doc/metadata (generic)
//	/p/doc/v=1/seg=0               segment of object /p/doc, version 1
//	/p/doc/%01/v=2/seg=0           segment of object /p/doc/%01 (generic component with the bytes of v=1)
//	/p/item/v=2/seg=0  /p/32=item/v=1/seg=0    sibling objects item (generic) and 32=item (keyword)
//	/p/doc/v=1/seg=1  /p/doc/v=1/off=1        segment 1 and a byte-offset component with the same value
//
// No packet name is a prefix of another. Operations: Put and Remove of each, Remove by prefix of
// every object and of the root; queries: every prefix of every packet name.
func mkTypedUniverse() *sUniverse {
	u := &sUniverse{}
	type pv struct {
		s   string
		ver uint64
	}
	list := []pv{{"/p/doc/32=metadata/v=1/seg=0", 1}, {"/p/doc/metadata/v=3/seg=0", 3}, {"/p/doc/v=1/seg=0", 1}, {"/p/doc/%01/v=2/seg=0", 2},
		{"/p/item/v=2/seg=0", 2}, {"/p/32=item/v=1/seg=0", 1}, {"/p/doc/v=1/seg=1", 1}, {"/p/doc/v=1/off=1", 1}}
	qset := map[string]enc.Name{}
	for _, p := range list {
		n := mkName(p.s, 0)
		if n.String() != p.s {
			report.Fatal("typed universe: %s parses to %s", p.s, n)
		}
		pk := &sPkt{name: n, s: p.s, ver: p.ver}
		u.pkts = append(u.pkts, pk)
		u.ops = append(u.ops, sOp{label: "Put(" + pk.s + ")", put: pk})
		for l := 0; l <= len(n); l++ {
			qset[nameStr(n[:l])] = n[:l]
		}
	}
	for _, p := range u.pkts {
		u.ops = append(u.ops, sOp{label: "Remove(" + p.s + ")", rem: p.name})
	}
	for _, s := range []string{"/", "/p/doc/32=metadata", "/p/doc/metadata", "/p/doc/v=1", "/p/doc/%01", "/p/item", "/p/32=item"} {
		n := enc.Name{}
		if s != "/" {
			n = mkName(s, 0)
		}
		u.ops = append(u.ops, sOp{label: "Remove(" + s + ",prefix)", rem: n, prefix: true})
	}
	keys := make([]string, 0, len(qset))
	for k := range qset {
		keys = append(keys, k)
	}
	sortStrings(keys)
	for _, k := range keys {
		u.queries = append(u.queries, qset[k])
	}
	return u
}

// mkNestedUniverse: packet names in a prefix relation (a packet stored at an interior node):
//
//	/p  /p/x  /p/x/y  /p/x/y/z     a chain: each name a proper prefix of the next (versions 1, 2, 1, 3)
//	/p/w                            a sibling of /p/x (version 0): /p then has two children
//	/q  /q/v=1  /q/v=1/seg=0        object-like: a packet at the object name, at <obj>/<version> and a segment (versions 2, 1, 1)
//
// Operations: Put of each, Remove of each by exact name, Remove of each BY PREFIX and of the root;
// queries: every packet name and the root, exact and by prefix. The newest version is never the
// shortest name of its chain, so "exact hit" and "newest under the prefix" differ.
func mkNestedUniverse() *sUniverse {
	u := &sUniverse{}
	type pv struct {
		s   string
		ver uint64
	}
	list := []pv{{"/p", 1}, {"/p/x", 2}, {"/p/x/y", 1}, {"/p/x/y/z", 3}, {"/p/w", 0}, {"/q", 2}, {"/q/v=1", 1}, {"/q/v=1/seg=0", 1}}
	for _, p := range list {
		n := mkName(p.s, 0)
		if n.String() != p.s {
			report.Fatal("nested universe: %s parses to %s", p.s, n)
		}
		pk := &sPkt{name: n, s: p.s, ver: p.ver}
		u.pkts = append(u.pkts, pk)
		u.ops = append(u.ops, sOp{label: "Put(" + pk.s + ")", put: pk})
	}
	for _, p := range u.pkts {
		u.ops = append(u.ops, sOp{label: "Remove(" + p.s + ")", rem: p.name})
	}
	for _, p := range u.pkts {
		u.ops = append(u.ops, sOp{label: "Remove(" + p.s + ",prefix)", rem: p.name, prefix: true})
	}
	u.ops = append(u.ops, sOp{label: "Remove(/,prefix)", rem: enc.Name{}, prefix: true})
	u.queries = []enc.Name{{}}
	for _, p := range u.pkts {
		u.queries = append(u.queries, p.name)
	}
	return u
}

// remTxDepth: deepest mixed-mode level at which a Remove can be a member of a group transaction
// (letters G/R on Remove positions); hitsAt: from this level on only assignments in which such a
// Remove matches a packet Put before it or in its group are run (0: never restricted).
func enumStores(rep *report.Reporter, u *sUniverse, depth, txDepth, mixDepth, remTxDepth, hitsAt int, deadline time.Time) map[string]any {
	nops := int64(len(u.ops))
	var total int64
	pow := int64(1)
	var offs []int64 // offs[d] = first index of histories of length d+1
	for d := 1; d <= depth; d++ {
		pow *= nops
		offs = append(offs, total)
		total += pow
	}
	// index space: [0,total) direct Puts, [total, total+totalTx) every Put inside Begin..Commit
	// (quick tier: transaction mode to depth 3)
	totalTx := total
	if txDepth < depth {
		totalTx = offs[txDepth]
	}
	direct := total
	total += totalTx
	var st storeStats
	var smp report.Samples
	smp.N = 4
	var pool sync.Pool
	var nbolt int64
	var all []*object.BoltStore
	var mu sync.Mutex
	pool.New = func() any {
		id := atomic.AddInt64(&nbolt, 1)
		p := filepath.Join(tmpBase(), fmt.Sprintf("s%d-%d.db", os.Getpid(), id))
		os.Remove(p)
		b, err := object.NewBoltStore(p)
		if err != nil {
			report.Fatal("bolt: %v", err)
		}
		object.VerifBoltNoSync(b)
		mu.Lock()
		all = append(all, b)
		mu.Unlock()
		return b
	}
	evalStore := func(i int64) {
		txMode := i >= direct
		if txMode {
			i -= direct
		}
		d := 0
		for d+1 < len(offs) && i >= offs[d+1] {
			d++
		}
		i -= offs[d]
		hist := make([]int, d+1)
		for k := d; k >= 0; k-- {
			hist[k] = int(i % nops)
			i /= nops
		}
		b := pool.Get().(*object.BoltStore)
		defer pool.Put(b)
		if err := object.VerifBoltClear(b); err != nil {
			report.Fatal("bolt clear: %v", err)
		}
		mode := "direct"
		if txMode {
			mode = "tx"
		}
		runStoreHistory(rep.Add, u, hist, mode, object.NewMemoryStore(), b, &st, &smp)
	}
	// mixed mode (third region): every history of depth 2..mixDepth in every canonical assignment
	// of D/T/G to its Puts (see storeModes)
	var mixedRuns int64
	evalMixed := func(d int, i int64) {
		hist := make([]int, d)
		for k := d - 1; k >= 0; k-- {
			hist[k] = int(i % nops)
			i /= nops
		}
		ms := mixedModes(u, hist, d <= txDepth, d <= remTxDepth, hitsAt > 0 && d >= hitsAt)
		if len(ms) == 0 {
			return
		}
		b := pool.Get().(*object.BoltStore)
		defer pool.Put(b)
		for _, m := range ms {
			if err := object.VerifBoltClear(b); err != nil {
				report.Fatal("bolt clear: %v", err)
			}
			runStoreHistory(rep.Add, u, hist, m, object.NewMemoryStore(), b, &st, &smp)
			atomic.AddInt64(&mixedRuns, 1)
		}
	}
	// shortest histories first (so that the reported counterexample is a shortest one): the index
	// space is covered depth by depth, each depth in parallel
	var bounds []int64
	for d := 0; d < depth; d++ {
		bounds = append(bounds, offs[d])
	}
	bounds = append(bounds, direct)
	for d := 0; d < txDepth; d++ {
		if d > 0 {
			bounds = append(bounds, direct+offs[d])
		}
	}
	bounds = append(bounds, total)
	var done int64
	complete := true
	mixComplete := true
	mixDone := 0
	runMixed := func() {
		for d := 2; d <= mixDepth && complete && mixComplete; d++ {
			n := int64(1)
			for k := 0; k < d; k++ {
				n *= nops
			}
			_, ok := enum.Range(n, deadline, func(j int64) { evalMixed(d, j) })
			mixComplete = ok
			if ok {
				mixDone = d
			}
		}
	}
	// order: direct histories up to depth 3, the mixed-mode region (depth <= 3), then the rest
	// (direct depth 4, transaction mode): the cheap regions are never the ones a deadline cuts
	mixedRan := false
	for bi := 0; bi+1 < len(bounds) && complete; bi++ {
		if bi == 3 && !mixedRan {
			mixedRan = true
			runMixed()
			if !mixComplete {
				break
			}
		}
		lo, hi := bounds[bi], bounds[bi+1]
		dn, ok := enum.Range(hi-lo, deadline, func(j int64) { evalStore(lo + j) })
		done += dn
		complete = ok
	}
	if !mixedRan {
		runMixed()
	}
	complete = complete && mixComplete
	for _, b := range all {
		b.Close()
	}
	return map[string]any{
		"mixed_mode": map[string]any{"max_depth": mixDepth, "depth_completed": mixDone, "runs": atomic.LoadInt64(&mixedRuns),
			"modes_per_put":                   "D outside any transaction / T own transaction after a rolled-back decoy transaction / G member of a committed group transaction / R member of a rolled-back group transaction",
			"modes_per_remove":                "D outside any transaction / G, R issued between Begin and Commit / Rollback of a group (exact and by prefix; both stores; a call that waits for the transaction is collected after it)",
			"remove_in_transaction_max_depth": remTxDepth, "remove_in_transaction_only_matching_from_depth": hitsAt,
			"histories_with_more_than_one_legal_reading": atomic.LoadInt64(&st.multiWorld)},
		"packets": len(u.pkts), "operations": len(u.ops), "queries": len(u.queries), "max_depth": depth, "max_depth_transaction_mode": txDepth,
		"histories_total": total, "histories_done": done, "exhaustive": complete,
		"get_comparisons":                            atomic.LoadInt64(&st.gets),
		"memory_vs_bolt_disagreements":               atomic.LoadInt64(&st.disagree),
		"histories_with_two_versions_under_a_prefix": atomic.LoadInt64(&st.nontrivial),
		"samples": smp.List(),
	}
}

// storeModes: the way each operation of a history reaches the stores, one letter per position:
//
//	D  Put / Remove outside any transaction
//	T  (Put only) Begin / Put of a decoy / Rollback, then Begin / Put / Commit (a transaction of its own)
//	G  member of a COMMITTED group: consecutive G positions share ONE transaction (Begin, op, op, ...,
//	   Commit: what Client.Produce does with the segments of an object, and what an application does
//	   that replaces a version: Begin, Remove old, Put new, Commit); the transaction is committed
//	   before the next operation that is not a G position, and at the end of the history. A group that
//	   starts with a Put is preceded by the rolled-back decoy transaction of T
//	R  member of a ROLLED-BACK group: like G, but the transaction ends with Rollback
//
// A Remove (exact or by prefix) can be a member of a group: it is then issued between Begin and
// Commit/Rollback (see issueRemove for how a store that makes the caller wait is driven).
//
// mode "direct" = all D, "tx" = all Puts T, "mix:<letters>" = the given letters. A history in mixed
// mode interleaves operations outside transactions with committed and rolled-back transactions in
// every order.
func storeModes(mode string, n int) []byte {
	m := make([]byte, n)
	for i := range m {
		switch {
		case mode == "tx":
			m[i] = 'T'
		case strings.HasPrefix(mode, "mix:") && i < len(mode)-4:
			m[i] = mode[4+i]
		default:
			m[i] = 'D'
		}
	}
	return m
}

// mixedModes lists the canonical mixed mode strings of one history: every assignment of D/T/G/R to
// its Put positions and of D/G/R to its Remove positions (Removes only when txRemove is set: beyond
// that depth a Remove is always outside transactions), except
//   - the uniform ones "all D" and (when the transaction-mode region covers this depth) "all Puts T,
//     all Removes D",
//   - a lone G Put (no G neighbour: it is a T without the decoy),
//   - histories without any Put (the stores stay empty).
//
// hitsOnly (quick tier, deepest level): an assignment in which a Remove is a group member is kept
// only if some group-member Remove matches a name Put earlier in the history or in its own group
// (a Remove that matches nothing ever Put is a no-op under every reading; the thorough tier runs
// those too), and a rolled-back group of Puts only where some Remove is a group member. Without
// txRemove the letter R is not used at all.
func mixedModes(u *sUniverse, hist []int, txCovered, txRemove, hitsOnly bool) []string {
	var out []string
	n := len(hist)
	cur := make([]byte, n)
	matches := func(r sOp, p *sPkt) bool {
		return p.name.Equal(r.rem) || (r.prefix && r.rem.IsPrefix(p.name))
	}
	var rec func(i int)
	rec = func(i int) {
		if i == n {
			allD, allT, puts, txRem, hit, putR := true, true, 0, false, false, false
			for k, c := range cur {
				op := u.ops[hist[k]]
				allD = allD && c == 'D'
				if op.put == nil {
					allT = allT && c == 'D'
					if c != 'D' {
						txRem = true
						for j := 0; j < n && !hit; j++ {
							if pj := u.ops[hist[j]].put; pj != nil && matches(op, pj) {
								if j < k {
									hit = true
								} else { // later Put of the same group
									same := true
									for x := k; x <= j; x++ {
										same = same && cur[x] == c
									}
									hit = same
								}
							}
						}
					}
					continue
				}
				puts++
				allT = allT && c == 'T'
				putR = putR || c == 'R'
				if c == 'G' {
					l := k > 0 && cur[k-1] == 'G'
					r := k+1 < n && cur[k+1] == 'G'
					if !l && !r {
						return
					}
				}
			}
			if puts == 0 || allD || (allT && txCovered) {
				return
			}
			if hitsOnly && ((txRem && !hit) || (!txRem && putR)) {
				return
			}
			out = append(out, "mix:"+string(cur))
			return
		}
		letters := "DTGR"
		if !txRemove {
			letters = "DTG"
		}
		if u.ops[hist[i]].put == nil {
			letters = "D"
			if txRemove {
				letters = "DGR"
			}
		}
		for _, c := range []byte(letters) {
			cur[i] = c
			rec(i + 1)
		}
	}
	rec(0)
	return out
}

// issueRemove calls Remove on a store while a transaction is open on it. ndn.Store does not say
// what a Remove issued between Begin and Commit does ("begin a write transaction (for put only)"),
// and the two stores differ: MemoryStore.Remove returns at once; BoltStore.Remove opens a write
// transaction of its own and therefore WAITS until the open one has ended (from the goroutine that
// owns the open transaction it would wait for itself). The call is therefore made on a goroutine of
// its own, as an application thread that removes packets while a producer thread holds the
// transaction would: if the call returns (the calling goroutine yields a bounded number of times to
// let it), its result is taken now; otherwise the history goes on and the result is collected after
// the transaction has ended (pending != nil). Either way is legal; the oracle never depends on which
// of the two happened, only on "Remove has returned success and the transaction is over".
func issueRemove(s ndn.Store, name enc.Name, prefix bool, mayWait bool) (err error, pending chan error) {
	done := make(chan error, 1)
	go func() { done <- s.Remove(name, prefix) }()
	if !mayWait {
		return awaitRemove(done), nil
	}
	for i := 0; i < 64; i++ {
		runtime.Gosched()
		select {
		case err = <-done:
			return err, nil
		default:
		}
	}
	return nil, done
}

// awaitRemove collects the result of a Remove call; a call that does not return within a minute of
// the end of its transaction is a hung harness (CHECK-ERROR), not a verdict.
func awaitRemove(done chan error) error {
	select {
	case err := <-done:
		return err
	case <-time.After(60 * time.Second):
		report.Fatal("store pass: a Remove call has not returned 60 s after the transaction it was issued in ended")
		return nil
	}
}

// sWorld is one legal reading of a history: name -> what is stored. A history without a Remove
// inside a transaction has exactly one.
type sWorld map[string]*sRef

func (w sWorld) clone() sWorld {
	c := make(sWorld, len(w)+2)
	for k, v := range w {
		c[k] = v
	}
	return c
}

func (w sWorld) key() string {
	ks := make([]string, 0, len(w))
	for k, r := range w {
		ks = append(ks, k+"="+string(r.wire))
	}
	sortStrings(ks)
	return strings.Join(ks, "|")
}

// sEvent is one member of a group transaction.
type sEvent struct {
	put *sPkt
	ref *sRef
	rem enc.Name
	pfx bool
}

// groupWorlds: the legal states after a group transaction, from one state before it. The property
// says "packets removed from a store are no longer served"; ndn.Store says transactions are "for
// put only" and not to be relied on for atomicity. A Remove issued inside the transaction may
// therefore take effect
//
//	(0) at once, on the committed packets only (it is no member of the transaction; Puts of the
//	    transaction land at Commit, after it),
//	(1) in program order as a member of the transaction (it also removes what the transaction has
//	    Put before it; a later Put of the transaction stores the packet again),
//	(2) when the transaction is over (the call waits for it: it also removes what the transaction
//	    Put after it - those Puts precede the return of Remove);
//
// in a rolled-back transaction: (0) it stays in effect, or (1) it is undone with the transaction.
// Every combination of readings of the Removes of the group is a legal world; in ALL of them a
// packet that was stored before the Remove was issued, matches it and is not Put again is gone
// after Commit - that is the two-valued part. Puts of a rolled-back group are in no world.
func groupWorlds(w sWorld, evs []sEvent, commit bool, names map[string]enc.Name, out map[string]sWorld) {
	var rems []int
	for i, e := range evs {
		if e.put == nil {
			rems = append(rems, i)
		}
	}
	nch := 3
	if !commit {
		nch = 2
	}
	total := 1
	for range rems {
		total *= nch
	}
	del := func(m sWorld, e sEvent) {
		for k := range m {
			if n := names[k]; n.Equal(e.rem) || (e.pfx && e.rem.IsPrefix(n)) {
				delete(m, k)
			}
		}
	}
	for c := 0; c < total; c++ {
		C, T := w.clone(), sWorld{}
		var late []sEvent
		x := c
		for _, e := range evs {
			if e.put != nil {
				T[e.put.s] = e.ref
				continue
			}
			ch := x % nch
			x /= nch
			switch {
			case !commit && ch == 0, commit && ch == 0:
				del(C, e)
			case commit && ch == 1:
				del(C, e)
				del(T, e)
			case commit && ch == 2:
				late = append(late, e)
			}
		}
		if commit {
			for k, r := range T {
				C[k] = r
			}
			for _, e := range late {
				del(C, e)
			}
		}
		out[C.key()] = C
	}
}

func runStoreHistory(add func(report.Violation), u *sUniverse, hist []int, mode string, mem ndn.Store, bolt ndn.Store, st *storeStats, smp *report.Samples) {
	modes := storeModes(mode, len(hist))
	worlds := []sWorld{{}} // every legal reading of the history so far (one, unless a Remove was a member of a transaction)
	names := map[string]enc.Name{}
	removed := map[string]bool{}
	removedInTx := map[string]bool{}
	var labels []string
	stores := []struct {
		n string
		s ndn.Store
	}{{"mem", mem}, {"bolt", bolt}}
	desc := func() string { return "[" + mode + "] " + strings.Join(labels, " ; ") }
	rpl := func() map[string]any { return map[string]any{"store_history": labels, "mode": mode} }
	grp := byte(0) // letter of the group transaction open on both stores (0: none)
	var evs []sEvent
	type pendRem struct {
		store string
		done  chan error
	}
	var pend []pendRem
	closeGroup := func() {
		if grp == 0 {
			return
		}
		commit := grp == 'G'
		grp = 0
		for _, s := range stores {
			var err error
			what := "Commit"
			if commit {
				err = s.s.Commit()
			} else {
				err = s.s.Rollback()
				what = "Rollback"
			}
			if err != nil {
				add(report.Violation{Clause: "C15.stores", Key: s.n + ": " + what + " returns an error", Detail: desc() + " :: " + err.Error(), Replay: rpl()})
			}
		}
		for _, p := range pend {
			if err := awaitRemove(p.done); err != nil {
				add(report.Violation{Clause: "C15.removed", Key: p.store + ": Remove returns an error", Detail: desc() + " :: " + err.Error(), Replay: rpl()})
			}
		}
		pend = nil
		next := map[string]sWorld{}
		for _, w := range worlds {
			groupWorlds(w, evs, commit, names, next)
		}
		evs = nil
		keys := make([]string, 0, len(next))
		for k := range next {
			keys = append(keys, k)
		}
		sortStrings(keys)
		worlds = worlds[:0]
		for _, k := range keys {
			worlds = append(worlds, next[k])
		}
	}
	markRemoved := func(op sOp, inTx bool) {
		for k, n := range names {
			if n.Equal(op.rem) || (op.prefix && op.rem.IsPrefix(n)) {
				removed[k] = true
				if inTx {
					removedInTx[k] = true
				}
			}
		}
	}
	for k, oi := range hist {
		op := u.ops[oi]
		member := modes[k] == 'G' || modes[k] == 'R'
		if !member || grp != modes[k] {
			closeGroup()
		}
		labels = append(labels, op.label)
		if op.put != nil {
			wire := append([]byte(op.put.s), byte('#'), byte('0'+k))
			joined := member && grp != 0
			decoy := modes[k] == 'T' || (modes[k] == 'G' && !joined)
			for _, s := range stores {
				var err error
				if decoy {
					// the Put is preceded by a transaction that is ROLLED BACK and that had put a decoy
					// (another wire, a larger version) under the same name: a rolled-back packet was
					// never published and must never be served
					if err = s.s.Begin(); err == nil {
						err = s.s.Put(op.put.name, op.put.ver+1000, append([]byte("rolled-back:"), wire...))
						if e2 := s.s.Rollback(); err == nil {
							err = e2
						}
					}
					if err != nil {
						add(report.Violation{Clause: "C15.stores", Key: s.n + ": Begin/Put/Rollback returns an error", Detail: desc() + " :: " + err.Error(), Replay: rpl()})
					}
				}
				switch {
				case joined || modes[k] == 'D':
					err = s.s.Put(op.put.name, op.put.ver, wire)
				default: // T, or the first member of a group
					if err = s.s.Begin(); err == nil {
						err = s.s.Put(op.put.name, op.put.ver, wire)
						if modes[k] == 'T' {
							if e2 := s.s.Commit(); err == nil {
								err = e2
							}
						}
					}
				}
				if err != nil {
					add(report.Violation{Clause: "C15.stores", Key: s.n + ": Put returns an error", Detail: desc() + " :: " + err.Error(), Replay: rpl()})
				}
			}
			names[op.put.s] = op.put.name
			ref := &sRef{op.put.ver, wire}
			if member {
				grp = modes[k]
				evs = append(evs, sEvent{put: op.put, ref: ref})
				if modes[k] == 'G' {
					delete(removed, op.put.s)
					delete(removedInTx, op.put.s)
				}
			} else {
				for _, w := range worlds {
					w[op.put.s] = ref
				}
				delete(removed, op.put.s)
				delete(removedInTx, op.put.s)
			}
		} else if member {
			for _, s := range stores {
				var err error
				if grp == 0 {
					if err = s.s.Begin(); err != nil {
						add(report.Violation{Clause: "C15.stores", Key: s.n + ": Begin returns an error", Detail: desc() + " :: " + err.Error(), Replay: rpl()})
					}
				}
				err, p := issueRemove(s.s, op.rem, op.prefix, s.n == "bolt")
				if p != nil {
					pend = append(pend, pendRem{s.n, p})
				} else if err != nil {
					add(report.Violation{Clause: "C15.removed", Key: s.n + ": Remove returns an error", Detail: desc() + " :: " + err.Error(), Replay: rpl()})
				}
			}
			grp = modes[k]
			evs = append(evs, sEvent{rem: op.rem, pfx: op.prefix})
			markRemoved(op, true)
		} else {
			for _, s := range stores {
				if err := s.s.Remove(op.rem, op.prefix); err != nil {
					add(report.Violation{Clause: "C15.removed", Key: s.n + ": Remove returns an error", Detail: desc() + " :: " + err.Error(), Replay: rpl()})
				}
			}
			markRemoved(op, false)
			for _, w := range worlds {
				for k := range w {
					if n := names[k]; n.Equal(op.rem) || (op.prefix && op.rem.IsPrefix(n)) {
						delete(w, k)
					}
				}
			}
		}
	}
	closeGroup()
	atomic.AddInt64(&st.histories, 1)
	if len(worlds) > 1 {
		atomic.AddInt64(&st.multiWorld, 1)
	}
	bad := func(clause, key, detail string) {
		add(report.Violation{Clause: clause, Key: key, Detail: "store history " + desc() + " :: " + detail, Replay: rpl()})
	}
	// legal answers of one reading
	legalIn := func(ref sWorld, q enc.Name, qs string, prefix bool) (legal [][]byte, under []string, nvers int, maxVer uint64) {
		if !prefix {
			if r := ref[qs]; r != nil {
				legal = append(legal, r.wire)
			}
			return
		}
		for k, r := range ref {
			if q.IsPrefix(names[k]) {
				under = append(under, k)
				if r.ver > maxVer {
					maxVer = r.ver
				}
			}
		}
		vers := map[uint64]bool{}
		for _, k := range under {
			vers[ref[k].ver] = true
			if ref[k].ver == maxVer {
				legal = append(legal, ref[k].wire)
			}
		}
		nvers = len(vers)
		// a packet stored AT the queried name (nested universe): the exact hit is a legal
		// answer too, whatever newer packets lie below it
		if r := ref[qs]; r != nil && r.ver != maxVer {
			legal = append(legal, r.wire)
		}
		return
	}
	nontriv := false
	for _, q := range u.queries {
		qs := nameStr(q)
		for _, prefix := range []bool{false, true} {
			var legal [][]byte
			nilLegal := false
			nvers := 0
			maxVer := uint64(0) // largest "newest version under the prefix" over the readings
			var under []string  // of the first reading (for the message)
			for wi, w := range worlds {
				l, un, nv, mv := legalIn(w, q, qs, prefix)
				legal = append(legal, l...)
				nilLegal = nilLegal || len(l) == 0
				if nv > nvers {
					nvers = nv
				}
				if mv > maxVer {
					maxVer = mv
				}
				if wi == 0 {
					under = un
				}
			}
			if nvers > 1 {
				nontriv = true
			}
			ref := worlds[0]
			var got [2][]byte
			// MemoryStore walks Go maps (random order per walk): when the answer could depend on the
			// order (two versions under the prefix) the question is asked repeatedly and every answer
			// is judged, so that an order-dependent defect is reported on every run
			reps := []int{1, 1}
			if prefix && nvers > 1 {
				reps[0] = 24
			}
			for si, s := range stores {
				for rp := 0; rp < reps[si]; rp++ {
					w, err := s.s.Get(q, prefix)
					atomic.AddInt64(&st.gets, 1)
					if err != nil {
						bad("C15.stores", s.n+": Get returns an error", fmt.Sprintf("Get(%s,%v) = %v", qs, prefix, err))
						continue
					}
					got[si] = w
					ok := false
					if w == nil {
						ok = nilLegal
					} else {
						for _, l := range legal {
							if bytes.Equal(l, w) {
								ok = true
							}
						}
					}
					if ok {
						continue
					}
					what := fmt.Sprintf("%s.Get(%s, prefix=%v) = %q; stored under it: %s", s.n, qs, prefix, w, describe(ref, under, qs, prefix))
					if len(worlds) > 1 {
						what += fmt.Sprintf(" (first of %d legal readings of the Removes issued inside transactions; the answer is legal in none)", len(worlds))
					}
					switch {
					case w == nil && prefix && maxVer == 0:
						bad("C15.newest", s.n+": prefix Get never returns a version-0 packet", what)
					case w == nil && prefix:
						bad("C15.stores", s.n+": prefix Get returns nothing although packets are stored under the prefix", what)
					case w == nil:
						bad("C15.stores", s.n+": exact Get does not return the stored packet", what)
					default:
						// which packet was returned?
						who := ""
						var whoVer uint64
						for _, wd := range worlds {
							for k, r := range wd {
								if bytes.Equal(r.wire, w) {
									who, whoVer = k, r.ver
								}
							}
						}
						switch {
						case who == "":
							rm, rmTx := false, false
							for k := range removed {
								if strings.HasPrefix(string(w), k+"#") {
									rm = true
									rmTx = rmTx || removedInTx[k]
								}
							}
							if rolledBack(u, hist, modes, w) {
								bad("C15.stores", s.n+": Get returns a packet whose transaction was rolled back", what)
							} else if rmTx {
								bad("C15.removed", s.n+": a packet removed while a transaction was open is served after the transaction has ended", what)
							} else if rm {
								bad("C15.removed", s.n+": Get returns a removed (or overwritten) packet", what)
							} else if bytes.HasPrefix(w, []byte("rolled-back:")) {
								bad("C15.stores", s.n+": Get returns a packet whose transaction was rolled back", what)
							} else {
								bad("C15.stores", s.n+": Get returns a wire that is not stored", what)
							}
						case prefix && q.IsPrefix(names[who]):
							bad("C15.newest", s.n+": prefix Get returns an older version than the newest stored under the prefix", what+fmt.Sprintf(" (returned version %d, newest %d)", whoVer, maxVer))
						default:
							bad("C15.stores", s.n+": Get returns a packet that does not match the query", what)
						}
					}
				}
			}
			if !bytes.Equal(got[0], got[1]) && len(legal) <= 1 {
				atomic.AddInt64(&st.disagree, 1)
			}
		}
	}
	if nontriv {
		atomic.AddInt64(&st.nontrivial, 1)
		if len(hist) >= 3 {
			smp.Offer("stores " + desc())
		}
	}
}

// rolledBack: is w the wire of a Put that was a member of a rolled-back group (letter R)?
func rolledBack(u *sUniverse, hist []int, modes []byte, w []byte) bool {
	for k, oi := range hist {
		if p := u.ops[oi].put; p != nil && modes[k] == 'R' && string(w) == p.s+"#"+string(rune('0'+k)) {
			return true
		}
	}
	return false
}

func describe(ref sWorld, under []string, q string, prefix bool) string {
	if !prefix {
		if r := ref[q]; r != nil {
			return fmt.Sprintf("{%s v%d}", q, r.ver)
		}
		return "{}"
	}
	sortStrings(under)
	var p []string
	for _, k := range under {
		p = append(p, fmt.Sprintf("%s v%d", k, ref[k].ver))
	}
	return "{" + strings.Join(p, ", ") + "}"
}

// runAliasStability (clause C15.bytes at the ndn.Store API): what Get returned stays what it was
// while the store goes on being written to. Every Put/Remove history of depth <= 3 over the quick
// universe is executed on a fresh MemoryStore and on a BoltStore on a NEW database file (bbolt's
// page allocation depends on the history of the file; a fresh file gives every history one layout,
// here and in the replay), with wires of two sizes: a few bytes (bbolt keeps the bucket inline in
// its parent's page) and 700 bytes (real leaf pages from the second packet on). After every
// operation each stored packet is read by exact name and the newest under the root by prefix; the
// returned slice is kept next to a private copy. At the end four more write transactions (2x:
// Remove(/, prefix), Put of every packet of the universe with other bytes) take every page or
// buffer released meanwhile into use again, and every kept slice is compared with its copy (a
// memory fault while reading one counts as a difference).
func runAliasStability(rep *report.Reporter, deadline time.Time) map[string]any {
	u := mkUniverse(false)
	nops := int64(len(u.ops))
	const depth = 3
	var offs []int64
	total, pow := int64(0), int64(1)
	for d := 1; d <= depth; d++ {
		pow *= nops
		offs = append(offs, total)
		total += pow
	}
	sizes := []int{0, 700}
	var held, hists, opened, skipped int64
	var slot int64
	var smp report.Samples
	smp.N = 2
	paths := sync.Pool{New: func() any {
		return filepath.Join(boltDir(), fmt.Sprintf("a%d-%d.db", os.Getpid(), atomic.AddInt64(&slot, 1)))
	}}
	eval := func(i int64) {
		size := sizes[i%int64(len(sizes))]
		i /= int64(len(sizes))
		if size == 0 && i >= offs[depth-1] {
			atomic.AddInt64(&skipped, 1)
			return
		}
		d := 0
		for d+1 < len(offs) && i >= offs[d+1] {
			d++
		}
		i -= offs[d]
		hist := make([]int, d+1)
		for k := d; k >= 0; k-- {
			hist[k] = int(i % nops)
			i /= nops
		}
		path := paths.Get().(string)
		defer paths.Put(path)
		os.Remove(path)
		b, err := object.NewBoltStore(path)
		if err != nil {
			report.Fatal("bolt: %v", err)
		}
		object.VerifBoltNoSync(b)
		atomic.AddInt64(&opened, 1)
		n := aliasHistory(rep.Add, u, hist, size, object.NewMemoryStore(), b)
		b.Close()
		os.Remove(path)
		atomic.AddInt64(&held, int64(n))
		atomic.AddInt64(&hists, 1)
		if d == depth-1 && n >= 6 {
			var l []string
			for _, oi := range hist {
				l = append(l, u.ops[oi].label)
			}
			smp.Offer(fmt.Sprintf("alias stability (wire size +%d) %s: %d slices kept and re-compared", size, strings.Join(l, " ; "), n))
		}
	}
	// (the index space interleaves the two sizes; the small size stops one level earlier: with a
	// handful of bytes per packet the third operation adds nothing the 700-byte run does not have)
	done, complete := enum.Range(total*int64(len(sizes)), deadline, eval)
	return map[string]any{"operations": len(u.ops), "max_depth": depth, "wire_sizes_added": sizes, "histories_total": total*int64(len(sizes)) - atomic.LoadInt64(&skipped), "histories_done": done - atomic.LoadInt64(&skipped), "max_depth_small_wires": depth - 1,
		"exhaustive": complete, "fresh_bolt_files": atomic.LoadInt64(&opened), "slices_kept_and_recompared": atomic.LoadInt64(&held),
		"transactions_after_the_history": 4, "samples": smp.List()}
}

// aliasHistory runs one history of the alias-stability pass; returns the number of slices kept.
func aliasHistory(add func(report.Violation), u *sUniverse, hist []int, size int, mem ndn.Store, bolt ndn.Store) int {
	type kept struct {
		store, what string
		alias, copy []byte
	}
	var keep []kept
	stores := []struct {
		n string
		s ndn.Store
	}{{"mem", mem}, {"bolt", bolt}}
	stored := map[string]enc.Name{}
	var labels []string
	pad := func(tag string, k int) []byte {
		w := append([]byte(tag), byte('#'), byte('0'+k))
		for i := 0; i < size; i++ {
			w = append(w, byte(i*7+k))
		}
		return w
	}
	for k, oi := range hist {
		op := u.ops[oi]
		labels = append(labels, op.label)
		for _, s := range stores {
			if op.put != nil {
				s.s.Put(op.put.name, op.put.ver, pad(op.put.s, k)) // errors are the business of the differential pass
			} else {
				s.s.Remove(op.rem, op.prefix)
			}
		}
		if op.put != nil {
			stored[op.put.s] = op.put.name
		} else {
			for ks, n := range stored {
				if n.Equal(op.rem) || (op.prefix && op.rem.IsPrefix(n)) {
					delete(stored, ks)
				}
			}
		}
		for _, s := range stores {
			for ks, n := range stored {
				if w, err := s.s.Get(n, false); err == nil && w != nil {
					keep = append(keep, kept{s.n, fmt.Sprintf("Get(%s) after operation %d", ks, k+1), w, append([]byte(nil), w...)})
				}
			}
			if w, err := s.s.Get(enc.Name{}, true); err == nil && w != nil {
				keep = append(keep, kept{s.n, fmt.Sprintf("Get(/, prefix) after operation %d", k+1), w, append([]byte(nil), w...)})
			}
		}
	}
	for round := 0; round < 2; round++ {
		for _, s := range stores {
			s.s.Remove(enc.Name{}, true)
			s.s.Begin()
			for _, p := range u.pkts {
				s.s.Put(p.name, p.ver, pad("churn:"+p.s, 5+round))
			}
			s.s.Commit()
		}
	}
	for _, kp := range keep {
		eq, fault := safeEqual(kp.alias, kp.copy)
		if eq {
			continue
		}
		how := "differs from what was returned"
		if fault != nil {
			how = fmt.Sprintf("can no longer be read (%v)", fault)
		}
		add(report.Violation{Clause: "C15.bytes", Key: kp.store + ": bytes the store handed out do not stay intact when the store is written to afterwards",
			Detail: fmt.Sprintf("store history (wires of %d+%d bytes) %s :: the slice returned by %s.%s (%d bytes) %s after the rest of the history and four more transactions (2x: Remove(/, prefix), Put of %d packets)",
				len(u.pkts[0].s)+2, size, strings.Join(labels, " ; "), kp.store, kp.what, len(kp.copy), how, len(u.pkts)),
			Replay: map[string]any{"alias_history": labels, "wire_size_added": size}})
		break
	}
	return len(keep)
}

// runBigRemove: removal by prefix of an object with about a thousand packets (store code has scan
// bounds at 1000 keys). The real Client.Produce writes an object of N segments (+ metadata) into a
// MemoryStore and a BoltStore (scaled build: N segments are 4*N bytes); Remove(<object>/<version>,
// prefix) must leave no segment behind (every 100th, the first and the last three are asked for by
// exact name, and the prefix itself), must leave the metadata packet alone, and Remove(<object>,
// prefix) must then leave nothing. No consumer runs.
func runBigRemove(rep *report.Reporter) map[string]any {
	S := object.VerifSegmentSize()
	sizes := []int{999, 1000, 1001, 1200}
	if S >= 100 {
		return map[string]any{"skipped": "real segment size"}
	}
	checked := 0
	for _, N := range sizes {
		for _, kind := range []string{"mem", "bolt"} {
			var store ndn.Store
			var bs *object.BoltStore
			if kind == "bolt" {
				p := filepath.Join(tmpBase(), fmt.Sprintf("big-%d-%d.db", os.Getpid(), N))
				os.Remove(p)
				b, err := object.NewBoltStore(p)
				if err != nil {
					report.Fatal("bolt: %v", err)
				}
				object.VerifBoltNoSync(b)
				store, bs = b, b
			} else {
				store = object.NewMemoryStore()
			}
			desc := fmt.Sprintf("%s: Produce(/a, version 1, %d segments)", kind, N)
			bad := func(clause, key, detail string) {
				rep.Add(report.Violation{Clause: clause, Key: key, Detail: desc + " :: " + detail,
					Replay: map[string]any{"large_prefix_remove": N, "store": kind}})
			}
			cl := object.NewClient(&hEngine{role: "producer"}, store)
			ver := uint64(1)
			data := contentOf("/a", ver, N*S)
			base, err := cl.Produce(object.ProduceArgs{Name: mkName("/a", 0), Content: enc.Wire{append([]byte{}, data...)}, Version: &ver})
			if err != nil {
				bad("C15.bytes", "Produce fails for non-empty content", err.Error())
				continue
			}
			var probe []int
			for k := 0; k < N; k += 100 {
				probe = append(probe, k)
			}
			probe = append(probe, N-3, N-2, N-1)
			segName := func(k int) enc.Name { return append(base.Clone(), enc.NewSegmentComponent(uint64(k))) }
			meta := append(mkName("/a", 0), enc.NewStringComponent(enc.TypeKeywordNameComponent, "metadata"))
			for _, k := range probe {
				if w, _ := store.Get(segName(k), false); w == nil {
					bad("C15.bytes", "Produce does not store every segment", fmt.Sprintf("segment %d missing before the removal", k))
				}
				checked++
			}
			if err := store.Remove(base, true); err != nil {
				bad("C15.removed", kind+": Remove returns an error", err.Error())
			}
			left := []string{}
			for _, k := range probe {
				if w, _ := store.Get(segName(k), false); w != nil {
					left = append(left, fmt.Sprint(k))
				}
				checked++
			}
			if w, _ := store.Get(base, true); w != nil {
				left = append(left, "prefix Get")
			}
			if len(left) > 0 {
				bad("C15.removed", kind+": Remove(prefix) leaves packets under the prefix that are still served", fmt.Sprintf("after Remove(%s, prefix) still served: segments %v", base, left))
			}
			if w, _ := store.Get(meta, true); w == nil {
				bad("C15.stores", kind+": Remove(prefix) removes packets outside the prefix", fmt.Sprintf("after Remove(%s, prefix) the metadata packet under %s is gone", base, meta))
			}
			if err := store.Remove(mkName("/a", 0), true); err != nil {
				bad("C15.removed", kind+": Remove returns an error", err.Error())
			}
			if w, _ := store.Get(mkName("/a", 0), true); w != nil {
				bad("C15.removed", kind+": Remove(prefix) leaves packets under the prefix that are still served", fmt.Sprintf("after Remove(/a, prefix) Get(/a, prefix) still returns %d bytes", len(w)))
			}
			checked += 3
			if bs != nil {
				bs.Close()
			}
		}
	}
	return map[string]any{"segments": sizes, "stores": []string{"mem", "bolt"}, "gets_checked": checked}
}
