package main

import (
	"bytes"
	"encoding/json"
	"errors"
	"fmt"
	"os"
	"os/exec"
	"path/filepath"
	"regexp"
	"runtime/debug"
	"sort"
	"strconv"
	"strings"
	"syscall"
	"time"

	enc "github.com/named-data/ndnd/std/encoding"
	"github.com/named-data/ndnd/std/ndn"
	rdr "github.com/named-data/ndnd/std/ndn/rdr_2024"
	spec "github.com/named-data/ndnd/std/ndn/spec_2022"
	"github.com/named-data/ndnd/std/object"
	sec "github.com/named-data/ndnd/std/security"
	"github.com/named-data/ndnd/std/utils"
	"verif/mc/explore"
	"verif/mc/report"
	"verif/shim/vsched"
	"verif/shim/vtime"
)

// ---------------------------------------------------------------------------------------------
// scenarios

// noVer marks "no version" in pub/target/con. Versions are carried as the int64 bit pattern of the
// uint64 version (so that 2^63..2^64-1 fit); the sentinel is a pattern no scenario uses.
const noVer = int64(-0x7ffffffffffffff0)

type pub struct {
	Obj   string
	Ver   int64 // noVer: ProduceArgs.Version == nil (timestamp of the virtual clock)
	L     int
	Cuts  []int // buffer boundaries: byte offsets, ascending; 0 and L give empty buffers
	Slack int   // spare capacity of the enc.Name slice handed to Produce
	Adv   time.Duration
}

type target struct {
	Obj    string
	Meta   bool
	Ver    int64 // noVer: no version component
	Seg    int   // -1: no segment component
	Prefix bool
}

type con struct {
	Obj   string
	Ver   int64 // noVer: ask for the object name (metadata discovery)
	Slack int
	// Style: how the application reads ConsumeState.Content() in its callback.
	//   ""     copies every piece at once (append(buf, st.Content()...), as tools/catchunks writes it out)
	//   "keep" keeps the slices returned by Content() in every callback WITHOUT copying and
	//          concatenates them when completion is reported
	//   "late" does not touch Content() while the fetch is in progress, reads once at completion
	//   "alt"  reads in every second callback and at completion, keeping the slices (pieces of
	//          several segments, the window start lags behind the contiguous range)
	Style string
}

// consumer styles other than the copying one
var keptStyles = []string{"keep", "late", "alt"}

type scenario struct {
	Store string // mem | bolt
	Pubs  []pub
	Rems  []target
	Cons  []con
	Dyn   []target // removals the explorer may inject mid-run (deviations)
	Perm  bool     // permutation mode: only delivery order is explored, client runs canonically
	// client reuse: consumers issued one after the other ON THE SAME CLIENT, each when the previous
	// ones have completed and nothing is pending or queued any more
	Seq    []step
	Cache  bool // the network has an in-path content store honouring FreshnessPeriod / MustBeFresh
	Window int  // >0: fetch window of the consumer client set through hook VerifSetWindow (scaled)
	// RTT: round-trip time of this network (configuration dimension of the latency model): the Data
	// answering an Interest expressed at virtual time t reaches the consumer at t+RTT at the
	// earliest. 0 = the instant network of the other families.
	RTT time.Duration
	// Ext: packets ANOTHER application put into the producer's store next to the published object:
	// well-formed Data named <object>/<version>/seg=<k> with k beyond the object's FinalBlockId
	// (a producer that answers past the end). A consumer that fetches 0..FinalBlockId never asks
	// for them; they are served like any stored packet to whoever does.
	Ext []ext
	// Phantom: the network answers EVERY segment Interest for a published (object, version) whose
	// segment number lies beyond that publication's FinalBlockId with a harness-made Data of that
	// name (some producer on the path answers past the end). No such Interest, no such answer.
	Phantom bool
	// Burst > 0: the application may call Consume for Burst more objects (/u0 .. /u<Burst-1>, one
	// segment each, by object name) back-to-back at ANY moment of the history (explorer operation
	// "Burst", once per history). A call that finds the outgoing-Interest queue full blocks the
	// application (legal back-pressure): the remaining calls are made as soon as there is room.
	Burst int
	// Order: order in which the default schedule runs the ready select arms: "" = source order
	// (out, segin, fetch, check), "rev" = check, fetch, segin, out. Go's select picks any ready arm.
	Order string
}

// ext is one foreign packet (scenario.Ext).
type ext struct {
	Obj string
	Ver int64
	Seg int
	N   int // content bytes (0: empty content)
	FB  int // FinalBlockId it carries (-1: none)
}

func (e ext) String() string {
	return fmt.Sprintf("X(%s v%d seg%d n%d fb%d)", e.Obj, uint64(e.Ver), e.Seg, e.N, e.FB)
}

// step is one element of a scenario's sequential part: a Consume, a Produce or a clock advance,
// each executed when everything before it has completed and the network is quiet.
type step struct {
	C *con
	P *pub
	T time.Duration
}

func (x step) String() string {
	switch {
	case x.C != nil:
		return x.C.String()
	case x.P != nil:
		return x.P.String()
	}
	return fmt.Sprintf("T(%v)", x.T)
}

func seq(cs ...con) []step {
	var out []step
	for i := range cs {
		out = append(out, step{C: &cs[i]})
	}
	return out
}

func (p pub) String() string {
	v := "ts"
	if p.Ver != noVer {
		v = fmt.Sprint(uint64(p.Ver))
	}
	s := fmt.Sprintf("P(%s v%s L%d", p.Obj, v, p.L)
	if len(p.Cuts) > 0 {
		s += fmt.Sprintf(" cuts%v", p.Cuts)
	}
	if p.Slack > 0 {
		s += fmt.Sprintf(" slack%d", p.Slack)
	}
	if p.Adv > 0 {
		s += fmt.Sprintf(" +%v", p.Adv)
	}
	return s + ")"
}

func (t target) name() enc.Name {
	n := mkName(t.Obj, 0)
	if t.Meta {
		n = append(n, enc.NewStringComponent(enc.TypeKeywordNameComponent, "metadata"))
	}
	if t.Ver != noVer {
		n = append(n, enc.NewVersionComponent(uint64(t.Ver)))
	}
	if t.Seg >= 0 {
		n = append(n, enc.NewSegmentComponent(uint64(t.Seg)))
	}
	return n
}

func (t target) String() string {
	s := t.name().String()
	if t.Prefix {
		s += ",prefix"
	}
	return s
}

func (c con) String() string {
	s := c.Obj
	if c.Ver != noVer {
		s += fmt.Sprintf("/v=%d", uint64(c.Ver))
	}
	if c.Slack > 0 {
		s += fmt.Sprintf(" slack%d", c.Slack)
	}
	if c.Style != "" {
		s += " " + c.Style
	}
	return "C(" + s + ")"
}

func (sc *scenario) String() string {
	var p []string
	p = append(p, sc.Store)
	for _, x := range sc.Pubs {
		p = append(p, x.String())
	}
	for _, x := range sc.Ext {
		p = append(p, x.String())
	}
	if sc.Phantom {
		p = append(p, "phantom")
	}
	for _, x := range sc.Rems {
		p = append(p, "R("+x.String()+")")
	}
	for _, x := range sc.Cons {
		p = append(p, x.String())
	}
	for _, x := range sc.Seq {
		p = append(p, "then-"+x.String())
	}
	if sc.Window > 0 {
		p = append(p, fmt.Sprintf("window%d", sc.Window))
	}
	if sc.Cache {
		p = append(p, "cache")
	}
	if sc.Burst > 0 {
		p = append(p, fmt.Sprintf("burst%d", sc.Burst))
	}
	if sc.Order != "" {
		p = append(p, "order-"+sc.Order)
	}
	if sc.RTT > 0 {
		p = append(p, fmt.Sprintf("rtt%v", sc.RTT))
	}
	if len(sc.Dyn) > 0 {
		p = append(p, fmt.Sprintf("dyn%d", len(sc.Dyn)))
	}
	if sc.Perm {
		p = append(p, "perm")
	}
	return strings.Join(p, " ")
}

func mkName(s string, slack int) enc.Name {
	n, err := enc.NameFromStr(s)
	if err != nil {
		panic(err)
	}
	out := make(enc.Name, len(n), len(n)+slack)
	copy(out, n)
	return out
}

// content of (object, version): every byte depends on its offset through a multiplicative hash,
// so that no two segments (scaled or real size) are equal and swapped, duplicated or shifted
// segments are visible.
func contentOf(obj string, ver uint64, L int) []byte {
	seed := uint32(ver)*40503 + uint32(ver>>32)*977
	for _, c := range obj {
		seed = seed*131 + uint32(c)
	}
	b := make([]byte, L)
	for i := range b {
		x := (uint32(i)+seed)*2654435761 + seed
		b[i] = byte(x>>24) ^ byte(x>>13)
	}
	return b
}

// ---------------------------------------------------------------------------------------------
// instance

type refPkt struct {
	name enc.Name
	ver  uint64
	wire []byte
}

type consumeRec struct {
	tgt       con
	calls     int
	completed int
	err       error
	got       []byte
	expKnown  bool
	expVer    uint64
	verified  int         // got[:verified] has been compared with the published bytes
	pieces    []*heldWire // styles that keep what Content() returned: the slice and a copy taken at once
	reads     int
}

type inst struct {
	s          *sys
	sc         *scenario
	store      ndn.Store
	prod       *object.Client
	cons       *object.Client
	pe, ce     *hEngine
	net        []*request
	ref        map[string]*refPkt
	removed    map[string]bool
	pubBytes   map[string][]byte // "obj|ver" -> published bytes
	recs       []*consumeRec
	timeouts   map[string]int
	toNames    map[string]enc.Name
	fatal      map[string]int  // Interest name -> fatal results (Nack / engine error) delivered
	nonces     map[string]bool // (name, nonce) of every Interest the network carried
	lost       map[string]int  // Interest name -> timeouts of transmissions the network did carry (genuine losses)
	seqNext    int
	cs         map[string]*csEnt // in-path content store (scenario.Cache)
	nonceDrops int               // Interests dropped by the network as duplicates (same name and nonce)
	sendErrs   int               // Express calls the consumer's face refused (face down)
	faceLog    []string
	spurious   map[string]int // Interest name -> timeouts that hit a packet the network had NOT lost, sooner than rttMax after it was sent
	spurNote   string
	held       []*heldWire    // wires handed out by the producer's store, re-compared after later store transactions
	finalSeg   map[string]int // "<object>/<version>" -> FinalBlockId of its latest publication
	pastReq    map[string]int // Interest name -> times the consumer expressed it although its segment number lies beyond FinalBlockId
	pastNote   string
	phantoms   int
	churned    bool
	dynUsed    []bool
	dynLog     []string
	devUsed    int
	caps       [object.VerifArms]int // logical capacities of the consumer client's queues (the production ones)
	appPending int                   // Consume calls of the burst the application has not been able to make yet (queue full)
	appIssued  int
	burstUsed  bool
	group      string
	hist       []string
	done       bool
	viol       []report.Violation
	seen       map[string]bool
	trace      []string // ops executed inside Finish (for Detail)
}

type sys struct {
	scen   []*scenario
	byName map[string]*scenario
	groups []string // non-empty: the scenario is chosen in two steps (group, scenario) so that the
	// second step is spread over the worker processes
	inGroup map[string][]*scenario
	cfgName string
	maxDev  int
	seg     int
	faceOps bool // the explorer may take the consumer's face down and up again (deviations)
	// burstOnly: the only deviation offered is the application's burst of Consume calls (family burst)
	burstOnly bool
}

func (sc *scenario) group() string {
	if len(sc.Pubs) == 0 {
		return sc.Store
	}
	return fmt.Sprintf("%s L%d", sc.Store, sc.Pubs[0].L)
}

func (s *sys) index() {
	s.byName = map[string]*scenario{}
	s.inGroup = map[string][]*scenario{}
	for _, sc := range s.scen {
		if s.byName[sc.String()] != nil {
			report.Fatal("duplicate scenario %s", sc)
		}
		s.byName[sc.String()] = sc
		if len(s.scen) > 64 {
			g := sc.group()
			if s.inGroup[g] == nil {
				s.groups = append(s.groups, g)
			}
			s.inGroup[g] = append(s.inGroup[g], sc)
		}
	}
}

// canon audit: C15_NODEDUP=1 makes every history its own state (no de-duplication); the run must
// report the same violations as the de-duplicated one.
var noDedup = os.Getenv("C15_NODEDUP") == "1"

const retries = 3 // ExpressRArgs.Retries used by the client for metadata and segments

func (in *inst) bad(clause, key, detail string) {
	k := clause + "|" + key
	if in.seen[k] {
		return
	}
	in.seen[k] = true
	in.viol = append(in.viol, report.Violation{Clause: clause, Key: key, Detail: detail})
}

func (in *inst) takeViol() []report.Violation {
	v := in.viol
	in.viol = nil
	in.seen = map[string]bool{}
	if len(v) > 0 && len(in.trace) > 0 {
		for i := range v {
			v[i].Detail += " [Finish = " + strings.Join(in.trace, " ; ") + "]"
		}
	}
	return v
}

// --- bolt store: one database file per process, emptied between instances -------------------

var (
	boltStore *object.BoltStore
	boltPath  string
)

func tmpBase() string {
	if d := os.Getenv("C15_TMP"); d != "" {
		os.MkdirAll(d, 0o755)
		return d
	}
	d := fmt.Sprintf("/tmp/verif-c15-%d", os.Getpid())
	os.MkdirAll(d, 0o755)
	os.Setenv("C15_TMP", d)
	return d
}

// getBolt returns a BoltStore on a NEW database file (the previous instance's store is closed and
// its file deleted). Page allocation inside bbolt depends on the whole history of the file (free
// list); a file shared by the instances of a worker process would make what a stale slice into the
// memory map shows - and whether the map is ever moved - depend on which histories that worker
// happened to run before. With a fresh file every history has one page layout, in the explorer's
// workers and in a replay alike.
// boltDir: creating a bbolt file costs two fdatasync calls that NoSync does not switch off; on a
// disk shared with other jobs that is milliseconds per instance and varies wildly. The database
// files (32 KB - a few MB, one per process, deleted with the run) therefore live on the memory file
// system when there is one, in a directory named like the run's temp dir.
func boltDir() string {
	if d := os.Getenv("C15_BOLTDIR"); d != "" {
		return d
	}
	d := tmpBase()
	if fi, err := os.Stat("/dev/shm"); err == nil && fi.IsDir() {
		shm := filepath.Join("/dev/shm", filepath.Base(tmpBase()))
		if os.MkdirAll(shm, 0o755) == nil {
			d = shm
		}
	}
	os.Setenv("C15_BOLTDIR", d)
	return d
}

func getBolt() *object.BoltStore {
	if boltStore != nil {
		boltStore.Close()
		boltStore = nil
	}
	boltPath = filepath.Join(boltDir(), fmt.Sprintf("w%d.db", os.Getpid()))
	os.Remove(boltPath)
	s, err := object.NewBoltStore(boltPath)
	if err != nil {
		report.Fatal("cannot create bolt store %s: %v", boltPath, err)
	}
	object.VerifBoltNoSync(s)
	boltStore = s
	return boltStore
}

// --- wires handed out by the producer's store -------------------------------------------------

// heldWire is a byte slice the store returned (to the harness through Get, or to the network
// through the producer's Interest handler) together with a private copy taken at that moment. A
// packet that was retrieved is retrieved byte-for-byte only if those bytes stay what they were
// while the application goes on publishing and removing: the engine may still have the reply
// queued in a face, the consumer may not have read it yet.
type heldWire struct {
	what  string
	alias []byte
	copy  []byte
}

// hold records w and returns an independent copy (the reference model never aliases store memory).
func (in *inst) hold(what string, w []byte) []byte {
	if w == nil {
		return nil
	}
	c := append([]byte(nil), w...)
	in.held = append(in.held, &heldWire{what: what, alias: w, copy: c})
	return c
}

// safeEqual compares two byte slices; a memory fault while reading them (a slice into a memory
// map that has been unmapped or truncated meanwhile) is reported instead of killing the process.
func safeEqual(a, b []byte) (eq bool, fault any) {
	old := debug.SetPanicOnFault(true)
	defer debug.SetPanicOnFault(old)
	defer func() {
		if r := recover(); r != nil {
			eq, fault = false, r
		}
	}()
	return bytes.Equal(a, b), nil
}

// recheckHeld re-compares every wire the store handed out so far with the copy taken when it was
// handed out. Called after every operation that writes to the store.
func (in *inst) recheckHeld(after string) {
	keep := in.held[:0]
	for _, h := range in.held {
		eq, fault := safeEqual(h.alias, h.copy)
		if eq {
			keep = append(keep, h)
			continue
		}
		key := in.sc.Store + ": bytes the store handed out do not stay intact when the store is written to afterwards"
		if fault != nil {
			in.bad("C15.bytes", key, fmt.Sprintf("%s (%d bytes) can no longer be read after %s: %v (the slice points into memory the store has given up)", h.what, len(h.copy), after, fault))
		} else {
			i := 0
			for i < len(h.copy) && h.alias[i] == h.copy[i] {
				i++
			}
			in.bad("C15.bytes", key, fmt.Sprintf("%s (%d bytes) differs from what it was when it was handed out, first at offset %d, after %s (the slice is backed by memory the store reuses)", h.what, len(h.copy), i, after))
		}
	}
	for i := len(keep); i < len(in.held); i++ {
		in.held[i] = nil
	}
	in.held = keep
}

// churn runs at the end of a history, when nothing else is going to happen: four more write
// transactions on the producer's store with as much data as it holds (everything removed, every
// published packet stored again with other bytes, twice), so that every page or buffer the store
// has released since a wire was handed out is taken into use again; then the wires handed out
// during the history are compared once more. Nothing is published under the scenario's names that
// a consumer could still ask for: all fetches have completed.
func (in *inst) churn() {
	if in.churned || in.store == nil || len(in.held) == 0 {
		return
	}
	in.churned = true
	type pk struct {
		name enc.Name
		ver  uint64
		n    int
	}
	var pks []pk
	keys := make([]string, 0, len(in.ref))
	for k := range in.ref {
		keys = append(keys, k)
	}
	sort.Strings(keys)
	for _, k := range keys {
		p := in.ref[k]
		pks = append(pks, pk{p.name, p.ver, len(p.wire)})
	}
	if len(pks) == 0 {
		pks = append(pks, pk{mkName("/zz/churn", 0), 1, 64})
	}
	for round := 0; round < 2; round++ {
		if err := in.store.Remove(enc.Name{}, true); err != nil {
			in.bad("C15.removed", in.sc.Store+": Remove returns an error", fmt.Sprintf("Remove(/, prefix) = %v", err))
			return
		}
		err := in.store.Begin()
		for _, p := range pks {
			if err != nil {
				break
			}
			b := make([]byte, p.n)
			for i := range b {
				b[i] = byte(0xA5 + 31*round + i)
			}
			err = in.store.Put(p.name, p.ver, b)
		}
		if e2 := in.store.Commit(); err == nil {
			err = e2
		}
		if err != nil {
			in.bad("C15.stores", in.sc.Store+": Put returns an error", fmt.Sprintf("re-publishing %d packets: %v", len(pks), err))
			return
		}
	}
	in.recheckHeld(fmt.Sprintf("the end of the history and four more store transactions (2x: Remove(/, prefix), Put of %d packets)", len(pks)))
}

// ---------------------------------------------------------------------------------------------

func (s *sys) New() any {
	vtime.Reset(false)
	vsched.Reset()
	return &inst{s: s, ref: map[string]*refPkt{}, removed: map[string]bool{}, pubBytes: map[string][]byte{},
		timeouts: map[string]int{}, toNames: map[string]enc.Name{}, fatal: map[string]int{}, nonces: map[string]bool{}, lost: map[string]int{}, spurious: map[string]int{}, seen: map[string]bool{}, finalSeg: map[string]int{}, pastReq: map[string]int{}}
}

func (in *inst) setup(sc *scenario) {
	in.sc = sc
	if sc.Store == "bolt" {
		in.store = getBolt()
	} else {
		in.store = object.NewMemoryStore()
	}
	in.pe = &hEngine{in: in, role: "producer"}
	in.ce = &hEngine{in: in, role: "consumer"}
	in.prod = object.NewClient(in.pe, in.store)
	in.cons = object.NewClient(in.ce, object.NewMemoryStore())
	if err := in.prod.Start(); err != nil {
		panic(err)
	}
	if err := in.cons.Start(); err != nil {
		panic(err)
	}
	vsched.Reset() // the run() goroutines (now vsched tasks) are never run: VerifStep replaces them
	in.caps = in.cons.VerifCaps()
	in.cons.VerifGrowQueues(queueSlack)
	if sc.Window > 0 {
		in.cons.VerifSetWindow(sc.Window)
	}
	in.dynUsed = make([]bool, len(sc.Dyn))
	in.cs = map[string]*csEnt{}
	for _, p := range sc.Pubs {
		in.produce(p)
	}
	for k := 0; k < sc.Burst; k++ {
		in.produce(pub{Obj: fmt.Sprintf("/u%d", k), Ver: 1, L: 1})
	}
	for _, x := range sc.Ext {
		in.putForeign(x)
	}
	for _, r := range sc.Rems {
		in.remove(r)
	}
	for _, c := range sc.Cons {
		in.consume(c)
		in.checkQueues("application (Consume)")
	}
	if sc.Perm {
		in.runClient()
	}
}

// queueSlack: physical slots added to each queue of the consumer client beyond its production
// capacity (hook VerifGrowQueues); no single operation of the harness enqueues that many items.
const queueSlack = 64

var queueName = [...]string{"outgoing-Interest queue (outpipe)", "incoming-segment queue (seginpipe)", "new-fetch queue (segfetch)"}

// checkQueues compares the consumer client's queue lengths with their production capacities after
// an operation executed by `who`. The client goroutine is the only reader of the three queues: if
// ITS step has put more into one of them than the production channel holds, the production client
// would be blocked in that send for ever - nothing else drains the queue - and no callback of any
// pending fetch would ever be invoked (C15.once). An overflow caused by another thread (application,
// engine callback) is back-pressure the production code resolves by blocking that thread until the
// client goroutine drains; the stepped model cannot suspend a call half-way, so such a history ends
// here without a verdict (does not occur within the stated bounds on the unchanged tree).
func (in *inst) checkQueues(who string) bool {
	q := in.cons.VerifQueues()
	for i := 0; i < 3; i++ {
		if q[i] <= in.caps[i] {
			continue
		}
		if who == "client" {
			in.bad("C15.once", "client goroutine blocks for ever in a send on its own "+queueName[i]+": the queue is full and only the client goroutine drains it; no pending callback is ever invoked",
				fmt.Sprintf("after the step the queue holds %d items, the production channel has %d slots (fetch window %d); application Consume calls of the burst not yet made: %d; client: %s", q[i], in.caps[i], in.cons.VerifWindow(), in.appPending, clip(in.cons.VerifDump(), 1200)))
		}
		in.done = true
		return false
	}
	return true
}

// pump lets the application make the Consume calls of its burst that are still outstanding, one at
// a time, while the outgoing-Interest queue has room (a Consume by object name queues one metadata
// Interest; with the queue full the application is blocked in that send).
func (in *inst) pump() {
	for in.appPending > 0 && !in.done {
		if q := in.cons.VerifQueues(); q[object.VerifArmOut] >= in.caps[object.VerifArmOut] {
			return
		}
		in.consume(con{Obj: fmt.Sprintf("/u%d", in.appIssued), Ver: noVer})
		in.appIssued++
		in.appPending--
		if !in.checkQueues("application (Consume)") {
			return
		}
	}
}

// arms in the order the default schedule tries them
func (in *inst) armOrder() [object.VerifArms]int {
	if in.sc != nil && in.sc.Order == "rev" {
		return [object.VerifArms]int{object.VerifArmCheck, object.VerifArmFetch, object.VerifArmSegIn, object.VerifArmOut}
	}
	return [object.VerifArms]int{object.VerifArmOut, object.VerifArmSegIn, object.VerifArmFetch, object.VerifArmCheck}
}

func (in *inst) produce(p pub) {
	if p.Adv > 0 {
		vtime.Advance(p.Adv)
	}
	var vp *uint64
	ver := uint64(vtime.Now().UnixNano())
	if p.Ver != noVer {
		ver = uint64(p.Ver)
		vp = &ver
	}
	data := contentOf(p.Obj, ver, p.L)
	in.pubBytes[fmt.Sprintf("%s|%d", p.Obj, ver)] = data
	// split a private copy into buffers (Produce consumes its argument)
	cp := append([]byte{}, data...)
	var w enc.Wire
	prev := 0
	for _, c := range p.Cuts {
		w = append(w, cp[prev:c:c])
		prev = c
	}
	w = append(w, cp[prev:])
	name := mkName(p.Obj, p.Slack)
	got, err := in.prod.Produce(object.ProduceArgs{Name: name, Content: w, Version: vp})
	if err != nil {
		in.bad("C15.bytes", "Produce fails for non-empty content", fmt.Sprintf("Produce(%s) returned error %v", p, err))
		return
	}
	in.finalSeg[append(mkName(p.Obj, 0), enc.NewVersionComponent(ver)).String()] = (p.L - 1) / in.s.seg
	in.checkProduced(p, ver, data, got)
	in.recheckHeld("Produce(" + p.String() + ")")
}

// pastEnd: is n the name <object>/<version>/seg=<k> of a published (object, version) with k beyond
// the FinalBlockId of its latest publication? Returns that FinalBlockId.
func (in *inst) pastEnd(n enc.Name) (int, bool) {
	if len(n) < 3 || n[len(n)-1].Typ != enc.TypeSegmentNameComponent || n[len(n)-2].Typ != enc.TypeVersionNameComponent {
		return 0, false
	}
	fb, ok := in.finalSeg[n[:len(n)-1].String()]
	if !ok || n[len(n)-1].NumberVal() <= uint64(fb) {
		return 0, false
	}
	return fb, true
}

// foreignData builds a well-formed Data packet the way Produce does (blob, SHA-256 digest
// signature, FreshnessPeriod 4 s) under the given name.
func foreignData(n enc.Name, content []byte, fb int) []byte {
	cfg := &ndn.DataConfig{ContentType: utils.IdPtr(ndn.ContentTypeBlob), Freshness: utils.IdPtr(4 * time.Second)}
	if fb >= 0 {
		c := enc.NewSegmentComponent(uint64(fb))
		cfg.FinalBlockID = &c
	}
	d, err := spec.Spec{}.MakeData(n, cfg, enc.Wire{content}, sec.NewSha256Signer())
	if err != nil {
		panic(fmt.Sprintf("harness: cannot build Data %s: %v", n, err))
	}
	return d.Wire.Join()
}

// putForeign stores one packet of scenario.Ext in the producer's store (and in the reference
// model: it is published, whoever asks for that name gets it).
func (in *inst) putForeign(x ext) {
	n := append(mkName(x.Obj, 0), enc.NewVersionComponent(uint64(x.Ver)), enc.NewSegmentComponent(uint64(x.Seg)))
	content := make([]byte, x.N)
	for i := range content {
		content[i] = byte(0xE0 + i + x.Seg)
	}
	w := foreignData(n, content, x.FB)
	if err := in.store.Put(n, uint64(x.Ver), w); err != nil {
		in.bad("C15.stores", in.sc.Store+": Put returns an error", fmt.Sprintf("Put(%s) = %v", n, err))
		return
	}
	in.ref[n.String()] = &refPkt{name: n, ver: uint64(x.Ver), wire: append([]byte(nil), w...)}
	delete(in.removed, n.String())
	in.recheckHeld("Put(" + x.String() + ")")
}

func (in *inst) get(n enc.Name, prefix bool) []byte {
	w, err := in.store.Get(n, prefix)
	if err != nil {
		in.bad("C15.stores", in.sc.Store+": Get returns an error", fmt.Sprintf("Get(%s,%v) = error %v", n, prefix, err))
		return nil
	}
	return in.hold(fmt.Sprintf("the wire returned by Get(%s)", n), w)
}

// checkProduced compares the store contents after Produce with the published bytes: segment
// boundaries, FinalBlockId, no extra segment, metadata packet, returned name.
func (in *inst) checkProduced(p pub, ver uint64, data []byte, got enc.Name) {
	S := in.s.seg
	base := append(mkName(p.Obj, 0), enc.NewVersionComponent(ver))
	if !got.Equal(base) {
		in.bad("C15.bytes", "Produce returns a name other than <object>/<version>", fmt.Sprintf("Produce(%s) returned %s, want %s", p, got, base))
	}
	nseg := (len(data) + S - 1) / S
	fb := enc.NewSegmentComponent(uint64(nseg - 1))
	for k := 0; k <= nseg; k++ {
		n := append(base.Clone(), enc.NewSegmentComponent(uint64(k)))
		w := in.get(n, false)
		if k == nseg {
			// A packet beyond FinalBlockId (Produce writes an empty one when the content wire ends
			// with an empty buffer) is never asked for by a consumer: the property is silent.
			if w != nil {
				in.ref[n.String()] = &refPkt{name: n, ver: ver, wire: w}
			}
			break
		}
		if w == nil {
			in.bad("C15.bytes", "Produce does not store every segment", fmt.Sprintf("after Produce(%s) the store has no %s", p, n))
			continue
		}
		d, _, err := spec.Spec{}.ReadData(enc.NewBufferReader(w))
		if err != nil {
			in.bad("C15.bytes", "stored segment does not parse", fmt.Sprintf("%s: %v", n, err))
			continue
		}
		hi := min((k+1)*S, len(data))
		if !d.Name().Equal(n) || !bytes.Equal(d.Content().Join(), data[k*S:hi]) {
			in.bad("C15.bytes", "Produce cuts segments at the wrong offsets", fmt.Sprintf("after Produce(%s) segment %s carries %d bytes %x, want bytes [%d,%d) %x", p, d.Name(), len(d.Content().Join()), head(d.Content().Join()), k*S, hi, head(data[k*S:hi])))
		}
		if f := d.FinalBlockID(); f == nil || !f.Equal(fb) {
			in.bad("C15.bytes", "Produce writes a wrong FinalBlockId", fmt.Sprintf("after Produce(%s) segment %s has FinalBlockId %v, want %s", p, n, f, fb))
		}
		in.ref[n.String()] = &refPkt{name: n, ver: ver, wire: w}
	}
	mn := append(mkName(p.Obj, 0), enc.NewStringComponent(enc.TypeKeywordNameComponent, "metadata"),
		enc.NewVersionComponent(ver), enc.NewSegmentComponent(0))
	w := in.get(mn, false)
	if w == nil {
		in.bad("C15.bytes", "Produce does not store the metadata packet", fmt.Sprintf("after Produce(%s) the store has no %s", p, mn))
		return
	}
	in.ref[mn.String()] = &refPkt{name: mn, ver: ver, wire: w}
	d, _, err := spec.Spec{}.ReadData(enc.NewBufferReader(w))
	if err != nil {
		in.bad("C15.bytes", "stored metadata does not parse", fmt.Sprintf("%s: %v", mn, err))
		return
	}
	md, err := rdr.ParseMetaData(enc.NewWireReader(d.Content()), false)
	if err != nil {
		in.bad("C15.bytes", "stored metadata does not parse", fmt.Sprintf("%s: %v", mn, err))
		return
	}
	if !md.Name.Equal(base) {
		in.bad("C15.bytes", "metadata packet names something other than <object>/<version>", fmt.Sprintf("after Produce(%s) metadata %s points to %s, want %s", p, mn, md.Name, base))
	}
	if !bytes.Equal(md.FinalBlockID, fb.Bytes()) {
		in.bad("C15.bytes", "metadata packet carries a wrong FinalBlockId", fmt.Sprintf("after Produce(%s) metadata FinalBlockId %x, want %x", p, md.FinalBlockID, fb.Bytes()))
	}
}

func clip(s string, n int) string {
	if len(s) > n {
		return s[:n] + fmt.Sprintf("... (%d more characters)", len(s)-n)
	}
	return s
}

func head(b []byte) []byte {
	if len(b) > 12 {
		return b[:12]
	}
	return b
}

func (in *inst) remove(t target) {
	n := t.name()
	if err := in.store.Remove(n, t.Prefix); err != nil {
		in.bad("C15.removed", in.sc.Store+": Remove returns an error", fmt.Sprintf("Remove(%s) = %v", t, err))
	}
	for k, p := range in.ref {
		if p.name.Equal(n) || (t.Prefix && n.IsPrefix(p.name)) {
			delete(in.ref, k)
			in.removed[k] = true
		}
	}
	in.recheckHeld("Remove(" + t.String() + ")")
}

func (in *inst) consume(c con) {
	rec := &consumeRec{tgt: c}
	in.recs = append(in.recs, rec)
	n := mkName(c.Obj, c.Slack+1)
	if c.Ver != noVer {
		n = append(n, enc.NewVersionComponent(uint64(c.Ver))) // stays within the capacity: slack is what is left after it
		rec.expKnown, rec.expVer = true, uint64(c.Ver)
	} else {
		n = n[: len(n) : len(n)+c.Slack]
	}
	in.cons.Consume(n, func(st *object.ConsumeState) bool {
		rec.calls++
		if rec.completed > 0 {
			in.bad("C15.once", "callback invoked again after it saw IsComplete()", fmt.Sprintf("%s: call #%d (complete=%v err=%v) after completion was already reported", c, rec.calls, st.IsComplete(), st.Error()))
		}
		done := st.IsComplete()
		read := true
		switch c.Style {
		case "late":
			read = done
		case "alt":
			read = done || rec.calls%2 == 0
		}
		if read {
			chunk := st.Content()
			rec.reads++
			if c.Style != "" {
				// the application keeps the slice; the reference keeps a private copy taken now
				rec.pieces = append(rec.pieces, &heldWire{what: fmt.Sprintf("piece %d (returned by Content() in callback %d, stream offset %d)", len(rec.pieces)+1, rec.calls, len(rec.got)), alias: chunk, copy: append([]byte(nil), chunk...)})
			}
			rec.got = append(rec.got, chunk...)
		}
		if done {
			rec.completed++
			rec.err = st.Error()
		}
		// pieces kept from earlier callbacks must still be what they were (all of them while there
		// are few, then every 64th callback, and always at completion)
		if rec.calls <= 64 || rec.calls%64 == 0 || done {
			in.recheckPieces(fmt.Sprintf("callback %d of %s", rec.calls, c))
		}
		in.checkRec(rec)
		return true
	})
}

// recheckPieces: a consumer that keeps the slices Content() returned (styles keep, alt; late keeps
// its single one) assembles the object from them when completion is reported; the object is
// retrieved byte-for-byte only if every such slice still holds the bytes it held when it was handed
// out - whatever the client did afterwards for this or for another fetch.
func (in *inst) recheckPieces(after string) {
	for _, rec := range in.recs {
		for _, h := range rec.pieces {
			if h.alias == nil {
				continue
			}
			eq, fault := safeEqual(h.alias, h.copy)
			if eq {
				continue
			}
			i := 0
			for fault == nil && i < len(h.copy) && h.alias[i] == h.copy[i] {
				i++
			}
			in.bad("C15.bytes", "bytes returned by ConsumeState.Content() do not stay intact: a consumer that keeps the pieces and joins them at completion gets other bytes than were published",
				fmt.Sprintf("%s: %s, %d bytes, differs from what it was when it was returned, first at offset %d (fault: %v), after %s; %d pieces kept so far (the slice is backed by memory the client writes to again)", rec.tgt, h.what, len(h.copy), i, fault, after, len(rec.pieces)))
			h.alias = nil // reported once
		}
	}
}

func (in *inst) expected(rec *consumeRec) ([]byte, bool) {
	if !rec.expKnown {
		return nil, false
	}
	b, ok := in.pubBytes[fmt.Sprintf("%s|%d", rec.tgt.Obj, rec.expVer)]
	return b, ok
}

// fetchPrefix selects the Interests of the fetch of one object: <object>/32=metadata... and
// <object>/<version>/<segment> - not those of another object whose name merely starts with this
// object's name (/p/doc and the application object /p/doc/metadata).
type fetchPrefix enc.Name

func (p fetchPrefix) IsPrefix(n enc.Name) bool {
	if !enc.Name(p).IsPrefix(n) || len(n) <= len(p) {
		return false
	}
	c := n[len(p)]
	return c.Typ == enc.TypeVersionNameComponent || (c.Typ == enc.TypeKeywordNameComponent && string(c.Val) == "metadata")
}

func (in *inst) checkRec(rec *consumeRec) {
	exp, ok := in.expected(rec)
	if len(rec.got) > 0 {
		if !ok {
			in.bad("C15.bytes", "content delivered for a version that was never published", fmt.Sprintf("%s delivered %d bytes, expected version known=%v", rec.tgt, len(rec.got), rec.expKnown))
		} else if rec.verified <= len(rec.got) && len(rec.got) <= len(exp) && bytes.Equal(rec.got[rec.verified:], exp[rec.verified:len(rec.got)]) {
			rec.verified = len(rec.got) // (only the new bytes are compared: long objects)
		} else if !bytes.HasPrefix(exp, rec.got) {
			if len(rec.got) > len(exp) && bytes.HasPrefix(rec.got, exp) {
				in.bad("C15.bytes", "more bytes delivered than were published", fmt.Sprintf("%s delivered %d bytes, published %d", rec.tgt, len(rec.got), len(exp)))
			} else {
				i := 0
				for i < len(rec.got) && i < len(exp) && rec.got[i] == exp[i] {
					i++
				}
				in.bad("C15.bytes", "delivered bytes are not the next bytes of the published content", fmt.Sprintf("%s: after %d delivered bytes the stream differs from the published content at offset %d (segment %d)", rec.tgt, len(rec.got), i, i/in.s.seg))
			}
		}
	}
	if rec.completed == 0 {
		return
	}
	if rec.err == nil {
		if ok && len(rec.got) < len(exp) && bytes.HasPrefix(exp, rec.got) {
			in.bad("C15.bytes", "completion reported without error before all bytes were delivered", fmt.Sprintf("%s completed with %d of %d bytes", rec.tgt, len(rec.got), len(exp)))
		}
		if !ok {
			in.bad("C15.bytes", "completion reported for a version that was never published", fmt.Sprintf("%s completed, expected version known=%v ver=%d", rec.tgt, rec.expKnown, rec.expVer))
		}
		return
	}
	// completion with an error: legal only if some Interest of this fetch exhausted its budget
	pfx := fetchPrefix(mkName(rec.tgt.Obj, 0))
	worst := 0
	// only transmissions the network carried count as losses; a retransmission the network dropped
	// because it repeated the nonce of an earlier transmission is the client's doing
	// (Interests for segments beyond FinalBlockId are not part of the object: nothing that happens
	// to them - no answer at all, a Nack - excuses a failure to deliver the object)
	for n, c := range in.lost {
		if pfx.IsPrefix(in.toNames[n]) && c > worst && in.pastReq[n] == 0 {
			worst = c
		}
	}
	for n, c := range in.fatal {
		if c > 0 && pfx.IsPrefix(in.toNames[n]) && in.pastReq[n] == 0 {
			return // a Nack or an engine error for one of its Interests is final: failing is legal
		}
	}
	spur := 0
	for n, c := range in.spurious {
		if pfx.IsPrefix(in.toNames[n]) {
			spur += c
		}
	}
	past := 0
	for n, c := range in.pastReq {
		if pfx.IsPrefix(in.toNames[n]) {
			past += c
		}
	}
	if worst <= retries && past > 0 {
		in.bad("C15.budget", "fetch fails within the retry budget after the consumer asked for a segment beyond FinalBlockId: what comes back for an Interest it should not have sent (Data past the end, or its timeouts) ends the fetch", fmt.Sprintf("%s completed with error %q; the most genuine losses any of its Interests had is %d (budget: %d retries); %s", rec.tgt, rec.err, worst, retries, in.pastNote))
	} else if worst <= retries && spur > 0 {
		in.bad("C15.budget", "fetch fails although the network lost nothing beyond the retry budget: Interests expire before a round trip within the assumed bound can complete", fmt.Sprintf("%s completed with error %q; the most genuine losses any of its Interests had is %d (budget: %d retries); %d timeouts hit packets the network had not lost: %s", rec.tgt, rec.err, worst, retries, spur, in.spurNote))
	} else if worst <= retries && in.nonceDrops > 0 {
		in.bad("C15.budget", "fetch fails within the retry budget: retransmissions repeat the nonce of an earlier transmission (or carry none) and are dropped as duplicates by the network", fmt.Sprintf("%s completed with error %q; the most genuine losses any of its Interests had is %d (budget: %d retries); %d retransmitted Interests were dropped by the network for repeating a (name, nonce) it had already carried", rec.tgt, rec.err, worst, retries, in.nonceDrops))
	} else if worst <= retries {
		in.bad("C15.budget", "fetch fails although no Interest timed out more than Retries times", fmt.Sprintf("%s completed with error %q; the most timeouts any of its Interests had is %d (budget: %d retries = %d transmissions)", rec.tgt, rec.err, worst, retries, retries+1))
	}
}

// ---------------------------------------------------------------------------------------------
// network events

func (in *inst) gcNet() {
	out := in.net[:0]
	for _, r := range in.net {
		if r.pending || r.flying {
			out = append(out, r)
		}
	}
	for i := len(out); i < len(in.net); i++ {
		in.net[i] = nil
	}
	in.net = out
}

func (in *inst) answer(r *request) {
	r.flying = false
	interest, sigCov, err := spec.Spec{}.ReadInterest(enc.NewBufferReader(r.wire))
	if err != nil {
		panic(fmt.Sprintf("Interest %s expressed by the client does not parse: %v", r.nameS, err))
	}
	var reply []byte
	replies := 0
	fromCache := false
	if in.sc.Cache {
		if reply = in.csLookup(r, interest); reply != nil {
			fromCache = true
		}
	}
	if !fromCache {
		in.probePrefix(r, interest)
	}
	if in.pe.handler != nil && !fromCache {
		dl := vtime.Now().Add(4 * time.Second)
		if lt := interest.Lifetime(); lt != nil {
			dl = vtime.Now().Add(*lt)
		}
		in.pe.handler(ndn.InterestHandlerArgs{Interest: interest, RawInterest: enc.Wire{r.wire}, SigCovered: sigCov, Deadline: dl,
			Reply: func(w enc.Wire) error { reply = w.Join(); replies++; return nil }})
	}
	if replies > 1 {
		in.bad("C15.once", "producer replies more than once to one Interest", fmt.Sprintf("%d replies to %s", replies, r.nameS))
	}
	phantom := false
	if reply == nil && !fromCache && in.sc.Phantom && !r.cbp {
		if fb, ok := in.pastEnd(r.name); ok {
			// nobody published this name; a producer on the path answers past the end
			reply, phantom = foreignData(r.name, []byte("past-the-end"), fb), true
			in.phantoms++
		}
	}
	if !fromCache && reply != nil && !phantom {
		// the reply is what the producer handed to its engine: the consumer keeps working on these
		// very bytes (the harness copies nothing between the two clients), the harness keeps a copy
		in.hold(fmt.Sprintf("the reply to Interest %s", r.nameS), reply)
	}
	var dn enc.Name
	if fromCache {
		if d, _, err := (spec.Spec{}).ReadData(enc.NewBufferReader(reply)); err == nil {
			dn = d.Name().Clone()
		}
	} else if phantom {
		dn = r.name.Clone()
	} else {
		dn = in.checkReply(r, interest, reply)
		if in.sc.Cache && reply != nil && dn != nil {
			in.csInsert(reply)
		}
	}
	if reply == nil || dn == nil {
		in.gcNet()
		return
	}
	data, dsig, err := spec.Spec{}.ReadData(enc.NewBufferReader(reply))
	if err != nil {
		panic("unreachable")
	}
	snap := append([]*request{}, in.net...)
	for _, p := range snap {
		if !p.pending {
			continue
		}
		if p.name.Equal(dn) || (p.cbp && p.name.IsPrefix(dn)) {
			p.pending = false
			if rp := in.ref[dn.String()]; p.cbp && rp != nil {
				// a metadata answer fixes the version this consumer is going to fetch
				for _, rec := range in.recs {
					if rec.tgt.Ver != noVer || rec.expKnown {
						continue
					}
					mp := append(mkName(rec.tgt.Obj, 0), enc.NewStringComponent(enc.TypeKeywordNameComponent, "metadata"))
					if mp.Equal(p.name) {
						rec.expKnown, rec.expVer = true, rp.ver
					}
				}
			}
			p.cb(ndn.ExpressCallbackArgs{Result: ndn.InterestResultData, Data: data, RawData: enc.Wire{reply}, SigCovered: dsig})
		}
	}
	in.gcNet()
}

// probePrefix: MemoryStore.Get(prefix) walks Go maps, whose iteration order is random per walk; a
// defect that makes the answer depend on that order (first child wins, ...) would otherwise be
// reported on some runs only and make replays diverge. Before the producer answers a CanBePrefix
// Interest from a MemoryStore the harness therefore asks the store the same question many times
// (read-only) and judges EVERY distinct answer with the producer-side oracle. With two children in
// one map bucket an order flips with probability >= 1/8 per walk: 400 walks miss it with
// probability < 1e-23. A state in which any answer is wrong is a violation on every run and is not
// expanded, so no nondeterministic state is ever replayed.
func (in *inst) probePrefix(r *request, interest ndn.Interest) {
	if !r.cbp || in.sc.Store != "mem" {
		return
	}
	vers := map[uint64]bool{}
	for _, p := range in.ref {
		if r.name.IsPrefix(p.name) {
			vers[p.ver] = true
		}
	}
	if len(vers) < 2 {
		return
	}
	seen := map[string]bool{}
	for i := 0; i < 400; i++ {
		w, err := in.store.Get(interest.Name(), true)
		if err != nil {
			continue
		}
		if k := string(w); !seen[k] {
			seen[k] = true
			in.checkReply(r, interest, w)
		}
	}
}

// csEnt is one entry of the in-path content store.
type csEnt struct {
	name enc.Name
	wire []byte
	exp  time.Time // insertion time + FreshnessPeriod
}

// csLookup models a forwarder's content store in front of the consumer: an Interest is answered
// from it when a cached Data matches (exact name, or any name under a CanBePrefix Interest) and,
// for MustBeFresh Interests, is still within its FreshnessPeriod; other Interests are answered by
// stale entries too. Among several matches it returns the one with the smallest name (a real store
// may return any; the oracle does not depend on the choice). Serving FRESH data is legal whatever
// its version. Serving STALE metadata of a version older than the newest published one is how a
// consumer whose metadata Interest lacks MustBeFresh ends up with an old version: C15.newest.
func (in *inst) csLookup(r *request, interest ndn.Interest) []byte {
	var best *csEnt
	for _, e := range in.cs {
		if !(e.name.Equal(r.name) || (r.cbp && r.name.IsPrefix(e.name))) {
			continue
		}
		if interest.MustBeFresh() && !vtime.Now().Before(e.exp) {
			continue
		}
		if best == nil || e.name.Compare(best.name) < 0 {
			best = e
		}
	}
	if best == nil {
		return nil
	}
	if r.cbp && !vtime.Now().Before(best.exp) {
		var newest *refPkt
		for _, p := range in.ref {
			if r.name.IsPrefix(p.name) && (newest == nil || p.ver > newest.ver) {
				newest = p
			}
		}
		if cur := in.ref[best.name.String()]; newest != nil && (cur == nil || cur.ver < newest.ver) {
			in.bad("C15.newest", "consumer is served an older version from a cache: its metadata Interest does not ask for fresh data", fmt.Sprintf("Interest %s (MustBeFresh=%v) answered by the in-path content store with %s, cached %v ago beyond its freshness period, while %s is published", r.nameS, interest.MustBeFresh(), best.name, vtime.Now().Sub(best.exp), newest.name))
		}
	}
	return best.wire
}

func (in *inst) csInsert(wire []byte) {
	d, _, err := spec.Spec{}.ReadData(enc.NewBufferReader(wire))
	if err != nil {
		return
	}
	fp := time.Duration(0)
	if f := d.Freshness(); f != nil {
		fp = *f
	}
	n := d.Name().Clone()
	in.cs[n.String()] = &csEnt{name: n, wire: wire, exp: vtime.Now().Add(fp)}
}

// checkReply is the producer-side oracle: what the producer's handler answered to an Interest,
// against the reference model of what is published and not removed. Returns the Data name.
func (in *inst) checkReply(r *request, interest ndn.Interest, reply []byte) enc.Name {
	st := in.sc.Store
	var cands []*refPkt
	maxVer := uint64(0)
	if r.cbp {
		for _, p := range in.ref {
			if r.name.IsPrefix(p.name) {
				cands = append(cands, p)
				if p.ver > maxVer {
					maxVer = p.ver
				}
			}
		}
	} else if p := in.ref[r.nameS]; p != nil {
		cands = append(cands, p)
		maxVer = p.ver
	}
	if reply == nil {
		if len(cands) > 0 {
			if r.cbp && maxVer == 0 {
				in.bad("C15.newest", st+": prefix Get never returns a version-0 packet", fmt.Sprintf("Interest %s (CanBePrefix) got no answer although %s is in the store", r.nameS, cands[0].name))
			} else if r.cbp {
				in.bad("C15.newest", st+": published packet is not served to a prefix Interest", fmt.Sprintf("Interest %s (CanBePrefix) got no answer although %d matching packets (newest version %d) are in the store", r.nameS, len(cands), maxVer))
			} else {
				in.bad("C15.bytes", st+": published packet is not served", fmt.Sprintf("Interest %s got no answer although the packet was published and not removed", r.nameS))
			}
		}
		return nil
	}
	d, _, err := spec.Spec{}.ReadData(enc.NewBufferReader(reply))
	if err != nil {
		in.bad("C15.bytes", st+": served packet does not parse as Data", fmt.Sprintf("reply to %s: %v", r.nameS, err))
		return nil
	}
	dn := d.Name().Clone()
	if !(r.name.Equal(dn) || (r.cbp && r.name.IsPrefix(dn))) {
		in.bad("C15.bytes", st+": served packet does not match the Interest", fmt.Sprintf("Interest %s answered with %s", r.nameS, dn))
		return nil
	}
	p := in.ref[dn.String()]
	if p == nil {
		if in.removed[dn.String()] {
			in.bad("C15.removed", st+": removed packet is still served", fmt.Sprintf("Interest %s answered with %s, which was removed from the store", r.nameS, dn))
		} else {
			in.bad("C15.bytes", st+": served a packet that was never published", fmt.Sprintf("Interest %s answered with %s", r.nameS, dn))
		}
		return dn
	}
	if !bytes.Equal(p.wire, reply) {
		in.bad("C15.bytes", st+": served wire differs from the published packet", fmt.Sprintf("Interest %s: %d bytes served, %d published", r.nameS, len(reply), len(p.wire)))
	}
	if r.cbp && p.ver != maxVer {
		in.bad("C15.newest", st+": prefix Interest is answered with an older version", fmt.Sprintf("Interest %s (CanBePrefix) answered with %s (version %d) while version %d is published", r.nameS, dn, p.ver, maxVer))
	}
	return dn
}

func (in *inst) timeout(r *request) {
	r.pending = false
	in.timeouts[r.nameS]++
	in.toNames[r.nameS] = r.name
	switch {
	case r.flying && r.due.Sub(r.sentAt) <= rttMax:
		// The network has not lost this packet and the consumer gave up on it sooner than the
		// round-trip time the network is allowed to take: not a loss.
		in.spurious[r.nameS]++
		if in.spurNote == "" {
			in.spurNote = fmt.Sprintf("Interest %s was expressed with lifetime %v and expired %v after it was sent while the network (RTT %v, assumed bound %v) had not lost it", r.nameS, r.lifetime, r.due.Sub(r.sentAt), in.sc.RTT, rttMax)
		}
	case r.dup, r.unsent:
	default:
		in.lost[r.nameS]++
	}
	r.cb(ndn.ExpressCallbackArgs{Result: ndn.InterestResultTimeout})
	in.gcNet()
}

// fatalResult delivers a final non-Data, non-timeout result for a pending Interest whose packet is
// still in flight: a Nack from the network (the Interest is consumed by it) or an error reported
// by the engine/face. ExpressR does not retry these.
func (in *inst) fatalResult(r *request, res ndn.InterestResult) {
	r.pending, r.flying = false, false
	in.fatal[r.nameS]++
	in.toNames[r.nameS] = r.name
	a := ndn.ExpressCallbackArgs{Result: res}
	if res == ndn.InterestResultNack {
		a.NackReason = spec.NackReasonNoRoute
	} else {
		a.Error = errors.New("harness: face send error")
	}
	r.cb(a)
	in.gcNet()
}

// ---------------------------------------------------------------------------------------------
// client steps

var armName = [...]string{"out", "segin", "fetch", "check"}

// The doCheck model (hook VerifDoCheckSpins) is a transcription of a loop of the repository; it is
// trusted only after the REAL step was seen not to return, once per process, in a throw-away
// subprocess that replays the current history and runs the real step under a CPU-time watchdog
// (a spinning goroutine cannot be stopped, a process can). It is dropped for good the first time
// the real step returns although the model predicted a spin (i.e. the loop was repaired).
var (
	modelValidated bool
	modelStale     bool
	spinTest       = os.Getenv("C15_SPINTEST") != ""
)

const leaked = 0

// validateSpin replays the history of this instance (including the operation being applied) in a
// subprocess, which exits 3 if the real step really does not return and 0 if it does.
func (in *inst) validateSpin() bool {
	ops, _ := json.Marshal(in.hist)
	cmd := exec.Command(os.Args[0])
	for _, e := range os.Environ() {
		if !strings.HasPrefix(e, "VERIF_EXPLORE_WORKER=") {
			cmd.Env = append(cmd.Env, e)
		}
	}
	cmd.Env = append(cmd.Env, "C15_SPINTEST=1", "C15_SPIN_CFG="+in.s.cfgName, "C15_SPIN_OPS="+string(ops))
	out, err := cmd.CombinedOutput()
	code := 0
	if ee, ok := err.(*exec.ExitError); ok {
		code = ee.ExitCode()
	} else if err != nil {
		report.Fatal("C15: cannot run the spin validation subprocess: %v", err)
	}
	switch code {
	case 3:
		return true
	case 0:
		return false
	}
	report.Fatal("C15: spin validation subprocess ended with code %d: %s", code, out)
	return false
}

// spinTestMain is the subprocess side.
func spinTestMain() {
	s := build(os.Getenv("C15_SPIN_CFG")).(*sys)
	var names []string
	if err := json.Unmarshal([]byte(os.Getenv("C15_SPIN_OPS")), &names); err != nil {
		fmt.Println("bad C15_SPIN_OPS:", err)
		os.Exit(5)
	}
	in := s.New()
	for _, n := range names {
		found := false
		for _, op := range s.Ops(in) {
			if op.Name == n {
				s.Do(in, op) // exits from inside step() when the predicted spin is reached
				found = true
				break
			}
		}
		if !found {
			fmt.Printf("op %q not enabled while replaying\n", n)
			os.Exit(5)
		}
	}
	fmt.Println("replay finished without reaching a predicted spin")
	os.Exit(4)
}

func cpuTime() time.Duration {
	var ru syscall.Rusage
	syscall.Getrusage(syscall.RUSAGE_SELF, &ru)
	return time.Duration(ru.Utime.Nano() + ru.Stime.Nano())
}

// stepGuarded runs one real client step on a separate goroutine and reports whether it failed to
// return while this process consumed several CPU-seconds (a step normally takes microseconds).
// CPU time, not wall-clock time: a descheduled process does not look hung.
func (in *inst) stepGuarded(arm int) (hung bool) {
	done := make(chan any, 1)
	go func() {
		defer func() { done <- recover() }()
		in.cons.VerifStep(arm)
	}()
	c0 := cpuTime()
	for {
		select {
		case r := <-done:
			if r != nil {
				panic(r)
			}
			return false
		case <-time.After(100 * time.Millisecond):
			if cpuTime()-c0 > time.Duration(leaked+1)*time.Second {
				return true
			}
		}
	}
}

func (in *inst) step(arm int) {
	if arm == object.VerifArmCheck && !modelStale && in.cons.VerifDoCheckSpins() {
		dump := in.cons.VerifDump()
		if spinTest {
			if in.stepGuarded(arm) {
				os.Exit(3)
			}
			os.Exit(0)
		}
		if !modelValidated {
			if !in.validateSpin() {
				modelStale = true // the real loop returns: the model no longer describes the code
				if !in.cons.VerifStep(arm) {
					panic("harness: Step on an empty arm")
				}
				return
			}
			modelValidated = true
		}
		in.bad("C15.once", "client goroutine never returns from fetcher.doCheck (the round-robin scan loses its full-circle marker when it removes a completed stream)", "the segcheck arm of Client.run() loops forever: "+dump)
		in.done = true
		return
	}
	if !in.cons.VerifStep(arm) {
		panic("harness: Step on an empty arm")
	}
	in.checkQueues("client")
}

// runClient runs the consumer client to quiescence in canonical arm order.
func (in *inst) runClient() {
	for n := 0; n < 100000 && !in.done; n++ {
		q := in.cons.VerifQueues()
		arm := -1
		for a := 0; a < object.VerifArms; a++ {
			if q[a] > 0 {
				arm = a
				break
			}
		}
		if arm < 0 {
			return
		}
		in.step(arm)
	}
}

// ---------------------------------------------------------------------------------------------
// virtual time (latency model)
//
// Every expressed Interest carries the time it was sent and its lifetime. Network events happen at
// a virtual time: the Data (or Nack) for a packet in flight arrives at max(now, sentAt + RTT) with
// the scenario's round-trip time; the consumer engine's timeout for a pending Interest fires at
// max(now, sentAt + lifetime + margin). An event at time T is enabled only while no pending Interest
// expires before T (the expiry has to happen first: time does not run backwards), and executing it
// moves the clock to T. The client reacts in zero time (its arms run between network events). With
// RTT = 0 every arrival is "now", so the instant network of the other families is the special case.

func (in *inst) arrival(r *request) time.Time {
	t := r.sentAt.Add(in.sc.RTT)
	if now := vtime.Now(); t.Before(now) {
		return now
	}
	return t
}

func (in *inst) expiry(r *request) time.Time {
	if now := vtime.Now(); r.due.Before(now) {
		return now
	}
	return r.due
}

func (in *inst) anyFlying() bool {
	for _, r := range in.net {
		if r.flying {
			return true
		}
	}
	return false
}

// enabledAt: an event at time t may happen now iff no pending Interest expires strictly before t.
func (in *inst) enabledAt(t time.Time) bool {
	for _, r := range in.net {
		if r.pending && in.expiry(r).Before(t) {
			return false
		}
	}
	return true
}

func (in *inst) advanceTo(t time.Time) {
	if d := t.Sub(vtime.Now()); d > 0 {
		vtime.Advance(d)
	}
}

// ---------------------------------------------------------------------------------------------
// operations

func reqLabel(kind string, i int, r *request) string {
	return fmt.Sprintf("%s#%d %s", kind, i, r.nameS)
}

// defaultOp is THE schedule from which deviations are counted: the client runs its ready arms
// in source order (out, segin, fetch, check) before anything else happens; then the oldest packet
// in flight is delivered and answered; then, when nothing is in flight, the oldest Interest whose
// packet was lost (or that the producer did not answer) times out.
func (in *inst) defaultOp() string {
	q := in.cons.VerifQueues()
	for _, a := range in.armOrder() {
		if q[a] > 0 {
			return "Step(" + armName[a] + ")"
		}
	}
	// network events in virtual-time order: the earliest arrival (oldest packet first among equal
	// times) unless a pending Interest expires before it, then the earliest expiry
	best := -1
	var bt time.Time
	for i, r := range in.net {
		if r.flying {
			if t := in.arrival(r); best < 0 || t.Before(bt) {
				best, bt = i, t
			}
		}
	}
	if best >= 0 && in.enabledAt(bt) {
		return reqLabel("Ans", best, in.net[best])
	}
	best = -1
	for i, r := range in.net {
		if r.pending && (best < 0 || r.due.Before(bt)) {
			best, bt = i, r.due
		}
	}
	if best >= 0 {
		return reqLabel("TO", best, in.net[best])
	}
	if in.anyFlying() {
		panic("harness: packets in flight but no network event enabled")
	}
	if in.sc != nil && in.seqNext < len(in.sc.Seq) {
		for _, rec := range in.recs {
			if rec.completed == 0 {
				return "" // an earlier fetch is stuck: reported by final()
			}
		}
		return fmt.Sprintf("Next@%d %s", in.seqNext, in.sc.Seq[in.seqNext])
	}
	return ""
}

func (s *sys) Ops(i any) []explore.Op {
	in := i.(*inst)
	if in.sc == nil {
		list := s.scen
		if len(s.groups) > 0 && in.group == "" {
			ops := make([]explore.Op, len(s.groups))
			for k, g := range s.groups {
				ops[k] = explore.Op{Name: "G:" + g}
			}
			return ops
		} else if in.group != "" {
			list = s.inGroup[in.group]
		}
		ops := make([]explore.Op, len(list))
		for k, sc := range list {
			ops[k] = explore.Op{Name: "S:" + sc.String()}
		}
		return ops
	}
	if in.done {
		return nil
	}
	def := in.defaultOp()
	if def == "" {
		return nil
	}
	if in.sc.Perm {
		var ops []explore.Op
		for k, r := range in.net {
			if r.flying && in.enabledAt(in.arrival(r)) {
				ops = append(ops, explore.Op{Name: reqLabel("Ans", k, r)})
			}
		}
		if len(ops) == 0 {
			ops = append(ops, explore.Op{Name: def})
		}
		return ops
	}
	if s.maxDev >= 0 && in.devUsed >= s.maxDev {
		return []explore.Op{{Name: "Finish"}}
	}
	ops := []explore.Op{{Name: def}}
	add := func(n string) {
		if n != def {
			ops = append(ops, explore.Op{Name: n, Dev: true})
		}
	}
	if in.sc.Burst > 0 && !in.burstUsed {
		add(fmt.Sprintf("Burst(%d)", in.sc.Burst))
	}
	if s.burstOnly {
		return ops
	}
	q := in.cons.VerifQueues()
	for a := 0; a < object.VerifArms; a++ {
		if q[a] > 0 {
			add("Step(" + armName[a] + ")")
		}
	}
	// the consumer's face goes down / comes back: only while an Interest is about to be expressed
	// (the state of the face matters to nothing else, so the toggle is not offered elsewhere)
	if q[object.VerifArmOut] > 0 && in.s.faceOps {
		if in.ce.down {
			add("FaceUp")
		} else {
			add("FaceDown")
		}
	}
	for k, r := range in.net {
		if r.flying && in.enabledAt(in.arrival(r)) {
			add(reqLabel("Ans", k, r))
		}
	}
	for k, r := range in.net {
		if r.flying {
			add(reqLabel("Drop", k, r))
		}
	}
	for k, r := range in.net {
		if r.pending && in.enabledAt(in.expiry(r)) {
			add(reqLabel("TO", k, r))
		}
	}
	for k, r := range in.net {
		if r.pending && r.flying && in.enabledAt(in.arrival(r)) {
			add(reqLabel("Nack", k, r))
		}
	}
	for k, r := range in.net {
		if r.pending && r.flying {
			add(reqLabel("Err", k, r))
		}
	}
	for k, t := range in.sc.Dyn {
		if !in.dynUsed[k] {
			add(fmt.Sprintf("Remove@%d(%s)", k, t))
		}
	}
	return ops
}

func idx(name string) int {
	a := strings.IndexByte(name, '#')
	b := strings.IndexByte(name, ' ')
	if a < 0 || b < a {
		panic("bad op " + name)
	}
	n, err := strconv.Atoi(name[a+1 : b])
	if err != nil {
		panic("bad op " + name)
	}
	return n
}

func (in *inst) one(name string) {
	switch {
	case strings.HasPrefix(name, "Step("):
		for a, n := range armName {
			if name == "Step("+n+")" {
				in.step(a)
			}
		}
	case strings.HasPrefix(name, "Burst("):
		in.burstUsed = true
		in.appPending = in.sc.Burst
	case name == "FaceDown", name == "FaceUp":
		in.ce.down = name == "FaceDown"
		in.faceLog = append(in.faceLog, name)
	case strings.HasPrefix(name, "Ans#"):
		in.advanceTo(in.arrival(in.net[idx(name)]))
		in.answer(in.net[idx(name)])
	case strings.HasPrefix(name, "Drop#"):
		in.net[idx(name)].flying = false
		in.gcNet()
	case strings.HasPrefix(name, "TO#"):
		in.advanceTo(in.expiry(in.net[idx(name)]))
		in.timeout(in.net[idx(name)])
	case strings.HasPrefix(name, "Nack#"):
		in.advanceTo(in.arrival(in.net[idx(name)]))
		in.fatalResult(in.net[idx(name)], ndn.InterestResultNack)
	case strings.HasPrefix(name, "Err#"):
		in.fatalResult(in.net[idx(name)], ndn.InterestResultError)
	case strings.HasPrefix(name, "Next@"):
		x := in.sc.Seq[in.seqNext]
		in.seqNext++
		switch {
		case x.C != nil:
			in.consume(*x.C)
		case x.P != nil:
			in.produce(*x.P)
		default:
			vtime.Advance(x.T)
		}
	case strings.HasPrefix(name, "Remove@"):
		k, _ := strconv.Atoi(name[len("Remove@"):strings.IndexByte(name, '(')])
		in.dynUsed[k] = true
		in.dynLog = append(in.dynLog, name)
		in.remove(in.sc.Dyn[k])
	default:
		panic("unknown op " + name)
	}
	if !in.done && !strings.HasPrefix(name, "Step(") {
		in.checkQueues("engine callback / application")
	}
	in.pump()
}

// final runs when nothing is enabled any more: every consumer must have seen completion once.
func (in *inst) final() {
	in.done = true
	in.recheckPieces("the end of the history")
	for _, rec := range in.recs {
		if rec.completed == 0 {
			in.bad("C15.once", "consumer callback never reports completion although nothing is pending", fmt.Sprintf("%s: %d callback calls, %d bytes delivered, no pending Interest, no queued client work; client: %s", rec.tgt, rec.calls, len(rec.got), clip(in.cons.VerifDump(), 1500)))
		}
	}
	if len(in.viol) == 0 {
		in.churn()
	}
}

// finish runs the default schedule to quiescence.
func (in *inst) finish() {
	for n := 0; ; n++ {
		if in.done || len(in.viol) > 0 {
			break
		}
		d := in.defaultOp()
		if d == "" {
			break
		}
		if n > 200000 {
			in.bad("C15.once", "no quiescence after 200000 default steps", "the FIFO schedule does not terminate")
			in.done = true
			break
		}
		if len(in.trace) < 400 {
			in.trace = append(in.trace, d)
		}
		in.one(d)
	}
}

func (in *inst) do(op explore.Op) {
	wd := time.AfterFunc(5*time.Minute, func() {
		fmt.Printf("CHECK-ERROR: C15 harness: operation %q did not return within 5 minutes (a loop in the client that the doCheck model does not predict)\n", op.Name)
		os.Exit(2)
	})
	defer wd.Stop()
	in.trace = nil
	in.hist = append(in.hist, op.Name)
	maybeSelftestCrash(op.Name)
	switch {
	case strings.HasPrefix(op.Name, "S:"):
		sc := in.s.byName[op.Name[2:]]
		if sc == nil {
			panic("unknown scenario " + op.Name)
		}
		in.setup(sc)
		if in.s.maxDev == 0 && !sc.Perm && len(in.viol) == 0 {
			in.finish() // no deviation allowed: the rest of the history is the default schedule
		}
	case strings.HasPrefix(op.Name, "G:"):
		in.group = op.Name[2:]
		return
	case op.Name == "Finish":
		in.finish()
	default:
		if op.Dev {
			in.devUsed++
		}
		in.one(op.Name)
		if in.sc.Perm {
			in.runClient()
		}
	}
	if !in.done && len(in.viol) == 0 && in.defaultOp() == "" {
		in.final()
	}
}

var digits = regexp.MustCompile(`[0-9]+`)

func (s *sys) Apply(i any, op explore.Op) []report.Violation {
	in := i.(*inst)
	// one root cause, one key: the numbers in a runtime error (index, length, capacity) vary with
	// the scenario; the explorer keys a panic by its message and innermost repository frames
	defer func() {
		if r := recover(); r != nil {
			panic(digits.ReplaceAllString(fmt.Sprint(r), "N"))
		}
	}()
	faultsPanic()
	in.do(op)
	return in.takeViol()
}

func (s *sys) Do(i any, op explore.Op) {
	in := i.(*inst)
	faultsPanic()
	in.do(op)
	in.takeViol()
}

// faultsPanic: a memory fault at a non-nil address (a slice into a memory map that was unmapped or
// moved) in the goroutine that runs the code under test becomes a panic, which the explorer reports
// as a C15.panic violation with the faulting frames, instead of a fatal error that kills the worker
// (that case is handled too, see crash.go, but costs a process per operation).
// C15_NOPANICONFAULT=1 (development aid) leaves the runtime's default.
func faultsPanic() {
	if os.Getenv("C15_NOPANICONFAULT") == "" {
		debug.SetPanicOnFault(true)
	}
}

func (s *sys) Canon(i any) string {
	in := i.(*inst)
	if in.sc == nil {
		return "EMPTY" + in.group
	}
	if in.done {
		return "DONE" // no enabled operation: no future
	}
	var b strings.Builder
	b.WriteString(in.sc.String())
	// the absolute clock matters to the future only through publications still to come whose
	// version is the timestamp; everything else is kept relative to now
	abs := time.Duration(-1)
	for _, x := range in.sc.Seq[min(in.seqNext, len(in.sc.Seq)):] {
		if x.P != nil && x.P.Ver == noVer {
			abs = vtime.Now().Sub(vtime.Epoch)
		}
	}
	fmt.Fprintf(&b, "|dyn%v|t+%d|seq%d|down%v|", in.dynLog, abs, in.seqNext, in.ce.down)
	if in.sc.Burst > 0 {
		fmt.Fprintf(&b, "burst%v,%d,%d|", in.burstUsed, in.appPending, in.appIssued)
	}
	if len(in.pastReq) > 0 {
		fmt.Fprintf(&b, "past%d|", len(in.pastReq))
	}
	for _, r := range in.recs {
		fmt.Fprintf(&b, "rec{%d %d %v %d %v %d}", r.calls, r.completed, r.err != nil, len(r.got), r.expKnown, r.expVer)
	}
	if len(in.cs) > 0 {
		ck := make([]string, 0, len(in.cs))
		for k, e := range in.cs {
			ck = append(ck, fmt.Sprintf("%s@%d", k, e.exp.Sub(vtime.Now())))
		}
		sort.Strings(ck)
		fmt.Fprintf(&b, "cs%v", ck)
	}
	keys := make([]string, 0, len(in.timeouts))
	for k := range in.timeouts {
		keys = append(keys, k)
	}
	sort.Strings(keys)
	for _, k := range keys {
		fmt.Fprintf(&b, "to{%s=%d}", k, in.timeouts[k])
	}
	keys = keys[:0]
	for k := range in.lost {
		keys = append(keys, k)
	}
	sort.Strings(keys)
	for _, k := range keys {
		fmt.Fprintf(&b, "lost{%s=%d}", k, in.lost[k])
	}
	keys = keys[:0]
	for k := range in.fatal {
		keys = append(keys, k)
	}
	sort.Strings(keys)
	for _, k := range keys {
		fmt.Fprintf(&b, "fatal{%s=%d}", k, in.fatal[k])
	}
	keys = keys[:0]
	for k := range in.spurious {
		keys = append(keys, k)
	}
	sort.Strings(keys)
	for _, k := range keys {
		fmt.Fprintf(&b, "spur{%s=%d}", k, in.spurious[k])
	}
	now := vtime.Now()
	for _, r := range in.net {
		arr, exp := time.Duration(-1), time.Duration(-1)
		if r.flying {
			arr = in.arrival(r).Sub(now)
		}
		if r.pending {
			exp = in.expiry(r).Sub(now)
		}
		fmt.Fprintf(&b, "net{%s %v %v %v %v a%d e%d}", r.nameS, r.cbp, r.pending, r.flying, r.unsent, arr, exp)
	}
	b.WriteString("|")
	b.WriteString(in.cons.VerifDump())
	if noDedup {
		b.WriteString(strings.Join(in.hist, ";"))
	}
	return b.String()
}
