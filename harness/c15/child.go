package main

import (
	"bytes"
	"encoding/json"
	"fmt"
	"os"
	"os/exec"
	"path/filepath"
	"strings"
	"time"

	"github.com/named-data/ndnd/std/object"
	"verif/mc/explore"
	"verif/mc/report"
)

// The segment size is a compile-time constant, so one binary has one value. ./check builds this
// program with `-const std/object:pSegmentSize=4` (scaled model). For the REAL constant the parent
// builds the same program a second time with an overlay made without -const (xform binary and
// hooks of the current check run) and runs it as a child process with C15_CHILD=real: the child
// runs the real-size configurations with its own worker processes and writes its evidence and
// replay files under a private VERIF_OUT, which the parent merges.

type childBuild struct {
	done chan struct{}
	bin  string
	err  string
}

var cb *childBuild

func startChildBuild() {
	cb = &childBuild{done: make(chan struct{})}
	go func() {
		defer close(cb.done)
		B := os.Getenv("VERIF_BUILD_DIR")
		root := report.Root()
		repo := os.Getenv("VERIF_REPO_DIR")
		if B == "" || repo == "" {
			cb.err = "VERIF_BUILD_DIR / VERIF_REPO_DIR not set (run through ./check)"
			return
		}
		ov := filepath.Join(B, "ov-real")
		os.RemoveAll(ov)
		os.MkdirAll(ov, 0o755)
		x := exec.Command(filepath.Join(B, "xform"), "-repo", repo, "-out", ov,
			"-hooks", filepath.Join(root, "hooks"), "-hooks", filepath.Join(root, "harness", "c15", "hooks"),
			"-time", "std/object", "-gostmt", "std/object")
		if out, err := x.CombinedOutput(); err != nil {
			cb.err = fmt.Sprintf("xform (real overlay): %v: %s", err, out)
			return
		}
		args := []string{"build"}
		if _, err := os.Stat(filepath.Join(B, "alt.mod")); err == nil {
			args = append(args, "-modfile="+filepath.Join(B, "alt.mod"))
		}
		cb.bin = filepath.Join(B, "harness-real")
		args = append(args, "-tags", "verif", "-overlay", filepath.Join(ov, "overlay.json"), "-o", cb.bin, "./harness/c15")
		g := exec.Command("go", args...)
		g.Dir = root
		if out, err := g.CombinedOutput(); err != nil {
			cb.err = fmt.Sprintf("go build (real segment size): %v: %s", err, out)
		}
	}()
}

func runChild(rep *report.Reporter, th bool) map[string]any {
	if cb == nil {
		return map[string]any{"skipped": true}
	}
	<-cb.done
	if cb.err != "" {
		report.Fatal("%s", cb.err)
	}
	out := filepath.Join(tmpBase(), "real-out")
	os.MkdirAll(out, 0o755)
	cmd := exec.Command(cb.bin)
	realBolt := filepath.Join(boltDir(), "real")
	os.MkdirAll(realBolt, 0o755)
	cmd.Env = append(os.Environ(), "C15_CHILD=real", "VERIF_OUT="+out, "C15_TMP="+filepath.Join(tmpBase(), "real-tmp"), "C15_BOLTDIR="+realBolt)
	var so bytes.Buffer
	cmd.Stdout = &so
	cmd.Stderr = os.Stderr
	err := cmd.Run()
	if ee, ok := err.(*exec.ExitError); ok && ee.ExitCode() == 1 {
		err = nil // violations: merged below
	}
	if err != nil {
		report.Fatal("real-size child failed: %v\n%s", err, so.String())
	}
	for _, l := range strings.Split(so.String(), "\n") {
		if strings.HasPrefix(l, "real config") {
			fmt.Println(l)
		}
	}
	// merge violations
	files, _ := filepath.Glob(filepath.Join(out, "replays", "C15", "*.json"))
	for _, f := range files {
		b, err := os.ReadFile(f)
		if err != nil {
			continue
		}
		var v struct {
			Clause string `json:"clause"`
			Key    string `json:"key"`
			Detail string `json:"detail"`
			Replay any    `json:"replay"`
		}
		if json.Unmarshal(b, &v) == nil && v.Clause != "" {
			rep.Add(report.Violation{Clause: v.Clause, Key: v.Key, Detail: "[segment size 8000] " + v.Detail, Replay: map[string]any{"binary": "harness-real (overlay without -const)", "replay": v.Replay}})
		}
	}
	var ev struct {
		Coverage map[string]any `json:"coverage"`
	}
	b, err := os.ReadFile(filepath.Join(out, "evidence", "C15.json"))
	if err != nil || json.Unmarshal(b, &ev) != nil || ev.Coverage == nil {
		report.Fatal("real-size child wrote no evidence: %v\n%s", err, so.String())
	}
	delete(ev.Coverage, "rule")
	delete(ev.Coverage, "explanation")
	return ev.Coverage
}

// childMain: the real-segment-size run (same System, real constant).
func childMain() {
	if S := object.VerifSegmentSize(); S != 8000 {
		report.Fatal("real-size child: pSegmentSize is %d, expected the repository's 8000", S)
	}
	rep := report.New("C15", "model_checking")
	th := rep.Thorough()
	cfgs := configs(th)
	for _, c := range cfgs {
		build(c.Name)
	}
	budget := 25 * time.Second
	if th {
		budget = 6 * time.Minute
	}
	start := time.Now()
	var results []explore.Result
	states, trans := 0, 0
	exhaustive := true
	var samples []string
	for i, c := range cfgs {
		share := (budget - time.Since(start)) / time.Duration(len(cfgs)-i)
		if share < 2*time.Second {
			share = 2 * time.Second
		}
		c.Deadline = time.Now().Add(share)
		c.PanicClause = "C15.panic"
		r := explore.Run(c, rep)
		fmt.Printf("real config %-20s states=%d transitions=%d depth=%d cap=%q\n", c.Name, r.States, r.Transitions, r.DepthDone, r.CapHit)
		results = append(results, r)
		states += r.States
		trans += r.Transitions
		if !r.Exhaustive {
			exhaustive = false
		}
		for _, s := range r.Samples {
			if len(samples) < 4 {
				samples = append(samples, s)
			}
		}
	}
	if len(samples) == 0 {
		samples = []string{"(none)"}
	}
	rep.FinishNoExit(report.Coverage{"segment_size": object.VerifSegmentSize(), "states": states, "transitions": trans,
		"traces_validated_against_impl": trans, "exhaustive": exhaustive, "configs": results, "samples": samples}, nil)
}

// replaySpecial re-executes counterexamples that are not explorer histories of this binary:
// store-level histories (stores.go) and histories found by the real-segment-size child.
func replaySpecial(path string) (int, bool) {
	b, err := os.ReadFile(path)
	if err != nil {
		fmt.Println("CHECK-ERROR:", err)
		return 2, true
	}
	var f struct {
		Clause string `json:"clause"`
		Key    string `json:"key"`
		Replay struct {
			StoreHistory []string        `json:"store_history"`
			AliasHistory []string        `json:"alias_history"`
			WireSize     int             `json:"wire_size_added"`
			BigRemove    int             `json:"large_prefix_remove"`
			Mode         string          `json:"mode"`
			Binary       string          `json:"binary"`
			Inner        json.RawMessage `json:"replay"`
		} `json:"replay"`
	}
	if err := json.Unmarshal(b, &f); err != nil {
		fmt.Println("CHECK-ERROR:", err)
		return 2, true
	}
	switch {
	case f.Replay.BigRemove > 0:
		r2 := report.New("C15", "model_checking")
		runBigRemove(r2)
		if r2.Count() > 0 {
			fmt.Printf("replayed: large prefix removal scenario reports %d violation(s)\nVIOLATION property=C15 replay=%s\n", r2.Count(), path)
			return 1, true
		}
		fmt.Println("replay: violation not reproduced")
		return 0, true
	case len(f.Replay.AliasHistory) > 0:
		u := mkUniverse(false)
		var hist []int
		for _, l := range f.Replay.AliasHistory {
			k := -1
			for i, op := range u.ops {
				if op.label == l {
					k = i
				}
			}
			if k < 0 {
				fmt.Printf("CHECK-ERROR: unknown store operation %q\n", l)
				return 2, true
			}
			hist = append(hist, k)
		}
		p := filepath.Join(boltDir(), "replay-alias.db")
		os.Remove(p)
		bs, err := object.NewBoltStore(p)
		if err != nil {
			fmt.Println("CHECK-ERROR:", err)
			return 2, true
		}
		defer bs.Close()
		hit := false
		aliasHistory(func(v report.Violation) {
			if v.Clause == f.Clause && v.Key == f.Key {
				hit = true
				fmt.Printf("replayed: clause=%s %s\n", v.Clause, v.Detail)
			}
		}, u, hist, f.Replay.WireSize, object.NewMemoryStore(), bs)
		if hit {
			fmt.Printf("VIOLATION property=C15 replay=%s\n", path)
			return 1, true
		}
		fmt.Println("replay: violation not reproduced")
		return 0, true
	case len(f.Replay.StoreHistory) > 0:
		// the universe that has every operation of the history
		var u *sUniverse
		for _, cand := range []*sUniverse{mkUniverse(true), mkBoundaryUniverse(), mkTypedUniverse(), mkNestedUniverse()} {
			all := true
			for _, l := range f.Replay.StoreHistory {
				found := false
				for _, op := range cand.ops {
					if op.label == l {
						found = true
					}
				}
				all = all && found
			}
			if all && u == nil {
				u = cand
			}
		}
		if u == nil {
			fmt.Printf("CHECK-ERROR: no store universe has the operations %q\n", f.Replay.StoreHistory)
			return 2, true
		}
		var hist []int
		for _, l := range f.Replay.StoreHistory {
			k := -1
			for i, op := range u.ops {
				if op.label == l {
					k = i
				}
			}
			if k < 0 {
				fmt.Printf("CHECK-ERROR: unknown store operation %q\n", l)
				return 2, true
			}
			hist = append(hist, k)
		}
		p := filepath.Join(tmpBase(), "replay.db")
		bs, err := object.NewBoltStore(p)
		if err != nil {
			fmt.Println("CHECK-ERROR:", err)
			return 2, true
		}
		defer bs.Close()
		var st storeStats
		var smp report.Samples
		// run every prefix of the history (the enumeration checks after every history)
		hit := false
		for n := 1; n <= len(hist) && !hit; n++ {
			object.VerifBoltClear(bs)
			runStoreHistory(func(v report.Violation) {
				if v.Clause == f.Clause && v.Key == f.Key {
					hit = true
					fmt.Printf("replayed: clause=%s %s\n", v.Clause, v.Detail)
				}
			}, u, hist[:n], f.Replay.Mode, object.NewMemoryStore(), bs, &st, &smp)
		}
		if hit {
			fmt.Printf("VIOLATION property=C15 replay=%s\n", path)
			return 1, true
		}
		fmt.Println("replay: violation not reproduced")
		return 0, true
	case f.Replay.Binary != "":
		startChildBuild()
		<-cb.done
		if cb.err != "" {
			fmt.Println("CHECK-ERROR:", cb.err)
			return 2, true
		}
		inner := filepath.Join(tmpBase(), "inner.json")
		ib, _ := json.Marshal(map[string]any{"clause": f.Clause, "replay": f.Replay.Inner})
		os.WriteFile(inner, ib, 0o644)
		cmd := exec.Command(cb.bin, "--replay", inner)
		cmd.Env = append(os.Environ(), "C15_CHILD=replay")
		cmd.Stdout, cmd.Stderr = os.Stdout, os.Stderr
		err := cmd.Run()
		if ee, ok := err.(*exec.ExitError); ok {
			return ee.ExitCode(), true
		} else if err != nil {
			fmt.Println("CHECK-ERROR:", err)
			return 2, true
		}
		return 0, true
	}
	return 0, false
}
