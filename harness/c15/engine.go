package main

import (
	"encoding/binary"
	"errors"
	"fmt"
	"os"
	"time"

	enc "github.com/named-data/ndnd/std/encoding"
	"github.com/named-data/ndnd/std/ndn"
	spec "github.com/named-data/ndnd/std/ndn/spec_2022"
	"verif/shim/vtime"
)

// request is one Interest handed to the consumer engine's Express: an entry of the consumer's
// pending-Interest table (pending: callback not yet called) and a packet in the network (flying:
// the Interest, or the Data answering it, has neither been delivered nor lost yet).
type request struct {
	name    enc.Name
	nameS   string
	cbp     bool // CanBePrefix
	wire    []byte
	cb      ndn.ExpressCallbackFunc
	pending bool
	flying  bool
	dup     bool // dropped by the network: no nonce, or (name, nonce) already carried
	// virtual-time bookkeeping (latency model): the consumer engine's timeout for this entry falls
	// due at sentAt + lifetime + TimeoutMargin (engine/basic: timer.Schedule(lifetime+TimeoutMargin));
	// the Data answering it cannot reach the consumer before sentAt + RTT
	sentAt   time.Time
	lifetime time.Duration
	due      time.Time
	unsent   bool // the face refused the packet (Express returned an error); the entry still times out
}

// Constants of std/engine/basic (engine.go): DefaultInterestLife and TimeoutMargin. Restated here
// (the harness engine replaces engine/basic); only their order of magnitude matters to the oracle:
// a lifetime + margin above rttMax never expires while a packet is in flight within the assumed RTT.
const (
	defaultInterestLife = 4 * time.Second
	timeoutMargin       = 10 * time.Millisecond
	// rttMax is the environment assumption of the latency model: a packet the network does not lose
	// is answered within this round-trip time. A consumer that gives up on an Interest sooner than
	// this has not suffered a loss.
	rttMax = 300 * time.Millisecond
)

// errFaceDown is what the harness engine's face answers while it is down (engine/basic: the error
// of face.Send, e.g. "face is not running").
var errFaceDown = errors.New("harness: face is not running")

// hEngine is the harness implementation of ndn.Engine. It never calls back on its own: Express
// parks the Interest in the instance's network, AttachHandler records the handler.
type hEngine struct {
	in      *inst
	role    string
	handler ndn.InterestHandler
	prefix  enc.Name
	nonce   uint64
	// down: the consumer's face refuses to send (connection to the forwarder lost). Express then
	// does exactly what engine/basic.Engine.Express does: the pending-Interest entry is created and
	// its timeout scheduled BEFORE face.Send is attempted, the error of Send is returned to the
	// caller, the entry stays and times out later.
	down bool
}

type hTimer struct{ e *hEngine }

func (t hTimer) Now() time.Time                              { return vtime.Now() }
func (t hTimer) Sleep(time.Duration)                         {}
func (t hTimer) Schedule(time.Duration, func()) func() error { return func() error { return nil } }
func (t hTimer) Nonce() []byte {
	t.e.nonce++
	b := make([]byte, 8)
	binary.BigEndian.PutUint64(b, t.e.nonce)
	return b
}

func (e *hEngine) EngineTrait() ndn.Engine { return e }
func (e *hEngine) Spec() ndn.Spec          { return spec.Spec{} }
func (e *hEngine) Timer() ndn.Timer        { return hTimer{e} }
func (e *hEngine) Start() error            { return nil }
func (e *hEngine) Stop() error             { return nil }
func (e *hEngine) IsRunning() bool         { return true }
func (e *hEngine) AttachHandler(prefix enc.Name, h ndn.InterestHandler) error {
	if e.handler != nil {
		return fmt.Errorf("handler already attached")
	}
	e.handler, e.prefix = h, prefix.Clone()
	return nil
}
func (e *hEngine) DetachHandler(prefix enc.Name) error            { e.handler = nil; return nil }
func (e *hEngine) RegisterRoute(prefix enc.Name) error            { return nil }
func (e *hEngine) UnregisterRoute(prefix enc.Name) error          { return nil }
func (e *hEngine) ExecMgmtCmd(m string, c string, args any) error { return nil }

func (e *hEngine) Express(interest *ndn.EncodedInterest, cb ndn.ExpressCallbackFunc) error {
	if e.role != "consumer" {
		panic("harness: the producer client expressed an Interest")
	}
	if cb == nil {
		cb = func(ndn.ExpressCallbackArgs) {}
	}
	n := interest.FinalName.Clone()
	r := &request{name: n, nameS: n.String(), cbp: interest.Config.CanBePrefix,
		wire: interest.Wire.Join(), cb: cb, pending: true, flying: true}
	r.sentAt, r.lifetime = vtime.Now(), defaultInterestLife
	if interest.Config.Lifetime != nil {
		r.lifetime = *interest.Config.Lifetime
	}
	r.due = r.sentAt.Add(r.lifetime + timeoutMargin)
	// The network behaves like a forwarder in one respect: it remembers (name, nonce) of every
	// Interest it carried (for the whole history: lifetimes are short compared with a dead nonce
	// list) and silently drops an Interest that repeats one or that carries no nonce. The Interest
	// stays pending at the consumer and can only time out. This is default behaviour, not a deviation.
	pi, _, err := spec.Spec{}.ReadInterest(enc.NewBufferReader(r.wire))
	if err != nil {
		panic(fmt.Sprintf("Interest %s expressed by the client does not parse: %v", r.nameS, err))
	}
	// wire-level oracle: the Interest that discovers the newest version must ask for fresh data and
	// allow a longer name; otherwise any cache on the path may answer with the metadata of an old
	// version for as long as it keeps it ("the consumer obtains the newest" is then unattainable)
	if len(n) > 0 && n[len(n)-1].Typ == enc.TypeKeywordNameComponent && string(n[len(n)-1].Val) == "metadata" && os.Getenv("C15_NOWIRE") == "" { // C15_NOWIRE: development aid to exercise the cache oracle alone
		if !pi.MustBeFresh() {
			e.in.bad("C15.newest", "metadata Interest on the wire does not carry MustBeFresh", fmt.Sprintf("Interest %s expressed with MustBeFresh=false CanBePrefix=%v: a content store on the path may answer it with stale metadata of an older version", r.nameS, pi.CanBePrefix()))
		}
		if !pi.CanBePrefix() {
			e.in.bad("C15.newest", "metadata Interest on the wire does not carry CanBePrefix", fmt.Sprintf("Interest %s cannot match %s/<version>/<segment>", r.nameS, r.nameS))
		}
	}
	// request stream: an Interest for a segment beyond the FinalBlockId of the published version is
	// not a violation by itself (the property speaks of what the callback reports), but it is
	// remembered: if the fetch then fails within the retry budget, this is the root cause to name
	if fb, ok := e.in.pastEnd(n); ok {
		e.in.pastReq[r.nameS]++
		e.in.toNames[r.nameS] = r.name
		if e.in.pastNote == "" {
			e.in.pastNote = fmt.Sprintf("the consumer expressed Interest %s although the published version ends at FinalBlockId seg=%d", r.nameS, fb)
		}
	}
	if e.down {
		// engine/basic order: PIT entry first, then face.Send fails, the error goes to the caller
		r.flying, r.unsent = false, true
		e.in.fatal[r.nameS]++
		e.in.toNames[r.nameS] = r.name
		e.in.sendErrs++
		e.in.net = append(e.in.net, r)
		return errFaceDown
	}
	if nv := pi.Nonce(); nv == nil {
		r.flying, r.dup = false, true
		e.in.nonceDrops++
	} else {
		k := fmt.Sprintf("%s#%d", r.nameS, *nv)
		if e.in.nonces[k] {
			r.flying, r.dup = false, true
			e.in.nonceDrops++
		}
		e.in.nonces[k] = true
	}
	e.in.net = append(e.in.net, r)
	return nil
}
