// C15: a published object is retrieved byte-for-byte, newest version, completing once.
//
// Two REAL object.Client instances (producer on a MemoryStore or BoltStore, consumer) sit on a
// harness implementation of ndn.Engine. The explorer owns everything that is nondeterministic in
// production: which arm of the select in Client.run() executes next (hook VerifStep; the run()
// goroutine is never started), the order in which expressed Interests are delivered to the
// producer and answered, which packets are lost, and when a pending Interest times out. The
// default schedule (client arms in source order, then FIFO delivery, then timeouts of lost
// Interests) is explored together with ALL histories that depart from it at most k times
// (verif/mc/explore deviation bounding), each run to completion. Store-level Put/Remove histories
// are enumerated separately on both stores (stores.go). Real segment size (8000) is covered by a
// second build of this same program without the constant override (child.go).
package main

import (
	"encoding/json"
	"fmt"
	"os"
	"os/exec"
	"path/filepath"
	"runtime/pprof"
	"strconv"
	"strings"
	"syscall"
	"time"

	"github.com/named-data/ndnd/std/object"
	"verif/mc/explore"
	"verif/mc/report"
)

func thoroughTier() bool { return os.Getenv("VERIF_TIER") == "thorough" }

// cutsAll: no cut, every single cut 0..L (0 and L = an empty buffer), and for short contents every
// pair of cuts.
func cutsAll(L, pairsUpTo int) [][]int {
	out := [][]int{nil}
	for c := 0; c <= L; c++ {
		out = append(out, []int{c})
	}
	if L <= pairsUpTo {
		for a := 1; a < L; a++ {
			for b := a; b < L; b++ {
				out = append(out, []int{a, b})
			}
		}
		// an empty first / last buffer next to every single cut (a Read that returned 0 bytes)
		for c := 0; c <= L; c++ {
			out = append(out, []int{0, c})
			if c > 0 {
				out = append(out, []int{c, L})
			}
		}
	}
	return out
}

// cutsBoundary: cuts at and next to segment boundaries (real sizes).
func cutsBoundary(L, S int) [][]int {
	out := [][]int{nil}
	seen := map[int]bool{}
	add := func(c int) {
		if c >= 0 && c <= L && !seen[c] {
			seen[c] = true
			out = append(out, []int{c})
		}
	}
	add(0)
	add(1)
	add(L - 1)
	add(L)
	for b := S; b < L+S; b += S {
		add(b - 1)
		add(b)
		add(b + 1)
	}
	if L > S+1 {
		out = append(out, []int{S - 1, S + 1}, []int{1, S}, []int{S, S})
	}
	out = append(out, []int{0, L}, []int{L, L}, []int{0, 0})
	return out
}

func one(store string, L int, cuts []int) *scenario {
	return &scenario{Store: store, Pubs: []pub{{Obj: "/a", Ver: 1, L: L, Cuts: cuts}}, Cons: []con{{Obj: "/a", Ver: noVer}}}
}

// styled gives every consumer of the scenario the given style.
func styled(sc *scenario, style string) *scenario {
	for i := range sc.Cons {
		sc.Cons[i].Style = style
	}
	return sc
}

func perms(v []int64) [][]int64 {
	if len(v) <= 1 {
		return [][]int64{append([]int64{}, v...)}
	}
	var out [][]int64
	for i := range v {
		rest := append(append([]int64{}, v[:i]...), v[i+1:]...)
		for _, p := range perms(rest) {
			out = append(out, append([]int64{v[i]}, p...))
		}
	}
	return out
}

// scenarios of one family for the given segment size and tier.
func family(fam string, S int, th bool) []*scenario {
	var out []*scenario
	scaled := S < 100
	// lengths in units that cross the same boundaries in both models
	var lengths []int
	if scaled {
		for L := 1; L <= 45; L++ {
			lengths = append(lengths, L)
		}
	} else {
		lengths = []int{1, 7999, 8000, 8001, 15999, 16000, 16001, 24001}
		if th {
			lengths = append(lengths, 88001)
		}
	}
	segs := func(n int) int { return (n-1)*S + 1 } // shortest content with n segments
	switch fam {
	case "fifo":
		for _, L := range lengths {
			var cs [][]int
			if scaled {
				cs = cutsAll(L, 13)
			} else {
				cs = cutsBoundary(L, S)
			}
			for _, st := range []string{"mem", "bolt"} {
				for _, c := range cs {
					out = append(out, one(st, L, c))
				}
			}
		}
	case "sched1":
		for _, L := range lengths {
			if scaled && !th && L > 25 && L != 37 && L != 40 && L != 41 && L != 44 && L != 45 {
				continue // quick: 1..7 segments completely, then 10, 11 and 12 segments (window of 10)
			}
			var c []int
			if L > 1 {
				c = []int{L / 2}
			}
			out = append(out, one("mem", L, c))
		}
		for _, n := range []int{1, 2, 3, 11, 12} {
			if !scaled && n > 4 && !th {
				continue
			}
			out = append(out, one("bolt", segs(n), nil), one("bolt", n*S, nil))
		}
	case "sched2":
		ns := []int{1, 2, 3, 4, 5, 6}
		if !scaled {
			ns = []int{1, 2, 3}
			if th {
				ns = []int{1, 2, 3, 4}
			}
		} else if th {
			ns = nil
			for _, L := range lengths { // every length 1..45
				out = append(out, one("mem", L, nil))
			}
		}
		for _, n := range ns {
			out = append(out, one("mem", segs(n), nil))
			if n <= 3 && !(th && scaled) {
				out = append(out, one("mem", n*S, nil))
			}
		}
	case "sched3":
		for _, n := range []int{1, 2, 3, 4, 5, 6} {
			out = append(out, one("mem", segs(n), nil))
		}
	case "reuse", "reuseS": // reuseS: only the scenarios with a scaled-down window (short histories)
		// one consumer client, consumers one after the other: earlier fetches fail with segment
		// Interests outstanding (window partly or completely full), the LAST one is an intact object
		// on a clean network and must complete. State a failed fetch leaves behind in the client
		// (window slots, streams, round-robin position) is what this family is about. The window is
		// scaled down through hook VerifSetWindow so that few failures fill it; one scenario keeps
		// the real window of 10 and fills it with one interrupted 12-segment transfer, one with ten
		// failed single-Interest fetches.
		good := pub{Obj: "/b", Ver: 1, L: 2*S + 1}
		last := con{Obj: "/b", Ver: noVer}
		segsOf := func(obj string, from, to int) []target {
			var t []target
			for k := from; k <= to; k++ {
				t = append(t, target{Obj: obj, Ver: 1, Seg: k})
			}
			return t
		}
		// both outstanding Interests of a 3-segment object are never answered (window 2 = full)
		out = append(out, &scenario{Store: "mem", Window: 2, Pubs: []pub{{Obj: "/a", Ver: 1, L: 2*S + 1}, good}, Rems: segsOf("/a", 1, 2),
			Seq: seq(con{Obj: "/a", Ver: noVer}, last)})
		// two failed fetches with one outstanding Interest each
		out = append(out, &scenario{Store: "mem", Window: 2, Pubs: []pub{{Obj: "/a", Ver: 1, L: S + 1}, {Obj: "/c", Ver: 1, L: S + 1}, good},
			Rems: append(segsOf("/a", 0, 0), segsOf("/c", 0, 0)...), Seq: seq(con{Obj: "/a", Ver: noVer}, con{Obj: "/c", Ver: noVer}, last)})
		// a missing object (metadata fails), then a 4-segment object losing segments 1..3 (window 3)
		out = append(out, &scenario{Store: "mem", Window: 3, Pubs: []pub{{Obj: "/a", Ver: 1, L: 3*S + 1}, good}, Rems: segsOf("/a", 1, 3),
			Seq: seq(con{Obj: "/x", Ver: noVer}, con{Obj: "/a", Ver: noVer}, last)})
		// real window (10): one interrupted transfer of a 12-segment object, window full
		if fam == "reuse" {
			out = append(out, &scenario{Store: "mem", Pubs: []pub{{Obj: "/a", Ver: 1, L: 11*S + 1}, good}, Rems: segsOf("/a", 1, 10),
				Seq: seq(con{Obj: "/a", Ver: noVer}, last)})
		}
		// real window (10): ten failed fetches of small objects
		if fam == "reuse" {
			sc := &scenario{Store: "mem", Pubs: []pub{good}}
			for i := 0; i < 10; i++ {
				o := fmt.Sprintf("/f%d", i)
				sc.Pubs = append(sc.Pubs, pub{Obj: o, Ver: 1, L: 1})
				sc.Rems = append(sc.Rems, target{Obj: o, Ver: 1, Seg: 0})
				sc.Seq = append(sc.Seq, seq(con{Obj: o, Ver: noVer})...)
			}
			sc.Seq = append(sc.Seq, seq(last)...)
			out = append(out, sc)
		}
		// reuse after success, and a sequential fetch after two concurrent ones (one failing)
		out = append(out, &scenario{Store: "mem", Window: 2, Pubs: []pub{{Obj: "/a", Ver: 1, L: 3*S + 1}, good}, Seq: seq(con{Obj: "/a", Ver: noVer}, last, con{Obj: "/a", Ver: 1})})
		out = append(out, &scenario{Store: "mem", Window: 3, Pubs: []pub{{Obj: "/a", Ver: 1, L: 2*S + 1}, {Obj: "/c", Ver: 1, L: S + 1}, good}, Rems: segsOf("/a", 1, 2),
			Cons: []con{{Obj: "/a", Ver: noVer}, {Obj: "/c", Ver: noVer}}, Seq: seq(last)})
	case "vbound":
		// version boundaries: every pair (older, newer) of {0, 1, 2^31, 2^32, 2^63-1, 2^63, 2^64-2,
		// 2^64-1}, published in both orders, on both stores; the consumer asks for the object name
		for _, st := range []string{"mem", "bolt"} {
			for i, a := range boundaryVersions {
				for j, b := range boundaryVersions {
					if i == j {
						continue
					}
					// (i, j) with i != j enumerates both publication orders of every pair
					out = append(out, &scenario{Store: st, Cons: []con{{Obj: "/a", Ver: noVer}},
						Pubs: []pub{{Obj: "/a", Ver: int64(a), L: S + 1 + i}, {Obj: "/a", Ver: int64(b), L: S + 1 + j}}})
				}
			}
		}
	case "cache":
		// a forwarder's content store sits between consumer and producer: fetch, publish a newer
		// version, let the cached packets go stale (FreshnessPeriod 4 s), fetch again on the same
		// client: the second fetch must deliver the newer version
		for _, st := range []string{"mem", "bolt"} {
			byName := con{Obj: "/a", Ver: noVer}
			v2 := pub{Obj: "/a", Ver: 2, L: S + 2}
			out = append(out, &scenario{Store: st, Cache: true, Pubs: []pub{{Obj: "/a", Ver: 1, L: S + 1}},
				Seq: []step{{C: &byName}, {P: &v2}, {T: 5 * time.Second}, {C: &byName}}})
			// within the freshness period the cache may legally answer with the old metadata
			out = append(out, &scenario{Store: st, Cache: true, Pubs: []pub{{Obj: "/a", Ver: 1, L: S + 1}},
				Seq: []step{{C: &byName}, {P: &v2}, {T: time.Second}, {C: &byName}, {T: 5 * time.Second}, {C: &byName}}})
		}
		{
			byName := con{Obj: "/a", Ver: noVer}
			ts := pub{Obj: "/a", Ver: noVer, L: 2*S + 1, Adv: time.Second}
			ts2 := pub{Obj: "/a", Ver: noVer, L: S + 3, Adv: time.Second}
			out = append(out, &scenario{Store: "mem", Cache: true,
				Seq: []step{{P: &ts}, {C: &byName}, {P: &ts2}, {T: 5 * time.Second}, {C: &byName}, {C: &byName}}})
		}
	case "hist":
		// explored WITHOUT canonical-state de-duplication (Config.NoDedup): hidden state that no
		// canonical form shows cannot make the search merge away the history that exposes it
		out = append(out, one("mem", segs(3), nil), one("mem", segs(5), nil))
	case "tiny":
		// every history, no deviation bound (finite because every Interest has 4 transmissions)
		out = append(out, one("mem", 1, nil), one("mem", S+1, nil))
	case "perm":
		ns := []int{4, 5}
		if th {
			ns = []int{4, 5, 6, 7}
		}
		if !scaled {
			ns = []int{4}
		}
		for _, n := range ns {
			for _, L := range []int{segs(n), n * S} {
				sc := one("mem", L, nil)
				sc.Perm = true
				out = append(out, sc)
			}
		}
		sc := one("bolt", segs(4), nil)
		sc.Perm = true
		out = append(out, sc)
		// every delivery order for each consumer style that keeps what Content() returned (the
		// pieces then have every combination of sizes the order allows)
		for _, style := range keptStyles {
			sc := styled(one("mem", segs(4), nil), style)
			sc.Perm = true
			out = append(out, sc)
		}
	case "style", "styleS":
		// consumer styles (con.Style): the application keeps the slices Content() returned and joins
		// them at completion / reads only once at completion / reads in every second callback.
		// style: every length, bolt, and a client re-used for three fetches (default schedule; thorough
		// also k=1); styleS: short objects for the deviation bound (every delivery order: family perm)
		for _, style := range keptStyles {
			if fam == "style" {
				for _, L := range lengths {
					out = append(out, styled(one("mem", L, nil), style))
				}
				out = append(out, styled(one("bolt", segs(3), nil), style), styled(one("bolt", segs(12), nil), style))
			} else {
				ns := []int{1, 2, 3, 4}
				if !scaled {
					ns = []int{1, 2, 3}
				}
				for _, n := range ns {
					out = append(out, styled(one("mem", segs(n), nil), style))
				}
				out = append(out, styled(one("mem", 2*S, nil), style))
			}
			if fam == "styleS" && !scaled {
				continue // (segment size 8000: the multi-fetch scenarios run on the default schedule only)
			}
			// two concurrent fetches of the same style, and one next to a copying consumer
			two := []pub{{Obj: "/a", Ver: 1, L: 2*S + 1}, {Obj: "/b", Ver: 1, L: 3 * S}}
			out = append(out, &scenario{Store: "mem", Pubs: two, Cons: []con{{Obj: "/a", Ver: noVer, Style: style}, {Obj: "/b", Ver: noVer, Style: style}}})
			out = append(out, &scenario{Store: "mem", Pubs: two, Cons: []con{{Obj: "/a", Ver: noVer}, {Obj: "/b", Ver: 1, Style: style}}})
			// a fetch that fails half-way (segment 2 of 4 is gone): what was delivered is a prefix
			out = append(out, &scenario{Store: "mem", Pubs: []pub{{Obj: "/a", Ver: 1, L: 3*S + 1}}, Rems: []target{{Obj: "/a", Ver: 1, Seg: 2}}, Cons: []con{{Obj: "/a", Ver: noVer, Style: style}}})
			// the same client fetches another object afterwards: what the first consumer kept stays
			if fam == "style" {
				out = append(out, &scenario{Store: "mem", Pubs: two, Seq: seq(con{Obj: "/a", Ver: noVer, Style: style}, con{Obj: "/b", Ver: noVer, Style: style}, con{Obj: "/a", Ver: 1})})
			}
		}
	case "typed", "typedS": // typedS: two of the five scenario kinds (larger deviation bound)
		// look-alike names: objects whose names differ in the TYPE of one component only, or where a
		// generic component of one object has the value bytes of a keyword / version component of
		// the other: /p/doc (its metadata packet lives under /p/doc/32=metadata) next to the
		// application object /p/doc/metadata; /p/item next to /p/32=item; /p/n (version 2, packets
		// /p/n/v=2/...) next to /p/n/%02. Each object is consumed; removing one leaves the other.
		pairs := [][2]string{{"/p/doc", "/p/doc/metadata"}, {"/p/item", "/p/32=item"}, {"/p/n", "/p/n/%02"}}
		for _, st := range []string{"mem", "bolt"} {
			for _, pr := range pairs {
				a, b := pr[0], pr[1]
				// the look-alike carries the larger version (a merged subtree would make it the newest)
				pa, pb := pub{Obj: a, Ver: 2, L: 2*S + 1}, pub{Obj: b, Ver: 5, L: S + 2}
				both := []con{{Obj: a, Ver: noVer}, {Obj: b, Ver: noVer}}
				out = append(out, &scenario{Store: st, Pubs: []pub{pa, pb}, Cons: both})
				// one of the two removed (all its packets): the other one is still served, the removed one is not
				out = append(out, &scenario{Store: st, Pubs: []pub{pa, pb}, Cons: both, Rems: []target{{Obj: b, Ver: noVer, Seg: -1, Prefix: true}}})
				if fam == "typedS" {
					continue
				}
				// other publication order, the other one newer, consumed one after the other
				out = append(out, &scenario{Store: st, Pubs: []pub{{Obj: b, Ver: 2, L: S + 2}, {Obj: a, Ver: 5, L: 2*S + 1}}, Seq: seq(both[1], both[0])})
				out = append(out, &scenario{Store: st, Pubs: []pub{pa, pb}, Cons: both, Rems: []target{{Obj: a, Meta: true, Ver: noVer, Seg: -1, Prefix: true}, {Obj: a, Ver: 2, Seg: -1, Prefix: true}}})
				// a single packet of the look-alike removed by exact name
				out = append(out, &scenario{Store: st, Pubs: []pub{pa, pb}, Cons: both[:1], Rems: []target{{Obj: b, Ver: 5, Seg: 0}, {Obj: b, Meta: true, Ver: 5, Seg: 0}}})
			}
		}
	case "long":
		// scale: objects of about a thousand segments (thresholds in code tend to be round numbers:
		// 1000, 1024) fetched on the default schedule by every consumer style; each must complete
		// once with the right bytes. A handful of long runs, not a search.
		ns := []int{1000, 1023, 1024, 1025, 1100}
		styles := append([]string{""}, keptStyles...)
		if !scaled {
			ns, styles = []int{1025}, []string{"", "late"}
		}
		for i, n := range ns {
			for _, style := range styles {
				L := n * S
				if i%2 == 1 {
					L = segs(n)
				}
				out = append(out, styled(one("mem", L, nil), style))
			}
		}
		if scaled {
			out = append(out, styled(one("bolt", 1025*S, nil), "late"), styled(one("bolt", segs(1100), nil), "keep"))
			// two long objects at once (the fetcher serves them round-robin within one window)
			two := []pub{{Obj: "/a", Ver: 1, L: segs(1025)}, {Obj: "/b", Ver: 1, L: 1100 * S}}
			for _, style := range styles {
				out = append(out, &scenario{Store: "mem", Pubs: two, Cons: []con{{Obj: "/a", Ver: noVer, Style: style}, {Obj: "/b", Ver: noVer, Style: style}}})
			}
			out = append(out, &scenario{Store: "mem", Pubs: two, Cons: []con{{Obj: "/a", Ver: noVer, Style: "late"}, {Obj: "/b", Ver: noVer}}})
		}
	case "ver":
		var orders [][]int64
		orders = append(orders, perms([]int64{1, 2, 3})...)
		orders = append(orders, []int64{0}, []int64{0, 2}, []int64{2, 0}, []int64{3, 0, 1}, []int64{0, 255, 256}, []int64{256, 255})
		for _, st := range []string{"mem", "bolt"} {
			for _, o := range orders {
				sc := &scenario{Store: st, Cons: []con{{Obj: "/a", Ver: noVer}}}
				for _, v := range o {
					sc.Pubs = append(sc.Pubs, pub{Obj: "/a", Ver: v, L: S + 1 + int(v%7)})
				}
				out = append(out, sc)
			}
			// explicit version while newer ones exist; version 0 asked for explicitly
			out = append(out, &scenario{Store: st, Pubs: []pub{{Obj: "/a", Ver: 1, L: S + 2}, {Obj: "/a", Ver: 2, L: S + 3}, {Obj: "/a", Ver: 3, L: 3}}, Cons: []con{{Obj: "/a", Ver: 1}}})
			out = append(out, &scenario{Store: st, Pubs: []pub{{Obj: "/a", Ver: 0, L: S + 2}}, Cons: []con{{Obj: "/a", Ver: 0}}})
			// default version = timestamp: the later publication is the newest
			out = append(out, &scenario{Store: st, Pubs: []pub{{Obj: "/a", Ver: noVer, L: S + 2, Adv: time.Second}, {Obj: "/a", Ver: noVer, L: S + 3, Adv: time.Second}}, Cons: []con{{Obj: "/a", Ver: noVer}}})
			// a sibling object and a nested object with larger versions must not be picked
			out = append(out, &scenario{Store: st, Pubs: []pub{{Obj: "/a", Ver: 1, L: 2}, {Obj: "/a/b", Ver: 5, L: 3}, {Obj: "/ab", Ver: 7, L: 3}}, Cons: []con{{Obj: "/a", Ver: noVer}}})
		}
	case "rem":
		for _, st := range []string{"mem", "bolt"} {
			three := []pub{{Obj: "/a", Ver: 1, L: 2*S + 1}, {Obj: "/a", Ver: 2, L: 2*S + 2}, {Obj: "/a", Ver: 3, L: S + 3}}
			byName := []con{{Obj: "/a", Ver: noVer}}
			// newest version removed completely: the consumer gets version 2
			out = append(out, &scenario{Store: st, Pubs: three, Cons: byName, Rems: []target{{Obj: "/a", Meta: true, Ver: 3, Seg: 0}, {Obj: "/a", Ver: 3, Seg: -1, Prefix: true}}})
			// only the segments of the newest version removed: metadata still points to it -> error
			out = append(out, &scenario{Store: st, Pubs: three, Cons: byName, Rems: []target{{Obj: "/a", Ver: 3, Seg: -1, Prefix: true}}})
			// all metadata removed
			out = append(out, &scenario{Store: st, Pubs: three, Cons: byName, Rems: []target{{Obj: "/a", Meta: true, Ver: noVer, Seg: -1, Prefix: true}}})
			// everything removed / nothing ever published
			out = append(out, &scenario{Store: st, Pubs: three, Cons: byName, Rems: []target{{Obj: "/a", Ver: noVer, Seg: -1, Prefix: true}}})
			out = append(out, &scenario{Store: st, Cons: byName})
			// one segment (first / middle / last) of the only version removed
			for seg := 0; seg < 3; seg++ {
				out = append(out, &scenario{Store: st, Pubs: three[:1], Cons: byName, Rems: []target{{Obj: "/a", Ver: 1, Seg: seg}}})
			}
			// removal of something else leaves the object intact
			out = append(out, &scenario{Store: st, Pubs: []pub{three[0], {Obj: "/a/b", Ver: 9, L: 2}}, Cons: byName, Rems: []target{{Obj: "/a/b", Ver: noVer, Seg: -1, Prefix: true}, {Obj: "/a", Ver: 1, Seg: 7}}})
			// removals injected while the fetch is running
			out = append(out, &scenario{Store: st, Pubs: three[:2], Cons: byName, Dyn: []target{{Obj: "/a", Ver: 2, Seg: -1, Prefix: true}, {Obj: "/a", Ver: 2, Seg: 1}, {Obj: "/a", Meta: true, Ver: 2, Seg: 0}}})
		}
	case "dual":
		two := []pub{{Obj: "/a", Ver: 1, L: 2*S + 1}, {Obj: "/b", Ver: 1, L: S + 1}}
		both := []con{{Obj: "/a", Ver: noVer}, {Obj: "/b", Ver: noVer}}
		out = append(out, &scenario{Store: "mem", Pubs: two, Cons: both})
		out = append(out, &scenario{Store: "mem", Pubs: two, Cons: []con{{Obj: "/b", Ver: noVer}, {Obj: "/a", Ver: 1}}})
		// one of two concurrent fetches fails (a segment is gone): the other one must still complete
		out = append(out, &scenario{Store: "mem", Pubs: two, Cons: both, Rems: []target{{Obj: "/a", Ver: 1, Seg: 0}}})
		out = append(out, &scenario{Store: "mem", Pubs: two, Cons: both, Rems: []target{{Obj: "/b", Ver: 1, Seg: 1}}})
		out = append(out, &scenario{Store: "mem", Pubs: two, Cons: both, Rems: []target{{Obj: "/a", Ver: 1, Seg: 2}}})
		// both fail
		out = append(out, &scenario{Store: "mem", Pubs: two, Cons: both, Rems: []target{{Obj: "/a", Ver: 1, Seg: 0}, {Obj: "/b", Ver: 1, Seg: 0}}})
	case "lat", "latS", "latT": // latS: a subset (each kind of scenario once, the two round-trip times alternating) for the larger deviation bound; latT: six of them for the largest
		// latency: networks with a round-trip time of 50 ms and of 300 ms (0 = every other family).
		// Interests are sent at different virtual times (metadata, first segment, window refills
		// after the 10th segment), expire at their own lifetimes, and nothing may expire while the
		// network still carries the packet - unless the explorer loses or delays it.
		for ri, rtt := range []time.Duration{50 * time.Millisecond, rttMax} {
			with := func(sc *scenario) *scenario { sc.RTT = rtt; return sc }
			nth := 0
			latT := [2]map[int]bool{{2: true, 8: true, 10: true}, {3: true, 7: true, 11: true}}
			add := func(sc *scenario) { // latS keeps every second scenario, offset by the round-trip time
				if nth++; fam == "lat" || (fam == "latS" && nth%2 == ri) || (fam == "latT" && latT[ri][nth]) {
					out = append(out, with(sc))
				}
			}
			for _, n := range []int{1, 2, 3, 11, 12} {
				if !scaled && n > 3 && !th {
					nth++ // (keeps the numbering of the scenarios that follow)
					continue
				}
				add(one("mem", segs(n), nil))
			}
			add(one("bolt", segs(3), nil))
			byName := con{Obj: "/a", Ver: noVer}
			two := []pub{{Obj: "/a", Ver: 1, L: 2*S + 1}, {Obj: "/a", Ver: 2, L: S + 2}}
			// two versions; the version asked for explicitly (no metadata exchange)
			add(&scenario{Store: "mem", Pubs: two, Cons: []con{byName}})
			add(&scenario{Store: "mem", Pubs: two, Cons: []con{{Obj: "/a", Ver: 1}}})
			// two concurrent fetches; one of them loses a segment for good (timeouts move the clock
			// by seconds while the other fetch has packets in flight)
			duo := []pub{{Obj: "/a", Ver: 1, L: 2*S + 1}, {Obj: "/b", Ver: 1, L: S + 1}}
			both := []con{{Obj: "/a", Ver: noVer}, {Obj: "/b", Ver: noVer}}
			add(&scenario{Store: "mem", Pubs: duo, Cons: both})
			add(&scenario{Store: "mem", Pubs: duo, Cons: both, Rems: []target{{Obj: "/a", Ver: 1, Seg: 1}}})
			// nothing published: the metadata Interest runs through its whole retry budget
			add(&scenario{Store: "mem", Cons: []con{byName}})
			// the same client fetches again after a fetch that failed by timeouts
			add(&scenario{Store: "mem", Window: 2, Pubs: []pub{{Obj: "/a", Ver: 1, L: 2*S + 1}, {Obj: "/b", Ver: 1, L: 2*S + 1}}, Rems: []target{{Obj: "/a", Ver: 1, Seg: 2}},
				Seq: seq(byName, con{Obj: "/b", Ver: noVer})})
		}
	case "tail", "tailP", "tailR":
		// the end of the object, seen from a store / network that holds MORE than the object under
		// <object>/<version>/: (a) content of n*S bytes whose input wire ends with empty buffers -
		// Produce then stores an empty packet seg=n after FinalBlockId n-1; (b) the same version
		// published again with fewer segments - the old tail packets stay in the store; (c) packets
		// another application put there (scenario.Ext); (d) a network that answers any Interest for
		// a segment past the end (scenario.Phantom). The consumer must fetch 0..FinalBlockId and
		// complete once with the bytes of the latest publication, in every delivery order.
		// tail: deviation-bounded schedules; tailP: every delivery order (Perm); tailR: the subset
		// run by the real-segment-size build.
		ns := []int{1, 2, 3}
		if fam == "tailP" {
			ns = []int{2, 3, 4, 5}
			if th {
				ns = []int{2, 3, 4, 5, 6}
			}
		}
		if fam == "tailR" || (fam == "tailP" && !scaled) {
			ns = []int{2, 3}
		}
		var scs []*scenario
		for _, n := range ns {
			L := n * S
			scs = append(scs, one("mem", L, []int{L}), one("mem", L, []int{L, L}))
			if fam != "tailR" {
				scs = append(scs, one("mem", L, []int{0, L}), one("mem", L, []int{0, 0, L / 2, L / 2, L}))
			}
			byName := []con{{Obj: "/a", Ver: noVer}}
			// published twice under one version: shorter by one / by two segments the second time, and longer
			scs = append(scs, &scenario{Store: "mem", Pubs: []pub{{Obj: "/a", Ver: 1, L: L + S}, {Obj: "/a", Ver: 1, L: L}}, Cons: byName})
			scs = append(scs, &scenario{Store: "mem", Pubs: []pub{{Obj: "/a", Ver: 1, L: L + S + 1}, {Obj: "/a", Ver: 1, L: L - 1}}, Cons: byName})
			if fam == "tail" {
				scs = append(scs, &scenario{Store: "mem", Pubs: []pub{{Obj: "/a", Ver: 1, L: L}, {Obj: "/a", Ver: 1, L: L + S}}, Cons: byName})
			}
			// foreign packets past the end: one / two, carrying the object's FinalBlockId or their own
			scs = append(scs, &scenario{Store: "mem", Pubs: []pub{{Obj: "/a", Ver: 1, L: L}}, Ext: []ext{{Obj: "/a", Ver: 1, Seg: n, N: 3, FB: n - 1}}, Cons: byName})
			scs = append(scs, &scenario{Store: "mem", Pubs: []pub{{Obj: "/a", Ver: 1, L: L - 1}}, Ext: []ext{{Obj: "/a", Ver: 1, Seg: n, N: S, FB: n}, {Obj: "/a", Ver: 1, Seg: n + 1, N: 1, FB: n + 1}}, Cons: byName})
			// a network that answers every Interest past the end
			ph := one("mem", L+1, nil)
			ph.Phantom = true
			scs = append(scs, ph)
			if n == 2 {
				ph2 := &scenario{Store: "bolt", Pubs: []pub{{Obj: "/a", Ver: 1, L: L}}, Cons: []con{{Obj: "/a", Ver: 1}}, Phantom: true} // version asked for explicitly
				scs = append(scs, ph2, one("bolt", L, []int{L}), one("mem", L-1, []int{L - 1}), one("mem", L+1, []int{L + 1}),
					&scenario{Store: "bolt", Pubs: []pub{{Obj: "/a", Ver: 1, L: L + S}, {Obj: "/a", Ver: 1, L: L}}, Cons: byName})
			}
		}
		if fam == "tail" && scaled {
			// the fetch window (10): the last Interests of the object fill it exactly / leave one slot
			for _, n := range []int{10, 11} {
				scs = append(scs, one("mem", n*S, []int{n * S}))
			}
		}
		for _, sc := range scs {
			sc.Perm = fam == "tailP"
			out = append(out, sc)
		}
	case "slack":
		// the enc.Name handed to Produce / Consume has spare capacity (as names built with append or
		// decoded from packets have)
		for _, sl := range []int{1, 3, 4} {
			out = append(out, &scenario{Store: "mem", Pubs: []pub{{Obj: "/a", Ver: 1, L: 3*S + 1, Slack: sl}}, Cons: []con{{Obj: "/a", Ver: noVer}}})
			out = append(out, &scenario{Store: "mem", Pubs: []pub{{Obj: "/a", Ver: 1, L: 3*S + 1}}, Cons: []con{{Obj: "/a", Ver: 1, Slack: sl}}})
			out = append(out, &scenario{Store: "mem", Pubs: []pub{{Obj: "/a", Ver: 1, L: 3*S + 1}}, Cons: []con{{Obj: "/a", Ver: noVer, Slack: sl}}})
		}
	case "burst":
		// an application that asks for many objects at once: one fetch of a segmented object /a is
		// running (by versioned name: the fetcher starts at once; by object name: after metadata
		// discovery) when the application calls Consume for k more objects back-to-back, at ANY
		// point of the default schedule (the only deviation, see sys.burstOnly), with the ready
		// select arms run in source order or in reverse (Go's select may pick any ready arm; in
		// reverse order the fetcher's window check runs while the metadata Interests of the burst
		// are still queued). Every fetch must complete once with its bytes; the client goroutine
		// must never wait for room in a queue that only it drains (inst.checkQueues).
		// quick: k = 1..12 against the scaled window (2) in reverse arm order with the versioned name,
		// k in {1, 6, 12} by object name, k = 12 in source order; k in {1, 11} against the real window
		// (10, object of 11 segments) in reverse order. thorough: k = 1..40 everywhere, real window
		// with k up to 100 and an object of 21 segments.
		mk := func(order string, ver int64, k, window, n int) {
			out = append(out, &scenario{Store: "mem", Window: window, Burst: k, Order: order, Pubs: []pub{{Obj: "/a", Ver: 1, L: segs(n)}}, Cons: []con{{Obj: "/a", Ver: ver}}})
		}
		if th {
			for _, order := range []string{"rev", ""} {
				for _, ver := range []int64{1, noVer} {
					for k := 1; k <= 40; k++ {
						mk(order, ver, k, 2, 3)
					}
					for _, k := range []int{1, 2, 5, 9, 10, 11, 16, 40, 100} {
						mk(order, ver, k, 0, 11)
						mk(order, ver, k, 0, 21)
					}
				}
			}
		} else {
			for k := 1; k <= 12; k++ {
				mk("rev", 1, k, 2, 3)
			}
			for _, k := range []int{1, 6, 12} {
				mk("rev", noVer, k, 2, 3)
			}
			mk("", 1, 12, 2, 3)
			mk("", noVer, 12, 2, 3)
			for _, k := range []int{1, 11} {
				mk("rev", 1, k, 0, 11)
				mk("rev", noVer, k, 0, 11)
			}
		}
	default:
		report.Fatal("unknown scenario family %q", fam)
	}
	return out
}

func build(cfg string) explore.System {
	var fam string
	var k int
	cfg = strings.Replace(cfg, "(no dedup)", "", 1) // replay files carry the display name
	if _, err := fmt.Sscanf(cfg, "%s k=%d", &fam, &k); err != nil {
		report.Fatal("bad config name %q", cfg)
	}
	S := object.VerifSegmentSize()
	s := &sys{maxDev: k, seg: S, cfgName: cfg}
	// face failures are explored in the scenario-rich families; the schedule families (sched*, hist,
	// fifo, perm: one object, one consumer, every length) keep their bound for delivery orders
	switch fam {
	case "ver", "rem", "dual", "slack", "lat", "latS", "latT", "reuseS", "cache":
		s.faceOps = true
	}
	s.burstOnly = fam == "burst"
	s.scen = family(fam, S, thoroughTier())
	if f := os.Getenv("C15_SCEN"); f != "" { // development aid: only the scenarios whose description contains f
		var keep []*scenario
		for _, sc := range s.scen {
			if strings.Contains(sc.String(), f) {
				keep = append(keep, sc)
			}
		}
		s.scen = keep
	}
	s.index()
	return s
}

func histCfg(k int) explore.Config {
	return explore.Config{Name: fmt.Sprintf("hist(no dedup) k=%d", k), BuildName: fmt.Sprintf("hist k=%d", k), MaxDepth: 100000, MaxDev: k, NoDedup: true}
}

func cfg(fam string, k int) explore.Config {
	c := explore.Config{Name: fmt.Sprintf("%s k=%d", fam, k), MaxDepth: 100000, MaxDev: k}
	if fam == "tiny" {
		c.MaxStates = 400000
	}
	return c
}

// configs: C15_ONLY=<family> restricts the run to one family (development aid; the extra passes
// are skipped and the evidence says so).
func configs(th bool) []explore.Config {
	all := allConfigs(th)
	if only := os.Getenv("C15_ONLY"); only != "" {
		var c []explore.Config
		for _, x := range all {
			if strings.HasPrefix(x.Name, only+" ") {
				c = append(c, x)
			}
		}
		return c
	}
	return all
}

func allConfigs(th bool) []explore.Config {
	if object.VerifSegmentSize() >= 100 { // real segment size (child build)
		c := []explore.Config{cfg("ver", 0), cfg("rem", 0), cfg("reuse", 0), cfg("vbound", 0), cfg("cache", 0), cfg("lat", 0), cfg("style", 0), cfg("typed", 0), cfg("latS", 1), cfg("styleS", 1), cfg("perm", -1), cfg("tailR", 0), cfg("tailP", -1), cfg("fifo", 0), cfg("sched1", 1), cfg("sched2", 2)}
		if th {
			c = append(c, cfg("long", 0), cfg("tailR", 1))
		}
		return c
	}
	// the k=0 runs come first so that a defect visible on the default schedule is reported with
	// that (shortest) history
	c := []explore.Config{cfg("ver", 0), cfg("rem", 0), cfg("dual", 0), cfg("slack", 0), cfg("reuse", 0), cfg("vbound", 0), cfg("cache", 0), cfg("lat", 0), cfg("style", 0), cfg("typed", 0), cfg("long", 0), cfg("tail", 0), cfg("cache", 1), cfg("reuseS", 1),
		cfg("ver", 1), cfg("rem", 1), cfg("dual", 1), cfg("slack", 1), cfg("typedS", 1), cfg("styleS", 1), cfg("latS", 1), cfg("perm", -1), cfg("tailP", -1), cfg("tail", 1), cfg("fifo", 0), cfg("burst", 1), cfg("sched1", 1), cfg("sched2", 2), histCfg(2)}
	if th {
		c = []explore.Config{cfg("ver", 0), cfg("rem", 0), cfg("dual", 0), cfg("slack", 0), cfg("reuse", 0), cfg("vbound", 0), cfg("cache", 0), cfg("lat", 0), cfg("style", 0), cfg("typed", 0), cfg("long", 0), cfg("tail", 0), cfg("cache", 2), cfg("reuseS", 2),
			cfg("ver", 2), cfg("rem", 2), cfg("dual", 2), cfg("slack", 2), cfg("typed", 1), cfg("typedS", 2), cfg("style", 1), cfg("styleS", 2), cfg("lat", 1), cfg("latT", 2), cfg("perm", -1), cfg("tailP", -1), cfg("tail", 2), cfg("tiny", -1), cfg("fifo", 0), cfg("burst", 1),
			cfg("sched1", 1), histCfg(3), cfg("sched3", 3), cfg("sched2", 2)}
	}
	return c
}

const rule = "two real object.Client instances on a harness ndn.Engine; per scenario (store, publications with content length/buffer split/version, removals, consumers) every history that departs at most k times from the default schedule (client select arms in source order, FIFO delivery, timeouts only for lost Interests) is run to completion; deviations: another ready select arm, out-of-order delivery, packet loss, early/late timeout, a fatal per-Interest result (Nack, engine error) for a metadata or segment Interest, the consumer's face going down / coming back before an Interest is expressed (families ver, rem, dual, slack, lat, latS, latT, reuseS, cache), removal during the fetch; network events carry virtual times (arrival = send time + the scenario's round-trip time, expiry = send time + lifetime + 10 ms) and happen in an order consistent with them; families lat/latS/latT run networks with a round-trip time of 50 ms and 300 ms; every wire the producer's store hands out is kept and re-compared after every later store transaction and after four more at the end of the history; family perm explores every delivery order with no bound; consumer styles (families style, styleS, perm, long): the application copies each Content() piece at once / keeps the returned slices and joins them at completion / reads once at completion / reads in every second callback, kept slices are re-compared with a copy taken when they were returned; family typed publishes and consumes objects whose names differ in component type only (/p/doc next to /p/doc/metadata, /p/item next to /p/32=item, /p/n version 2 next to /p/n/%02), with removal of either; family long fetches objects of 1000, 1023, 1024, 1025 and 1100 segments (and two at once) on the default schedule in every consumer style; families tail (deviation-bounded) and tailP (every delivery order) put MORE than the object under <object>/<version>/: content of n*S bytes whose input wire ends with empty buffers (Produce then stores an empty packet after FinalBlockId), the same version published a second time with fewer (or more) segments (the old tail packets stay in the store), packets of another application past the end (carrying the object's FinalBlockId or their own), and a network that answers any segment Interest beyond FinalBlockId with a well-formed Data - the consumer must complete once with the bytes of the latest publication in every order; an Interest for a segment beyond FinalBlockId is remembered (request stream) and nothing that happens to it (no answer, Nack, Data) excuses a failed fetch; a case is non-trivial when it fetched an object of >=2 segments"

var assumptions = []string{
	"the select in Client.run() is replaced by hook VerifStep (one arm per call, same arm bodies); the engine callbacks only perform channel sends, so arm-granular interleaving covers the goroutine interleavings of the production client",
	"the harness network remembers (name, nonce) of every Interest it carried and silently drops an Interest repeating one or carrying no nonce (as a forwarder's dead nonce list does); such drops do not count as losses for the retry budget",
	"harness engine = pending-Interest table with name/CanBePrefix matching like engine/basic (a Data satisfies every matching pending Interest; a timed-out Interest no longer receives Data); no cache, no forwarder; signatures are not validated",
	"latency model: RTT <= 300 ms. Every expressed Interest carries its send time and lifetime; its timeout is enabled only at send time + lifetime + 10 ms (engine/basic TimeoutMargin; default lifetime 4 s), the Data for it arrives at send time + RTT at the earliest, with RTT fixed per scenario: 0 (all families but lat/latS/latT), 50 ms, 300 ms; an event is enabled only while no pending Interest expires before it, executing it moves the virtual clock to its time; the client reacts in zero time. A timeout that hits an Interest whose packet the network has NOT lost, sooner than 300 ms after it was sent, is not a loss: a fetch that fails on such timeouts alone violates C15.budget. A packet the explorer delays beyond its Interest's lifetime (> 300 ms) counts as lost",
	"face fault: while the consumer's face is down the harness engine does what engine/basic.Engine.Express does on a failed face.Send: the pending-Interest entry exists and times out later, Express returns the error (Client.expressRImpl then reports InterestResultError through the callback); such an error makes an error completion legal (C15.budget), completion must still be reported exactly once (C15.once)",
	"aliasing: the harness copies nothing between the two clients, so the consumer parses the very bytes the producer's store returned; the reference model keeps private copies. Each BoltStore instance runs on a new database file (one page layout per history, identical in workers and replays), on /dev/shm when present (bbolt syncs twice when it creates a file, whatever NoSync says)",
	"a worker process that dies (Go fatal error) is not a CHECK-ERROR: the harness relays the explorer's requests to an inner worker; a death that recurs in 3 of 3 fresh processes and is localised to one operation (one probe process per operation, 3 of 3) is reported as C15.panic with the history as replay; a death that does not recur stays CHECK-ERROR. Memory faults at non-nil addresses are turned into panics (debug.SetPanicOnFault) in the goroutine running the code under test",
	"scaled model: pSegmentSize overridden to 4 at check time (cmd/xform -const) with content lengths 1..45 (1..12 segments, crossing the fetch window of 10); the real constant 8000 is exercised by a second build with lengths 1, 7999, 8000, 8001, 15999, 16000, 16001, 24001 (thorough: 88001)",
	"content bytes are a position-dependent hash so that swapped, duplicated, dropped or shifted segments change the byte stream",
	"error completion is accepted only if some Interest name of that fetch timed out more than Retries(3) times or received a Nack / engine error (final, never retried); a packet absent from the store (never published or removed) makes its Interests time out",
	"family hist (3- and 5-segment object, one consumer, k<=2 quick / 3 thorough) is explored with de-duplication switched off: every history is its own state",
	"canonical state = scenario + removals injected + consumer observations + per-name timeout counts + network list + white-box dump of the client queues and fetcher; finished runs collapse to one state",
	"BoltStore runs with NoSync on a per-process file under /tmp that is emptied between instances (durability is not part of the property)",
	"fetcher.doCheck termination is predicted by a transcription of its loop (hook VerifDoCheckSpins) because a spinning goroutine cannot be interrupted; an unpredicted hang is turned into CHECK-ERROR by a watchdog",
	"store-level oracle: among packets of the newest version under a prefix any may be returned; in the main, boundary and look-alike universes no packet name is a prefix of another; the prefix-related universe (8 packets: the chain /p, /p/x, /p/x/y, /p/x/y/z, the sibling /p/w, and /q, /q/v=1, /q/v=1/seg=0; 25 operations: Put, Remove by exact name and Remove by prefix of each, Remove of the root; depth 3, thorough 4) stores packets at interior names: there a prefix Get at a name that holds a packet may return that packet or a newest one below it (MemoryStore does the former, BoltStore the latter; ndn.Store does not say), every other answer is determined by a plain map name -> (version, wire)",
	"consumer styles: a slice returned by ConsumeState.Content() belongs to the application (nothing in the API says it is valid only until the next call): styles keep/alt/late hold the slices without copying and the harness compares each with a private copy taken when it was returned, after every later callback (all of them for the first 64 callbacks, then every 64th, and at completion) and at the end of the history. Style late never calls Content() before IsComplete(): a fetch must complete without the application draining the buffer",
	"look-alike names: name components are compared by type and value (enc.Name.Equal); the store-level pass has its own universe of 8 packets / 23 operations (depth 3, direct and transaction mode) with sibling components that differ in type only (32=metadata / metadata, 32=item / item, v=1 / %01, seg=1 / off=1)",
	"past-the-end packets (families tail, tailP, tailR): n = 1..3 segments (tailP: 2..5, thorough 2..6; window edge: 10 and 11 segments), buffer splits {L}, {L,L}, {0,L}, {0,0,L/2,L/2,L}; a version published twice is expected to be retrieved as its LATEST publication (the store overwrites packets of equal name; no cache in these scenarios); foreign packets are well-formed Data (blob, digest signature) put into the producer's store directly; the request stream is observed but an Interest beyond FinalBlockId is not by itself a violation (the property speaks of what the callback reports): it becomes one only when the fetch then fails within the retry budget, delivers other bytes or completes more than once",
	"store transaction mode: every Put is preceded by Begin / Put of a decoy (same name, version+1000, other bytes) / Rollback; a rolled-back packet must never be returned",
	"store mixed mode: every history of depth <= 3 (main and version-boundary universe; look-alike and prefix-related universes depth 2, thorough 3) in every assignment of D/T/G to its Puts - D outside any transaction, T a transaction of its own after a rolled-back decoy transaction, G consecutive Puts inside one transaction (as Client.Produce writes an object) - so that Puts outside transactions follow committed and rolled-back transactions in every order; same plain-map reference",
	"queue capacities (family burst and every client step of every family): the consumer client's outpipe/seginpipe/segfetch are replaced by channels with 64 more slots (hook VerifGrowQueues; all sends on them are plain blocking sends, so capacity is not otherwise observable) and the production capacities are kept as logical ones; a client step after which a queue holds more than its production capacity is a send the client goroutine would block on for ever, being that queue's only reader (C15.once); an overflow caused by the application or an engine callback is back-pressure and ends the history without a verdict. Family burst: one fetch of a 3-segment object (window 2) or an 11-segment object (window 10) plus a burst of k Consume calls (quick k = 1..12 / {1,11}; thorough k = 1..40 / up to 100) made at any one point of the default schedule, ready select arms run in source order or in reverse; an application call that finds outpipe full waits until there is room",
	"long objects (1000..1100 segments, scaled build: 4..4.4 kB) run on the default schedule only (k=0); thresholds other than those within 1000..1100 segments are not probed; the real-segment-size child runs 1025 segments (8.2 MB) in the thorough tier only",
}

func main() {
	if os.Getenv("C15_STOREBENCH") != "" { // development aid: profile the store-level pass
		f, _ := os.Create("/tmp/c15-store.prof")
		pprof.StartCPUProfile(f)
		rep := report.New("C15", "model_checking")
		t0 := time.Now()
		if os.Getenv("C15_STOREBENCH") == "alias" { // the alias-stability pass alone
			tmpBase()
			boltDir()
			cov := runAliasStability(rep, time.Now().Add(60*time.Second))
			fmt.Println(cov, time.Since(t0), "violations:", rep.Count())
			rep.FinishNoExit(report.Coverage{"states": 0, "transitions": 0, "traces_validated_against_impl": 0, "samples": []string{"dev"}, "alias": cov}, nil)
			removeTmp()
			return
		}
		benchS := 8
		if n, err := strconv.Atoi(os.Getenv("C15_STOREBENCH_S")); err == nil && n > 0 {
			benchS = n
		}
		cov := runStores(rep, thoroughTier(), time.Now().Add(time.Duration(benchS)*time.Second))
		pprof.StopCPUProfile()
		fmt.Println(cov["histories_done"], time.Since(t0), rep.Count())
		for _, k := range []string{"version_boundaries", "lookalike_names", "prefix_related_names"} {
			if m, ok := cov[k].(map[string]any); ok {
				fmt.Println(k, m["histories_done"], "of", m["histories_total"], "exhaustive", m["exhaustive"], "gets", m["get_comparisons"], "mixed", m["mixed_mode"])
			}
		}
		fmt.Println("main exhaustive", cov["exhaustive"], "of", cov["histories_total"], "gets", cov["get_comparisons"], "mixed", cov["mixed_mode"])
		removeTmp()
		return
	}
	if spinTest {
		spinTestMain()
		return
	}
	if p := os.Getenv("C15_PROBE"); p != "" { // crash.go: one operation in a throw-away process
		probeMain(p)
		return
	}
	if _, ok := explore.IsWorker(); ok && os.Getenv("C15_INNER") == "" && os.Getenv("C15_NORELAY") == "" {
		relayMain() // crash.go: the explorer's worker forwards to an inner worker whose death it survives
		return
	}
	if _, ok := explore.IsWorker(); !ok {
		removeStaleTmp()
		tmpBase()
		boltDir() // both exported to the environment here, so that workers and children share them
		defer removeTmp()
		if os.Getenv("C15_CHILD") == "real" {
			childMain()
			removeTmp()
			return
		}
		if S := object.VerifSegmentSize(); S != 4 && os.Getenv("C15_CHILD") == "" {
			report.Fatal("C15 harness expects the scaled build (pSegmentSize=4 through xform.args), got %d", S)
		}
		if len(os.Args) >= 3 && os.Args[1] == "--replay" {
			if code, handled := replaySpecial(os.Args[2]); handled {
				removeTmp()
				os.Exit(code)
			}
			if os.Getenv("C15_REPLAY_INNER") == "" {
				// explore.Main exits the process: run it in a child so that the temp dir is removed
				cmd := exec.Command(os.Args[0], os.Args[1:]...)
				cmd.Env = append(os.Environ(), "C15_REPLAY_INNER=1")
				se := &tailBuf{}
				cmd.Stdout, cmd.Stderr = os.Stdout, se
				err := cmd.Run()
				removeTmp()
				if ee, ok := err.(*exec.ExitError); ok {
					// a counterexample whose violation IS the death of the process (crash.go) kills the
					// replaying process as well: that is the reproduction
					if out := se.String(); ee.ExitCode() != 1 && (strings.Contains(out, "fatal error: ") || strings.Contains(out, "\ngoroutine ")) && replayClause(os.Args[2]) == "C15.panic" {
						what, frames := crashSignature(out)
						fmt.Printf("replayed: the replaying process died: %s @ %s\nVIOLATION property=C15 replay=%s\n", what, frames, os.Args[2])
						os.Exit(1)
					}
					os.Stderr.WriteString(se.String())
					os.Exit(ee.ExitCode())
				} else if err != nil {
					report.Fatal("%v", err)
				}
				os.Exit(0)
			}
		} else if os.Getenv("C15_ONLY") == "" {
			startChildBuild()
		}
	}
	if _, ok := explore.IsWorker(); !ok {
		for _, c := range configs(thoroughTier()) { // a broken scenario table is a CHECK-ERROR here, not a dead worker later
			build(c.Name)
		}
	}
	explore.Main(explore.Spec{
		ID: "C15", PanicClause: "C15.panic", Build: build, Configs: configs,
		Budget: func(th bool) time.Duration {
			if th {
				return 17 * time.Minute // (14 min + the round-7 configurations style k=1, styleS k=2, typed k=1, typedS k=2)
			}
			return 63 * time.Second // (70 s less the time the mixed-mode store histories, round 10: with Removes inside transactions, take)
		},
		Rule: rule, Assumptions: assumptions,
		Extra: func(rep *report.Reporter, cov report.Coverage) {
			if os.Getenv("C15_ONLY") != "" {
				cov["exhaustive"] = false
				cov["partial_run"] = "C15_ONLY=" + os.Getenv("C15_ONLY")
				removeTmp()
				return
			}
			th := rep.Thorough()
			d := 30 * time.Second
			if th {
				d = 12 * time.Minute
			}
			t0 := time.Now()
			lap := func(what string) {
				fmt.Printf("pass   %-28s %.1fs\n", what, time.Since(t0).Seconds())
				t0 = time.Now()
			}
			cov["store_differential"] = runStores(rep, th, time.Now().Add(d))
			lap("store_differential")
			cov["store_alias_stability"] = runAliasStability(rep, time.Now().Add(d))
			lap("store_alias_stability")
			cov["large_prefix_remove"] = runBigRemove(rep)
			lap("large_prefix_remove")
			cov["real_segment_size"] = runChild(rep, th)
			lap("real_segment_size (child)")
			ex, _ := cov["exhaustive"].(bool)
			if sd, ok := cov["store_differential"].(map[string]any); ok {
				if e, _ := sd["exhaustive"].(bool); !e {
					ex = false
				}
			}
			if sa, ok := cov["store_alias_stability"].(map[string]any); ok {
				if e, _ := sa["exhaustive"].(bool); !e {
					ex = false
				}
			}
			if rs, ok := cov["real_segment_size"].(map[string]any); ok {
				if e, _ := rs["exhaustive"].(bool); !e {
					ex = false
				}
			}
			cov["exhaustive"] = ex
			cov["scaled_segment_size"] = object.VerifSegmentSize()
			cov["latency_model"] = map[string]any{"rtt_ms_per_scenario": []int{0, 50, 300}, "assumed_rtt_bound_ms": int(rttMax / time.Millisecond),
				"timeout_margin_ms": int(timeoutMargin / time.Millisecond), "default_lifetime_ms": int(defaultInterestLife / time.Millisecond),
				"configs_with_rtt_above_0": []string{"lat", "latS", "latT"}, "lat_scenarios": len(family("lat", object.VerifSegmentSize(), th)), "latS_scenarios": len(family("latS", object.VerifSegmentSize(), th))}
			cov["consumer_styles"] = map[string]any{"styles": append([]string{"copy"}, keptStyles...), "configs": []string{"style", "styleS", "perm", "long"},
				"style_scenarios": len(family("style", object.VerifSegmentSize(), th)), "styleS_scenarios": len(family("styleS", object.VerifSegmentSize(), th))}
			cov["lookalike_names"] = map[string]any{"configs": []string{"typed", "typedS"}, "scenarios": len(family("typed", object.VerifSegmentSize(), th)), "pairs": []string{"/p/doc + /p/doc/metadata", "/p/item + /p/32=item", "/p/n (v=2) + /p/n/%02"}, "store_pass": "store_differential.lookalike_names"}
			cov["long_objects"] = map[string]any{"configs": []string{"long"}, "segments": []int{1000, 1023, 1024, 1025, 1100}, "scenarios": len(family("long", object.VerifSegmentSize(), th)), "schedule": "default (k=0)"}
			cov["face_fault_configs"] = []string{"ver", "rem", "dual", "slack", "lat", "latS", "latT", "reuseS", "cache"}
			cov["store_wires_held"] = "every Get answer taken by the harness and every reply of the producer's handler, in every configuration; re-compared after each later Produce/Remove and after 4 extra transactions at the end of each finished history"
			removeTmp()
		},
	})
}

// removeStaleTmp deletes /tmp/verif-c15-<pid> directories whose owning process no longer exists
// (a run that was killed or aborted with CHECK-ERROR cannot clean up after itself).
func replayClause(path string) string {
	var f struct {
		Clause string `json:"clause"`
	}
	b, _ := os.ReadFile(path)
	json.Unmarshal(b, &f)
	return f.Clause
}

func removeTmp() {
	if d := boltDir(); d != tmpBase() {
		os.RemoveAll(d)
	}
	os.RemoveAll(tmpBase())
}

func removeStaleTmp() {
	dirs, _ := filepath.Glob("/tmp/verif-c15-*")
	more, _ := filepath.Glob("/dev/shm/verif-c15-*")
	for _, d := range append(dirs, more...) {
		pid, err := strconv.Atoi(strings.TrimPrefix(filepath.Base(d), "verif-c15-"))
		if err != nil || pid <= 0 {
			continue
		}
		if err := syscall.Kill(pid, 0); err == syscall.ESRCH {
			os.RemoveAll(d)
		}
	}
}
