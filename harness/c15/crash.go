package main

// A crash of the code under test is a verdict, not a broken check.
//
// verif/mc/explore runs the real code in worker processes and treats a worker that dies (Go
// "fatal error", e.g. a memory fault on a slice into an unmapped memory map, which no recover()
// catches) as CHECK-ERROR. This harness therefore puts a RELAY between the explorer and the process
// that runs the code: the process the explorer starts as its worker only forwards requests to an
// inner worker (the same binary, C15_INNER=1, which runs explore.WorkerMain unchanged) and
// forwards the answers back. When the inner worker dies while it serves a request, the relay
//
//  1. re-runs the same request in three FRESH inner workers. If any of them survives, the death
//     does not reproduce from the history alone: that stays a CHECK-ERROR (answer with Err);
//  2. otherwise localises it: one throw-away probe process per enabled operation of that state
//     replays the history and applies exactly that operation. An operation whose probe dies three
//     times out of three is answered as a dead successor carrying a violation of clause C15.panic
//     (the process serving the content dies: the content is not retrieved, the store does not serve
//     the packet) keyed by the runtime's fatal message and the innermost repository frames; the other
//     operations are answered with what their probes computed, so the exploration goes on.
//
// The replay of such a counterexample kills the replaying process too; main.go runs replays in a
// child process and reports the death as the reproduced violation.
//
// The relay speaks the explorer's worker protocol (JSON objects on fd 3 / fd 4: request {h, devok,
// verify}, response {names, succ[], err}); the canonical-state hash of a probed successor is
// computed as explore does (first 12 bytes of SHA-256). A framework that classifies worker deaths
// itself would make this file unnecessary.

import (
	"bufio"
	"bytes"
	"crypto/sha256"
	"encoding/json"
	"fmt"
	"os"
	"os/exec"
	"regexp"
	"runtime/debug"
	"strings"
	"sync"
	"syscall"
	"unsafe"

	"verif/mc/explore"
	"verif/mc/report"
)

type wireReq struct {
	H      []int `json:"h"`
	DevOK  bool  `json:"devok"`
	Verify bool  `json:"verify"`
}

type wireSucc struct {
	I    int                `json:"i"`
	Op   string             `json:"op"`
	Dev  bool               `json:"dev"`
	C    string             `json:"c"`
	V    []report.Violation `json:"v,omitempty"`
	Dead bool               `json:"dead,omitempty"`
}

type wireResp struct {
	Names []string   `json:"names"`
	Succ  []wireSucc `json:"succ"`
	Err   string     `json:"err,omitempty"`
}

const crashRuns = 3 // fresh processes that all have to die for a death to count as reproducible

// tailBuf keeps the first part of what a process wrote to stderr (the runtime's fatal message and
// the stack of the faulting goroutine come first).
type tailBuf struct {
	mu sync.Mutex
	b  []byte
}

func (t *tailBuf) Write(p []byte) (int, error) {
	t.mu.Lock()
	if room := 32<<10 - len(t.b); room > 0 {
		t.b = append(t.b, p[:min(room, len(p))]...)
	}
	t.mu.Unlock()
	return len(p), nil
}

func (t *tailBuf) String() string { t.mu.Lock(); defer t.mu.Unlock(); return string(t.b) }

type innerWorker struct {
	cmd    *exec.Cmd
	w      *bufio.Writer
	dec    *json.Decoder
	stderr *tailBuf
	waited chan struct{}
}

func childEnv(extra ...string) []string {
	var env []string
	for _, e := range os.Environ() {
		if strings.HasPrefix(e, "C15_INNER=") || strings.HasPrefix(e, "C15_PROBE=") {
			continue
		}
		env = append(env, e)
	}
	return append(env, extra...)
}

func startInner() (*innerWorker, error) {
	cmd := exec.Command(os.Args[0], os.Args[1:]...)
	cmd.Env = childEnv("C15_INNER=1")
	iw := &innerWorker{cmd: cmd, stderr: &tailBuf{}, waited: make(chan struct{})}
	cmd.Stderr = iw.stderr
	cmd.Stdout = iw.stderr
	pr1, pw1, err := os.Pipe()
	if err != nil {
		return nil, err
	}
	pr2, pw2, err := os.Pipe()
	if err != nil {
		return nil, err
	}
	cmd.ExtraFiles = []*os.File{pr1, pw2}
	if err := cmd.Start(); err != nil {
		return nil, err
	}
	pr1.Close()
	pw2.Close()
	iw.w = bufio.NewWriterSize(pw1, 1<<20)
	iw.dec = json.NewDecoder(bufio.NewReaderSize(pr2, 1<<20))
	go func() { cmd.Wait(); close(iw.waited) }()
	return iw, nil
}

func (iw *innerWorker) call(rq []byte) (json.RawMessage, bool) {
	if _, err := iw.w.Write(append(rq, '\n')); err != nil {
		return nil, false
	}
	if err := iw.w.Flush(); err != nil {
		return nil, false
	}
	var rs json.RawMessage
	if err := iw.dec.Decode(&rs); err != nil {
		return nil, false
	}
	return rs, true
}

func (iw *innerWorker) kill() string {
	iw.cmd.Process.Kill()
	<-iw.waited
	return iw.stderr.String()
}

// relayMain is what the explorer's "worker" process runs.
func relayMain() {
	in := json.NewDecoder(bufio.NewReaderSize(os.NewFile(3, "req"), 1<<20))
	out := bufio.NewWriterSize(os.NewFile(4, "resp"), 1<<20)
	var iw *innerWorker
	defer func() {
		if iw != nil {
			iw.kill()
		}
	}()
	for {
		var rq json.RawMessage
		if err := in.Decode(&rq); err != nil {
			return
		}
		if iw == nil {
			var err error
			if iw, err = startInner(); err != nil {
				fmt.Fprintf(os.Stderr, "C15 relay: cannot start the inner worker: %v\n", err)
				return
			}
		}
		rs, ok := iw.call(rq)
		if !ok {
			first := iw.kill()
			iw = nil
			b, _ := json.Marshal(workerDied(rq, first))
			rs = b
		}
		if _, err := out.Write(append(rs, '\n')); err != nil {
			return
		}
		if err := out.Flush(); err != nil {
			return
		}
	}
}

// workerDied turns the death of the inner worker on request rq into a response.
func workerDied(raw []byte, firstStderr string) wireResp {
	var rq wireReq
	if err := json.Unmarshal(raw, &rq); err != nil {
		return wireResp{Err: "C15 relay: unreadable request: " + err.Error()}
	}
	// the harness giving up (report.Fatal, the watchdog for an operation that does not return) is a
	// broken check, not a crash of the code under test
	if l := checkErrorLine(firstStderr); l != "" {
		return wireResp{Err: fmt.Sprintf("worker gave up on history %v: %s", rq.H, l)}
	}
	// 1. does the death follow from the history alone?
	survived := 0
	for i := 0; i < crashRuns; i++ {
		iw, err := startInner()
		if err != nil {
			return wireResp{Err: "C15 relay: " + err.Error()}
		}
		if _, ok := iw.call(raw); ok {
			survived++
		}
		iw.kill()
	}
	if survived > 0 {
		return wireResp{Err: fmt.Sprintf("worker died on history %v, but %d of %d fresh workers given the same history did not: the death does not reproduce from the history (state shared between instances of one process?). First death: %s", rq.H, survived, crashRuns, firstLines(firstStderr, 6))}
	}
	// 2. which operation?
	cfg, _ := explore.IsWorker()
	head, _, ok := runProbe(probeReq{Cfg: cfg, H: rq.H, Op: -1})
	if !ok || head == nil {
		return wireResp{Err: fmt.Sprintf("worker dies (%d of %d fresh workers) on history %v, and so does a process that only replays that history: the state was reached before, so the death does not follow from the history. First death: %s", crashRuns, crashRuns, rq.H, firstLines(firstStderr, 6))}
	}
	rs := wireResp{Names: head.Names}
	deaths := 0
	for i, op := range head.Ops {
		if op.Dev && !rq.DevOK {
			continue
		}
		var res *probeResp
		var errOut string
		died := 0
		for run := 0; run < crashRuns; run++ {
			r, se, ok := runProbe(probeReq{Cfg: cfg, H: rq.H, Op: i})
			if ok && r != nil && r.Succ != nil {
				res = r
				break
			}
			died++
			errOut = se
			if l := checkErrorLine(se); l != "" {
				return wireResp{Err: fmt.Sprintf("probe of operation %q after %v gave up: %s", op.Name, head.Names, l)}
			}
		}
		switch {
		case res != nil && died > 0:
			return wireResp{Err: fmt.Sprintf("operation %q after %v killed %d probe process(es) but not the next one: not reproducible. %s", op.Name, head.Names, died, firstLines(errOut, 6))}
		case res != nil:
			rs.Succ = append(rs.Succ, *res.Succ)
		default:
			deaths++
			what, frames := crashSignature(errOut)
			rs.Succ = append(rs.Succ, wireSucc{I: i, Op: op.Name, Dev: op.Dev, Dead: true, V: []report.Violation{{
				Clause: "C15.panic",
				Key:    fmt.Sprintf("process dies: %s @ %s", what, frames),
				Detail: fmt.Sprintf("the process running the clients and the store dies during %s (%d of %d fresh processes that replay the history and apply this operation): %s", op.Name, crashRuns, crashRuns, firstLines(errOut, 12)),
			}}})
		}
	}
	if deaths == 0 {
		return wireResp{Err: fmt.Sprintf("worker dies (%d of %d fresh workers) on history %v, but no single operation of that state kills a probe process. First death: %s", crashRuns, crashRuns, rq.H, firstLines(firstStderr, 6))}
	}
	return rs
}

// --- probe process ----------------------------------------------------------------------------

type probeReq struct {
	Cfg string `json:"cfg"`
	H   []int  `json:"h"`
	Op  int    `json:"op"` // -1: only list the operations of the state
}

type probeOp struct {
	Name string `json:"name"`
	Dev  bool   `json:"dev"`
}

type probeResp struct {
	Names []string  `json:"names"`
	Ops   []probeOp `json:"ops"`
	Succ  *wireSucc `json:"succ,omitempty"`
}

const probeMark = "C15-PROBE-RESULT "

func runProbe(rq probeReq) (*probeResp, string, bool) {
	b, _ := json.Marshal(rq)
	cmd := exec.Command(os.Args[0])
	cmd.Env = childEnv("C15_INNER=1", "C15_PROBE="+string(b))
	var so bytes.Buffer
	se := &tailBuf{}
	cmd.Stdout, cmd.Stderr = &so, se
	err := cmd.Run()
	for _, l := range strings.Split(so.String(), "\n") {
		if strings.HasPrefix(l, probeMark) {
			var rs probeResp
			if json.Unmarshal([]byte(l[len(probeMark):]), &rs) == nil && err == nil {
				return &rs, se.String(), true
			}
		}
	}
	return nil, se.String() + so.String(), false
}

var repoFrame = regexp.MustCompile(`^github\.com/named-data/ndnd/`)

func topRepoFrames(stack string) string {
	var out []string
	for _, l := range strings.Split(stack, "\n") {
		if repoFrame.MatchString(l) {
			f := l
			if i := strings.LastIndex(f, "("); i > 0 {
				f = f[:i]
			}
			out = append(out, strings.TrimPrefix(f, "github.com/named-data/ndnd/"))
			if len(out) >= 3 {
				break
			}
		}
	}
	return strings.Join(out, " < ")
}

// probeMain replays the history and applies one operation, as explore.WorkerMain does for every
// successor, and prints the result. It dies where the inner worker died.
func probeMain(spec string) {
	var rq probeReq
	if err := json.Unmarshal([]byte(spec), &rq); err != nil {
		fmt.Println("bad C15_PROBE:", err)
		os.Exit(5)
	}
	s := build(rq.Cfg)
	in := s.New()
	var rs probeResp
	for _, i := range rq.H {
		ops := s.Ops(in)
		if i < 0 || i >= len(ops) {
			fmt.Printf("probe: replay divergence: op index %d of %d after %v\n", i, len(ops), rs.Names)
			os.Exit(5)
		}
		rs.Names = append(rs.Names, ops[i].Name)
		s.(explore.Replayer).Do(in, ops[i])
	}
	ops := s.Ops(in)
	for _, op := range ops {
		rs.Ops = append(rs.Ops, probeOp{op.Name, op.Dev})
	}
	if rq.Op >= 0 {
		if rq.Op >= len(ops) {
			fmt.Printf("probe: operation %d of %d\n", rq.Op, len(ops))
			os.Exit(5)
		}
		op := ops[rq.Op]
		sc := wireSucc{I: rq.Op, Op: op.Name, Dev: op.Dev}
		func() {
			defer func() {
				if r := recover(); r != nil {
					fr := topRepoFrames(string(debug.Stack()))
					sc.Dead = true
					sc.V = append(sc.V, report.Violation{Clause: "C15.panic", Key: fmt.Sprintf("panic %v @ %s", r, fr),
						Detail: fmt.Sprintf("panic: %v at %s during %s", r, fr, op.Name)})
				}
			}()
			sc.V = s.Apply(in, op)
		}()
		if !sc.Dead {
			h := sha256.Sum256([]byte(s.Canon(in)))
			sc.C = string(h[:12])
		}
		rs.Succ = &sc
	}
	b, _ := json.Marshal(rs)
	fmt.Println(probeMark + string(b))
	os.Exit(0)
}

func checkErrorLine(out string) string {
	for _, l := range strings.Split(out, "\n") {
		if strings.Contains(l, "CHECK-ERROR:") {
			return strings.TrimSpace(l)
		}
	}
	return ""
}

// --- describing a death -----------------------------------------------------------------------

func firstLines(s string, n int) string {
	var out []string
	for _, l := range strings.Split(s, "\n") {
		l = strings.TrimSpace(l)
		if l == "" {
			continue
		}
		out = append(out, l)
		if len(out) >= n {
			break
		}
	}
	if len(out) == 0 {
		return "(the process wrote nothing)"
	}
	return strings.Join(out, " | ")
}

var (
	hexNum = regexp.MustCompile(`0x[0-9a-fA-F]+`)
	sigRe  = regexp.MustCompile(`\[signal ([A-Z]+)`)
)

// crashSignature: the runtime's message with addresses and numbers removed (one root cause, one
// key) and the innermost repository frames of the first goroutine printed.
func crashSignature(stderr string) (what, frames string) {
	what = "no message"
	for _, l := range strings.Split(stderr, "\n") {
		l = strings.TrimSpace(l)
		if strings.HasPrefix(l, "fatal error: ") || strings.HasPrefix(l, "panic: ") || strings.HasPrefix(l, "fatal: ") {
			what = l
			break
		}
	}
	if m := sigRe.FindStringSubmatch(stderr); m != nil {
		what += " [" + m[1] + "]"
	}
	what = digits.ReplaceAllString(hexNum.ReplaceAllString(what, "ADDR"), "N")
	// first goroutine only
	first := stderr
	if i := strings.Index(first, "\ngoroutine "); i >= 0 {
		first = first[i+1:]
		if j := strings.Index(first, "\n\n"); j >= 0 {
			first = first[:j]
		}
	}
	frames = topRepoFrames(first)
	if frames == "" {
		for _, l := range strings.Split(first, "\n") {
			if strings.HasPrefix(l, "main.") {
				if i := strings.LastIndex(l, "("); i > 0 {
					l = l[:i]
				}
				frames = "harness " + l
				break
			}
		}
	}
	if frames == "" {
		frames = "(no repository frame)"
	}
	return
}

// --- development aid: a deliberate death --------------------------------------------------------

// C15_SELFTEST_CRASH=<operation name prefix>: the first operation whose name starts with it reads
// from memory that has been unmapped (what a stale slice into a moved memory map does), with the
// fault-to-panic conversion off. Used to demonstrate the relay; never set by ./check.
var selftestCrash = os.Getenv("C15_SELFTEST_CRASH")

func maybeSelftestCrash(op string) {
	if selftestCrash == "" || !strings.HasPrefix(op, selftestCrash) {
		return
	}
	debug.SetPanicOnFault(false)
	m, err := syscall.Mmap(-1, 0, 4096, syscall.PROT_READ|syscall.PROT_WRITE, syscall.MAP_ANON|syscall.MAP_PRIVATE)
	if err != nil {
		panic(err)
	}
	p := unsafe.Pointer(&m[0])
	syscall.Munmap(m)
	fmt.Fprintln(os.Stderr, *(*byte)(p))
}
