//go:build verif

// White-box access to object.Client for the C15 harness (/verif/harness/c15). Never part of a
// normal build (tag verif); added to the package through `go build -overlay`.
//
// VerifStep executes exactly one arm of the select in (*Client).run() without blocking, so that
// the explorer - not the Go runtime - decides which ready arm runs next. The arm bodies are the
// same calls run() makes. The run() goroutine itself is never started by the harness (the `go`
// statement in Start() is turned into an inert vsched task by cmd/xform -gostmt).
package object

import (
	"fmt"
	"strings"

	bolt "go.etcd.io/bbolt"
)

// Arms of the select in run(), in source order (the stop arm is not modelled).
const (
	VerifArmOut   = 0 // outpipe   -> expressRImpl
	VerifArmSegIn = 1 // seginpipe -> fetcher.handleData
	VerifArmFetch = 2 // segfetch  -> fetcher.add
	VerifArmCheck = 3 // segcheck  -> fetcher.doCheck
	VerifArms     = 4
)

// VerifStep runs one iteration of run() restricted to the given arm. It returns false (and does
// nothing) if that arm's channel is empty.
func (c *Client) VerifStep(arm int) bool {
	switch arm {
	case VerifArmOut:
		select {
		case args := <-c.outpipe:
			c.expressRImpl(args)
			return true
		default:
		}
	case VerifArmSegIn:
		select {
		case args := <-c.seginpipe:
			c.fetcher.handleData(args.args, args.state)
			return true
		default:
		}
	case VerifArmFetch:
		select {
		case state := <-c.segfetch:
			c.fetcher.add(state)
			return true
		default:
		}
	case VerifArmCheck:
		select {
		case <-c.segcheck:
			c.fetcher.doCheck()
			return true
		default:
		}
	}
	return false
}

// VerifQueues returns the number of queued items per arm.
func (c *Client) VerifQueues() [VerifArms]int {
	return [VerifArms]int{len(c.outpipe), len(c.seginpipe), len(c.segfetch), len(c.segcheck)}
}

// VerifSegmentSize is the producer's segment size constant (8000, or the scaled value).
func VerifSegmentSize() int { return pSegmentSize }

// VerifSetWindow overrides the fetch window of the client's segment fetcher (a literal 10 in
// newRrSegFetcher, not a named constant, so cmd/xform -const cannot scale it).
func (c *Client) VerifSetWindow(n int) { c.fetcher.window = n }

// VerifWindow is the fetch window of the client's segment fetcher.
func (c *Client) VerifWindow() int { return c.fetcher.window }

func verifState(b *strings.Builder, st *ConsumeState) {
	fmt.Fprintf(b, "{%s->%s c=%v e=%v m=%v w=%v n=%d [", st.name, st.fetchName, st.complete, st.err != nil, st.meta != nil, st.wnd, st.segCnt)
	for _, x := range st.content {
		if x == nil {
			b.WriteByte('.')
		} else {
			fmt.Fprintf(b, "%d,", len(x))
		}
	}
	b.WriteString("]}")
}

// VerifDump renders everything inside the client that can influence its future behaviour:
// the four queues (contents, in order), the fetcher (streams, round-robin index, outstanding).
// Channels cannot be inspected, so they are drained and refilled in the same order (the harness
// is single-goroutine; nothing else touches them meanwhile).
func (c *Client) VerifDump() string {
	var b strings.Builder
	b.WriteString("out[")
	n := len(c.outpipe)
	for i := 0; i < n; i++ {
		a := <-c.outpipe
		pfx := false
		if a.Config != nil {
			pfx = a.Config.CanBePrefix
		}
		fmt.Fprintf(&b, "%s r%d p%v;", a.Name, a.Retries, pfx)
		c.outpipe <- a
	}
	b.WriteString("] in[")
	n = len(c.seginpipe)
	for i := 0; i < n; i++ {
		a := <-c.seginpipe
		dn := ""
		if a.args.Data != nil {
			dn = a.args.Data.Name().String()
		}
		fmt.Fprintf(&b, "%s<-%d %s;", a.state.fetchName, a.args.Result, dn)
		c.seginpipe <- a
	}
	b.WriteString("] fetch[")
	n = len(c.segfetch)
	for i := 0; i < n; i++ {
		st := <-c.segfetch
		verifState(&b, st)
		c.segfetch <- st
	}
	fmt.Fprintf(&b, "] check=%d rr=%d outst=%d streams[", len(c.segcheck), c.fetcher.rrIndex, c.fetcher.outstanding)
	for _, st := range c.fetcher.streams {
		verifState(&b, st)
	}
	b.WriteString("]")
	return b.String()
}

// VerifDoCheckSpins predicts, WITHOUT running it, whether fetcher.doCheck() (the segcheck arm)
// would return. doCheck contains a `for { state = s.next() ... }` loop whose only exits are
// "no streams", "came back to the first stream looked at" and "found a stream to work on"; a hang
// in it cannot be interrupted from outside, so the harness asks this model first. The model is a
// transcription of that loop (and of the deferred recursive doCheck) on copies of the fields it
// reads: streams, rrIndex, outstanding, window and per stream complete/segCnt/wnd[2]. It returns
// true if some loop would exceed 4*len(streams)+8 iterations (each terminating run of the real
// loop makes at most 2*len(streams)+1). If the real loop changes shape this model only becomes
// stale, never the oracle: the harness believes a predicted spin only after it has watched the real
// step burn CPU without returning (once per process, in a throw-away subprocess), and stops
// consulting the model as soon as the real step returns where a spin was predicted; every
// operation additionally runs under a watchdog that turns an unpredicted hang into CHECK-ERROR.
func (c *Client) VerifDoCheckSpins() bool {
	type st struct {
		complete bool
		segCnt   int
		wnd2     int
	}
	s := &c.fetcher
	streams := make([]*st, len(s.streams))
	for i, x := range s.streams {
		streams[i] = &st{x.complete, x.segCnt, x.wnd[2]}
	}
	rr, outstanding := s.rrIndex, s.outstanding
	for depth := 0; depth < 1<<16; depth++ {
		if outstanding >= s.window {
			return false
		}
		var first, state *st
		bound := 4*len(streams) + 8
		iter := 0
		for {
			if iter++; iter > bound {
				return true
			}
			if len(streams) == 0 {
				return false
			}
			rr = (rr + 1) % len(streams)
			state = streams[rr]
			if first == nil {
				first = state
			} else if state == first {
				return false
			}
			if state.complete {
				for i, x := range streams {
					if x == state {
						streams = append(streams[:i], streams[i+1:]...)
						break
					}
				}
				continue
			}
			if state.segCnt == -1 && state.wnd2 > 0 {
				continue
			}
			if state.segCnt > 0 && state.wnd2 >= state.segCnt {
				continue
			}
			break
		}
		outstanding++
		state.wnd2++
	}
	return true
}

// VerifBoltNoSync turns off fsync for a BoltStore used by the harness (durability is not part of
// the property; semantics are unchanged).
func VerifBoltNoSync(s *BoltStore) { s.db.NoSync = true }

// VerifBoltClear empties the store (drops and re-creates its bucket) so that one database file
// can serve many harness instances.
func VerifBoltClear(s *BoltStore) error {
	return s.db.Update(func(tx *bolt.Tx) error {
		if err := tx.DeleteBucket(BoltBucket); err != nil && err != bolt.ErrBucketNotFound {
			return err
		}
		_, err := tx.CreateBucket(BoltBucket)
		return err
	})
}

// VerifCaps returns the capacity of the queue behind each arm.
func (c *Client) VerifCaps() [VerifArms]int {
	return [VerifArms]int{cap(c.outpipe), cap(c.seginpipe), cap(c.segfetch), cap(c.segcheck)}
}

// VerifGrowQueues replaces outpipe, seginpipe and segfetch by channels with `extra` more slots
// holding the same items in the same order. The harness keeps the ORIGINAL capacities as the
// logical ones and compares the queue lengths with them after every operation: a send that the
// production client would have blocked on becomes an observable overflow instead of a hung
// harness goroutine. Every send on these three channels in the package is a plain blocking send
// (capacity is not otherwise observable); segcheck, which is sent to with select/default, is left
// alone.
func (c *Client) VerifGrowQueues(extra int) {
	out := make(chan ExpressRArgs, cap(c.outpipe)+extra)
	for n := len(c.outpipe); n > 0; n-- {
		out <- <-c.outpipe
	}
	c.outpipe = out
	in := make(chan rrSegHandleDataArgs, cap(c.seginpipe)+extra)
	for n := len(c.seginpipe); n > 0; n-- {
		in <- <-c.seginpipe
	}
	c.seginpipe = in
	f := make(chan *ConsumeState, cap(c.segfetch)+extra)
	for n := len(c.segfetch); n > 0; n-- {
		f <- <-c.segfetch
	}
	c.segfetch = f
}
