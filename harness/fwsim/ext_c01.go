package fwsim

// Additions for C01 (token shapes): frames the ordinary LP description cannot express.

import (
	enc "github.com/named-data/ndnd/std/encoding"
	spec "github.com/named-data/ndnd/std/ndn/spec_2022"
)

// EncodeFrameToken builds an NDNLPv2 LpPacket carrying `wire` as its only fragment and a PitToken
// field of exactly the given bytes - also of length ZERO when tok is non-nil and empty, a field
// EncodeFrame never produces (it treats an empty token as absent). tok == nil: no PitToken field.
func EncodeFrameToken(wire []byte, tok []byte) []byte {
	frag := &spec.LpPacket{Fragment: enc.Wire{wire}}
	if tok != nil {
		frag.PitToken = tok
	}
	pkt := &spec.Packet{LpPacket: frag}
	e := spec.PacketEncoder{}
	e.Init(pkt)
	w := e.Encode(pkt)
	if w == nil {
		panic("fwsim: cannot encode LpPacket")
	}
	return w.Join()
}

// InjectFrame hands a complete frame to the REAL link service of the face and lets the driven thread
// process what was queued for it, like Inject does in RealLinkService mode. Without RealLinkService
// there is no decoder for a frame in this package: the call panics.
func (s *Sim) InjectFrame(faceID uint64, frame []byte) []Send {
	if !s.Cfg.RealLinkService {
		panic("fwsim: InjectFrame needs Config.RealLinkService")
	}
	f := s.Faces[faceID]
	if f == nil {
		panic("fwsim: unknown face")
	}
	mark := len(s.log)
	s.link(f).VerifHandleIncomingFrame(frame)
	s.Thread.VerifTakeQueued()
	if s.Cfg.LateRead {
		for i := mark; i < len(s.log); i++ {
			s.log[i] = s.log[i].Reread()
		}
	}
	return s.log[mark:]
}
