package fwsim

import (
	"fmt"
	"sync"
	"time"

	enc "github.com/named-data/ndnd/std/encoding"
	"github.com/named-data/ndnd/std/ndn"
	spec "github.com/named-data/ndnd/std/ndn/spec_2022"
	sec "github.com/named-data/ndnd/std/security"
)

// InterestSpec is everything that distinguishes one Interest wire from another.
type InterestSpec struct {
	Name        string
	CanBePrefix bool
	MustBeFresh bool
	Nonce       *uint32        // nil = no Nonce element
	Lifetime    *time.Duration // nil = no InterestLifetime element (the forwarder assumes 4 s)
	HopLimit    *uint          // nil = no HopLimit element
	Hint        []string       // forwarding hint delegations
}

// DataSpec is everything that distinguishes one Data wire from another.
type DataSpec struct {
	Name      string
	Freshness *time.Duration // nil = no FreshnessPeriod
	Content   string
}

func U32(v uint32) *uint32               { return &v }
func U64(v uint64) *uint64               { return &v }
func Uint(v uint) *uint                  { return &v }
func Dur(d time.Duration) *time.Duration { return &d }

var (
	pkMu    sync.Mutex
	pkCache = map[string][]byte{}
)

func (i InterestSpec) key() string {
	k := fmt.Sprintf("I|%s|%v|%v|%v", i.Name, i.CanBePrefix, i.MustBeFresh, i.Hint)
	if i.Nonce != nil {
		k += fmt.Sprintf("|n%d", *i.Nonce)
	}
	if i.Lifetime != nil {
		k += fmt.Sprintf("|l%d", *i.Lifetime)
	}
	if i.HopLimit != nil {
		k += fmt.Sprintf("|h%d", *i.HopLimit)
	}
	return k
}

// MakeInterest encodes an Interest with the real spec_2022 encoder (spec.Spec{}.MakeInterest).
// The returned slice is shared (cached per process): callers must not modify it; Sim.Inject copies.
func MakeInterest(i InterestSpec) []byte {
	k := i.key()
	pkMu.Lock()
	defer pkMu.Unlock()
	if w, ok := pkCache[k]; ok {
		return w
	}
	cfg := &ndn.InterestConfig{CanBePrefix: i.CanBePrefix, MustBeFresh: i.MustBeFresh, Lifetime: i.Lifetime, HopLimit: i.HopLimit}
	if i.Nonce != nil {
		n := uint64(*i.Nonce)
		cfg.Nonce = &n
	}
	for _, h := range i.Hint {
		cfg.ForwardingHint = append(cfg.ForwardingHint, Name(h))
	}
	e, err := spec.Spec{}.MakeInterest(Name(i.Name), cfg, nil, nil)
	if err != nil {
		panic(fmt.Sprintf("fwsim: MakeInterest(%+v): %v", i, err))
	}
	w := e.Wire.Join()
	pkCache[k] = w
	return w
}

// MakeData encodes a Data packet (DigestSha256 signature) with spec.Spec{}.MakeData.
// The returned slice is shared (cached per process): callers must not modify it.
func MakeData(d DataSpec) []byte {
	k := fmt.Sprintf("D|%s|%s", d.Name, d.Content)
	if d.Freshness != nil {
		k += fmt.Sprintf("|f%d", *d.Freshness)
	}
	pkMu.Lock()
	defer pkMu.Unlock()
	if w, ok := pkCache[k]; ok {
		return w
	}
	cfg := &ndn.DataConfig{Freshness: d.Freshness}
	ct := ndn.ContentTypeBlob
	cfg.ContentType = &ct
	e, err := spec.Spec{}.MakeData(Name(d.Name), cfg, enc.Wire{[]byte(d.Content)}, sec.NewSha256Signer())
	if err != nil {
		panic(fmt.Sprintf("fwsim: MakeData(%+v): %v", d, err))
	}
	w := e.Wire.Join()
	pkCache[k] = w
	return w
}

// Parse decodes a wire the way the link service does (for oracles that want the L3 view).
func Parse(wire []byte) *spec.Packet {
	p, _, err := spec.ReadPacket(enc.NewBufferReader(append([]byte{}, wire...)))
	if err != nil {
		return nil
	}
	return p
}
