package fwsim

// Every forwarding thread alive (C01 / C08, multi-thread configurations).
//
// Sim.Inject drives ONE thread: what the link service dispatches to another thread is counted as a
// DispatchDrop and never processed. That hides everything that goes wrong BETWEEN threads - state
// that should be per thread but is shared, a PIT token that names the wrong thread, Data that is
// handed to a thread that does not hold the pending Interest. InjectAll does what the running daemon
// does: the arriving packet is dispatched by the real rule (Interest: fw.HashNameToFwThread; Data:
// the thread id in a 6-byte PIT token, else - local face - every thread of
// fw.HashNameToAllPrefixFwThreads, else fw.HashNameToFwThread) and EVERY thread it was handed to
// processes it, in thread order (the threads do not share anything they could race on except what the
// property forbids them to share, so one order stands for all). Both arrival paths are supported:
// the field-by-field copy (default) and the real NDNLPLinkService (Config.RealLinkService), whose
// dispatchInterest / dispatchData then make the choice and queue the packet on the real threads.

import (
	"encoding/binary"
	"time"

	"github.com/named-data/ndnd/fw/defn"
	"github.com/named-data/ndnd/fw/fw"
	"github.com/named-data/ndnd/fw/table"
	enc "github.com/named-data/ndnd/std/encoding"
	spec "github.com/named-data/ndnd/std/ndn/spec_2022"
	"github.com/named-data/ndnd/std/utils"
	"verif/shim/vtime"
)

// NumThreads is the number of real forwarding threads of the instance.
func (s *Sim) NumThreads() int { return len(s.threads) }

// ThreadAt returns the i-th real forwarding thread.
func (s *Sim) ThreadAt(i int) *fw.Thread { return s.threads[i] }

// DumpThread is Dump() for the i-th thread.
func (s *Sim) DumpThread(i int) table.VerifPitCsDump {
	return table.VerifDumpPitCs(s.threads[i].VerifPitCs(), vtime.Now())
}

// QueueThread is Queue() for the i-th thread.
func (s *Sim) QueueThread(i int) []table.VerifPitQueueEntry {
	return table.VerifPitQueue(s.threads[i].VerifPitCs(), vtime.Now())
}

// TickAll runs the periodic arms of every thread once (thread order) at the current virtual time.
func (s *Sim) TickAll() []Send {
	mark := len(s.log)
	for _, t := range s.threads {
		t.VerifTick()
	}
	return s.log[mark:]
}

// RunAllFor is RunFor with every thread alive.
func (s *Sim) RunAllFor(d, step time.Duration) []Send {
	if step <= 0 {
		step = table.VerifPitTick
	}
	mark := len(s.log)
	for el := time.Duration(0); el < d; el += step {
		vtime.Advance(step)
		for _, t := range s.threads {
			t.VerifTick()
		}
	}
	return s.log[mark:]
}

// InjectAll is Inject with every forwarding thread alive (see the file comment). handled lists the
// ids of the threads that processed the packet (empty: the link service dropped it, e.g. a 6-byte
// token naming no thread; nil in RealLinkService mode when nothing was queued anywhere).
func (s *Sim) InjectAll(faceID uint64, wire []byte, lp LP) (sends []Send, handled []int) {
	mark := len(s.log)
	handled = s.injectAll(faceID, wire, lp)
	if s.Cfg.LateRead {
		for i := mark; i < len(s.log); i++ {
			s.log[i] = s.log[i].Reread()
		}
	}
	return s.log[mark:], handled
}

func (s *Sim) injectAll(faceID uint64, wire []byte, lp LP) (handled []int) {
	f := s.Faces[faceID]
	if f == nil {
		panic("fwsim: unknown face")
	}
	if s.Cfg.RealLinkService {
		s.link(f).VerifHandleIncomingFrame(EncodeFrame(wire, lp))
		for i, t := range s.threads {
			if t.VerifTakeQueued() > 0 {
				handled = append(handled, i)
			}
		}
		return handled
	}
	// the copied arrival path: one defn.Pkt per arrival, shared by the threads it is queued on, as
	// in linkServiceBase.dispatchData
	buf := make([]byte, len(wire))
	copy(buf, wire)
	pkt := &defn.Pkt{IncomingFaceID: utils.IdPtr(faceID)}
	pkt.CongestionMark = lp.CongestionMark
	if f.spec.CCF && lp.NextHopFaceID != nil {
		pkt.NextHopFaceID = lp.NextHopFaceID
	}
	if f.spec.LCP && lp.CachePolicy != nil {
		pkt.CachePolicy = utils.IdPtr(*lp.CachePolicy)
	}
	if len(lp.PitToken) > 0 {
		pkt.PitToken = make([]byte, len(lp.PitToken))
		copy(pkt.PitToken, lp.PitToken)
	}
	L3, _, err := spec.ReadPacket(enc.NewBufferReader(buf))
	if err != nil {
		return nil
	}
	pkt.Raw = buf
	pkt.L3 = L3
	n := len(s.threads)
	switch {
	case L3.Interest != nil:
		pkt.Name = L3.Interest.NameV
		if th := fw.HashNameToFwThread(pkt.Name); th >= 0 && th < n {
			s.threads[th].VerifInterest(pkt)
			handled = append(handled, th)
		}
	case L3.Data != nil:
		pkt.Name = L3.Data.NameV
		if len(pkt.PitToken) == 6 {
			if th := int(binary.BigEndian.Uint16(pkt.PitToken)); th < n {
				s.threads[th].VerifData(pkt)
				handled = append(handled, th)
			}
		} else if f.spec.Scope == defn.Local {
			for th, m := range fw.HashNameToAllPrefixFwThreads(pkt.Name) {
				if m && th < n {
					s.threads[th].VerifData(pkt)
					handled = append(handled, th)
				}
			}
		} else if th := fw.HashNameToFwThread(pkt.Name); th >= 0 && th < n {
			s.threads[th].VerifData(pkt)
			handled = append(handled, th)
		}
	}
	if len(handled) == 0 {
		s.DispatchDrops++
	}
	return handled
}

// NameForThreadOf is NameForThread for any thread id of the instance.
func (s *Sim) NameForThreadOf(thread int, stem string, suffixes ...string) string {
	for k := 0; k < 100000; k++ {
		base := "/" + stem + itoa(k)
		ok := fw.HashNameToFwThread(Name(base)) == thread
		for _, sfx := range suffixes {
			ok = ok && fw.HashNameToFwThread(Name(base+sfx)) == thread
		}
		if ok {
			return base
		}
	}
	panic("fwsim: no name hashes to the thread")
}

func itoa(k int) string {
	if k == 0 {
		return "0"
	}
	var b []byte
	for ; k > 0; k /= 10 {
		b = append([]byte{byte('0' + k%10)}, b...)
	}
	return string(b)
}
