// Package fwsim is a synchronous, single-threaded simulation seam around ONE real YaNFD
// forwarding thread (fw.Thread) for the explicit-state checks C01, C02, C08 and C09.
//
// What is real: fw.Thread (created by fw.NewThread, strategies instantiated by the real strategy
// loader), its PitCsTree and DeadNonceList, the process-global FIB (name tree or hash table), the
// dispatch face table, defn.Pkt, spec_2022 packet encoding and decoding.
// What is simulated: the faces (recording implementations of dispatch.Face), the part of
// fw/face that turns a received frame into a defn.Pkt and picks a forwarding thread
// (NDNLPLinkService.handleIncomingFrame + linkServiceBase.dispatchInterest/dispatchData, copied
// field by field in Sim.Interest / Sim.Data), the clock (verif/shim/vtime, needs
// `-time fw/table,fw/fw` in the harness' xform.args) and math/rand (verif/shim/vrand: PIT tokens).
// The thread's Run() loop is NOT running; its arms are called through the hook file
// /verif/hooks/fw/fw/verif_export.go (VerifInterest, VerifData, VerifTick).
// Two things the real system does asynchronously can be switched on: faces that read what they
// were handed only later (Config.LateRead, Send.Reread: the real link service queues the OutPkt and
// serialises it in its own goroutine), and the PIT reaper driven by the table's own timer instead
// of a fixed schedule (Config.OwnPitTimer, owntimer.go).
//
// Everything process-global is reset by New(), so a harness may build any number of instances
// one after the other in one process (never two at the same time).
package fwsim

import (
	"bytes"
	"encoding/binary"
	"fmt"
	"sort"
	"sync"
	"time"

	"github.com/named-data/ndnd/fw/core"
	"github.com/named-data/ndnd/fw/defn"
	"github.com/named-data/ndnd/fw/dispatch"
	"github.com/named-data/ndnd/fw/face"
	"github.com/named-data/ndnd/fw/fw"
	"github.com/named-data/ndnd/fw/table"
	enc "github.com/named-data/ndnd/std/encoding"
	spec "github.com/named-data/ndnd/std/ndn/spec_2022"
	"github.com/named-data/ndnd/std/utils"
	"verif/shim/vrand"
	"verif/shim/vtime"
)

// Strategy names as the FIB stores them.
const (
	BestRoute = "/localhost/nfd/strategy/best-route/v=1"
	Multicast = "/localhost/nfd/strategy/multicast/v=1"
)

// Standard face ids used by the checks (any ids may be used in Config.Faces).
const (
	L1 uint64 = 1 // local application (consumer-controlled forwarding enabled)
	N2 uint64 = 2 // non-local, point-to-point
	N3 uint64 = 3 // non-local, point-to-point
	N4 uint64 = 4 // non-local, point-to-point
	L5 uint64 = 5 // second local application
	A6 uint64 = 6 // non-local, ad-hoc link
)

// FaceSpec describes one fake face.
type FaceSpec struct {
	ID    uint64
	Label string // short name used in op names and reports, e.g. "L1"
	Scope defn.Scope
	Link  defn.LinkType
	// CCF = "consumer controlled forwarding" (NDNLP local fields) enabled on the face: only then
	// does the link service copy NextHopFaceId from the LP header into the packet.
	CCF bool
	// IFI = "incoming face indication", LCP = "local cache policy": the two other NDNLP local-fields
	// options of the face's link service (faces/create and faces/update with the LocalFields flag
	// switch all three on; the internal face has CCF+IFI). Only the REAL link service
	// (Config.RealLinkService, Enqueue) and the CachePolicy copy of the copied arrival path read them.
	IFI bool
	LCP bool
}

// StdFaces is the face set of DESIGN C01: two local, three non-local, one ad-hoc.
func StdFaces() []FaceSpec {
	return []FaceSpec{
		{ID: L1, Label: "L1", Scope: defn.Local, Link: defn.PointToPoint, CCF: true},
		{ID: N2, Label: "N2", Scope: defn.NonLocal, Link: defn.PointToPoint},
		{ID: N3, Label: "N3", Scope: defn.NonLocal, Link: defn.PointToPoint},
		{ID: N4, Label: "N4", Scope: defn.NonLocal, Link: defn.PointToPoint},
		{ID: L5, Label: "L5", Scope: defn.Local, Link: defn.PointToPoint, CCF: true},
		{ID: A6, Label: "A6", Scope: defn.NonLocal, Link: defn.AdHoc},
	}
}

// Route is one FIB next hop.
type Route struct {
	Prefix string
	Face   uint64
	Cost   uint64
}

// StrategyChoice sets the strategy of a prefix ("/" = default).
type StrategyChoice struct {
	Prefix   string
	Strategy string // BestRoute or Multicast
}

// Config fixes everything a fresh instance is built from.
type Config struct {
	Faces      []FaceSpec // nil = StdFaces()
	FibAlgo    string     // "nametree" (default) or "hashtable"
	HashtableM uint16     // virtual node depth of the hash-table FIB (default 5 as shipped)
	Routes     []Route
	Strategies []StrategyChoice
	CsCapacity int // default 1024
	// CsCapacityExact: take CsCapacity literally, so that capacity 0 (a legal management value:
	// every admitted Data is evicted again at once) can be configured. Without it 0 = default.
	CsCapacityExact bool
	CsAdmit         bool
	CsServe         bool
	DnlLifetime     time.Duration // default 6 s as shipped
	Regions         []string      // producer regions (network region table)
	// ThreadID is the id of the DRIVEN forwarding thread (default 0). With ThreadID > 0 the
	// forwarder has Threads (default ThreadID+1) real threads registered in fw.Threads and
	// dispatch; only the driven one is ever run. Packets the link service dispatches to another
	// thread (by name hash, or by the thread id in a 6-byte PIT token) are queued there and never
	// processed: they count as DispatchDrops. /localhost names always hash to thread 0.
	ThreadID int
	Threads  int
	// RealLinkService selects the arrival path. false (default, fast): the frame is turned into a
	// defn.Pkt by this package's field-by-field copy of handleIncomingFrame + dispatchInterest /
	// dispatchData. true: the frame (an LpPacket when LP header fields are present, else the bare
	// packet) is handed to a REAL face.NDNLPLinkService on an in-memory transport
	// (hooks/fw/face/verif_export.go) and whatever it queued on the driven thread is then
	// processed. The egress seam (recording dispatch.Face) is the same in both modes.
	RealLinkService bool
	// OnSend, if set, is called at the start of every SendPacket on a fake face, in the goroutine
	// that sends (the forwarding thread). Used by free-running passes that need the thread to be
	// busy at a chosen moment; the synchronous searches leave it nil.
	OnSend func(face uint64)
	// LateRead models a face that serialises what it was handed only AFTER the forwarding thread's
	// pipeline call has returned (the real link service only queues the dispatch.OutPkt; its own
	// goroutine reads OutPkt.PitToken, OutPkt.InFace and Pkt.Raw when it builds the frame): every Send
	// returned by Inject and kept in the log is re-read from the OutPkt the face was handed (which
	// the face kept as it was given, without copying what it points to) once VerifInterest /
	// VerifData has returned. Send.Reread gives the same view at any later moment (a backlogged
	// face).
	LateRead bool
	// OwnPitTimer: the PIT reaper of a thread runs only when the table's OWN timer has fired
	// (PitCsTree.UpdateTimer(), armed by NewPitCS / Update() through time.AfterFunc on the virtual
	// clock), as in Thread.Run(), instead of on the fixed schedule of Tick / RunFor. Use StepOwn /
	// RunOwnFor to let time pass. See ownTimer below.
	OwnPitTimer bool
}

// Kind of a recorded packet.
type Kind int

const (
	KInterest Kind = iota
	KData
)

func (k Kind) String() string {
	if k == KInterest {
		return "Interest"
	}
	return "Data"
}

// Send is one SendPacket call observed on a fake face, snapshotted at the time of the call.
type Send struct {
	Face     uint64
	Kind     Kind
	Name     enc.Name
	NameStr  string
	Wire     []byte  // copy of OutPkt.Pkt.Raw at the time of the call
	PitToken []byte  // copy of OutPkt.PitToken (nil and empty are both "no token")
	InFace   *uint64 // OutPkt.InFace
	// Interest fields (decoded L3 at the time of the call)
	Nonce       *uint32
	HopLimit    *byte
	CanBePrefix bool
	MustBeFresh bool
	// Raw LP-level metadata the packet object carried
	NextHopFaceID  *uint64
	CongestionMark *uint64
	// what the face was handed, kept the way the real link service keeps it in its send queue: the
	// OutPkt value (slice headers and pointers are NOT followed, nothing they point to is copied)
	held    dispatch.OutPkt
	hasHeld bool
}

// Reread returns the Send as a face sees it that serialises the packet NOW instead of at the time
// of the SendPacket call: PIT token bytes, wire bytes, incoming-face id and the packet's LP
// metadata are read again through the OutPkt the face was handed. The forwarding thread must not
// change any of them once SendPacket has returned, so for a correct forwarder Reread equals the
// Send at every later moment.
func (s Send) Reread() Send {
	if !s.hasHeld {
		return s
	}
	return snapshot(s.Face, s.held)
}

func (s Send) String() string {
	tok := "-"
	if len(s.PitToken) > 0 {
		tok = fmt.Sprintf("%x", s.PitToken)
	}
	return fmt.Sprintf("%s %s ->f%d tok=%s", s.Kind, s.NameStr, s.Face, tok)
}

// Face is a recording dispatch.Face.
type Face struct {
	spec FaceSpec
	sim  *Sim
	id   uint64
}

func (f *Face) String() string          { return "fake-" + f.spec.Label }
func (f *Face) SetFaceID(id uint64)     { f.id = id }
func (f *Face) FaceID() uint64          { return f.id }
func (f *Face) LocalURI() *defn.URI     { return nil }
func (f *Face) RemoteURI() *defn.URI    { return nil }
func (f *Face) Scope() defn.Scope       { return f.spec.Scope }
func (f *Face) LinkType() defn.LinkType { return f.spec.Link }
func (f *Face) MTU() int                { return defn.MaxNDNPacketSize }
func (f *Face) State() defn.State       { return defn.Up }
func (f *Face) Spec() FaceSpec          { return f.spec }

// SendPacket records what the forwarding thread hands to the face.
func (f *Face) SendPacket(out dispatch.OutPkt) {
	if f.sim.Cfg.OnSend != nil {
		f.sim.Cfg.OnSend(f.id)
	}
	f.sim.log = append(f.sim.log, snapshot(f.id, out))
}

// snapshot reads everything a face reads from an OutPkt (and the L3 view the oracles use) now.
func snapshot(face uint64, out dispatch.OutPkt) Send {
	s := Send{Face: face, held: out, hasHeld: true}
	if out.InFace != nil {
		v := *out.InFace
		s.InFace = &v
	}
	if len(out.PitToken) > 0 {
		s.PitToken = append([]byte{}, out.PitToken...)
	}
	p := out.Pkt
	if p != nil {
		s.Wire = append([]byte{}, p.Raw...)
		if p.NextHopFaceID != nil {
			v := *p.NextHopFaceID
			s.NextHopFaceID = &v
		}
		if p.CongestionMark != nil {
			v := *p.CongestionMark
			s.CongestionMark = &v
		}
		if p.L3 != nil && p.L3.Interest != nil {
			s.Kind = KInterest
			in := p.L3.Interest
			s.Name = in.NameV
			s.CanBePrefix, s.MustBeFresh = in.CanBePrefixV, in.MustBeFreshV
			if in.NonceV != nil {
				n := *in.NonceV
				s.Nonce = &n
			}
			if in.HopLimitV != nil {
				h := *in.HopLimitV
				s.HopLimit = &h
			}
		} else if p.L3 != nil && p.L3.Data != nil {
			s.Kind = KData
			s.Name = p.L3.Data.NameV
		}
	}
	s.NameStr = NameStr(s.Name)
	return s
}

// Sim is one simulation instance.
type Sim struct {
	Cfg    Config
	Thread *fw.Thread
	Faces  map[uint64]*Face
	log    []Send
	// DispatchDrops counts packets the link service did not hand to the driven thread
	// (6-byte PIT token naming another or no thread, name hashing to another or to no thread).
	// Only maintained on the copied arrival path.
	DispatchDrops int
	threads       []*fw.Thread
	links         map[uint64]*face.NDNLPLinkService
	own           *ownTimer
}

var logOnce sync.Once

// New resets every process-global the forwarder keeps (clock, rand, configuration, face table,
// thread table, FIB, RIB, network regions) and builds a fresh thread, faces and FIB.
func New(cfg Config) *Sim {
	stopOwnTimer()
	// with OwnPitTimer the time.AfterFunc callbacks of the tables run when the clock passes them
	vtime.Reset(cfg.OwnPitTimer)
	vrand.Reset()
	core.ShouldQuit = false

	if cfg.Faces == nil {
		cfg.Faces = StdFaces()
	}
	if cfg.FibAlgo == "" {
		cfg.FibAlgo = "nametree"
	}
	if cfg.HashtableM == 0 {
		cfg.HashtableM = 5
	}
	if cfg.CsCapacity == 0 && !cfg.CsCapacityExact {
		cfg.CsCapacity = 1024
	}
	if cfg.DnlLifetime == 0 {
		cfg.DnlLifetime = 6 * time.Second
	}

	// core configuration (what yanfd.go does before creating threads)
	c := core.DefaultConfig()
	c.Core.LogLevel = "FATAL"
	c.Fw.Threads = 1
	c.Fw.QueueSize = 8
	c.Tables.QueueSize = 8
	c.Tables.ContentStore.Capacity = uint16(cfg.CsCapacity)
	c.Tables.ContentStore.Admit = cfg.CsAdmit
	c.Tables.ContentStore.Serve = cfg.CsServe
	c.Tables.ContentStore.ReplacementPolicy = "lru"
	c.Tables.DeadNonceList.Lifetime = int(cfg.DnlLifetime / time.Millisecond)
	c.Tables.Fib.Algorithm = cfg.FibAlgo
	c.Tables.Fib.Hashtable.M = cfg.HashtableM
	core.LoadConfig(c, "")
	logOnce.Do(func() { core.InitializeLogger("") }) // FATAL only: the logging calls return before formatting

	// tables
	table.VerifConfigure(cfg.CsCapacity, cfg.CsAdmit, cfg.CsServe, cfg.DnlLifetime)
	regions := make([]enc.Name, 0, len(cfg.Regions))
	for _, r := range cfg.Regions {
		regions = append(regions, Name(r))
	}
	table.VerifSetProducerRegions(regions)
	table.VerifResetRib()
	table.CreateFIBTable(cfg.FibAlgo) // the real constructor switch (reads M from core config)

	// faces
	dispatch.FaceDispatch.Range(func(k, _ any) bool { dispatch.FaceDispatch.Delete(k); return true })
	s := &Sim{Cfg: cfg, Faces: map[uint64]*Face{}}
	for _, fs := range cfg.Faces {
		f := &Face{spec: fs, sim: s}
		f.SetFaceID(fs.ID)
		dispatch.AddFace(fs.ID, f)
		s.Faces[fs.ID] = f
	}

	// the thread(s)
	n := cfg.Threads
	if n <= cfg.ThreadID {
		n = cfg.ThreadID + 1
	}
	s.Cfg.Threads = n
	fw.VerifConfigure(8, n)
	s.threads = make([]*fw.Thread, n)
	disp := make([]dispatch.FWThread, n)
	for i := range s.threads {
		s.threads[i] = fw.NewThread(i)
		disp[i] = s.threads[i]
	}
	s.Thread = s.threads[cfg.ThreadID]
	fw.Threads = s.threads
	dispatch.InitializeFWThreads(disp)
	if cfg.OwnPitTimer {
		s.startOwnTimer()
	}

	// FIB contents
	for _, sc := range cfg.Strategies {
		table.FibStrategyTable.SetStrategyEnc(Name(sc.Prefix), Name(sc.Strategy))
	}
	for _, r := range cfg.Routes {
		table.FibStrategyTable.InsertNextHopEnc(Name(r.Prefix), r.Face, r.Cost)
	}
	return s
}

// ---- names ----

var (
	nmMu    sync.Mutex
	nmCache = map[string]enc.Name{}
)

// Name parses a name URI (cached; "/" is the empty name). Panics on a malformed URI.
func Name(s string) enc.Name {
	nmMu.Lock()
	defer nmMu.Unlock()
	if n, ok := nmCache[s]; ok {
		return n
	}
	n, err := enc.NameFromStr(s)
	if err != nil {
		panic(err)
	}
	if n == nil {
		n = enc.Name{}
	}
	nmCache[s] = n
	return n
}

// NameStr prints a name; the empty name is "/".
func NameStr(n enc.Name) string {
	if len(n) == 0 {
		return "/"
	}
	return n.String()
}

// IsLocalhost reports whether a name starts with the component "localhost".
func IsLocalhost(n enc.Name) bool {
	return len(n) > 0 && bytes.Equal(n[0].Val, []byte("localhost"))
}

// ---- clock ----

// Now is the virtual time.
func (s *Sim) Now() time.Time { return vtime.Now() }

// Advance moves the virtual clock without running any periodic work.
func (s *Sim) Advance(d time.Duration) { vtime.Advance(d) }

// Tick runs the two periodic arms of Thread.Run() once (PIT reaper, dead-nonce-list reaper) at
// the current virtual time and returns what was sent meanwhile (normally nothing).
func (s *Sim) Tick() []Send {
	mark := len(s.log)
	s.Thread.VerifTick()
	return s.log[mark:]
}

// ---- packet injection (the link-service half of fw/face, copied faithfully) ----

// LP is the NDNLPv2 header information a received frame carried.
type LP struct {
	PitToken       []byte
	NextHopFaceID  *uint64
	CongestionMark *uint64
	// further header fields a PEER may put on a frame it sends (all optional, zero = absent)
	IncomingFaceID *uint64 // IncomingFaceId: meant for frames the forwarder SENDS to local applications
	CachePolicy    *uint64 // CachePolicy / CachePolicyType
	NonDiscovery   bool
	TxSequence     *uint64
	Ack            *uint64
}

// hasExtra reports whether one of the header fields beyond token / next hop / mark is present.
func (lp LP) hasExtra() bool {
	return lp.IncomingFaceID != nil || lp.CachePolicy != nil || lp.NonDiscovery || lp.TxSequence != nil || lp.Ack != nil
}

// Inject does what NDNLPLinkService.handleIncomingFrame does with a frame whose fragment is
// `wire` and whose LP header fields are `lp`, received on face `face`, followed by
// dispatchInterest/dispatchData, followed by the forwarding thread's handling of the queued
// packet. Returns the SendPacket calls made meanwhile.
func (s *Sim) Inject(faceID uint64, wire []byte, lp LP) []Send {
	mark := len(s.log)
	out := s.inject(faceID, wire, lp)
	if s.Cfg.LateRead {
		// the faces serialise only now, after the pipeline call has returned
		for i := mark; i < len(s.log); i++ {
			s.log[i] = s.log[i].Reread()
		}
		out = s.log[mark:]
	}
	return out
}

func (s *Sim) inject(faceID uint64, wire []byte, lp LP) []Send {
	f := s.Faces[faceID]
	if f == nil {
		panic(fmt.Sprintf("fwsim: unknown face %d", faceID))
	}
	mark := len(s.log)
	if s.Cfg.RealLinkService {
		s.link(f).VerifHandleIncomingFrame(EncodeFrame(wire, lp))
		s.Thread.VerifTakeQueued()
		return s.log[mark:]
	}
	// "We have to copy so receive transport buffer can be reused"
	buf := make([]byte, len(wire))
	copy(buf, wire)
	pkt := &defn.Pkt{IncomingFaceID: utils.IdPtr(faceID)}
	pkt.CongestionMark = lp.CongestionMark
	if f.spec.CCF && lp.NextHopFaceID != nil {
		pkt.NextHopFaceID = lp.NextHopFaceID
	}
	if f.spec.LCP && lp.CachePolicy != nil {
		pkt.CachePolicy = utils.IdPtr(*lp.CachePolicy)
	}
	if len(lp.PitToken) > 0 {
		pkt.PitToken = make([]byte, len(lp.PitToken))
		copy(pkt.PitToken, lp.PitToken)
	}
	L3, _, err := spec.ReadPacket(enc.NewBufferReader(buf))
	if err != nil {
		return nil // handleIncomingFrame drops undecodable fragments
	}
	pkt.Raw = buf
	pkt.L3 = L3
	me := s.Cfg.ThreadID
	switch {
	case L3.Interest != nil:
		// dispatchInterest
		pkt.Name = L3.Interest.NameV
		if fw.HashNameToFwThread(pkt.Name) == me {
			s.Thread.VerifInterest(pkt)
		} else {
			s.DispatchDrops++
		}
	case L3.Data != nil:
		// dispatchData
		pkt.Name = L3.Data.NameV
		if len(pkt.PitToken) == 6 {
			if int(binary.BigEndian.Uint16(pkt.PitToken)) == me {
				s.Thread.VerifData(pkt)
			} else {
				s.DispatchDrops++ // names another thread, or none: "Invalid PIT token - DROP"
			}
		} else if f.spec.Scope == defn.Local {
			if m := fw.HashNameToAllPrefixFwThreads(pkt.Name); len(m) > me && m[me] {
				s.Thread.VerifData(pkt)
			} else {
				s.DispatchDrops++
			}
		} else if fw.HashNameToFwThread(pkt.Name) == me {
			s.Thread.VerifData(pkt)
		} else {
			s.DispatchDrops++
		}
	}
	return s.log[mark:]
}

// link returns (building it on first use) the real link service of a face.
func (s *Sim) link(f *Face) *face.NDNLPLinkService {
	if s.links == nil {
		s.links = map[uint64]*face.NDNLPLinkService{}
	}
	l := s.links[f.id]
	if l == nil {
		o := face.MakeNDNLPLinkServiceOptions()
		o.IsConsumerControlledForwardingEnabled = f.spec.CCF
		o.IsIncomingFaceIndicationEnabled = f.spec.IFI
		o.IsLocalCachePolicyEnabled = f.spec.LCP
		l, _ = face.VerifNewMemLinkService(f.id, f.spec.Scope, f.spec.Link, defn.MaxNDNPacketSize, o)
		s.links[f.id] = l
	}
	return l
}

// EncodeFrame builds the frame a peer would put on the wire: the bare packet when no LP header
// field is present, otherwise an NDNLPv2 LpPacket (encoded with the real spec_2022 encoder)
// carrying the packet as its only fragment.
func EncodeFrame(wire []byte, lp LP) []byte {
	if len(lp.PitToken) == 0 && lp.NextHopFaceID == nil && lp.CongestionMark == nil && !lp.hasExtra() {
		return wire
	}
	frag := &spec.LpPacket{Fragment: enc.Wire{wire}, NextHopFaceId: lp.NextHopFaceID, CongestionMark: lp.CongestionMark}
	if len(lp.PitToken) > 0 {
		frag.PitToken = lp.PitToken
	}
	frag.IncomingFaceId, frag.NonDiscovery, frag.TxSequence, frag.Ack = lp.IncomingFaceID, lp.NonDiscovery, lp.TxSequence, lp.Ack
	if lp.CachePolicy != nil {
		frag.CachePolicy = &spec.CachePolicy{CachePolicyType: *lp.CachePolicy}
	}
	pkt := &spec.Packet{LpPacket: frag}
	e := spec.PacketEncoder{}
	e.Init(pkt)
	w := e.Encode(pkt)
	if w == nil {
		panic("fwsim: cannot encode LpPacket")
	}
	return w.Join()
}

// ThreadID is the id of the driven thread.
func (s *Sim) ThreadID() int { return s.Cfg.ThreadID }

// Token builds a PIT token in this forwarder's format naming the driven thread.
func (s *Sim) Token(entryToken uint32) []byte { return MakeToken(uint16(s.Cfg.ThreadID), entryToken) }

// NameForThread returns a one-component name "/<stem><k>" (k = 0, 1, ...) such that the name and
// every given suffix appended to it are dispatched to the driven thread (names are hashed to
// threads). Call it after New().
func (s *Sim) NameForThread(stem string, suffixes ...string) string {
	for k := 0; k < 10000; k++ {
		base := fmt.Sprintf("/%s%d", stem, k)
		ok := fw.HashNameToFwThread(Name(base)) == s.Cfg.ThreadID
		for _, sfx := range suffixes {
			ok = ok && fw.HashNameToFwThread(Name(base+sfx)) == s.Cfg.ThreadID
		}
		if ok {
			return base
		}
	}
	panic("fwsim: no name hashes to the driven thread")
}

// Enqueue hands a frame to the REAL link service of the face (as RealLinkService mode does) and
// returns: whatever the link service queued on a forwarding thread is left to that thread's own
// Run() loop. For free-running passes that start Thread.Run() in a goroutine.
func (s *Sim) Enqueue(faceID uint64, wire []byte, lp LP) {
	s.link(s.Faces[faceID]).VerifHandleIncomingFrame(EncodeFrame(wire, lp))
}

// Interest injects an Interest built by MakeInterest.
func (s *Sim) Interest(face uint64, i InterestSpec, lp LP) []Send {
	return s.Inject(face, MakeInterest(i), lp)
}

// Data injects a Data packet built by MakeData.
func (s *Sim) Data(face uint64, d DataSpec, lp LP) []Send {
	return s.Inject(face, MakeData(d), lp)
}

// Log returns every SendPacket call since New().
func (s *Sim) Log() []Send { return s.log }

// ---- white box ----

// Dump is the private state of the thread's PIT-CS relative to the virtual now.
func (s *Sim) Dump() table.VerifPitCsDump {
	return table.VerifDumpPitCs(s.Thread.VerifPitCs(), vtime.Now())
}

// Queue is the expiry-queue state of every PIT entry (see hooks/fw/table/verif_pitqueue.go).
func (s *Sim) Queue() []table.VerifPitQueueEntry {
	return table.VerifPitQueue(s.Thread.VerifPitCs(), vtime.Now())
}

// DnlHas asks the real dead nonce list.
func (s *Sim) DnlHas(name enc.Name, nonce uint32) bool {
	return s.Thread.VerifDnl().Find(name, nonce)
}

// DnlSize returns (#entries in the set, #entries in the expiry queue).
func (s *Sim) DnlSize() (int, int) { return table.VerifDnl(s.Thread.VerifDnl()) }

// Counters of the thread.
type Counters struct {
	NInInterests, NInData, NOutInterests, NOutData, NSatisfied, NUnsatisfied uint64
}

func (s *Sim) Counters() Counters {
	t := s.Thread
	return Counters{t.NInInterests, t.NInData, t.NOutInterests, t.NOutData, t.NSatisfiedInterests, t.NUnsatisfiedInterests}
}

// IssuedToken decodes the 6-byte PIT token format of this forwarder (thread id, entry token).
func IssuedToken(tok []byte) (thread uint16, entryToken uint32, ok bool) {
	if len(tok) != 6 {
		return 0, 0, false
	}
	return binary.BigEndian.Uint16(tok), binary.BigEndian.Uint32(tok[2:]), true
}

// MakeToken builds a token in this forwarder's format.
func MakeToken(thread uint16, entryToken uint32) []byte {
	b := make([]byte, 6)
	binary.BigEndian.PutUint16(b, thread)
	binary.BigEndian.PutUint32(b[2:], entryToken)
	return b
}

// Saturate maps a relative time to itself when it lies in (lo, hi) and to lo / hi outside:
// canonical states keep clock values relative to now and saturated beyond the windows the code
// compares against.
func Saturate(d, lo, hi time.Duration) time.Duration {
	if d <= lo {
		return lo
	}
	if d >= hi {
		return hi
	}
	return d
}

// CanonOpts controls CanonPitCs.
type CanonOpts struct {
	// Token renames an entry token (tokens only matter through map identity). nil = keep.
	Token func(uint32) string
	// Nonce renames a stored nonce of an entry with the given name (nonces only matter through
	// equality with future nonces). nil = keep.
	Nonce func(name string, nonce uint32) string
	// Suppression is the window out-record ages are saturated at (0 = 500 ms, the shipped value
	// of both strategies).
	Suppression time.Duration
	// WithCounters adds nPitEntries/nCsEntries, node counts and dead branches (C08 needs them,
	// C01/C09 futures do not depend on them).
	WithCounters bool
	// WithSatisfied adds the satisfied flag (only the NUnsatisfiedInterests counter reads it).
	WithSatisfied bool
}

// CanonPitCs renders the private PIT-CS state canonically: entries sorted by (name, flags,
// hint); in-/out-records sorted by face with expiry relative to now (expired = "x"); queue
// priority relative to now (due = "due", not queued = "unq"); CS entries with stale time relative
// to now (stale = "x") and a short hash of the wire; LRU order.
func CanonPitCs(d table.VerifPitCsDump, q []table.VerifPitQueueEntry, o CanonOpts) string {
	if o.Suppression == 0 {
		o.Suppression = 500 * time.Millisecond
	}
	tok := func(t uint32) string {
		if o.Token != nil {
			return o.Token(t)
		}
		return fmt.Sprintf("%08x", t)
	}
	non := func(n string, v uint32) string {
		if o.Nonce != nil {
			return o.Nonce(n, v)
		}
		return fmt.Sprintf("%08x", v)
	}
	rel := func(x time.Duration) string {
		if x <= 0 {
			return "x"
		}
		return x.String()
	}
	prio := map[uint32]table.VerifPitQueueEntry{}
	for _, e := range q {
		prio[e.Token] = e
	}
	var b bytes.Buffer
	for _, e := range d.Pit {
		fmt.Fprintf(&b, "P[%s", e.Name)
		if e.CanBePrefix {
			b.WriteString(",cbp")
		}
		if e.MustBeFresh {
			b.WriteString(",mbf")
		}
		if e.Hint != "" {
			b.WriteString(",h=" + e.Hint)
		}
		if o.WithSatisfied && e.Satisfied {
			b.WriteString(",sat")
		}
		fmt.Fprintf(&b, " t=%s", tok(e.Token))
		if !e.InTokenMap {
			b.WriteString("(unmapped)")
		}
		if qe, ok := prio[e.Token]; ok && qe.Queued {
			if qe.PrioIn <= 0 {
				b.WriteString(" q=due")
			} else {
				fmt.Fprintf(&b, " q=%s", qe.PrioIn)
			}
		} else {
			b.WriteString(" q=unq")
		}
		for _, r := range e.In {
			fmt.Fprintf(&b, " i%d:%s:%s:%x", r.Face, non(e.Name, r.Nonce), rel(r.ExpireIn), r.Token)
		}
		for _, r := range e.Out {
			age := r.Age
			if age >= o.Suppression {
				age = o.Suppression
			}
			fmt.Fprintf(&b, " o%d:%s:%s:%s", r.Face, non(e.Name, r.Nonce), age, rel(r.ExpireIn))
		}
		b.WriteString("]")
	}
	for _, c := range d.Cs {
		h := uint32(2166136261)
		for _, x := range c.Wire {
			h = (h ^ uint32(x)) * 16777619
		}
		fmt.Fprintf(&b, "C[%s %s %08x", c.Name, rel(c.StaleIn), h)
		if !c.InMap {
			b.WriteString(" unmapped")
		}
		b.WriteString("]")
	}
	fmt.Fprintf(&b, "L%v", d.LruOrder)
	if o.WithCounters {
		dn := append([]string{}, d.DeadNodes...)
		sort.Strings(dn)
		fmt.Fprintf(&b, "#np=%d nc=%d nodes=%d dead=%v tm=%d cm=%d ql=%d ll=%d", d.NPit, d.NCs, d.Nodes, dn, d.TokenMapSize, d.CsMapSize, d.QueueLen, d.LruLocations)
	}
	return b.String()
}

// ---- conveniences for histories that change the FIB or let time pass (C02, C08) ----

// AddRoute / RemoveRoute / SetStrategy / UnsetStrategy change the live (process-global) FIB the
// way the management modules do (table.FibStrategyTable.*Enc).
func (s *Sim) AddRoute(prefix string, face, cost uint64) {
	table.FibStrategyTable.InsertNextHopEnc(Name(prefix), face, cost)
}
func (s *Sim) RemoveRoute(prefix string, face uint64) {
	table.FibStrategyTable.RemoveNextHopEnc(Name(prefix), face)
}
func (s *Sim) SetStrategy(prefix, strategy string) {
	table.FibStrategyTable.SetStrategyEnc(Name(prefix), Name(strategy))
}
func (s *Sim) UnsetStrategy(prefix string) { table.FibStrategyTable.UnSetStrategyEnc(Name(prefix)) }

// RunFor lets d of virtual time pass the way a running thread experiences it: the clock moves in
// steps of `step` (0 = the PIT reaper interval, 100 ms) and both periodic arms run after each
// step. Returns everything sent meanwhile (normally nothing). This is the "quiesce" step of C08.
func (s *Sim) RunFor(d, step time.Duration) []Send {
	if step <= 0 {
		step = table.VerifPitTick
	}
	mark := len(s.log)
	for el := time.Duration(0); el < d; el += step {
		vtime.Advance(step)
		s.Thread.VerifTick()
	}
	return s.log[mark:]
}

// RemoveFace takes a face out of the forwarder's tables the way face.FaceTable.Remove does when a
// face is destroyed or its link service stops (dispatch.RemoveFace + table.Rib.CleanUpFace). The
// harness may still Inject packets attributed to that face: frames the face received before it
// went down sit in the threads' queues and are processed afterwards.
func (s *Sim) RemoveFace(id uint64) {
	dispatch.RemoveFace(id)
	table.Rib.CleanUpFace(id)
}

// FaceRegistered reports whether dispatch still knows the face.
func (s *Sim) FaceRegistered(id uint64) bool { return dispatch.GetFace(id) != nil }
