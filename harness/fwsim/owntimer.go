package fwsim

// The PIT reaper driven by the table's OWN timer (Config.OwnPitTimer).
//
// PitCsTree arms a one-shot timer (time.AfterFunc, here verif/shim/vtime) in NewPitCS and again at
// the end of every Update(); the callback sends on the unbuffered channel UpdateTimer() and
// Thread.Run() answers every receipt with one Update(). The synchronous harness has no Run() loop,
// so one listener goroutine per thread plays the receiving half of that select arm: it takes the
// signal off the channel and raises a flag, nothing else. The harness's goroutine then runs
// Update() itself (StepOwn), once per signal, after the clock step in which the signal fell due -
// i.e. the thread serves the reaper signal up to one clock step late, one of the schedules the
// real select loop produces (it is busy with a packet when the signal arrives). Update() is
// never called without a signal: if the table arms its timer too late, nothing is reaped.
//
// Determinism: the callback runs inside vtime.Advance on the harness's goroutine and blocks until
// the listener has taken the signal; the listener sets the flag before it offers the next
// rendez-vous on `idle`, and StepOwn reads the flag only after that rendez-vous. At most one signal
// per thread can fall due within one Advance because only Update() arms the next one.

import (
	"time"

	"verif/shim/vtime"
)

type ownTimer struct {
	fired []bool          // per thread: signal received, Update() owed
	idle  []chan struct{} // per thread: rendez-vous offered by the listener between two receipts
	stop  chan struct{}
	// Signals counts the signals received, Updates the Update() calls made in answer
	signals, updates int
	lastSignal       time.Time
}

var curOwn *ownTimer

// stopOwnTimer ends the listeners of the previous instance (never two instances at a time).
func stopOwnTimer() {
	if curOwn != nil {
		close(curOwn.stop)
		curOwn = nil
	}
}

func (s *Sim) startOwnTimer() {
	o := &ownTimer{fired: make([]bool, len(s.threads)), idle: make([]chan struct{}, len(s.threads)), stop: make(chan struct{})}
	for i, t := range s.threads {
		i, ch := i, t.VerifPitCs().UpdateTimer()
		o.idle[i] = make(chan struct{})
		idle, stop := o.idle[i], o.stop
		go func() {
			for {
				select {
				case <-ch:
					o.fired[i] = true
				case idle <- struct{}{}:
				case <-stop:
					return
				}
			}
		}()
	}
	s.own = o
	curOwn = o
}

// StepOwn (Config.OwnPitTimer) lets d of virtual time pass in ONE clock step and then runs the
// arms of Thread.Run() that fell due meanwhile (Advance + ServeOwn). Returns whether the driven
// thread's reaper ran and what was sent meanwhile (normally nothing).
func (s *Sim) StepOwn(d time.Duration) (reaped bool, sends []Send) {
	if s.own == nil {
		panic("fwsim: StepOwn without Config.OwnPitTimer")
	}
	mark := len(s.log)
	vtime.Advance(d)
	reaped = s.ServeOwn()
	return reaped, s.log[mark:]
}

// ServeOwn (Config.OwnPitTimer) runs, at the current virtual time, PitCsTree.Update() of every
// thread whose own timer has fired since the last call (and only of those), then the
// dead-nonce-list reaper of the driven thread (a fixed 100 ms ticker in the real thread; callers
// step in multiples of it). A harness that wants to look at the state the forwarder was in just
// before its periodic work calls Advance, looks, then ServeOwn.
func (s *Sim) ServeOwn() (reaped bool) {
	if s.own == nil {
		panic("fwsim: ServeOwn without Config.OwnPitTimer")
	}
	for i, t := range s.threads {
		<-s.own.idle[i]
		if s.own.fired[i] {
			s.own.fired[i] = false
			s.own.signals++
			s.own.lastSignal = vtime.Now()
			t.VerifPitTick()
			s.own.updates++
			if t == s.Thread {
				reaped = true
			}
		}
	}
	s.Thread.VerifDnlTick()
	return reaped
}

// RunOwnFor is RunFor under Config.OwnPitTimer: the clock moves in steps of `step` (0 = 100 ms).
func (s *Sim) RunOwnFor(d, step time.Duration) []Send {
	if step <= 0 {
		step = 100 * time.Millisecond
	}
	mark := len(s.log)
	for el := time.Duration(0); el < d; el += step {
		s.StepOwn(step)
	}
	return s.log[mark:]
}

// OwnTimerStats: number of reaper signals the tables' own timers delivered so far, and how long
// ago (virtual time) the last one was served (-1: never).
func (s *Sim) OwnTimerStats() (signals int, sinceLast time.Duration) {
	if s.own == nil || s.own.signals == 0 {
		return 0, -1
	}
	return s.own.signals, vtime.Now().Sub(s.own.lastSignal)
}
