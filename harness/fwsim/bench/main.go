// bench measures the cost of a fresh instance plus a 4-step history (and prints a smoke trace).
// Build: see ../README in the hand-off notes (go build -tags verif -overlay <overlay of c01>).
package main

import (
	"fmt"
	"time"

	"verif/harness/fwsim"
)

func cfg() fwsim.Config {
	return fwsim.Config{CsAdmit: true, CsServe: true,
		Routes: []fwsim.Route{{Prefix: "/a", Face: fwsim.N2, Cost: 1}, {Prefix: "/a", Face: fwsim.N3, Cost: 2}}}
}

func history(verbose bool) {
	s := fwsim.New(cfg())
	show := func(what string, out []fwsim.Send) {
		if verbose {
			fmt.Println(what, "=>", out)
		}
	}
	out := s.Interest(fwsim.L1, fwsim.InterestSpec{Name: "/a/b", Nonce: fwsim.U32(1), Lifetime: fwsim.Dur(4 * time.Second)}, fwsim.LP{PitToken: []byte{0xd1}})
	show("I(L1,/a/b)", out)
	tok := out[0].PitToken
	out2 := s.Interest(fwsim.N3, fwsim.InterestSpec{Name: "/a/b", Nonce: fwsim.U32(2)}, fwsim.LP{})
	show("I(N3,/a/b)", out2)
	out3 := s.Data(fwsim.N2, fwsim.DataSpec{Name: "/a/b", Content: "x"}, fwsim.LP{PitToken: tok})
	show("D(N2,/a/b,echo)", out3)
	s.Advance(100 * time.Millisecond)
	out4 := s.Tick()
	show("T(100ms)", out4)
	if verbose {
		d := s.Dump()
		fmt.Printf("dump: pit=%d cs=%d nodes=%d\n", len(d.Pit), len(d.Cs), d.Nodes)
		fmt.Println(fwsim.CanonPitCs(d, s.Queue(), fwsim.CanonOpts{WithCounters: true}))
		fmt.Println("strategies:", s.Thread.VerifStrategyNames())
	}
}

func main() {
	history(true)
	n := 20000
	t0 := time.Now()
	for i := 0; i < n; i++ {
		history(false)
	}
	el := time.Since(t0)
	fmt.Printf("fresh instance + 4-step history: %.1f us\n", float64(el.Microseconds())/float64(n))
	t0 = time.Now()
	for i := 0; i < n; i++ {
		fwsim.New(cfg())
	}
	fmt.Printf("fresh instance alone: %.1f us\n", float64(time.Since(t0).Microseconds())/float64(n))
}
