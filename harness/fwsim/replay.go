package fwsim

import (
	"encoding/json"
	"fmt"
	"os"

	"verif/mc/explore"
	"verif/mc/report"
)

// ReplayIfRequested handles `harness --replay <file>` for harnesses whose oracle partly lives in
// explore.StateChecker.CheckState (closure probes such as C01.consume, C09.local, the C08
// quiescence step): explore.ReplayOps re-executes the stored ops but never calls CheckState, so a
// counterexample found by the state check would not reproduce. This helper replays the ops with
// Apply, then runs CheckState on the final instance, and prints the contract lines.
// Call it first thing in main(); it returns false when no replay was requested.
func ReplayIfRequested(id, panicClause string, build func(cfg string) explore.System) bool {
	if len(os.Args) < 3 || os.Args[1] != "--replay" {
		return false
	}
	if _, worker := explore.IsWorker(); worker {
		return false
	}
	path := os.Args[2]
	b, err := os.ReadFile(path)
	if err != nil {
		fmt.Println("CHECK-ERROR:", err)
		os.Exit(2)
	}
	var f struct {
		Clause string `json:"clause"`
		Replay struct {
			Config string   `json:"config"`
			Ops    []string `json:"ops"`
		} `json:"replay"`
	}
	if err := json.Unmarshal(b, &f); err != nil {
		fmt.Println("CHECK-ERROR:", err)
		os.Exit(2)
	}
	sys := build(f.Replay.Config)
	var last []report.Violation
	code := func() (code int) {
		defer func() {
			if r := recover(); r != nil {
				fmt.Printf("replayed: clause=%s panic: %v\n", panicClause, r)
				if f.Clause == panicClause {
					code = 1
				}
			}
		}()
		inst := sys.New()
		for _, n := range f.Replay.Ops {
			found := false
			for _, op := range sys.Ops(inst) {
				if op.Name == n {
					last = sys.Apply(inst, op)
					found = true
					break
				}
			}
			if !found {
				fmt.Printf("CHECK-ERROR: op %q not enabled\n", n)
				return 2
			}
		}
		if sc, ok := sys.(explore.StateChecker); ok {
			last = append(last, sc.CheckState(inst)...)
		}
		for _, x := range last {
			fmt.Printf("replayed: clause=%s key=%q %s\n", x.Clause, x.Key, x.Detail)
			if x.Clause == f.Clause {
				code = 1
			}
		}
		return code
	}()
	switch code {
	case 1:
		fmt.Printf("VIOLATION property=%s replay=%s\n", id, path)
	case 0:
		fmt.Println("replay: violation not reproduced")
	}
	os.Exit(code)
	return true
}
