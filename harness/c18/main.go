// C18: distance-vector routing converges to shortest paths on every topology / schedule / fault
// sequence. Explicit-state search over event histories executed on N real dv.Router objects
// (harness ndn.Engine, harness task queue for every `go` statement, virtual clock; package
// harness/dvsim), followed by an exact analysis of the explored state graph (terminal states,
// strongly connected components, weak fairness, longest path) in the parent process.
//
// Configurations (one per topology and family):
//
//	sched <graph>       from the cold start (every router knows only itself). Default events:
//	                    X(i<j) "router i hears j's current sync Interest, fetches j's current
//	                    advertisement and processes it" (all spawned work run to quiescence, FIFO),
//	                    Dl(i<j#k) delivery of a parked fetch. Deviations: Pg(i<j) (sync Interest
//	                    only: the fetch stays parked while other events happen), To(i#k) (a parked
//	                    fetch times out and is retried by the real retry loop).
//	sched <graph> d=N   the same, depth-bounded: every order of the first N events, then the default
//	                    fair schedule (round-robin exchanges) from every state of the last level to
//	                    the fixed point, which must be THE fixed point (graphs whose full state
//	                    space does not fit the tier).
//	fault <graph>       from the fixed point of the intact topology. Default events X(i<j) and
//	                    Dc(i) (more than RouterDeadInterval passes at i while its live neighbours
//	                    keep sending heartbeats, then checkDeadNeighbors). Deviations, injected in
//	                    fixed points: LD/LU(i,j) link down/up, RD/RU(r) router stop/restart.
//	fault <graph> d=N orders=K   every single fault in the fixed point, every order of the first N
//	                    events, then the closing schedule (round-robin exchanges and dead checks)
//	                    repeated under K orders of the routers; every fixed point reached is checked.
//	                    (Count-to-infinity after a loss takes dozens of events on meshed graphs and
//	                    its outcome depends on which neighbour withdraws first.)
//	faultmid <graph> down=ab,..  from the fixed point of the topology without the listed links
//	                    (routers that join later); faults and repairs in EVERY state, so that
//	                    several topology changes reach a router between two fetches of a neighbour.
//	hold <graph>        from the cold start, faults in every state, plus the task-delay deviation
//	                    Xh(i<j): the exchange fetches and stores j's advertisement at i, but the
//	                    ribUpdate task spawned for it is held back, whatever events follow (X, Dc,
//	                    LD, RD, ...), until the default event Rl releases it, or until DcR(i): the
//	                    held tasks of i race checkDeadNeighbors for dv.mutex (real goroutines): their
//	                    pre-lock part runs first, then the dead check, then the rest.
//	faultany <graph>    (thorough) as fault, from the cold start, faults injected in every state.
//
// Router restarts (fault families): RS(r) the process of r is replaced by a fresh dv.NewRouter of the
// same name, up one second later, while the neighbours still hold the entry of the previous
// incarnation; RUs(r) a stopped router comes back after ten seconds (RU: a minute). Option
// restart=window adds RSw(r): the new process stops between register() and the insertion of its own
// RIB entry (it answers fetches with an advertisement that does not list itself) until the default
// event Bt(r); in sched configurations this combines with parked fetches (Pg).
// Option twins=K: audit of the canonical form, see dvsim/twins.go. Option devs=flight: Xq/Fd is the
// only delivery deviation.
// Option reply=split: for the Data of Xq the neighbour's advertDataOnInterest is suspended where it
// releases dv.mutex (advertisement taken, not yet encoded) until Fd; C18.adv then also requires that
// what is sent is the router's advertisement as taken or as it is at that moment. Option
// wire=reused: the memory of every advertisement Data is overwritten once the requester has
// processed it. See dvsim/split.go.
//
// Clauses: C18.adv (every transition: no advertisement entry, on the wire or in Rib.Advert(), with
// Cost >= 16), C18.dist / C18.withdraw (every fixed point: costs = BFS hop distances of the live
// topology, next hop one hop closer, unreachable destinations absent from RIB and advertisement),
// C18.fix (graph: every terminal state is a fixed point; no event-closed set of states without a
// fixed point; no weakly fair cycle; longest path reported), C18.unique (graph: one best-route
// table per live topology; the same history always gives the same state).
//
// Component level (ribunit.go, parent process, after the graph analysis): the real dv/table.Rib on
// its own, driven with the call sequences of ribUpdate / checkDeadNeighbors / Router.Start over every
// history of offers from 3-4 neighbours (costs 1..4 or not listed) for 1-2 destinations, to a
// fixpoint, against best / second best recomputed from the full offer matrix.
package main

import (
	"fmt"
	"os"
	"runtime/debug"
	"strings"
	"time"

	"github.com/named-data/ndnd/std/ndn"
	"verif/harness/dvsim"
	"verif/mc/explore"
	"verif/mc/report"
	"verif/shim/vsched"
)

type sys struct {
	cfg    string
	g      dvsim.Graph
	faults bool
	// faultsAnywhere: inject faults in every state (else only in fixed points)
	faultsAnywhere bool
	// holds: task-delay deviation Xh(i<j): the exchange stores the fetched advertisement, but the
	// ribUpdate task spawned for it is held back until the default event Rl, whatever happens in
	// between
	holds bool
	// flight: delivery deviation Xq/Fd (advertisement Data in flight, may be overtaken); it triples
	// the state space per deviation, so it is used on graphs with <= 2 links (thorough: <= 3)
	flight bool
	// noPark: the parked-fetch deviations Pg / To are not generated (configurations "devs=flight")
	noPark bool
	// initCrash: the code under test panicked while the initial state was being built
	initCrash string
	// twins: audit of the canonical form (configurations "twins=K": every K-th canonical state)
	twins *dvsim.TwinAudit
	// window: the restart event RSw / Bt (boot window) is generated (configurations "restart=window")
	window bool
	// noRestart: the restart events RS / RUs are not generated (configurations "restart=off")
	noRestart bool
	// ticks: event Dt(i) (the dead interval passes at i with stable links); used with parallel links
	ticks bool
	// flaps: the fault event FC(a<b) (face re-created) is generated (configurations "faces=flap")
	flaps     bool
	trace     *dvsim.Trace
	m         *dvsim.Machine
	opsCache  map[string][]explore.Op
	fromCache map[string]string
	rooted    bool
	// closureDepth > 0: the search is depth-bounded; every state first reached at that depth is
	// driven to the fixed point by the default fair schedule (round-robin exchanges) and checked
	closureDepth int
	orders       int // number of router orders tried by the closure (0: ascending only)
	closed       map[string]bool
	expect       string // best tables of the fixed point reached by round-robin from the cold start
}

func (y *sys) New() any {
	l := y.m.New()
	if !y.rooted {
		y.rooted = true
		y.trace.Root(l.Sim())
	}
	return l
}

func (y *sys) Ops(i any) []explore.Op {
	l := i.(*dvsim.Lazy)
	key := l.Key()
	if ops, ok := y.opsCache[key]; ok {
		return ops
	}
	ops := y.ops(l.Sim())
	l.Checkpoint()
	hasDefault := false
	for _, o := range ops {
		if !o.Dev {
			hasDefault = true
		}
	}
	if !hasDefault {
		y.trace.NoOps(y.Canon(i))
	}
	if len(y.opsCache) > 50000 {
		y.opsCache = map[string][]explore.Op{}
	}
	y.opsCache[key] = ops
	return ops
}

func (y *sys) ops(s *dvsim.Sim) []explore.Op {
	var ops []explore.Op
	n := s.G.N
	sn := s.Snap()
	for a := 0; a < n; a++ {
		for b := 0; b < n; b++ {
			// an exchange in which a already holds b's current advertisement maps the state to
			// the same canonical state: not generated (it is a self-loop by construction)
			if a != b && s.Sends(a, b) && !sn.NothingToHear(a, b) {
				ops = append(ops, explore.Op{Name: fmt.Sprintf("X(%d<%d)", a, b)})
			}
		}
	}
	// a router in its boot window (restart event RSw) reaches its loop
	for a := 0; a < n; a++ {
		if s.Nodes[a].Up && s.Nodes[a].Booting {
			ops = append(ops, explore.Op{Name: fmt.Sprintf("Bt(%d)", a)})
		}
	}
	if !y.faults {
		for a := 0; a < n; a++ {
			if !s.Nodes[a].Up {
				continue
			}
			for k, x := range s.Parked(a, dvsim.KAdvData) {
				ops = append(ops, explore.Op{Name: fmt.Sprintf("Dl(%d<%d#%d)", a, x.Target, k)})
			}
		}
		for a := 0; !y.noPark && a < n; a++ {
			for b := 0; b < n; b++ {
				if a != b && s.Sends(a, b) && !sn.NothingToHear(a, b) {
					ops = append(ops, explore.Op{Name: fmt.Sprintf("Pg(%d<%d)", a, b), Dev: true})
				}
			}
		}
		for a := 0; !y.noPark && a < n; a++ {
			for k := range s.Parked(a, dvsim.KAdvData) {
				ops = append(ops, explore.Op{Name: fmt.Sprintf("To(%d#%d)", a, k), Dev: true})
			}
		}
		// Data in flight: answered by the neighbour (content as of then), delivered later, possibly
		// after the Data of a later fetch from the same neighbour
		for a := 0; a < n; a++ {
			for k := range s.FlightOf(a) {
				ops = append(ops, explore.Op{Name: fmt.Sprintf("Fd(%d#%d)", a, k)})
			}
		}
		for a := 0; y.flight && a < n; a++ {
			for b := 0; b < n; b++ {
				if a != b && s.Sends(a, b) && !sn.NothingToHear(a, b) {
					ops = append(ops, explore.Op{Name: fmt.Sprintf("Xq(%d<%d)", a, b), Dev: true})
				}
			}
		}
		// restart into the boot window, in any state of the cold-start families that ask for it (a
		// fetch parked at a neighbour can then be answered by the new process before it lists itself)
		for a := 0; y.window && !s.AnyBooting() && a < n; a++ {
			if s.Nodes[a].Up {
				ops = append(ops, explore.Op{Name: fmt.Sprintf("RSw(%d)", a), Dev: true})
			}
		}
		// a face is re-created while advertisements are still being exchanged (and fetches are parked)
		ops = append(ops, y.flapOps(s, sn)...)
		return ops
	}
	if s.AnyBooting() {
		// the boot window is a matter of microseconds: no timer fires (dead checks, held tasks
		// released) and no further fault happens inside it; only messages are delivered
		return ops
	}
	for a := 0; a < n; a++ {
		if s.Nodes[a].Up && s.HasSilentNeighbor(a) {
			ops = append(ops, explore.Op{Name: fmt.Sprintf("Dc(%d)", a)})
		}
	}
	if y.ticks {
		// time passes at a although nothing is wrong: more than RouterDeadInterval with the live
		// neighbours sending heartbeats, then checkDeadNeighbors (must change nothing)
		for a := 0; a < n; a++ {
			if s.Nodes[a].Up && !s.HasSilentNeighbor(a) {
				ops = append(ops, explore.Op{Name: fmt.Sprintf("Dt(%d)", a)})
			}
		}
	}
	if y.holds {
		if len(s.Held) > 0 {
			ops = append(ops, explore.Op{Name: "Rl"})
			for a := 0; a < n; a++ {
				if s.Nodes[a].Up && s.HasSilentNeighbor(a) && s.HeldAt(a) {
					// the held tasks of a race checkDeadNeighbors for dv.mutex: whatever they do
					// before locking happens first, then the dead check, then the rest of them
					ops = append(ops, explore.Op{Name: fmt.Sprintf("DcR(%d)", a)})
				}
			}
		} else {
			for a := 0; a < n; a++ {
				for b := 0; b < n; b++ {
					if a != b && s.Sends(a, b) && !sn.NothingToHear(a, b) {
						ops = append(ops, explore.Op{Name: fmt.Sprintf("Xh(%d<%d)", a, b), Dev: true})
					}
				}
			}
		}
	}
	if !y.faultsAnywhere {
		if q, _ := sn.FixedPoint(); !q {
			return ops
		}
	}
	for _, e := range s.G.Edges {
		if !s.Nodes[e[0]].Up || !s.Nodes[e[1]].Up {
			continue
		}
		if s.Live[e] {
			ops = append(ops, explore.Op{Name: fmt.Sprintf("LD(%d,%d)", e[0], e[1]), Dev: true})
		} else {
			ops = append(ops, explore.Op{Name: fmt.Sprintf("LU(%d,%d)", e[0], e[1]), Dev: true})
		}
	}
	ops = append(ops, y.flapOps(s, sn)...)
	for a := 0; a < n; a++ {
		if s.Nodes[a].Up {
			ops = append(ops, explore.Op{Name: fmt.Sprintf("RD(%d)", a), Dev: true})
		} else {
			ops = append(ops, explore.Op{Name: fmt.Sprintf("RU(%d)", a), Dev: true})
		}
	}
	// Router RESTART: the process is replaced by a fresh one of the same name while the neighbours
	// still hold the entry (sequence number, advertisement) of the previous incarnation.
	// RS(r): as one event, the new process is up a second later; RUs(r): a stopped router comes
	// back ten seconds after the last event (RU: a minute).
	for a := 0; !y.noRestart && a < n; a++ {
		if s.Nodes[a].Up {
			ops = append(ops, explore.Op{Name: fmt.Sprintf("RS(%d)", a), Dev: true})
		} else {
			ops = append(ops, explore.Op{Name: fmt.Sprintf("RUs(%d)", a), Dev: true})
		}
	}
	// RSw(r): as RS, but the new process is still in the window of Router.Start between registering
	// its handlers and adding its own RIB entry; the default event Bt(r) ends the window
	for a := 0; y.window && a < n; a++ {
		if s.Nodes[a].Up {
			ops = append(ops, explore.Op{Name: fmt.Sprintf("RSw(%d)", a), Dev: true})
		}
	}
	return ops
}

// flapOps: FC(a<b), the face on which a hears b is re-created (configurations faces=flap): the link
// flaps for less than the dead interval, so b stays in a's neighbour table and neither table nor
// sequence number changes, but b's sync Interests arrive on a new face id from now on and the old
// one is dead. One end per event (the two ends react independently; a flap of both is two events).
func (y *sys) flapOps(s *dvsim.Sim, sn *dvsim.Snap) []explore.Op {
	var ops []explore.Op
	if !y.flaps {
		return nil
	}
	for a := 0; a < s.G.N; a++ {
		for b := 0; b < s.G.N; b++ {
			// (for a router that does not list the neighbour the event only renames a face it has
			// never heard of)
			// Bound: each face is re-created at most once per history (the harness has two ids per
			// directed link; a second re-creation would bring the first id back, which a forwarder
			// does not do).
			if a != b && s.LinkLive(a, b) && !s.Parallel[[2]int{min(a, b), max(a, b)}] && sn.Knows(a, b) && !s.Alt[[2]int{a, b}] {
				ops = append(ops, explore.Op{Name: fmt.Sprintf("FC(%d<%d)", a, b), Dev: true})
				if s.Passive[[2]int{a, b}] {
					// (configurations nbr=passive) b, discovered passively so far, becomes an explicitly
					// configured neighbour: active sync Interests over a new face, the old one is gone
					ops = append(ops, explore.Op{Name: fmt.Sprintf("AC(%d<%d)", a, b), Dev: true})
				}
			}
		}
	}
	return ops
}

// applyOp is the op interpreter handed to the Machine. It is total: an operation that is not
// enabled in the state at hand (possible only when a history is re-executed on a source tree whose
// behaviour is not reproducible) does nothing.
func applyOp(s *dvsim.Sim, nm string) {
	var a, b, k int
	switch {
	case strings.HasPrefix(nm, "X("):
		fmt.Sscanf(nm, "X(%d<%d)", &a, &b)
		if s.Sends(a, b) {
			s.Exchange(a, b)
		}
	case strings.HasPrefix(nm, "Xq("):
		fmt.Sscanf(nm, "Xq(%d<%d)", &a, &b)
		if s.Sends(a, b) {
			s.ExchangeQueued(a, b)
		}
	case strings.HasPrefix(nm, "Fd("):
		fmt.Sscanf(nm, "Fd(%d#%d)", &a, &k)
		if f := s.FlightOf(a); k < len(f) {
			s.DeliverFlight(f[k])
		}
	case strings.HasPrefix(nm, "Xh("):
		// the advertisement is fetched and stored by advertDataHandler; the ribUpdate it spawns
		// (and everything behind it) is held back
		fmt.Sscanf(nm, "Xh(%d<%d)", &a, &b)
		if s.Sends(a, b) {
			s.HoldBefore("advertDataHandler", nm)
			s.HeldNbr = b
			s.Exchange(a, b)
		}
	case nm == "Rl":
		s.Release()
	case strings.HasPrefix(nm, "Pg("):
		fmt.Sscanf(nm, "Pg(%d<%d)", &a, &b)
		if s.Sends(a, b) {
			s.Ping(a, b, !s.Passive[[2]int{a, b}])
		}
	case strings.HasPrefix(nm, "Dl("):
		fmt.Sscanf(nm, "Dl(%d<%d#%d)", &a, &b, &k)
		if p := s.Parked(a, dvsim.KAdvData); k < len(p) {
			s.DeliverAdv(p[k])
		}
	case strings.HasPrefix(nm, "To("):
		fmt.Sscanf(nm, "To(%d#%d)", &a, &k)
		if p := s.Parked(a, dvsim.KAdvData); k < len(p) {
			s.FailParked(p[k], ndn.InterestResultTimeout)
		}
	case strings.HasPrefix(nm, "Dc("):
		fmt.Sscanf(nm, "Dc(%d)", &a)
		s.DeadCheck(a)
	case strings.HasPrefix(nm, "Dt("):
		fmt.Sscanf(nm, "Dt(%d)", &a)
		s.DeadCheck(a)
	case strings.HasPrefix(nm, "DcR("):
		fmt.Sscanf(nm, "DcR(%d)", &a)
		s.DeadCheckRace(a)
	case strings.HasPrefix(nm, "FC("):
		fmt.Sscanf(nm, "FC(%d<%d)", &a, &b)
		s.FaceFlap(a, b)
	case strings.HasPrefix(nm, "AC("):
		fmt.Sscanf(nm, "AC(%d<%d)", &a, &b)
		if s.Passive[[2]int{a, b}] {
			s.FaceActivate(a, b)
		}
	case strings.HasPrefix(nm, "LD("):
		fmt.Sscanf(nm, "LD(%d,%d)", &a, &b)
		s.LinkDown(a, b)
	case strings.HasPrefix(nm, "LU("):
		fmt.Sscanf(nm, "LU(%d,%d)", &a, &b)
		s.LinkUp(a, b)
	case strings.HasPrefix(nm, "RD("):
		fmt.Sscanf(nm, "RD(%d)", &a)
		if s.Nodes[a].Up {
			s.RouterDown(a)
		}
	case strings.HasPrefix(nm, "RU("):
		fmt.Sscanf(nm, "RU(%d)", &a)
		if !s.Nodes[a].Up {
			s.RouterUp(a)
		}
	case strings.HasPrefix(nm, "RUs("):
		fmt.Sscanf(nm, "RUs(%d)", &a)
		if !s.Nodes[a].Up {
			s.RouterUpAfter(a, 10*time.Second)
		}
	case strings.HasPrefix(nm, "RSw("):
		fmt.Sscanf(nm, "RSw(%d)", &a)
		if s.Nodes[a].Up {
			s.RouterRestartWindow(a, time.Second)
		}
	case strings.HasPrefix(nm, "Bt("):
		fmt.Sscanf(nm, "Bt(%d)", &a)
		s.FinishBoot(a)
	case strings.HasPrefix(nm, "RS("):
		fmt.Sscanf(nm, "RS(%d)", &a)
		if s.Nodes[a].Up {
			s.RouterRestart(a, time.Second)
		}
	default:
		panic("unknown op " + nm)
	}
	s.EndOp()
}

func (y *sys) Do(i any, op explore.Op) { i.(*dvsim.Lazy).Do(op.Name) }

func (y *sys) Canon(i any) string {
	l := i.(*dvsim.Lazy)
	if l.Canon == "" {
		l.Canon = l.Sim().CanonRouting()
	}
	return l.Canon
}

func (y *sys) Apply(i any, op explore.Op) []report.Violation {
	l := i.(*dvsim.Lazy)
	// all successors of one state are computed from the same history: hash its canon once
	key := l.Key()
	from, ok := y.fromCache[key]
	if !ok {
		from = y.trace.Hash(y.Canon(i))
		if len(y.fromCache) > 50000 {
			y.fromCache = map[string]string{}
		}
		y.fromCache[key] = from
	}
	l.Do(op.Name)
	s := l.Sim()
	var v []report.Violation
	for _, p := range s.Problems {
		v = append(v, report.Violation{Clause: "C18.quiesce", Key: strings.SplitN(p, " after ", 2)[0], Detail: p})
	}
	for _, be := range s.BootErrors {
		v = append(v, report.Violation{Clause: "C18.dist", Key: "router fails to start (Router.Start would return an error): it never learns or advertises anything", Detail: be})
		break
	}
	seen := map[string]bool{}
	for _, a := range s.AdvSeen {
		if !seen["adv"] {
			seen["adv"] = true
			v = append(v, report.Violation{Clause: "C18.adv", Key: "advertisement lists a destination at or above infinity", Detail: a})
		}
	}
	if y.initCrash != "" {
		v = append(v, report.Violation{Clause: "C18.panic", Key: y.initCrash + " (round-robin exchanges from the cold start, before the first event of the configuration)", Detail: y.initCrash})
	}
	for _, a := range s.AdvTorn {
		if !seen["torn"] {
			seen["torn"] = true
			v = append(v, report.Violation{Clause: "C18.adv", Key: "advertisement Data is not the router's advertisement in any state between fetch and reply (it changed underneath the handler after dv.mutex was released)", Detail: a})
		}
	}
	for _, nd := range y.m.Nondet {
		v = append(v, report.Violation{Clause: "C18.unique", Key: "the same event history yields different tables when re-executed (map-iteration order)", Detail: nd})
	}
	y.m.Nondet = nil
	sn := s.Snap()
	q, _ := sn.FixedPoint()
	fs := sn.CheckShortest()
	if q {
		// what the routers have installed in their forwarders, against the live topology
		fs = append(fs, sn.CheckInstalled()...)
		for _, f := range fs {
			if !seen[f.Clause+f.Key] {
				seen[f.Clause+f.Key] = true
				v = append(v, report.Violation{Clause: f.Clause, Key: f.Key, Detail: f.Detail})
			}
		}
	}
	l.Canon = y.trace.Edge(from, key, s, sn, op.Name, op.Dev, q, fs)
	return v
}

// CheckState is the closure of depth-bounded configurations (see closureDepth).
func (y *sys) CheckState(i any) []report.Violation {
	l := i.(*dvsim.Lazy)
	if y.twins != nil {
		y.twins.Visit(l, y.Canon(i))
		l.Invalidate()
	}
	if y.closureDepth == 0 || len(l.Hist) != y.closureDepth {
		return nil
	}
	h := y.trace.Hash(y.Canon(i))
	if y.closed[h] {
		return nil
	}
	y.closed[h] = true
	if y.expect == "" && !y.faults {
		ref := dvsim.NewSimOpt(y.g, y.m.Opt)
		converge(ref)
		y.expect = ref.Snap().BestTables()
		ref.Close()
		l.Invalidate() // NewSim reset the global clock and task queue
	}
	defer l.Invalidate()
	var v []report.Violation
	seen := map[string]bool{}
	maxRounds := 0
	// The closing schedule is round-robin with the routers visited in a fixed order; which order
	// matters (which neighbour withdraws first decides what a router falls back to), so
	// configurations with orders=K repeat the closure for the first K permutations of the routers.
	orders := [][]int{nil}
	if y.orders > 0 {
		orders = permutations(y.g.N, y.orders)
	}
	for _, order := range orders {
		l.Invalidate()
		s := l.Sim()
		rounds := convergeOrder(s, order)
		if rounds > maxRounds {
			maxRounds = rounds
		}
		sn := s.Snap()
		tag := fmt.Sprintf("(after %d closing rounds, router order %v) ", rounds, order)
		if q, why := sn.FixedPoint(); !q {
			v = append(v, report.Violation{Clause: "C18.fix", Key: "round-robin exchanges from an explored state do not reach a fixed point within 64 rounds", Detail: tag + why})
			break
		}
		for _, f := range append(sn.CheckShortest(), sn.CheckInstalled()...) {
			if !seen[f.Clause+f.Key] {
				seen[f.Clause+f.Key] = true
				v = append(v, report.Violation{Clause: f.Clause, Key: f.Key, Detail: tag + f.Detail})
			}
		}
		if got := sn.BestTables(); !y.faults && got != y.expect {
			v = append(v, report.Violation{Clause: "C18.unique", Key: "different event orders end in different routing tables for the same live topology",
				Detail: fmt.Sprintf("%sclosing rounds end in {%s}, round-robin from the cold start ends in {%s}", tag, got, y.expect)})
		}
		if len(v) > 0 {
			break
		}
	}
	y.trace.Closure(h, maxRounds)
	return v
}

// crashSite names the innermost frames of the code under test on the stack of a recovered panic.
func crashSite() string {
	var out []string
	for _, l := range strings.Split(string(debug.Stack()), "\n") {
		if strings.HasPrefix(l, "github.com/named-data/ndnd/") && len(out) < 3 {
			f := strings.TrimPrefix(l, "github.com/named-data/ndnd/")
			if i := strings.LastIndex(f, "("); i > 0 {
				f = f[:i]
			}
			out = append(out, f)
		}
	}
	return strings.Join(out, " < ")
}

// permutations returns the first max permutations of 0..n-1 in lexicographic order.
func permutations(n, max int) [][]int {
	var out [][]int
	a := make([]int, n)
	for i := range a {
		a[i] = i
	}
	for len(out) < max {
		out = append(out, append([]int{}, a...))
		i := n - 2
		for i >= 0 && a[i] > a[i+1] {
			i--
		}
		if i < 0 {
			break
		}
		j := n - 1
		for a[j] < a[i] {
			j--
		}
		a[i], a[j] = a[j], a[i]
		for l, r := i+1, n-1; l < r; l, r = l+1, r-1 {
			a[l], a[r] = a[r], a[l]
		}
	}
	return out
}

// converge runs round-robin exchanges to the fixed point (used as the initial state of the
// fault configurations; convergence from the cold start under EVERY order is what the sched
// configurations establish).
func converge(s *dvsim.Sim) int { return convergeOrder(s, nil) }

// convergeOrder is the default fair schedule with the routers visited in the given order
// (nil = ascending): per round, every router in turn hears each of its live neighbours in turn and
// runs its dead-neighbour check if it lists a silent neighbour.
func convergeOrder(s *dvsim.Sim, order []int) int {
	if order == nil {
		for a := 0; a < s.G.N; a++ {
			order = append(order, a)
		}
	}
	for round := 0; round < 64; round++ {
		if len(s.Held) > 0 {
			s.Release() // a fair schedule does not delay a task for ever
			s.EndOp()
		}
		for a := range s.Nodes {
			if s.Nodes[a].Up && s.Nodes[a].Booting {
				s.FinishBoot(a) // nor a boot
				s.EndOp()
			}
		}
		for _, a := range order {
			for _, b := range order {
				if a != b && s.Sends(a, b) {
					s.Exchange(a, b)
					s.EndOp()
				}
			}
			if s.Nodes[a].Up && s.HasSilentNeighbor(a) {
				s.DeadCheck(a)
				s.EndOp()
			}
		}
		if q, _ := s.Snap().FixedPoint(); q {
			return round + 1
		}
	}
	// Not converged (a defect the sched configuration of the same topology reports): a fault
	// configuration then has no fixed point to inject faults into and explores nothing.
	return 64
}

func build(cfg string) explore.System {
	parts := strings.Fields(cfg)
	g, err := dvsim.ParseGraph(parts[1])
	if err != nil {
		report.Fatal("%v", err)
	}
	fam := parts[0]
	y := &sys{cfg: cfg, g: g, faults: fam != "sched", faultsAnywhere: fam == "faultany" || fam == "faultmid" || fam == "hold", holds: fam == "hold"}
	y.trace = dvsim.NewTrace("C18", cfg)
	y.flight = len(g.Edges) <= 2 || (os.Getenv("VERIF_TIER") == "thorough" && len(g.Edges) <= 3)
	if y.holds {
		vsched.RecordSites = true
	}
	var down, par [][2]int
	var opt dvsim.Options
	twinsEvery := 0
	passive := false // every neighbour is heard through passive discovery at first
	for _, p := range parts[2:] {
		fmt.Sscanf(p, "d=%d", &y.closureDepth)
		fmt.Sscanf(p, "orders=%d", &y.orders)
		fmt.Sscanf(p, "twins=%d", &twinsEvery)
		if p == "names=nested" {
			opt.Nested = true
		}
		if p == "reply=split" {
			opt.SplitReply = true
		}
		if p == "wire=reused" {
			opt.ReuseWire = true
		}
		if p == "flight" {
			y.flight = true // delivery deviation Xq/Fd on a graph it is not enabled on by default
		}
		if p == "restart=window" {
			y.window = true
		}
		if p == "nbr=passive" {
			passive = true
		}
		if p == "faces=flap" {
			y.flaps = true
		}
		if p == "restart=off" {
			y.noRestart = true
		}
		if p == "devs=flight" {
			y.flight, y.noPark = true, true // Xq/Fd is the only delivery deviation (no Pg / To)
		}
		if strings.HasPrefix(p, "net=") {
			opt.Network = p[4:]
		}
		if strings.HasPrefix(p, "par=") {
			for _, e := range strings.Split(p[4:], ",") {
				if len(e) == 2 {
					par = append(par, [2]int{int(e[0] - '0'), int(e[1] - '0')})
				}
			}
		}
		if strings.HasPrefix(p, "down=") {
			for _, e := range strings.Split(p[5:], ",") {
				if len(e) == 2 {
					down = append(down, [2]int{int(e[0] - '0'), int(e[1] - '0')})
				}
			}
		}
	}
	y.closed = map[string]bool{}
	dvsim.CanonFaces = y.flaps // the canonical form lists re-created faces in these configurations only
	// links listed in down= are down in the initial state (routers that join later)
	y.ticks = len(par) > 0
	init := func(s *dvsim.Sim) {
		for _, e := range down {
			s.LinkDown(e[0], e[1])
		}
		for _, e := range g.Edges {
			if passive {
				s.Passive[e], s.Passive[[2]int{e[1], e[0]}] = true, true
			}
		}
		for _, e := range par {
			if e[0] > e[1] {
				e[0], e[1] = e[1], e[0]
			}
			s.Parallel[e] = true
		}
		if fam == "fault" || fam == "faultmid" {
			// these families start from the fixed point of the initial topology. If the code under
			// test panics on the way there, the configuration starts from wherever that left the
			// routers and every transition reports the panic (C18.panic).
			func() {
				defer func() {
					if r := recover(); r != nil {
						y.initCrash = fmt.Sprintf("panic %v @ %s", r, crashSite())
						vsched.Reset()
					}
				}()
				converge(s)
			}()
		}
	}
	y.m = dvsim.NewMachineOpt(g, init, applyOp, opt, "C18|"+cfg)
	y.opsCache, y.fromCache = map[string][]explore.Op{}, map[string]string{}
	if twinsEvery > 0 {
		y.twins = &dvsim.TwinAudit{M: y.m, T: y.trace, Every: twinsEvery, Ops: func(s *dvsim.Sim) []string {
			var out []string
			for _, o := range y.ops(s) {
				out = append(out, o.Name)
			}
			return out
		}}
	}
	y.m.ProbeSafe(func(s *dvsim.Sim) []string {
		var def, dev []string
		for _, o := range y.ops(s) {
			if o.Dev {
				dev = append(dev, o.Name)
			} else {
				def = append(def, o.Name)
			}
		}
		return append(def, dev...)
	}, 8)
	return y
}

func configs(th bool) []explore.Config {
	var c []explore.Config
	if only := os.Getenv("VERIF_C18_ONLY"); only != "" {
		for _, n := range strings.Split(only, ";") {
			dev := 0
			fmt.Sscanf(os.Getenv("VERIF_C18_DEV"), "%d", &dev)
			depth := 400
			for _, f := range strings.Fields(n) {
				fmt.Sscanf(f, "d=%d", &depth)
			}
			c = append(c, explore.Config{Name: n, MaxDepth: depth, MaxDev: dev})
		}
		return c
	}
	sched := func(g string, dev, depth int) {
		if depth > 0 {
			c = append(c, explore.Config{Name: fmt.Sprintf("sched %s d=%d", g, depth), MaxDepth: depth, MaxDev: dev})
		} else {
			c = append(c, explore.Config{Name: "sched " + g, MaxDepth: 400, MaxDev: dev})
		}
	}
	fault := func(g string, dev int) { c = append(c, explore.Config{Name: "fault " + g, MaxDepth: 400, MaxDev: dev}) }
	// faultClosed: every single fault (dev=1) / pair of faults (dev=2) in the fixed point, every
	// order of the first d events, then the closing schedule under `orders` router orders
	faultClosed := func(g string, dev, d, orders int) {
		c = append(c, explore.Config{Name: fmt.Sprintf("fault %s d=%d orders=%d", g, d, orders), MaxDepth: d, MaxDev: dev})
	}
	// faultMid: from the fixed point of the topology without the `down` links (routers that join
	// later), faults and repairs in EVERY state, so that several topology changes reach a router
	// between two fetches of the same neighbour
	faultMid := func(g, down string, dev int) {
		c = append(c, explore.Config{Name: fmt.Sprintf("faultmid %s down=%s", g, down), MaxDepth: 400, MaxDev: dev})
	}
	faultMidClosed := func(g string, dev, d, orders int) {
		c = append(c, explore.Config{Name: fmt.Sprintf("faultmid %s d=%d orders=%d", g, d, orders), MaxDepth: d, MaxDev: dev})
	}
	// hold: cold start, faults in every state, and one ribUpdate task delayed past other events
	hold := func(g string, dev, d int) {
		if d > 0 {
			c = append(c, explore.Config{Name: fmt.Sprintf("hold %s d=%d", g, d), MaxDepth: d, MaxDev: dev})
		} else {
			c = append(c, explore.Config{Name: "hold " + g, MaxDepth: 400, MaxDev: dev})
		}
	}
	// 5-node graphs in which some router has >= 3 neighbours offering the same destination
	mesh5 := []string{
		"n5:02-03-04-12-13-14",    // K2,3: three equal-cost paths 0-{2,3,4}-1
		"n5:01-02-03-13-23-34",    // hub 3 with leaf 4 behind a mesh 0-{1,2,3}
		"n5:01-04-12-13-23-34",    // house: 5-ring with a chord
		"n5:01-02-03-04-12-34",    // bow tie: two triangles sharing router 0
		"n5:01-02-03-12-13-23-34", // K4 with a pendant router
		"n5:01-04-12-23-34",       // 5-ring
		"n5:01-02-03-13-14-24",    // router 0 reaches 4 over 1, 2 (2 hops) and 3 (3 hops)
	}
	var all []string
	for n := 2; n <= 4; n++ {
		for _, g := range dvsim.ConnectedGraphs(n) {
			all = append(all, g.String())
		}
	}
	if !th {
		// Order: configurations that finish in a second or two first (the budget is shared evenly over
		// the configurations still to run, unused shares roll over), the large ones last.
		line5, ring5 := dvsim.Line(5).String(), dvsim.Ring(5).String()
		heavyFault := map[string]bool{"n4:02-03-12-13": true, "n4:01-02-03-12": true, "n4:01-02-03-12-13": true, "n4:01-02-03-12-13-23": true, ring5: true}
		sched("n2:01", 1, 0)
		sched("n3:01-02 twins=4", 1, 0)
		// router names in a prefix relation (/ndn/r0, /ndn/r0/x1, /ndn/r0/x1/x2, ...)
		// reply=split: the neighbour's advertDataOnInterest is suspended where it releases dv.mutex
		// (advertisement taken, not yet encoded) for as long as the Data of Xq is in flight;
		// wire=reused: the memory of every advertisement Data is overwritten once the requester has
		// processed it. Neither changes the state space of code that keeps values of its own, so they
		// ride on configurations that exist anyway (the plain `sched n3:01-02` above stays without).
		sched("n3:01-02 names=nested reply=split wire=reused", 1, 0)
		fault("n4:01-03-12 names=nested wire=reused", 2)
		// network names with two and three components
		sched("n2:01 net=/ndn/edu", 1, 0)
		sched("n3:01-02 net=/ndn/edu/cs", 0, 0)
		// two parallel faces between the routers, sync Interests alternating between them, time passing
		fault("n2:01 par=01 twins=1", 1)
		fault("n3:01-02 par=01 twins=1", 1)
		// faces=flap: fault event FC(a<b), the face on which a hears b is re-created (link flap shorter
		// than the dead interval: neighbour entry, advertisement and sequence number unchanged, sync
		// Interests on a new face id, the old one dead); nbr=passive: every neighbour is discovered
		// passively at first, fault event AC(a<b): b becomes an explicitly configured neighbour (active
		// sync Interests on a new face). With held ribUpdate tasks, and from the cold start with parked
		// fetches:
		hold("n2:01 faces=flap twins=1", 2, 0)
		sched("n2:01 faces=flap nbr=passive twins=1", 2, 0)
		sched("n3:01-02 faces=flap twins=4", 1, 0)
		// Audit of the canonical form (dvsim/twins.go) where a search that de-duplicates on it cannot see
		// its flaws: the cold-start state space of the triangle (the smallest graph on which a router
		// learns a route to itself through a neighbour) without deviations, every operation - the
		// delivery deviation Xq included - executed from two histories of every canonical state reached
		// twice. The other twins=K configurations do the same for every K-th state of theirs.
		sched("n3:01-02-12 devs=flight twins=1", 0, 0)
		// Restart into the boot window of Router.Start (handlers registered, own RIB entry not yet
		// added) from the cold start: a fetch parked at the neighbour (deviation Pg) is answered by the
		// new process with an advertisement that lists nothing.
		sched("n2:01 restart=window reply=split wire=reused twins=1", 2, 0)
		// faults from the fixed point: <= 2 fault / repair events per history
		for _, g := range append(append([]string{}, all...), line5) {
			if !heavyFault[g] {
				if strings.HasPrefix(g, "n3") {
					// with the restart into the boot window, and the audit of the canonical form
					g += " restart=window twins=1"
				}
				if strings.HasPrefix(g, "n2") {
					g += " faces=flap nbr=passive twins=1"
				}
				if strings.HasPrefix(g, "n3") || g == "n4:01-03-12" {
					g += " faces=flap" // re-created faces among the faults (see above)
				}
				if strings.HasPrefix(g, "n3:01-02 ") {
					g += " nbr=passive"
				}
				fault(g, 2)
			}
		}
		// several topology changes between two fetches of one neighbour
		faultMid("n4:01-02-03", "03", 2)             // star: leaf 3 joins while leaf 1 or 2 is lost
		faultMid("n4:01-03-12", "12 wire=reused", 2) // line 3-0-1-2: router 2 joins at the far end
		faultMid("n3:01-02-12", "12 twins=4", 2)     // triangle with one side missing at first
		// Count-to-infinity after a loss takes dozens of events on meshed graphs, more than the
		// breadth-first search reaches: single faults, every order of the first 3 events, then the
		// closing schedule under EVERY order of the routers (which neighbour withdraws first decides
		// what a router falls back to).
		for _, g := range mesh5 {
			d := 3
			if strings.Count(g, "-")+1 >= 7 {
				d = 2 // 12 single faults x 120 closing orders already take the share of the budget
			}
			// (link and router losses only: the restart events are left to the 4-router graphs below,
			// 5 more faults x 120 closing orders per graph do not fit the quick tier)
			faultClosed(g+" restart=off", 1, d, 120)
		}
		for _, g := range all {
			if strings.HasPrefix(g, "n4") && strings.Count(g, "-")+1 >= 4 {
				if strings.Count(g, "-")+1 == 4 {
					// triangle with a tail, 4-cycle: a re-created face among the single faults (the face
					// of a second-best next hop included)
					g += " faces=flap"
				}
				faultClosed(g, 1, 3, 24)
			}
		}
		// the same with two faults in any state (e.g. a third-ranked neighbour is lost, then the
		// destination): every order of the first 3 (2) events, closing schedule under 24 router orders
		for _, g := range all {
			if strings.HasPrefix(g, "n4") && strings.Count(g, "-")+1 >= 4 {
				faultMidClosed(g, 2, 3, 24)
			}
		}
		for _, g := range mesh5 {
			faultMidClosed(g+" restart=off", 2, 2, 24)
		}
		// Cold start, every event order. Delivery deviations (sync Interest heard, fetch parked or
		// timed out while other events happen) multiply the state space by about the number of
		// directed links per deviation: used on the graphs with <= 3 links.
		hold("n3:01-02 twins=8", 2, 0)
		sched("n4:01-03-12", 1, 0)
		sched("n4:01-02-03", 1, 0)
		sched("n3:01-02-12", 1, 0)
		sched(line5, 0, 0)
		for _, g := range []string{"n4:02-03-12-13", "n4:01-02-03-12", "n4:01-02-03-12-13", "n4:01-02-03-12-13-23", ring5} {
			fault(g, 2)
		}
		sched("n4:01-02-03-12", 0, 0) // triangle with a tail
		sched("n4:02-03-12-13", 0, 0) // 4-cycle
		// too large for the quick tier: every order of the first d events, then the default fair
		// schedule to the fixed point
		sched("n4:01-02-03-12-13", 0, 6)    // diamond
		sched("n4:01-02-03-12-13-23", 0, 5) // K4
		sched(ring5, 0, 6)
		return c
	}
	for _, g := range dvsim.ConnectedGraphs(5) {
		all = append(all, g.String())
	}
	six := []string{
		"n6:01-12-23-34-45",             // line
		"n6:01-05-12-23-34-45",          // ring
		"n6:01-03-05-12-23-34-45",       // ring + chord
		"n6:01-02-12-23-34-35-45",       // two triangles bridged
		"n6:03-04-05-13-14-15-23-24-25", // K3,3
	}
	for _, g := range all {
		e := strings.Count(g, "-") + 1
		switch {
		case e <= 3:
			if strings.HasPrefix(g, "n2") || strings.HasPrefix(g, "n3") {
				sched(g, 2, 0) // the whole real handler produces the Data of Xq
			}
			sched(g+" reply=split wire=reused", 2, 0)
		case e <= 4:
			sched(g+" reply=split wire=reused", 1, 0)
		}
	}
	// single faults, every order of the first 4 events, closing schedule under every router order
	// (see the quick tier); every graph with a cycle
	for _, g := range all {
		e, n := strings.Count(g, "-")+1, int(g[1]-'0')
		if e >= n {
			orders := 120
			if n == 4 {
				orders = 24
			} else if n == 3 {
				orders = 6
			}
			faultClosed(g, 1, 4, orders)
		}
	}
	for _, g := range six[1:] {
		faultClosed(g, 1, 3, 120)
	}
	// the labelled meshes of the quick tier (tie-breaks depend on name hashes, so a relabelled copy
	// of a graph is not the same experiment)
	for _, g := range mesh5 {
		dup := false
		for _, a := range all {
			dup = dup || a == g
		}
		if !dup {
			faultClosed(g, 1, 4, 120)
		}
	}
	for _, g := range all {
		e, n := strings.Count(g, "-")+1, int(g[1]-'0')
		if e >= n && n == 4 {
			faultMidClosed(g, 2, 4, 24)
		} else if e >= n && n == 5 {
			faultMidClosed(g, 2, 3, 24)
		}
	}
	for _, g := range mesh5 {
		faultMidClosed(g, 2, 2, 120)
	}
	// audit of the canonical form and boot-window restarts (see the quick tier)
	sched("n3:01-02-12 devs=flight twins=1", 0, 0)
	sched("n3:01-02-12 devs=flight twins=16", 2, 0)
	sched("n2:01 restart=window reply=split wire=reused twins=1", 3, 0)
	sched("n3:01-02 restart=window reply=split wire=reused twins=8", 2, 0)
	fault("n3:01-02 restart=window twins=1", 3)
	fault("n3:01-02-12 restart=window twins=4", 3)
	fault("n4:01-03-12 restart=window twins=16", 2)
	c = append(c, explore.Config{Name: "faultany n3:01-02-12 restart=window twins=16", MaxDepth: 400, MaxDev: 2})
	hold("n2:01 twins=1", 3, 0)
	hold("n3:01-02 twins=16", 3, 0)
	hold("n3:01-02-12", 2, 6)
	hold("n4:01-02-03", 2, 6)
	hold("n4:01-03-12", 2, 6)
	faultMid("n4:01-02-03", "03", 3)
	faultMid("n4:01-03-12", "12 wire=reused", 3)
	faultMid("n3:01-02-12", "12", 3)
	faultMid("n4:02-03-12-13", "13", 2)
	faultMid("n5:01-12-23-34", "34", 2)
	faultMid("n5:01-02-03-04", "04", 2)
	for _, g := range append(append([]string{}, all...), six...) {
		fault(g, 3)
	}
	// the rest: every order of the first d events from the cold start, then the default fair
	// schedule to the fixed point (depths sized so that the last level is reached within the share
	// of the budget; the closure only runs on the last level)
	for _, g := range all {
		e := strings.Count(g, "-") + 1
		switch {
		case e <= 4:
		case strings.HasPrefix(g, "n4") && e == 5:
			sched(g, 0, 8)
		case strings.HasPrefix(g, "n4"):
			sched(g, 0, 7)
		case e == 5:
			sched(g, 0, 8)
		case e <= 7:
			sched(g, 0, 6)
		default:
			sched(g, 0, 5)
		}
	}
	sched(six[0], 0, 0)
	sched(six[1], 0, 7)
	for _, g := range six[2:] {
		sched(g, 0, 5)
	}
	for _, g := range all {
		if strings.HasPrefix(g, "n3") || g == "n4:02-03-12-13" {
			c = append(c, explore.Config{Name: "faultany " + g + " wire=reused", MaxDepth: 400, MaxDev: 2})
		}
	}
	return c
}

// script is a development aid: VERIF_C18_SCRIPT="<family> <graph> [opts]|op;op;..." executes the
// operations and prints the tables after each ("CV" = run the closing schedule).
func script(spec string) {
	p := strings.SplitN(spec, "|", 2)
	y := build(p[0]).(*sys)
	l := y.m.New()
	s := l.Sim()
	fmt.Println("start:", s.Snap().FullTables())
	for _, op := range strings.Split(p[1], ";") {
		if strings.HasPrefix(op, "CV") {
			var order []int
			for _, c := range strings.TrimPrefix(strings.TrimPrefix(op, "CV"), ":") {
				order = append(order, int(c-'0'))
			}
			fmt.Println("closing rounds:", convergeOrder(s, order))
		} else {
			applyOp(s, op)
		}
		sn := s.Snap()
		q, why := sn.FixedPoint()
		fmt.Printf("%-8s q=%v %s\n   %s\n   %v\n   installed: %v\n", op, q, why, sn.FullTables(), sn.CheckShortest(), sn.CheckInstalled())
	}
}

func main() {
	debug.SetGCPercent(400)
	if sp := os.Getenv("VERIF_C18_SCRIPT"); sp != "" {
		if _, w := explore.IsWorker(); !w {
			script(sp)
			return
		}
	}
	if _, w := explore.IsWorker(); !w {
		dvsim.ResetTraceDir("C18")
		dvsim.ResetFallbackDir("C18")
	}
	var ribRun *ribRun
	if _, w := explore.IsWorker(); !w && !(len(os.Args) >= 3 && os.Args[1] == "--replay") {
		ribRun = startRibComponent()
	}
	explore.Main(explore.Spec{
		ID: "C18", PanicClause: "C18.panic", Build: build, Configs: configs,
		Budget: func(th bool) time.Duration {
			if v, err := time.ParseDuration(os.Getenv("VERIF_DV_BUDGET")); err == nil && v > 0 {
				return v // development aid
			}
			if th {
				return 25 * time.Minute
			}
			return 55 * time.Second // leaves room for the per-configuration minimum share and the graph analysis
		},
		Rule: "BFS to a fixpoint over event histories on N real dv.Router objects per topology; every transition checks C18.adv, every fixed point C18.dist / C18.withdraw; the recorded state graph is then analysed in the parent for C18.fix (terminal states, bottom SCCs, fair cycles, longest path) and C18.unique (one routing table per live topology); PLUS component level: in-process BFS to a fixpoint on the real dv/table.Rib (reset+set+prune / remove+prune / set+prune sequences, every offer history of 3-4 neighbours x costs 1..4 x 1-2 destinations) against best / second best recomputed from the full offer matrix",
		Assumptions: []string{
			"the harness network delivers a sync Interest of router j to router i only over a live link (i,j), in order, and never delivers an outdated one; Data for an advertisement fetch comes from the addressed neighbour",
			"tasks spawned by one event (go statements of dv/dv and std/sync) run to quiescence in FIFO order before the next event; tasks of different routers share no state, tasks of one router hold dv.mutex for their whole body (advertDataFetch excepted: it only reads the neighbour table before expressing an Interest; advertDataOnInterest excepted: it encodes and sends the advertisement it took after releasing the mutex - configurations reply=split suspend it at that point for as long as the Data of the deviation Xq is in flight, using a copy of its second half that is checked against the source and against the real handler's output)",
			"memory: every packet is handed to the router in memory of its own (as engine/basic does); configurations wire=reused overwrite an advertisement Data after the requester's handler and the tasks it spawned have run (NeighborState.Advert, which points into it, is only read by the ribUpdate spawned for it; not used in the hold family)",
			"clock abstraction: IsDead is only evaluated right after a step longer than RouterDeadInterval in which exactly the live neighbours sent heartbeats (event Dc). Router restarts: RS(r) replaces the process by a fresh dv.NewRouter of the same name one virtual second later (the neighbours keep the entry of the previous incarnation), RUs(r) / RU(r) bring a stopped router back ten seconds / a minute after the last event; whether the new incarnation's sequence numbers exceed the old ones is left to the code (a neighbour entry whose number is ahead of the router's is part of the canonical state, with its margin). RSw(r) (configurations restart=window) stops the new process between register() and the insertion of its own RIB entry until the default event Bt(r); inside that window only messages are delivered (no dead check, no further fault)",
			"equal canonical state (live topology, neighbour tables with sequence numbers as relations, RIB costs below infinity, parked fetches) implies equal futures; audited by the twins=K configurations (every K-th canonical state reached by two histories: every enabled operation, deviations included, is executed from both and the canonical successors must agree, else CHECK-ERROR)",
			"fault configurations start from the fixed point of the intact topology and inject faults in fixed points only (thorough adds faultany configurations: cold start, faults in every state); the number of fault/repair events per history is bounded (2 quick, 3 thorough); delivery deviations (parked / timed-out fetch) are bounded (1 quick, 2 thorough) and used on graphs with <= 3 (quick) / <= 4 (thorough) links",
			"successor states are computed by restoring saved table contents into the live router objects and executing one operation; restores are cross-checked against plain re-execution (first 25 and every 400th per worker; a differential run with VERIF_DV_NOCACHE=1 gives identical state and transition counts); on a mismatch (router state the save/restore hooks do not cover) the configuration is computed by plain re-execution from then on and listed in the evidence",
			"task interleaving: spawned tasks run FIFO to quiescence per event, except in the hold configurations, where the ribUpdate task spawned by advertDataHandler for one exchange per history is delayed past arbitrary later events (exchanges, faults, dead checks) and then released, or (event DcR) races checkDeadNeighbors for dv.mutex with real goroutines: whatever the held task does before locking runs first, then the dead check, then the rest of the task; other pre-lock / mid-task preemptions are not modelled",
			"the management commands replayed by the harness are those the real nfdc loop (NfdMgmtThread.Start, one real goroutine per router) hands to the engine",
			"graphs marked d=N are explored to depth N only; their remaining state space is covered by one schedule (round-robin; orders=K: K round-robin schedules with the routers visited in different orders) per frontier state",
			"component level (rib *): one real table.Rib is driven with the call sequences of Router (U: DirtyResetNextHop, Set for every destination the advertisement lists below infinity, Prune - as ribUpdate; R: RemoveNextHop, Prune - as checkDeadNeighbors; S: Set, Prune - as Router.Start for the own entry), the oracle is evaluated after the Prune that ends each sequence (the sequences run under dv.mutex); offers are arbitrary (every vector of costs 1..maxCost / not listed per neighbour, not only those a real topology produces - transient states of count-to-infinity produce such vectors); where offers tie every tied neighbour is accepted, but the same offer matrix must always give the same pair of next hops; successors are computed from saved table contents (cross-checked against plain re-execution every 97th state; plain re-execution throughout if Rib/RibEntry have fields the hooks do not know)",
			"topologies are enumerated up to isomorphism plus hand-labelled 5-router meshes; tie-breaks depend on name hashes, so other labellings of the same graph are different experiments that are only partly covered by varying the closing order",
		},
		Extra: func(rep *report.Reporter, cov report.Coverage) {
			dvsim.AnalyseC18(rep, cov)
			ribRun.finish(rep, cov) // component level: the real table.Rib on its own (ribunit.go)
			cov["configs_computed_by_plain_reexecution_after_restore_mismatch"] = dvsim.FallbackConfigs("C18")
			cov["split_advertisement_handler"] = dvsim.SplitReplyNote()
		},
	})
}
