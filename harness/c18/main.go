// C18: distance-vector routing converges to shortest paths on every topology / schedule / fault
// sequence. Explicit-state search over event histories executed on N real dv.Router objects
// (harness ndn.Engine, harness task queue for every `go` statement, virtual clock; package
// harness/dvsim), followed by an exact analysis of the explored state graph (terminal states,
// strongly connected components, weak fairness, longest path) in the parent process.
//
// Configurations (one per topology and family):
//
//	sched <graph>       from the cold start (every router knows only itself). Default events:
//	                    X(i<j) "router i hears j's current sync Interest, fetches j's current
//	                    advertisement and processes it" (all spawned work run to quiescence, FIFO),
//	                    Dl(i<j#k) delivery of a parked fetch. Deviations: Pg(i<j) (sync Interest
//	                    only: the fetch stays parked while other events happen), To(i#k) (a parked
//	                    fetch times out and is retried by the real retry loop).
//	sched <graph> d=N   the same, depth-bounded: every order of the first N events, then the default
//	                    fair schedule (round-robin exchanges) from every state of the last level to
//	                    the fixed point, which must be THE fixed point (graphs whose full state
//	                    space does not fit the tier).
//	fault <graph>       from the fixed point of the intact topology. Default events X(i<j) and
//	                    Dc(i) (more than RouterDeadInterval passes at i while its live neighbours
//	                    keep sending heartbeats, then checkDeadNeighbors). Deviations, injected in
//	                    fixed points: LD/LU(i,j) link down/up, RD/RU(r) router stop/restart.
//	faultany <graph>    (thorough) as fault, from the cold start, faults injected in every state.
//
// Clauses: C18.adv (every transition: no advertisement entry, on the wire or in Rib.Advert(), with
// Cost >= 16), C18.dist / C18.withdraw (every fixed point: costs = BFS hop distances of the live
// topology, next hop one hop closer, unreachable destinations absent from RIB and advertisement),
// C18.fix (graph: every terminal state is a fixed point; no event-closed set of states without a
// fixed point; no weakly fair cycle; longest path reported), C18.unique (graph: one best-route
// table per live topology; the same history always gives the same state).
package main

import (
	"fmt"
	"os"
	"runtime/debug"
	"strings"
	"time"

	"github.com/named-data/ndnd/std/ndn"
	"verif/harness/dvsim"
	"verif/mc/explore"
	"verif/mc/report"
)

type sys struct {
	cfg    string
	g      dvsim.Graph
	faults bool
	// faultsAnywhere: inject faults in every state (else only in fixed points)
	faultsAnywhere bool
	trace          *dvsim.Trace
	m              *dvsim.Machine
	opsCache       map[string][]explore.Op
	fromCache      map[string]string
	rooted         bool
	// closureDepth > 0: the search is depth-bounded; every state first reached at that depth is
	// driven to the fixed point by the default fair schedule (round-robin exchanges) and checked
	closureDepth int
	closed       map[string]bool
	expect       string // best tables of the fixed point reached by round-robin from the cold start
}

func (y *sys) New() any {
	l := y.m.New()
	if !y.rooted {
		y.rooted = true
		y.trace.Root(l.Sim())
	}
	return l
}

func (y *sys) Ops(i any) []explore.Op {
	l := i.(*dvsim.Lazy)
	key := l.Key()
	if ops, ok := y.opsCache[key]; ok {
		return ops
	}
	ops := y.ops(l.Sim())
	l.Checkpoint()
	hasDefault := false
	for _, o := range ops {
		if !o.Dev {
			hasDefault = true
		}
	}
	if !hasDefault {
		y.trace.NoOps(y.Canon(i))
	}
	if len(y.opsCache) > 50000 {
		y.opsCache = map[string][]explore.Op{}
	}
	y.opsCache[key] = ops
	return ops
}

func (y *sys) ops(s *dvsim.Sim) []explore.Op {
	var ops []explore.Op
	n := s.G.N
	sn := s.Snap()
	for a := 0; a < n; a++ {
		for b := 0; b < n; b++ {
			// an exchange in which a already holds b's current advertisement maps the state to
			// the same canonical state: not generated (it is a self-loop by construction)
			if a != b && s.LinkLive(a, b) && !sn.Fresh(a, b) {
				ops = append(ops, explore.Op{Name: fmt.Sprintf("X(%d<%d)", a, b)})
			}
		}
	}
	if !y.faults {
		for a := 0; a < n; a++ {
			if !s.Nodes[a].Up {
				continue
			}
			for k, x := range s.Parked(a, dvsim.KAdvData) {
				ops = append(ops, explore.Op{Name: fmt.Sprintf("Dl(%d<%d#%d)", a, x.Target, k)})
			}
		}
		for a := 0; a < n; a++ {
			for b := 0; b < n; b++ {
				if a != b && s.LinkLive(a, b) && !sn.Fresh(a, b) {
					ops = append(ops, explore.Op{Name: fmt.Sprintf("Pg(%d<%d)", a, b), Dev: true})
				}
			}
		}
		for a := 0; a < n; a++ {
			for k := range s.Parked(a, dvsim.KAdvData) {
				ops = append(ops, explore.Op{Name: fmt.Sprintf("To(%d#%d)", a, k), Dev: true})
			}
		}
		return ops
	}
	for a := 0; a < n; a++ {
		if s.Nodes[a].Up && s.HasSilentNeighbor(a) {
			ops = append(ops, explore.Op{Name: fmt.Sprintf("Dc(%d)", a)})
		}
	}
	if !y.faultsAnywhere {
		if q, _ := sn.RoutingQuiescent(); !q {
			return ops
		}
	}
	for _, e := range s.G.Edges {
		if !s.Nodes[e[0]].Up || !s.Nodes[e[1]].Up {
			continue
		}
		if s.Live[e] {
			ops = append(ops, explore.Op{Name: fmt.Sprintf("LD(%d,%d)", e[0], e[1]), Dev: true})
		} else {
			ops = append(ops, explore.Op{Name: fmt.Sprintf("LU(%d,%d)", e[0], e[1]), Dev: true})
		}
	}
	for a := 0; a < n; a++ {
		if s.Nodes[a].Up {
			ops = append(ops, explore.Op{Name: fmt.Sprintf("RD(%d)", a), Dev: true})
		} else {
			ops = append(ops, explore.Op{Name: fmt.Sprintf("RU(%d)", a), Dev: true})
		}
	}
	return ops
}

// applyOp is the op interpreter handed to the Machine.
func applyOp(s *dvsim.Sim, nm string) {
	var a, b, k int
	switch {
	case strings.HasPrefix(nm, "X("):
		fmt.Sscanf(nm, "X(%d<%d)", &a, &b)
		s.Exchange(a, b)
	case strings.HasPrefix(nm, "Pg("):
		fmt.Sscanf(nm, "Pg(%d<%d)", &a, &b)
		s.Ping(a, b, true)
	case strings.HasPrefix(nm, "Dl("):
		fmt.Sscanf(nm, "Dl(%d<%d#%d)", &a, &b, &k)
		s.DeliverAdv(s.Parked(a, dvsim.KAdvData)[k])
	case strings.HasPrefix(nm, "To("):
		fmt.Sscanf(nm, "To(%d#%d)", &a, &k)
		s.FailParked(s.Parked(a, dvsim.KAdvData)[k], ndn.InterestResultTimeout)
	case strings.HasPrefix(nm, "Dc("):
		fmt.Sscanf(nm, "Dc(%d)", &a)
		s.DeadCheck(a)
	case strings.HasPrefix(nm, "LD("):
		fmt.Sscanf(nm, "LD(%d,%d)", &a, &b)
		s.LinkDown(a, b)
	case strings.HasPrefix(nm, "LU("):
		fmt.Sscanf(nm, "LU(%d,%d)", &a, &b)
		s.LinkUp(a, b)
	case strings.HasPrefix(nm, "RD("):
		fmt.Sscanf(nm, "RD(%d)", &a)
		s.RouterDown(a)
	case strings.HasPrefix(nm, "RU("):
		fmt.Sscanf(nm, "RU(%d)", &a)
		s.RouterUp(a)
	default:
		panic("unknown op " + nm)
	}
	s.EndOp()
}

func (y *sys) Do(i any, op explore.Op) { i.(*dvsim.Lazy).Do(op.Name) }

func (y *sys) Canon(i any) string {
	l := i.(*dvsim.Lazy)
	if l.Canon == "" {
		l.Canon = l.Sim().CanonRouting()
	}
	return l.Canon
}

func (y *sys) Apply(i any, op explore.Op) []report.Violation {
	l := i.(*dvsim.Lazy)
	// all successors of one state are computed from the same history: hash its canon once
	key := l.Key()
	from, ok := y.fromCache[key]
	if !ok {
		from = y.trace.Hash(y.Canon(i))
		if len(y.fromCache) > 50000 {
			y.fromCache = map[string]string{}
		}
		y.fromCache[key] = from
	}
	l.Do(op.Name)
	s := l.Sim()
	var v []report.Violation
	for _, p := range s.Problems {
		v = append(v, report.Violation{Clause: "C18.quiesce", Key: strings.SplitN(p, " after ", 2)[0], Detail: p})
	}
	seen := map[string]bool{}
	for _, a := range s.AdvSeen {
		if !seen["adv"] {
			seen["adv"] = true
			v = append(v, report.Violation{Clause: "C18.adv", Key: "advertisement lists a destination at or above infinity", Detail: a})
		}
	}
	for _, nd := range y.m.Nondet {
		v = append(v, report.Violation{Clause: "C18.unique", Key: "the same event history yields different tables when re-executed (map-iteration order)", Detail: nd})
	}
	y.m.Nondet = nil
	sn := s.Snap()
	q, _ := sn.RoutingQuiescent()
	fs := sn.CheckShortest()
	if q {
		for _, f := range fs {
			if !seen[f.Clause+f.Key] {
				seen[f.Clause+f.Key] = true
				v = append(v, report.Violation{Clause: f.Clause, Key: f.Key, Detail: f.Detail})
			}
		}
	}
	l.Canon = y.trace.Edge(from, key, s, sn, op.Name, op.Dev, q, fs)
	return v
}

// CheckState is the closure of depth-bounded configurations (see closureDepth).
func (y *sys) CheckState(i any) []report.Violation {
	l := i.(*dvsim.Lazy)
	if y.closureDepth == 0 || len(l.Hist) != y.closureDepth {
		return nil
	}
	h := y.trace.Hash(y.Canon(i))
	if y.closed[h] {
		return nil
	}
	y.closed[h] = true
	if y.expect == "" {
		ref := dvsim.NewSim(y.g)
		converge(ref)
		y.expect = ref.Snap().BestTables()
		l.Invalidate() // NewSim reset the global clock and task queue
	}
	s := l.Sim()
	defer l.Invalidate()
	rounds := converge(s)
	sn := s.Snap()
	var v []report.Violation
	if q, why := sn.RoutingQuiescent(); !q {
		return []report.Violation{{Clause: "C18.fix", Key: "round-robin exchanges from an explored state do not reach a fixed point within 64 rounds", Detail: why}}
	}
	seen := map[string]bool{}
	for _, f := range sn.CheckShortest() {
		if !seen[f.Clause+f.Key] {
			seen[f.Clause+f.Key] = true
			v = append(v, report.Violation{Clause: f.Clause, Key: f.Key, Detail: "(after " + fmt.Sprint(rounds) + " closing rounds) " + f.Detail})
		}
	}
	if got := sn.BestTables(); got != y.expect {
		v = append(v, report.Violation{Clause: "C18.unique", Key: "different event orders end in different routing tables for the same live topology",
			Detail: fmt.Sprintf("closing rounds end in {%s}, round-robin from the cold start ends in {%s}", got, y.expect)})
	}
	y.trace.Closure(h, rounds)
	return v
}

// converge runs round-robin exchanges to the fixed point (used as the initial state of the
// fault configurations; convergence from the cold start under EVERY order is what the sched
// configurations establish).
func converge(s *dvsim.Sim) int {
	for round := 0; round < 64; round++ {
		for a := 0; a < s.G.N; a++ {
			for b := 0; b < s.G.N; b++ {
				if a != b && s.LinkLive(a, b) {
					s.Exchange(a, b)
					s.EndOp()
				}
			}
		}
		if q, _ := s.RoutingQuiescent(); q {
			return round + 1
		}
	}
	// Not converged (a defect the sched configuration of the same topology reports): a fault
	// configuration then has no fixed point to inject faults into and explores nothing.
	return 64
}

func build(cfg string) explore.System {
	parts := strings.Fields(cfg)
	g, err := dvsim.ParseGraph(parts[1])
	if err != nil {
		report.Fatal("%v", err)
	}
	y := &sys{cfg: cfg, g: g, faults: parts[0] != "sched", faultsAnywhere: parts[0] == "faultany"}
	y.trace = dvsim.NewTrace("C18", cfg)
	var init func(*dvsim.Sim)
	for _, p := range parts[2:] {
		fmt.Sscanf(p, "d=%d", &y.closureDepth)
	}
	y.closed = map[string]bool{}
	if parts[0] == "fault" {
		init = func(s *dvsim.Sim) { converge(s) } // fault configurations start from the fixed point of the intact topology
	}
	y.m = dvsim.NewMachine(g, init, applyOp)
	y.opsCache, y.fromCache = map[string][]explore.Op{}, map[string]string{}
	return y
}

func configs(th bool) []explore.Config {
	var c []explore.Config
	if only := os.Getenv("VERIF_C18_ONLY"); only != "" {
		for _, n := range strings.Split(only, ";") {
			dev := 0
			fmt.Sscanf(os.Getenv("VERIF_C18_DEV"), "%d", &dev)
			depth := 400
			for _, f := range strings.Fields(n) {
				fmt.Sscanf(f, "d=%d", &depth)
			}
			c = append(c, explore.Config{Name: n, MaxDepth: depth, MaxDev: dev})
		}
		return c
	}
	sched := func(g string, dev, depth int) {
		if depth > 0 {
			c = append(c, explore.Config{Name: fmt.Sprintf("sched %s d=%d", g, depth), MaxDepth: depth, MaxDev: dev})
		} else {
			c = append(c, explore.Config{Name: "sched " + g, MaxDepth: 400, MaxDev: dev})
		}
	}
	fault := func(g string, dev int) { c = append(c, explore.Config{Name: "fault " + g, MaxDepth: 400, MaxDev: dev}) }
	var all []string
	for n := 2; n <= 4; n++ {
		for _, g := range dvsim.ConnectedGraphs(n) {
			all = append(all, g.String())
		}
	}
	if !th {
		// Cold start, every event order. Delivery deviations (sync Interest heard, fetch parked or
		// timed out while other events happen) multiply the state space by about the number of
		// directed links per deviation: used on the graphs with <= 3 links.
		for _, g := range all {
			if e := strings.Count(g, "-") + 1; e <= 3 {
				sched(g, 1, 0)
			}
		}
		// faults from the fixed point: <= 2 fault / repair events per history
		line5, ring5 := dvsim.Line(5).String(), dvsim.Ring(5).String()
		for _, g := range append(append([]string{}, all...), line5, ring5) {
			fault(g, 2)
		}
		sched("n4:01-02-03-12", 0, 0) // triangle with a tail
		sched("n4:02-03-12-13", 0, 0) // 4-cycle
		sched(line5, 0, 0)
		// too large for the quick tier: every order of the first d events, then the default fair
		// schedule to the fixed point
		sched("n4:01-02-03-12-13", 0, 6)    // diamond
		sched("n4:01-02-03-12-13-23", 0, 5) // K4
		sched(ring5, 0, 6)
		return c
	}
	for _, g := range dvsim.ConnectedGraphs(5) {
		all = append(all, g.String())
	}
	six := []string{
		"n6:01-12-23-34-45",             // line
		"n6:01-05-12-23-34-45",          // ring
		"n6:01-03-05-12-23-34-45",       // ring + chord
		"n6:01-02-12-23-34-35-45",       // two triangles bridged
		"n6:03-04-05-13-14-15-23-24-25", // K3,3
	}
	for _, g := range all {
		e := strings.Count(g, "-") + 1
		switch {
		case e <= 3:
			sched(g, 2, 0)
		case e <= 4:
			sched(g, 1, 0)
		}
	}
	for _, g := range append(append([]string{}, all...), six...) {
		fault(g, 3)
	}
	// the rest: every order of the first d events from the cold start, then the default fair
	// schedule to the fixed point (depths sized so that the last level is reached within the share
	// of the budget; the closure only runs on the last level)
	for _, g := range all {
		e := strings.Count(g, "-") + 1
		switch {
		case e <= 4:
		case strings.HasPrefix(g, "n4") && e == 5:
			sched(g, 0, 8)
		case strings.HasPrefix(g, "n4"):
			sched(g, 0, 7)
		case e == 5:
			sched(g, 0, 8)
		case e <= 7:
			sched(g, 0, 6)
		default:
			sched(g, 0, 5)
		}
	}
	sched(six[0], 0, 0)
	sched(six[1], 0, 7)
	for _, g := range six[2:] {
		sched(g, 0, 5)
	}
	for _, g := range all {
		if strings.HasPrefix(g, "n3") || g == "n4:02-03-12-13" {
			c = append(c, explore.Config{Name: "faultany " + g, MaxDepth: 400, MaxDev: 2})
		}
	}
	return c
}

func main() {
	debug.SetGCPercent(400)
	if _, w := explore.IsWorker(); !w {
		dvsim.ResetTraceDir("C18")
	}
	explore.Main(explore.Spec{
		ID: "C18", PanicClause: "C18.panic", Build: build, Configs: configs,
		Budget: func(th bool) time.Duration {
			if v, err := time.ParseDuration(os.Getenv("VERIF_DV_BUDGET")); err == nil && v > 0 {
				return v // development aid
			}
			if th {
				return 25 * time.Minute
			}
			return 100 * time.Second
		},
		Rule: "BFS to a fixpoint over event histories on N real dv.Router objects per topology; every transition checks C18.adv, every fixed point C18.dist / C18.withdraw; the recorded state graph is then analysed in the parent for C18.fix (terminal states, bottom SCCs, fair cycles, longest path) and C18.unique (one routing table per live topology)",
		Assumptions: []string{
			"the harness network delivers a sync Interest of router j to router i only over a live link (i,j), in order, and never delivers an outdated one; Data for an advertisement fetch comes from the addressed neighbour",
			"tasks spawned by one event (go statements of dv/dv and std/sync) run to quiescence in FIFO order before the next event; tasks of different routers share no state, tasks of one router hold dv.mutex for their whole body (advertDataFetch excepted: it only reads the neighbour table before expressing an Interest)",
			"clock abstraction: IsDead is only evaluated right after a step longer than RouterDeadInterval in which exactly the live neighbours sent heartbeats (event Dc); a restarted router boots with a millisecond clock beyond every sequence number of its previous incarnation",
			"equal canonical state (live topology, neighbour tables with sequence numbers as relations, RIB costs below infinity, parked fetches) implies equal futures",
			"fault configurations start from the fixed point of the intact topology and inject faults in fixed points only (thorough adds faultany configurations: cold start, faults in every state); the number of fault/repair events per history is bounded (2 quick, 3 thorough); delivery deviations (parked / timed-out fetch) are bounded (1 quick, 2 thorough) and used on graphs with <= 3 (quick) / <= 4 (thorough) links",
			"successor states are computed by restoring saved table contents into the live router objects and executing one operation; restores are cross-checked against plain re-execution (first 25 and every 400th per worker; a differential run with VERIF_DV_NOCACHE=1 gives identical state and transition counts)",
			"graphs marked d=N are explored to depth N only; their remaining state space is covered by one schedule (round-robin) per frontier state",
		},
		Extra: func(rep *report.Reporter, cov report.Coverage) {
			dvsim.AnalyseC18(rep, cov)
		},
	})
}
