// C18: distance-vector routing converges to shortest paths on every topology / schedule / fault
// sequence. Explicit-state search over event histories executed on N real dv.Router objects
// (harness ndn.Engine, harness task queue for every `go` statement, virtual clock), followed by an
// exact analysis of the explored state graph (terminal states, strongly connected components,
// fairness) in the parent process.
//
// Configurations (one per topology):
//
//	sched <graph>  from the cold start (every router knows only itself); default events
//	               X(i<j) "router i hears j's current sync Interest, fetches j's current
//	               advertisement and processes it" (all spawned work run to quiescence, FIFO) and
//	               Dl(i<j#k) delivery of a parked fetch; deviations Pg(i<j) (sync Interest only: the
//	               fetch stays parked while other events happen) and To(i#k) (a parked fetch times
//	               out and is retried by the real retry loop).
//	fault <graph>  default events X(i<j) and Dc(i) (more than RouterDeadInterval passes at i while
//	               its live neighbours keep sending heartbeats; checkDeadNeighbors); deviations
//	               LD/LU(i,j) link down/up, RD/RU(r) router stop/restart.
package main

import (
	"fmt"
	"os"
	"path/filepath"
	"runtime/debug"
	"sort"
	"strings"
	"time"

	"github.com/named-data/ndnd/std/ndn"
	"verif/harness/dvsim"
	"verif/mc/explore"
	"verif/mc/report"
)

type sys struct {
	cfg    string
	g      dvsim.Graph
	faults bool
	// faultsAnywhere: inject faults in every state (else only in fixed points)
	faultsAnywhere bool
	trace          *dvsim.Trace
	m              *dvsim.Machine
	opsCache       map[string][]explore.Op
	fromCache      map[string]string
	rooted         bool
}

func (y *sys) New() any {
	l := y.m.New()
	if !y.rooted {
		y.rooted = true
		y.trace.Root(l.Sim())
	}
	return l
}

func (y *sys) Ops(i any) []explore.Op {
	l := i.(*dvsim.Lazy)
	key := l.Key()
	if ops, ok := y.opsCache[key]; ok {
		return ops
	}
	ops := y.ops(l.Sim())
	l.Checkpoint()
	if len(y.opsCache) > 200000 {
		y.opsCache = map[string][]explore.Op{}
	}
	y.opsCache[key] = ops
	return ops
}

func (y *sys) ops(s *dvsim.Sim) []explore.Op {
	var ops []explore.Op
	n := s.G.N
	for a := 0; a < n; a++ {
		for b := 0; b < n; b++ {
			if a != b && s.LinkLive(a, b) {
				ops = append(ops, explore.Op{Name: fmt.Sprintf("X(%d<%d)", a, b)})
			}
		}
	}
	if !y.faults {
		for a := 0; a < n; a++ {
			if !s.Nodes[a].Up {
				continue
			}
			for k, x := range s.Parked(a, dvsim.KAdvData) {
				ops = append(ops, explore.Op{Name: fmt.Sprintf("Dl(%d<%d#%d)", a, x.Target, k)})
			}
		}
		for a := 0; a < n; a++ {
			for b := 0; b < n; b++ {
				if a != b && s.LinkLive(a, b) {
					ops = append(ops, explore.Op{Name: fmt.Sprintf("Pg(%d<%d)", a, b), Dev: true})
				}
			}
		}
		for a := 0; a < n; a++ {
			for k := range s.Parked(a, dvsim.KAdvData) {
				ops = append(ops, explore.Op{Name: fmt.Sprintf("To(%d#%d)", a, k), Dev: true})
			}
		}
		return ops
	}
	for a := 0; a < n; a++ {
		if s.Nodes[a].Up && s.HasSilentNeighbor(a) {
			ops = append(ops, explore.Op{Name: fmt.Sprintf("Dc(%d)", a)})
		}
	}
	if !y.faultsAnywhere {
		if q, _ := s.RoutingQuiescent(); !q {
			return ops
		}
	}
	for _, e := range s.G.Edges {
		if !s.Nodes[e[0]].Up || !s.Nodes[e[1]].Up {
			continue
		}
		if s.Live[e] {
			ops = append(ops, explore.Op{Name: fmt.Sprintf("LD(%d,%d)", e[0], e[1]), Dev: true})
		} else {
			ops = append(ops, explore.Op{Name: fmt.Sprintf("LU(%d,%d)", e[0], e[1]), Dev: true})
		}
	}
	for a := 0; a < n; a++ {
		if s.Nodes[a].Up {
			ops = append(ops, explore.Op{Name: fmt.Sprintf("RD(%d)", a), Dev: true})
		} else {
			ops = append(ops, explore.Op{Name: fmt.Sprintf("RU(%d)", a), Dev: true})
		}
	}
	return ops
}

// applyOp is the op interpreter handed to the Machine.
func applyOp(s *dvsim.Sim, nm string) {
	var a, b, k int
	switch {
	case strings.HasPrefix(nm, "X("):
		fmt.Sscanf(nm, "X(%d<%d)", &a, &b)
		s.Exchange(a, b)
	case strings.HasPrefix(nm, "Pg("):
		fmt.Sscanf(nm, "Pg(%d<%d)", &a, &b)
		s.Ping(a, b, true)
	case strings.HasPrefix(nm, "Dl("):
		fmt.Sscanf(nm, "Dl(%d<%d#%d)", &a, &b, &k)
		s.DeliverAdv(s.Parked(a, dvsim.KAdvData)[k])
	case strings.HasPrefix(nm, "To("):
		fmt.Sscanf(nm, "To(%d#%d)", &a, &k)
		s.FailParked(s.Parked(a, dvsim.KAdvData)[k], ndn.InterestResultTimeout)
	case strings.HasPrefix(nm, "Dc("):
		fmt.Sscanf(nm, "Dc(%d)", &a)
		s.DeadCheck(a)
	case strings.HasPrefix(nm, "LD("):
		fmt.Sscanf(nm, "LD(%d,%d)", &a, &b)
		s.LinkDown(a, b)
	case strings.HasPrefix(nm, "LU("):
		fmt.Sscanf(nm, "LU(%d,%d)", &a, &b)
		s.LinkUp(a, b)
	case strings.HasPrefix(nm, "RD("):
		fmt.Sscanf(nm, "RD(%d)", &a)
		s.RouterDown(a)
	case strings.HasPrefix(nm, "RU("):
		fmt.Sscanf(nm, "RU(%d)", &a)
		s.RouterUp(a)
	default:
		panic("unknown op " + nm)
	}
	s.EndOp()
}

func (y *sys) Do(i any, op explore.Op) { i.(*dvsim.Lazy).Do(op.Name) }

func (y *sys) Canon(i any) string {
	l := i.(*dvsim.Lazy)
	if l.Canon == "" {
		l.Canon = l.Sim().CanonRouting()
	}
	return l.Canon
}

func (y *sys) Apply(i any, op explore.Op) []report.Violation {
	l := i.(*dvsim.Lazy)
	// all successors of one state are computed from the same history: hash its canon once
	key := l.Key()
	from, ok := y.fromCache[key]
	if !ok {
		from = y.trace.Hash(y.Canon(i))
		if len(y.fromCache) > 50000 {
			y.fromCache = map[string]string{}
		}
		y.fromCache[key] = from
	}
	l.Do(op.Name)
	s := l.Sim()
	var v []report.Violation
	for _, p := range s.Problems {
		v = append(v, report.Violation{Clause: "C18.quiesce", Key: strings.SplitN(p, " after ", 2)[0], Detail: p})
	}
	seen := map[string]bool{}
	for _, a := range s.AdvSeen {
		if !seen["adv"] {
			seen["adv"] = true
			v = append(v, report.Violation{Clause: "C18.adv", Key: "advertisement lists a destination at or above infinity", Detail: a})
		}
	}
	sn := s.Snap()
	q, _ := sn.RoutingQuiescent()
	fs := sn.CheckShortest()
	if q {
		for _, f := range fs {
			if !seen[f.Clause+f.Key] {
				seen[f.Clause+f.Key] = true
				v = append(v, report.Violation{Clause: f.Clause, Key: f.Key, Detail: f.Detail})
			}
		}
	}
	l.Canon = y.trace.Edge(from, s, sn, op.Name, op.Dev, q, fs)
	return v
}

func build(cfg string) explore.System {
	parts := strings.Fields(cfg)
	g, err := dvsim.ParseGraph(parts[1])
	if err != nil {
		report.Fatal("%v", err)
	}
	y := &sys{cfg: cfg, g: g, faults: parts[0] != "sched", faultsAnywhere: parts[0] == "faultany"}
	y.trace = dvsim.NewTrace("C18", cfg)
	y.m = dvsim.NewMachine(g, nil, applyOp)
	y.opsCache, y.fromCache = map[string][]explore.Op{}, map[string]string{}
	return y
}

func configs(th bool) []explore.Config {
	var c []explore.Config
	if only := os.Getenv("VERIF_C18_ONLY"); only != "" {
		for _, n := range strings.Split(only, ";") {
			dev := 0
			fmt.Sscanf(os.Getenv("VERIF_C18_DEV"), "%d", &dev)
			c = append(c, explore.Config{Name: n, MaxDepth: 400, MaxDev: dev})
		}
		return c
	}
	var graphs []dvsim.Graph
	maxN := 4
	if th {
		maxN = 5
	}
	for n := 2; n <= maxN; n++ {
		graphs = append(graphs, dvsim.ConnectedGraphs(n)...)
	}
	if !th {
		graphs = append(graphs, dvsim.Line(5), dvsim.Ring(5))
	} else {
		for _, s := range []string{
			"n6:01-12-23-34-45-05",          // ring
			"n6:01-12-23-34-45-05-03",       // ring + chord
			"n6:01-02-12-23-34-35-45",       // two triangles bridged
			"n6:03-04-05-13-14-15-23-24-25", // K3,3
			"n6:01-12-23-34-45",             // line
		} {
			g, err := dvsim.ParseGraph(s)
			if err != nil {
				report.Fatal("%v", err)
			}
			graphs = append(graphs, g)
		}
	}
	for _, g := range graphs {
		dev := 1
		if th {
			dev = 2
		}
		c = append(c, explore.Config{Name: "sched " + g.String(), MaxDepth: 400, MaxDev: dev})
	}
	for _, g := range graphs {
		dev := 2
		if th {
			dev = 3
		}
		c = append(c, explore.Config{Name: "fault " + g.String(), MaxDepth: 400, MaxDev: dev})
	}
	return c
}

func main() {
	debug.SetGCPercent(400)
	if _, w := explore.IsWorker(); !w {
		dvsim.ResetTraceDir("C18")
	}
	explore.Main(explore.Spec{
		ID: "C18", PanicClause: "C18.panic", Build: build, Configs: configs,
		Budget: func(th bool) time.Duration {
			if th {
				return 25 * time.Minute
			}
			return 100 * time.Second
		},
		Rule: "BFS to a fixpoint over event histories on N real dv.Router objects per topology; every transition checks C18.adv, every fixed point C18.dist / C18.withdraw; the recorded state graph is then analysed in the parent for C18.fix (terminal states, bottom SCCs, fair cycles, longest path) and C18.unique (one routing table per live topology)",
		Assumptions: []string{
			"the harness network delivers a sync Interest of router j to router i only over a live link (i,j), in order, and never delivers an outdated one; Data for an advertisement fetch comes from the addressed neighbour",
			"tasks spawned by one event (go statements of dv/dv and std/sync) run to quiescence in FIFO order before the next event; tasks of different routers share no state, tasks of one router hold dv.mutex for their whole body (advertDataFetch excepted: it only reads the neighbour table before expressing an Interest)",
			"clock abstraction: IsDead is only evaluated right after a step longer than RouterDeadInterval in which exactly the live neighbours sent heartbeats (event Dc); a restarted router boots with a millisecond clock beyond every sequence number of its previous incarnation",
			"equal canonical state (live topology, neighbour tables with sequence numbers as relations, RIB costs below infinity, parked fetches) implies equal futures",
			"fault configurations inject the first fault in fixed points only in the quick tier (thorough: every state) and bound the number of fault/repair events per history",
		},
		Extra: func(rep *report.Reporter, cov report.Coverage) {
			dvsim.AnalyseC18(rep, cov)
		},
	})
	_ = os.Stdout
	_ = filepath.Join
	_ = sort.Strings
}
