// C18, component level: the real dv/table.Rib searched on its own, in the parent process.
//
// The router-level configurations reach a RIB entry with three or more candidate next hops at
// different costs only on 5-6 router meshes and only for the few cost combinations those meshes
// produce. Here ONE real table.Rib (the routing table of router /ndn/r0) is driven with the call
// sequences Router uses, over EVERY history of offers from K neighbours for D destinations:
//
//	U(n:c1,..,cD)  ribUpdate for neighbour n: DirtyResetNextHop(n); Set(d, n, c) for every
//	               destination the advertisement lists below infinity ('-' = not listed, as
//	               ribUpdate skips costs >= infinity); Prune
//	R(n)           checkDeadNeighbors for neighbour n: RemoveNextHop(n); Prune (also for a
//	               neighbour the RIB has never heard of)
//	S(d,n,c)       Set(d, n, c); Prune without a reset (how Router.Start adds the own entry)
//
// breadth first to a fixpoint on the canonical state (reference offer matrix + white-box dump of
// the entries). Successors are computed on a FRESH Rib by replaying the shortest history (no
// save/restore). Reference: the full matrix "what does neighbour n currently offer for d"; after
// every operation best / second best are recomputed from it from scratch and compared with what
// the Rib shows through Advert(), Entries() and Has():
//
//	C18.dist      listed cost = lowest offer; next hop = a neighbour offering it; OtherCost = lowest
//	              offer of the OTHER neighbours (what poison reverse hands to the next hop), second
//	              next hop analogously; a destination somebody offers below infinity is listed
//	C18.withdraw  a destination nobody offers any more is gone from Advert(), Entries(), Has()
//	C18.adv       no Advert() entry at or above infinity (after the Prune the protocol demands)
//	C18.unique    the same offer matrix always gives the same (next hop, second next hop),
//	              whatever the history (ties broken the same way every time)
//	C18.fix       if the operation changed Advert(), one of its calls returned true ("the
//	              advertisement might change"): otherwise the router does not publish a new
//	              sequence number and no neighbour ever fetches the change
//
// Where offers tie, every tied neighbour is accepted as (second) next hop.
package main

import (
	"fmt"
	"os"
	"sort"
	"strconv"
	"strings"
	"sync"
	"sync/atomic"
	"time"

	"github.com/named-data/ndnd/dv/config"
	"github.com/named-data/ndnd/dv/table"
	enc "github.com/named-data/ndnd/std/encoding"
	"verif/mc/report"
)

const ribInf = 16

type ribUniverse struct {
	name    string
	k       int      // neighbours /ndn/r1../ndn/rK
	dests   []string // destination router names; "/ndn/r0" = the router itself (own entry, cost 0 via itself)
	maxCost int      // offers 1..maxCost
	rawSet  bool     // S(d,n,c) generated
	sh      *ribShared
}

type ribOp struct {
	kind  byte  // 'U', 'R', 'S'
	n     int   // neighbour 1..K
	costs []int // U: per destination, 0 = not listed
	d, c  int   // S
}

func (o ribOp) String() string {
	switch o.kind {
	case 'U':
		p := make([]string, len(o.costs))
		for i, c := range o.costs {
			p[i] = "-"
			if c > 0 {
				p[i] = fmt.Sprint(c)
			}
		}
		return fmt.Sprintf("U(%d:%s)", o.n, strings.Join(p, ","))
	case 'R':
		return fmt.Sprintf("R(%d)", o.n)
	}
	return fmt.Sprintf("S(%d,%d,%d)", o.d, o.n, o.c)
}

func (u *ribUniverse) ops() []ribOp {
	var ops []ribOp
	for n := 1; n <= u.k; n++ {
		ops = append(ops, ribOp{kind: 'R', n: n})
	}
	total := 1
	for range u.dests {
		total *= u.maxCost + 1
	}
	for n := 1; n <= u.k; n++ {
		for x := 0; x < total; x++ {
			cs, y := make([]int, len(u.dests)), x
			for i := range cs {
				cs[i] = y % (u.maxCost + 1)
				y /= u.maxCost + 1
			}
			ops = append(ops, ribOp{kind: 'U', n: n, costs: cs})
		}
	}
	if u.rawSet {
		for d := range u.dests {
			for n := 1; n <= u.k; n++ {
				for c := 1; c <= u.maxCost; c++ {
					ops = append(ops, ribOp{kind: 'S', n: n, d: d, c: c})
				}
			}
		}
	}
	return ops
}

// ribInst is one real Rib plus the reference offer matrix.
type ribInst struct {
	u     *ribUniverse
	rib   *table.Rib
	self  enc.Name
	nbr   []enc.Name // index 0 = the router itself
	dst   []enc.Name
	nbrOf map[uint64]int
	// off[d][n]: what neighbour n currently offers for destination d (0 = nothing); n = 0 is the
	// router itself (offers 0 for its own name, fixed)
	off [][]int
}

func mustName(s string) enc.Name {
	n, err := enc.NameFromStr(s)
	if err != nil {
		panic(err)
	}
	return n
}

// prepared: configuration and names are built once per universe (the Rib only reads them and clones
// the names it keeps).
type ribShared struct {
	cfg   *config.Config
	self  enc.Name
	nbr   []enc.Name
	dst   []enc.Name
	nbrOf map[uint64]int
	strOf map[uint64]string
}

// str is Name.String() through a cache keyed by the name hash (the names of a universe are fixed).
func (in *ribInst) str(n enc.Name) string {
	if n == nil {
		return "-"
	}
	if s, ok := in.u.sh.strOf[n.Hash()]; ok {
		return s
	}
	return n.String()
}

func (u *ribUniverse) prepare() {
	cfg := config.DefaultConfig()
	cfg.Network = "/ndn"
	cfg.Router = "/ndn/r0"
	if err := cfg.Parse(); err != nil {
		panic(fmt.Sprintf("rib component: config: %v", err))
	}
	sh := &ribShared{cfg: cfg, self: mustName("/ndn/r0"), nbrOf: map[uint64]int{}, strOf: map[uint64]string{}}
	for n := 0; n <= u.k; n++ {
		nm := mustName(fmt.Sprintf("/ndn/r%d", n))
		sh.nbr = append(sh.nbr, nm)
		sh.nbrOf[nm.Hash()] = n
		sh.strOf[nm.Hash()] = nm.String()
	}
	for _, d := range u.dests {
		sh.dst = append(sh.dst, mustName(d))
		sh.strOf[mustName(d).Hash()] = d
	}
	u.sh = sh
}

func (u *ribUniverse) newInst() *ribInst {
	sh := u.sh
	in := &ribInst{u: u, rib: table.NewRib(sh.cfg), self: sh.self, nbrOf: sh.nbrOf, nbr: sh.nbr, dst: sh.dst}
	for range u.dests {
		in.off = append(in.off, make([]int, u.k+1))
	}
	// Router.Start: the own entry
	in.rib.Set(in.self, in.self, 0)
	return in
}

// offer returns the reference cost of destination d through hop n (ribInf = none).
func (in *ribInst) offer(d, n int) int {
	if n == 0 {
		if in.dst[d].Equal(in.self) {
			return 0
		}
		return ribInf
	}
	if c := in.off[d][n]; c > 0 {
		return c
	}
	return ribInf
}

// do executes one operation on the real Rib and the reference; it returns the OR of the values the
// real calls returned.
func (in *ribInst) do(o ribOp) bool {
	dirty := false
	switch o.kind {
	case 'U':
		in.rib.DirtyResetNextHop(in.nbr[o.n])
		for d, c := range o.costs {
			in.off[d][o.n] = c
			if c > 0 {
				dirty = in.rib.Set(in.dst[d], in.nbr[o.n], uint64(c)) || dirty
			}
		}
	case 'R':
		for d := range in.off {
			in.off[d][o.n] = 0
		}
		dirty = in.rib.RemoveNextHop(in.nbr[o.n])
	case 'S':
		in.off[o.d][o.n] = o.c
		dirty = in.rib.Set(in.dst[o.d], in.nbr[o.n], uint64(o.c))
	}
	return in.rib.Prune() || dirty
}

// advert renders Advert() in destination order: "name=cost>hop/other" per entry.
func (in *ribInst) advert() string {
	var rows []string
	for _, e := range in.rib.Advert().Entries {
		nh := "-"
		if e.NextHop != nil {
			nh = in.str(e.NextHop.Name)
		}
		rows = append(rows, in.str(e.Destination.Name)+"="+strconv.FormatUint(e.Cost, 10)+">"+nh+"/"+strconv.FormatUint(e.OtherCost, 10))
	}
	sort.Strings(rows)
	return strings.Join(rows, "; ")
}

func (in *ribInst) matrix() string {
	var b strings.Builder
	for d := range in.off {
		b.WriteString(in.u.dests[d])
		b.WriteByte(':')
		for n := 1; n <= in.u.k; n++ {
			if c := in.off[d][n]; c > 0 {
				b.WriteString(strconv.Itoa(c))
			} else {
				b.WriteByte('-')
			}
		}
		b.WriteByte(' ')
	}
	return b.String()
}

// canon: reference matrix + everything the Rib stores (white box), neighbours by index.
func (in *ribInst) canon(dump []table.VerifRibEntry) string {
	var b strings.Builder
	b.WriteString(in.matrix())
	b.WriteString("|")
	hop := func(h uint64) string {
		if h == 0 {
			return "0"
		}
		if n, ok := in.nbrOf[h]; ok {
			return "r" + strconv.Itoa(n)
		}
		return "?" + strconv.FormatUint(h, 16)
	}
	rows := make([]string, 0, len(dump))
	for _, e := range dump {
		cs := make([]string, 0, len(e.Costs))
		for h, c := range e.Costs {
			cs = append(cs, hop(h)+"="+strconv.FormatUint(c, 10))
		}
		sort.Strings(cs)
		d := "f"
		if e.Dirty {
			d = "t"
		}
		rows = append(rows, in.str(e.Name)+"{"+strings.Join(cs, ",")+"}"+hop(e.NextHop1)+"/"+strconv.FormatUint(e.Lowest1, 10)+","+hop(e.NextHop2)+"/"+strconv.FormatUint(e.Lowest2, 10)+d)
	}
	sort.Strings(rows)
	b.WriteString(strings.Join(rows, " "))
	return b.String()
}

type ribFinding struct{ clause, key, detail string }

// choice renders the (next hop, second next hop) the Rib shows per destination (for C18.unique).
func (in *ribInst) check(before string, dirty bool, vd []table.VerifRibEntry) (fs []ribFinding, choice string) {
	add := func(clause, key, detail string) { fs = append(fs, ribFinding{clause, key, detail}) }
	adv := in.rib.Advert()
	listed := map[int]bool{}
	dump := map[string]table.VerifRibEntry{}
	for _, e := range vd {
		dump[in.str(e.Name)] = e
	}
	entries := map[string]bool{}
	for _, e := range in.rib.Entries() {
		entries[in.str(e.Name())] = true
	}
	var ch []string
	for _, e := range adv.Entries {
		d := -1
		for i := range in.dst {
			if in.dst[i].Equal(e.Destination.Name) {
				d = i
			}
		}
		if e.Cost >= ribInf {
			add("C18.adv", "advertisement lists a destination at or above infinity", fmt.Sprintf("Rib.Advert() after Prune lists %s at cost %d", e.Destination.Name, e.Cost))
		}
		if d < 0 {
			if !e.Destination.Name.Equal(in.self) {
				add("C18.withdraw", "Rib component: Advert() lists a destination nobody ever offered", e.Destination.Name.String())
			}
			continue
		}
		if listed[d] {
			add("C18.unique", "Rib component: Advert() lists a destination twice", e.Destination.Name.String())
		}
		listed[d] = true
		// reference: best and second best from scratch
		best, second := ribInf, ribInf
		for n := 0; n <= in.u.k; n++ {
			if c := in.offer(d, n); c < best {
				best, second = c, best
			} else if c < second {
				second = c
			}
		}
		if best >= ribInf {
			add("C18.withdraw", "Rib component: a destination no neighbour offers any more is still advertised", fmt.Sprintf("%s listed at cost %d (other %d); offers: %s", e.Destination.Name, e.Cost, e.OtherCost, in.matrix()))
			continue
		}
		if int(e.Cost) != best {
			add("C18.dist", "Rib component: advertised cost is not the lowest cost the neighbours currently offer", fmt.Sprintf("%s listed at cost %d, lowest offer is %d; offers: %s", e.Destination.Name, e.Cost, best, in.matrix()))
			continue
		}
		nh := -1
		if e.NextHop != nil && e.NextHop.Name != nil {
			if n, ok := in.nbrOf[e.NextHop.Name.Hash()]; ok {
				nh = n
			}
		}
		if nh < 0 || in.offer(d, nh) != best {
			add("C18.dist", "Rib component: next hop is not a neighbour offering the lowest cost", fmt.Sprintf("%s at cost %d via %v; offers: %s", e.Destination.Name, e.Cost, e.NextHop.Name, in.matrix()))
			continue
		}
		// what poison reverse hands to the next hop: the lowest offer of the others
		other := ribInf
		for n := 0; n <= in.u.k; n++ {
			if c := in.offer(d, n); n != nh && c < other {
				other = c
			}
		}
		if int(e.OtherCost) != other && !(other >= ribInf && e.OtherCost >= ribInf) {
			add("C18.dist", "Rib component: OtherCost is not the lowest cost offered by a neighbour other than the next hop", fmt.Sprintf("%s at cost %d via %s lists other cost %d, the other neighbours' lowest offer is %d; offers: %s", e.Destination.Name, e.Cost, e.NextHop.Name, e.OtherCost, other, in.matrix()))
		}
		// second next hop (white box; it is what the router installs as the alternative route)
		w := dump[in.str(e.Destination.Name)]
		if other < ribInf && int(e.OtherCost) == other {
			n2, ok := in.nbrOf[w.NextHop2]
			if !ok || n2 == nh || in.offer(d, n2) != other {
				add("C18.dist", "Rib component: second next hop is not another neighbour offering the second-lowest cost", fmt.Sprintf("%s: second next hop %s at cost %d; offers: %s", e.Destination.Name, in.rib.VerifNeighborName(w.NextHop2), w.Lowest2, in.matrix()))
			}
		}
		ch = append(ch, in.u.dests[d]+">r"+strconv.Itoa(nh)+","+in.str(in.rib.VerifNeighborName(w.NextHop2)))
	}
	for d := range in.dst {
		best := ribInf
		for n := 0; n <= in.u.k; n++ {
			if c := in.offer(d, n); c < best {
				best = c
			}
		}
		nm := in.u.dests[d]
		if best < ribInf && !listed[d] {
			add("C18.dist", "Rib component: a destination a neighbour offers below infinity is missing from the advertisement", fmt.Sprintf("%s: lowest offer %d; offers: %s", nm, best, in.matrix()))
		}
		if (best < ribInf) != in.rib.Has(in.dst[d]) || (best < ribInf) != entries[nm] {
			clause, key := "C18.dist", "Rib component: a destination a neighbour offers below infinity is not reachable according to Has() / Entries()"
			if best >= ribInf {
				clause, key = "C18.withdraw", "Rib component: a destination no neighbour offers any more is still reachable according to Has() / Entries()"
			}
			add(clause, key, fmt.Sprintf("%s: lowest offer %d, Has=%v, in Entries=%v; offers: %s", nm, best, in.rib.Has(in.dst[d]), entries[nm], in.matrix()))
		}
	}
	if after := in.advert(); after != before && !dirty {
		add("C18.fix", "Rib component: an update changes the advertisement but every call reports 'unchanged' (no new sequence number: the neighbours never fetch it)", fmt.Sprintf("before {%s} after {%s}", before, after))
	}
	sort.Strings(ch)
	return fs, strings.Join(ch, " ")
}

type ribResult struct {
	Universe    string   `json:"universe"`
	States      int      `json:"states"`
	Transitions int      `json:"transitions"`
	Depth       int      `json:"depth"`
	Fixpoint    bool     `json:"fixpoint"`
	Matrices    int      `json:"distinct_offer_matrices"`
	Sample      []string `json:"sample_history"`
	// successors computed from saved table contents are cross-checked against plain re-execution
	// for every 97th expanded state
	RestoresAudited  int  `json:"restores_cross_checked_against_reexecution"`
	PlainReexecution bool `json:"computed_by_plain_reexecution"`
}

// the fields of Rib / RibEntry the save/restore hooks (hooks/dv/table/verif_dv.go) cover
const ribFields = "Rib{config:*config.Config;entries:map[uint64]*table.RibEntry;neighbors:map[uint64]encoding.Name;}RibEntry{rib:*table.Rib;name:encoding.Name;costs:map[uint64]uint64;nextHop1:uint64;nextHop2:uint64;lowest1:uint64;lowest2:uint64;dirty:bool;}"

type ribNode struct{ h []int32 }

type ribSucc struct {
	op     int32
	canon  string
	fs     []ribFinding
	matrix string
	choice string
}

// runRibUniverse: breadth-first search to a fixpoint (or the deadline).
func runRibUniverse(u *ribUniverse, rep *ribViolations, deadline time.Time, workers int) ribResult {
	ops := u.ops()
	res := ribResult{Universe: fmt.Sprintf("%s: %d neighbours x destinations %v x offers 1..%d, %d operations per state", u.name, u.k, u.dests, u.maxCost, len(ops))}
	u.prepare()
	root := u.newInst()
	seen := map[string]bool{root.canon(root.rib.VerifDump()): true}
	choiceOf := map[string]string{}
	reported := map[string]bool{}
	frontier := []ribNode{{}}
	res.States = 1
	// successors are computed from saved table contents unless the table structs have fields the
	// save/restore hooks were not written for
	plain := !strings.Contains(table.VerifFieldSignature(), ribFields)
	res.PlainReexecution = plain
	var audited atomic.Int64
	histName := func(h []int32, last int32) []string {
		var out []string
		for _, i := range h {
			out = append(out, ops[i].String())
		}
		return append(out, ops[last].String())
	}
	for depth := 0; len(frontier) > 0; depth++ {
		if time.Now().After(deadline) {
			return res
		}
		out := make([][]ribSucc, len(frontier))
		var wg sync.WaitGroup
		var aborted, mismatch atomic.Bool
		next := make(chan int, len(frontier))
		for i := range frontier {
			next <- i
		}
		close(next)
		for w := 0; w < workers; w++ {
			wg.Add(1)
			go func() {
				defer wg.Done()
				for i := range next {
					if time.Now().After(deadline) {
						aborted.Store(true)
						continue
					}
					var base *ribInst
					var saved *table.VerifRibState
					var before string
					if !plain {
						base = u.newInst()
						for _, p := range frontier[i].h {
							base.do(ops[p])
						}
						saved, before = base.rib.VerifSave(), base.advert()
					}
					audit := !plain && i%97 == 0
					for oi, o := range ops {
						var in *ribInst
						if plain {
							in = u.newInst()
							for _, p := range frontier[i].h {
								in.do(ops[p])
							}
							before = in.advert()
						} else {
							// successor from the saved table contents (cross-checked below)
							in = &ribInst{u: u, rib: base.rib, self: base.self, nbr: base.nbr, dst: base.dst, nbrOf: base.nbrOf}
							in.rib.VerifRestore(saved)
							for _, row := range base.off {
								in.off = append(in.off, append([]int{}, row...))
							}
						}
						var fs []ribFinding
						var choice, cn string
						func() {
							defer func() {
								if r := recover(); r != nil {
									fs = []ribFinding{{"C18.panic", fmt.Sprintf("panic %v @ %s", r, crashSite()), fmt.Sprint(r)}}
								}
							}()
							dirty := in.do(o)
							vd := in.rib.VerifDump()
							fs, choice = in.check(before, dirty, vd)
							cn = in.canon(vd)
							if audit {
								ref := u.newInst()
								for _, p := range frontier[i].h {
									ref.do(ops[p])
								}
								ref.do(o)
								audited.Add(1)
								if rc := ref.canon(ref.rib.VerifDump()); rc != cn {
									mismatch.Store(true)
								}
							}
						}()
						out[i] = append(out[i], ribSucc{op: int32(oi), canon: cn, fs: fs, matrix: in.matrix(), choice: choice})
					}
				}
			}()
		}
		wg.Wait()
		if aborted.Load() {
			return res
		}
		res.RestoresAudited = int(audited.Load())
		if mismatch.Load() {
			// the save/restore hooks do not cover everything this Rib keeps: the level is recomputed
			// (and the search continued) by plain re-execution of the histories
			plain, res.PlainReexecution = true, true
			depth--
			continue
		}
		var nf []ribNode
		for i, ss := range out {
			for _, s := range ss {
				res.Transitions++
				bad := false
				hist := func() []string { return histName(frontier[i].h, s.op) }
				for _, f := range s.fs {
					bad = true
					if !reported[f.clause+f.key] {
						reported[f.clause+f.key] = true
						rep.Add(report.Violation{Clause: f.clause, Key: f.key, Detail: fmt.Sprintf("[%s] after %s: %s", u.name, strings.Join(hist(), " "), f.detail),
							Replay: map[string]any{"component": "rib", "universe": u.name, "ops": hist()}})
					}
				}
				if bad {
					continue // not expanded
				}
				if c, ok := choiceOf[s.matrix]; !ok {
					choiceOf[s.matrix] = s.choice
				} else if c != s.choice {
					k := "Rib component: the same offers give different next hops depending on the history (tie not broken the same way every time)"
					if !reported["C18.unique"+k] {
						reported["C18.unique"+k] = true
						rep.Add(report.Violation{Clause: "C18.unique", Key: k, Detail: fmt.Sprintf("[%s] offers %s: {%s} after %s, {%s} after another history", u.name, s.matrix, s.choice, strings.Join(hist(), " "), c),
							Replay: map[string]any{"component": "rib", "universe": u.name, "ops": hist()}})
					}
					continue
				}
				if !seen[s.canon] {
					seen[s.canon] = true
					res.States++
					h := append(append([]int32{}, frontier[i].h...), s.op)
					nf = append(nf, ribNode{h})
					if len(h) >= 3 {
						res.Sample = histName(frontier[i].h, s.op)
					}
				}
			}
		}
		res.Depth = depth + 1
		frontier = nf
	}
	res.Fixpoint = true
	res.Matrices = len(choiceOf)
	return res
}

func ribUniverses(th bool) []*ribUniverse {
	us := []*ribUniverse{
		// three neighbours, two destinations (a neighbour itself and a remote router): entries that a
		// reset touches without a following Set, entries created and pruned next to surviving ones
		{name: "rib k3 d2", k: 3, dests: []string{"/ndn/r1", "/ndn/r9"}, maxCost: 2},
		// the router's own name among the destinations (neighbours offer routes back to it)
		{name: "rib k3 self", k: 3, dests: []string{"/ndn/r0", "/ndn/r9"}, maxCost: 2, rawSet: true},
		// four neighbours, one remote destination: every ranking of four offers incl. three-way ties
		{name: "rib k4 d1", k: 4, dests: []string{"/ndn/r9"}, maxCost: 4},
	}
	if th {
		us = append(us,
			&ribUniverse{name: "rib k3 d2 c3", k: 3, dests: []string{"/ndn/r1", "/ndn/r9"}, maxCost: 3, rawSet: true},
			&ribUniverse{name: "rib k3 self c3", k: 3, dests: []string{"/ndn/r0", "/ndn/r9"}, maxCost: 3},
			&ribUniverse{name: "rib k4 d1 raw", k: 4, dests: []string{"/ndn/r9"}, maxCost: 4, rawSet: true},
			&ribUniverse{name: "rib k5 d1", k: 5, dests: []string{"/ndn/r9"}, maxCost: 4, rawSet: true},
			&ribUniverse{name: "rib k4 d2", k: 4, dests: []string{"/ndn/r2", "/ndn/r9"}, maxCost: 3},
			&ribUniverse{name: "rib k3 d3", k: 3, dests: []string{"/ndn/r0", "/ndn/r1", "/ndn/r9"}, maxCost: 2},
		)
	}
	return us
}

// ribViolations collects the violations of the component level until the reporter exists.
type ribViolations struct{ v []report.Violation }

func (r *ribViolations) Add(v report.Violation) { r.v = append(r.v, v) }

type ribRun struct {
	done    chan struct{}
	viol    ribViolations
	lines   []string
	results []ribResult
	st, tr  int
	ok      bool
}

// startRibComponent starts the component-level search in the parent process, next to the worker
// processes of the router-level configurations (the parent only waits for them);
// finishRibComponent (called from Extra) waits for it and hands the results to the reporter.
func startRibComponent() *ribRun {
	r := &ribRun{done: make(chan struct{})}
	go func() {
		defer close(r.done)
		r.run(os.Getenv("VERIF_TIER") == "thorough")
	}()
	return r
}

func (run *ribRun) run(th bool) {
	rep := &run.viol
	budget := 90 * time.Second // a cap against pathological load, not a target: the quick universes reach their fixpoints in about 5 s of CPU, next to the router-level workers
	if th {
		budget = 4 * time.Minute
	}
	workers := 4
	fmt.Sscanf(os.Getenv("VERIF_WORKERS"), "%d", &workers)
	if workers > 4 {
		workers = 4 // the router-level workers need the other cores
	}
	if workers < 1 {
		workers = 1
	}
	start := time.Now()
	var results []ribResult
	st, tr := 0, 0
	complete := true
	us := ribUniverses(th)
	for i, u := range us {
		share := (budget - time.Since(start)) / time.Duration(len(us)-i)
		if share < 2*time.Second {
			share = 2 * time.Second
		}
		r := runRibUniverse(u, rep, time.Now().Add(share), workers)
		run.lines = append(run.lines, fmt.Sprintf("component %-26s states=%-8d transitions=%-9d depth=%d fixpoint=%v", u.name, r.States, r.Transitions, r.Depth, r.Fixpoint))
		results = append(results, r)
		st += r.States
		tr += r.Transitions
		complete = complete && r.Fixpoint
	}
	run.results, run.st, run.tr, run.ok = results, st, tr, complete
}

func (run *ribRun) finish(rep *report.Reporter, cov report.Coverage) {
	<-run.done
	for _, l := range run.lines {
		fmt.Println(l)
	}
	for _, v := range run.viol.v {
		rep.Add(v)
	}
	results, st, tr, complete := run.results, run.st, run.tr, run.ok
	cov["rib_component"] = map[string]any{
		"universes": results, "states": st, "transitions": tr, "all_fixpoints_reached": complete,
		"rule": "in-process BFS to a fixpoint on the real dv/table.Rib driven as Router drives it (U: DirtyResetNextHop + Set per listed destination + Prune; R: RemoveNextHop + Prune; S: Set + Prune), every history of offers; after every operation Advert()/Entries()/Has() against best / second best recomputed from the full offer matrix, same matrix => same next hops, changed advertisement => a call returned true",
	}
	if n, ok := cov["states"].(int); ok {
		cov["states"] = n + st
	}
	if n, ok := cov["transitions"].(int); ok {
		cov["transitions"] = n + tr
	}
	if n, ok := cov["traces_validated_against_impl"].(int); ok {
		cov["traces_validated_against_impl"] = n + tr
	}
	if !complete {
		cov["exhaustive"] = false
	}
}
