//go:build verif

package dv

import (
	"reflect"
	"sync/atomic"
	"time"
	"unsafe"

	"github.com/named-data/ndnd/dv/nfdc"
	"github.com/named-data/ndnd/dv/table"
	"github.com/named-data/ndnd/dv/tlv"
	"github.com/named-data/ndnd/std/ndn"
	"github.com/named-data/ndnd/std/security"
	ndn_sync "github.com/named-data/ndnd/std/sync"
	"github.com/named-data/ndnd/std/utils"
)

// White-box access for the C18/C19 harnesses. Nothing here changes behaviour: each function calls
// the unexported method the running router would call from Start()'s loop or from a handler.

// VerifBoot performs what Start() does before entering its select loop, minus the blocking
// pieces (tickers, management goroutine, SvSync main loop): configure the face, register the
// Interest handlers and routes, and add self to the RIB.
func (dv *Router) VerifBoot() error {
	if err := dv.configureFace(); err != nil {
		return err
	}
	if err := dv.register(); err != nil {
		return err
	}
	dv.rib.Set(dv.config.RouterName(), dv.config.RouterName(), 0)
	return nil
}

// VerifBootRegister is the first part of VerifBoot: what Start() does BEFORE it adds the router's
// own entry to the RIB (face configuration, Interest handlers, routes). From here on the router
// answers Interests; it sends nothing of its own before its loop runs.
func (dv *Router) VerifBootRegister() error {
	if err := dv.configureFace(); err != nil {
		return err
	}
	return dv.register()
}

// VerifBootSelf is the rest of VerifBoot: the statement of Start() between register() and the loop.
func (dv *Router) VerifBootSelf() {
	dv.rib.Set(dv.config.RouterName(), dv.config.RouterName(), 0)
}

// VerifAdvertTake / VerifAdvertReply are advertDataOnInterest cut in two at the point where it
// releases dv.mutex: the handler takes dv.rib.Advert() under the mutex (a closure with a deferred
// Unlock) and encodes, signs and sends it AFTERWARDS. Other goroutines of the router can run between
// the two halves; whatever they do, the handler goes on with the advertisement it took. The two
// functions repeat the handler's statements; the harness uses them only while the handler still has
// that shape (dvsim.SplitReplyApplies reads the source) and compares their output with the real
// handler's whenever nothing happened in between.
func (dv *Router) VerifAdvertTake() *tlv.Advertisement {
	dv.mutex.Lock()
	defer dv.mutex.Unlock()
	return dv.rib.Advert()
}

func (dv *Router) VerifAdvertReply(args ndn.InterestHandlerArgs, adv *tlv.Advertisement) {
	signer := security.NewSha256Signer()
	content := adv.Encode()
	data, err := dv.engine.Spec().MakeData(
		args.Interest.Name(),
		&ndn.DataConfig{
			ContentType: utils.IdPtr(ndn.ContentTypeBlob),
			Freshness:   utils.IdPtr(10 * time.Second),
		},
		content,
		signer)
	if err != nil {
		return
	}
	args.Reply(data.Wire)
}

// VerifHeartbeat is the heartbeat arm of Start()'s loop.
func (dv *Router) VerifHeartbeat() error { return dv.advertSyncSendInterest() }

// VerifCheckDead is the deadcheck arm of Start()'s loop.
func (dv *Router) VerifCheckDead() { dv.checkDeadNeighbors() }

// VerifFibUpdate runs fibUpdate synchronously.
func (dv *Router) VerifFibUpdate() { dv.fibUpdate() }

func (dv *Router) VerifRib() *table.Rib                 { return dv.rib }
func (dv *Router) VerifNeighbors() *table.NeighborTable { return dv.neighbors }
func (dv *Router) VerifPfx() *table.PrefixTable         { return dv.pfx }
func (dv *Router) VerifFib() *table.Fib                 { return dv.fib }
func (dv *Router) VerifNfdc() *nfdc.NfdMgmtThread       { return dv.nfdc }
func (dv *Router) VerifPfxSvs() *ndn_sync.SvSync        { return dv.pfxSvs }
func (dv *Router) VerifAdvertSeq() uint64               { return dv.advertSyncSeq }

// VerifRouterState is a copy of the whole mutable state of a Router (see dv/table/verif_dv.go).
type VerifRouterState struct {
	seq uint64
	nb  *table.VerifNbState
	rib *table.VerifRibState
	pfx *table.VerifPfxState
	fib *table.VerifFibState
	svs *ndn_sync.VerifSvsState
}

func (dv *Router) VerifSave() *VerifRouterState {
	dv.mutex.Lock()
	defer dv.mutex.Unlock()
	return &VerifRouterState{seq: dv.advertSyncSeq, nb: dv.neighbors.VerifSave(), rib: dv.rib.VerifSave(), pfx: dv.pfx.VerifSave(),
		fib: dv.fib.VerifSave(), svs: dv.pfxSvs.VerifSave()}
}

func (dv *Router) VerifRestore(st *VerifRouterState) {
	dv.mutex.Lock()
	defer dv.mutex.Unlock()
	dv.advertSyncSeq = st.seq
	dv.neighbors.VerifRestore(st.nb)
	dv.rib.VerifRestore(st.rib)
	dv.pfx.VerifRestore(st.pfx)
	dv.fib.VerifRestore(st.fib)
	dv.pfxSvs.VerifRestore(st.svs)
	dv.nfdc.VerifDrain()
}

// VerifMutexLock / VerifMutexUnlock let the harness hold the router's single mutex while it lines
// up goroutines behind it (see dvsim.Sim.DeadCheckRace): whoever blocks on dv.mutex first gets it
// first once the harness lets go (sync.Mutex queues waiters FIFO).
func (dv *Router) VerifMutexLock()   { dv.mutex.Lock() }
func (dv *Router) VerifMutexUnlock() { dv.mutex.Unlock() }

// VerifMutexWaiters reads the number of goroutines blocked in dv.mutex.Lock() from the mutex state
// word (sync.Mutex{state int32; sema uint32}, waiter count in state>>3; Go 1.18..1.24).
func (dv *Router) VerifMutexWaiters() int {
	return int(atomic.LoadInt32((*int32)(unsafe.Pointer(&dv.mutex))) >> 3)
}

// VerifFieldSignature: see table.VerifFieldSignature.
func VerifFieldSignature() string {
	t := reflect.TypeOf(Router{})
	out := "Router{"
	for i := 0; i < t.NumField(); i++ {
		out += t.Field(i).Name + ":" + t.Field(i).Type.String() + ";"
	}
	return out + "}" + table.VerifFieldSignature() + nfdc.VerifFieldSignature() + ndn_sync.VerifFieldSignature()
}
