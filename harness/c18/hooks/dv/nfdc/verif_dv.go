//go:build verif

package nfdc

// VerifDrain takes every command currently queued for the management goroutine (which the
// harness never starts) without blocking.
func (m *NfdMgmtThread) VerifDrain() []NfdMgmtCmd {
	var out []NfdMgmtCmd
	for {
		select {
		case c := <-m.channel:
			out = append(out, c)
		default:
			return out
		}
	}
}
