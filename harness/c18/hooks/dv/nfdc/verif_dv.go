//go:build verif

package nfdc

import "reflect"

// VerifDrain takes every command currently queued for the management goroutine (which the
// harness never starts) without blocking.
func (m *NfdMgmtThread) VerifDrain() []NfdMgmtCmd {
	var out []NfdMgmtCmd
	for {
		select {
		case c := <-m.channel:
			out = append(out, c)
		default:
			return out
		}
	}
}

// VerifFieldSignature: see table.VerifFieldSignature.
func VerifFieldSignature() string {
	t := reflect.TypeOf(NfdMgmtThread{})
	out := "NfdMgmtThread{"
	for i := 0; i < t.NumField(); i++ {
		out += t.Field(i).Name + ":" + t.Field(i).Type.String() + ";"
	}
	return out + "}"
}
