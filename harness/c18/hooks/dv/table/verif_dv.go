//go:build verif

package table

import (
	"reflect"
	"sort"

	"github.com/named-data/ndnd/dv/tlv"
	enc "github.com/named-data/ndnd/std/encoding"
	"verif/shim/vtime"
)

// Dumps of the private table state for the C18/C19 harnesses (read-only).

type VerifRibEntry struct {
	Name     enc.Name
	NameH    uint64            // key of the entry in Rib.entries
	Costs    map[uint64]uint64 // next-hop name hash -> cost (as stored, including infinity)
	NextHop1 uint64            // name hash, 0 if none
	NextHop2 uint64
	Lowest1  uint64
	Lowest2  uint64
	Dirty    bool
}

// VerifNeighborName resolves a next-hop hash through the RIB's own hash -> name table.
func (r *Rib) VerifNeighborName(h uint64) enc.Name { return r.neighbors[h] }

func (r *Rib) VerifDump() []VerifRibEntry {
	out := make([]VerifRibEntry, 0, len(r.entries))
	for h, e := range r.entries {
		ve := VerifRibEntry{Name: e.name, NameH: h, Costs: make(map[uint64]uint64, len(e.costs)), Lowest1: e.lowest1, Lowest2: e.lowest2,
			Dirty: e.dirty, NextHop1: e.nextHop1, NextHop2: e.nextHop2}
		for nh, c := range e.costs {
			ve.Costs[nh] = c
		}
		out = append(out, ve)
	}
	sort.Slice(out, func(i, j int) bool { return out[i].NameH < out[j].NameH })
	return out
}

type VerifNeighbor struct {
	Name      enc.Name
	NameH     uint64
	AdvertSeq uint64
	Advert    *tlv.Advertisement
	FaceId    uint64
	Active    bool
	Dead      bool
	AgeNs     int64
}

func (nt *NeighborTable) VerifDump() []VerifNeighbor {
	out := make([]VerifNeighbor, 0, len(nt.neighbors))
	for h, ns := range nt.neighbors {
		out = append(out, VerifNeighbor{Name: ns.Name, NameH: h, AdvertSeq: ns.AdvertSeq, Advert: ns.Advert, FaceId: ns.faceId,
			Active: ns.isFaceActive, Dead: ns.IsDead(), AgeNs: int64(vtime.Since(ns.lastSeen))})
	}
	sort.Slice(out, func(i, j int) bool { return out[i].NameH < out[j].NameH })
	return out
}

type VerifFibRow struct {
	Name    string
	Entries []FibEntry
}

func (fib *Fib) VerifDump() []VerifFibRow {
	out := make([]VerifFibRow, 0, len(fib.prefixes))
	for h, es := range fib.prefixes {
		n := "?"
		if nm, ok := fib.names[h]; ok {
			n = nm.String()
		}
		out = append(out, VerifFibRow{Name: n, Entries: append([]FibEntry{}, es...)})
	}
	sort.Slice(out, func(i, j int) bool { return out[i].Name < out[j].Name })
	return out
}

type VerifPfxRouter struct {
	Name     enc.Name
	Fetching bool
	Known    uint64
	Latest   uint64
	Prefixes []string
}

func (pt *PrefixTable) VerifDump() (routers []VerifPfxRouter, snapshotAt uint64, repoSize int) {
	for _, r := range pt.routers {
		v := VerifPfxRouter{Name: r.Name, Fetching: r.Fetching, Known: r.Known, Latest: r.Latest}
		for _, p := range r.Prefixes {
			v.Prefixes = append(v.Prefixes, p.Name.String())
		}
		sort.Strings(v.Prefixes)
		routers = append(routers, v)
	}
	sort.Slice(routers, func(i, j int) bool { return routers[i].Name.String() < routers[j].Name.String() })
	pt.repoMutex.RLock()
	defer pt.repoMutex.RUnlock()
	return routers, pt.snapshotAt, len(pt.repo)
}

// ---------------------------------------------------------------------------------------------
// Save / restore of the private table state. The harnesses use this to avoid re-executing a
// whole history for every successor of a state: a saved state is written back into the SAME
// table objects (the registered handlers keep pointing at them) and execution continues with the
// real code. Restores are cross-checked against plain re-execution by the harness (VerifFull*).

type verifNs struct {
	name         enc.Name
	advertSeq    uint64
	advert       *tlv.Advertisement // replaced wholesale by the code, never mutated: shared
	age          vtime.Duration
	faceId       uint64
	isFaceActive bool
}

type VerifNbState struct{ ns map[uint64]verifNs }

func (nt *NeighborTable) VerifSave() *VerifNbState {
	st := &VerifNbState{ns: make(map[uint64]verifNs, len(nt.neighbors))}
	now := vtime.Now()
	for h, n := range nt.neighbors {
		st.ns[h] = verifNs{n.Name, n.AdvertSeq, n.Advert, now.Sub(n.lastSeen), n.faceId, n.isFaceActive}
	}
	return st
}

func (nt *NeighborTable) VerifRestore(st *VerifNbState) {
	nt.neighbors = make(map[uint64]*NeighborState, len(st.ns))
	now := vtime.Now()
	for h, n := range st.ns {
		nt.neighbors[h] = &NeighborState{nt: nt, Name: n.name, AdvertSeq: n.advertSeq, Advert: n.advert,
			lastSeen: now.Add(-n.age), faceId: n.faceId, isFaceActive: n.isFaceActive}
	}
}

type verifRibEnt struct {
	name               enc.Name
	costs              map[uint64]uint64
	nextHop1, nextHop2 uint64
	lowest1, lowest2   uint64
	dirty              bool
}

type VerifRibState struct {
	entries   map[uint64]verifRibEnt
	neighbors map[uint64]enc.Name
}

func copyU64(m map[uint64]uint64) map[uint64]uint64 {
	c := make(map[uint64]uint64, len(m))
	for k, v := range m {
		c[k] = v
	}
	return c
}

func (r *Rib) VerifSave() *VerifRibState {
	st := &VerifRibState{entries: make(map[uint64]verifRibEnt, len(r.entries)), neighbors: make(map[uint64]enc.Name, len(r.neighbors))}
	for h, e := range r.entries {
		st.entries[h] = verifRibEnt{e.name, copyU64(e.costs), e.nextHop1, e.nextHop2, e.lowest1, e.lowest2, e.dirty}
	}
	for h, n := range r.neighbors {
		st.neighbors[h] = n
	}
	return st
}

func (r *Rib) VerifRestore(st *VerifRibState) {
	r.entries = make(map[uint64]*RibEntry, len(st.entries))
	for h, e := range st.entries {
		r.entries[h] = &RibEntry{rib: r, name: e.name, costs: copyU64(e.costs), nextHop1: e.nextHop1, nextHop2: e.nextHop2,
			lowest1: e.lowest1, lowest2: e.lowest2, dirty: e.dirty}
	}
	r.neighbors = make(map[uint64]enc.Name, len(st.neighbors))
	for h, n := range st.neighbors {
		r.neighbors[h] = n
	}
}

type verifPfxRouter struct {
	name     enc.Name
	fetching bool
	known    uint64
	latest   uint64
	prefixes map[uint64]enc.Name
}

type VerifPfxState struct {
	routers    map[uint64]verifPfxRouter
	repo       map[uint64][]byte // values are never mutated: shared
	snapshotAt uint64
}

func (pt *PrefixTable) VerifSave() *VerifPfxState {
	st := &VerifPfxState{routers: make(map[uint64]verifPfxRouter, len(pt.routers)), snapshotAt: pt.snapshotAt}
	for h, r := range pt.routers {
		v := verifPfxRouter{r.Name, r.Fetching, r.Known, r.Latest, make(map[uint64]enc.Name, len(r.Prefixes))}
		for ph, p := range r.Prefixes {
			v.prefixes[ph] = p.Name
		}
		st.routers[h] = v
	}
	pt.repoMutex.RLock()
	defer pt.repoMutex.RUnlock()
	st.repo = make(map[uint64][]byte, len(pt.repo))
	for h, b := range pt.repo {
		st.repo[h] = b
	}
	return st
}

func (pt *PrefixTable) VerifRestore(st *VerifPfxState) {
	pt.routers = make(map[uint64]*PrefixTableRouter, len(st.routers))
	for h, r := range st.routers {
		n := &PrefixTableRouter{Name: r.name, Fetching: r.fetching, Known: r.known, Latest: r.latest, Prefixes: make(map[uint64]*PrefixEntry, len(r.prefixes))}
		for ph, p := range r.prefixes {
			n.Prefixes[ph] = &PrefixEntry{Name: p}
		}
		pt.routers[h] = n
	}
	pt.me = pt.GetRouter(pt.config.RouterName())
	pt.snapshotAt = st.snapshotAt
	pt.repoMutex.Lock()
	defer pt.repoMutex.Unlock()
	pt.repo = make(map[uint64][]byte, len(st.repo))
	for h, b := range st.repo {
		pt.repo[h] = b
	}
}

type VerifFibState struct {
	names    map[uint64]enc.Name
	prefixes map[uint64][]FibEntry
	mark     map[uint64]bool
}

func (fib *Fib) VerifSave() *VerifFibState {
	st := &VerifFibState{names: make(map[uint64]enc.Name, len(fib.names)), prefixes: make(map[uint64][]FibEntry, len(fib.prefixes)), mark: make(map[uint64]bool, len(fib.mark))}
	for h, n := range fib.names {
		st.names[h] = n
	}
	for h, es := range fib.prefixes {
		st.prefixes[h] = append([]FibEntry{}, es...)
	}
	for h, m := range fib.mark {
		st.mark[h] = m
	}
	return st
}

func (fib *Fib) VerifRestore(st *VerifFibState) {
	fib.names = make(map[uint64]enc.Name, len(st.names))
	for h, n := range st.names {
		fib.names[h] = n
	}
	fib.prefixes = make(map[uint64][]FibEntry, len(st.prefixes))
	for h, es := range st.prefixes {
		fib.prefixes[h] = append([]FibEntry{}, es...)
	}
	fib.mark = make(map[uint64]bool, len(st.mark))
	for h, m := range st.mark {
		fib.mark[h] = m
	}
}

// VerifPrevCost exposes the private field for full dumps.
func (e FibEntry) VerifPrevCost() uint64 { return e.prevCost }

// VerifMarks lists the marked prefix hashes (sorted).
func (fib *Fib) VerifMarks() []uint64 {
	var out []uint64
	for h, m := range fib.mark {
		if m {
			out = append(out, h)
		}
	}
	sort.Slice(out, func(i, j int) bool { return out[i] < out[j] })
	return out
}

// VerifFieldSignature lists every field of the table structs. The harness compares it with the
// list its save/restore hooks were written for: a field they do not know (say, a cache added to
// Rib) cannot be saved or restored, so the harness then computes every state by plain re-execution.
func VerifFieldSignature() string {
	var b []byte
	for _, t := range []reflect.Type{reflect.TypeOf(Rib{}), reflect.TypeOf(RibEntry{}), reflect.TypeOf(NeighborTable{}), reflect.TypeOf(NeighborState{}),
		reflect.TypeOf(Fib{}), reflect.TypeOf(FibEntry{}), reflect.TypeOf(PrefixTable{}), reflect.TypeOf(PrefixTableRouter{}), reflect.TypeOf(PrefixEntry{})} {
		b = append(b, t.Name()...)
		b = append(b, '{')
		for i := 0; i < t.NumField(); i++ {
			b = append(b, t.Field(i).Name+":"+t.Field(i).Type.String()+";"...)
		}
		b = append(b, '}')
	}
	return string(b)
}
