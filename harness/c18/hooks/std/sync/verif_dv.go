//go:build verif

package sync

import (
	"fmt"
	"reflect"
	"sort"

	enc "github.com/named-data/ndnd/std/encoding"
	"github.com/named-data/ndnd/std/ndn"
	"verif/shim/vtime"
)

// The C18/C19 harnesses never Start() an SvSync (its main loop blocks on channels). These two
// hooks run the same code the loop would run, synchronously.

// VerifSendSyncInterest builds and Expresses the current Sync Interest exactly as
// sendSyncInterest does for a running instance.
func (s *SvSync) VerifSendSyncInterest() {
	was := s.running.Load()
	s.running.Store(true)
	s.sendSyncInterest()
	s.running.Store(was)
}

// VerifOnSyncInterest is onSyncInterest followed by the recvSv arm of main().
func (s *SvSync) VerifOnSyncInterest(interest ndn.Interest) {
	s.onSyncInterest(interest)
	for {
		select {
		case sv := <-s.recvSv:
			s.onReceiveStateVector(sv)
		default:
			return
		}
	}
}

// VerifSvsState is a copy of the mutable SvSync state (see dv/table/verif_dv.go for the purpose).
type VerifSvsState struct {
	state    map[uint64]uint64
	names    map[uint64]enc.Name
	mtimeAge map[uint64]vtime.Duration
	suppress bool
	merge    map[uint64]uint64
}

func (s *SvSync) VerifSave() *VerifSvsState {
	s.mutex.Lock()
	defer s.mutex.Unlock()
	st := &VerifSvsState{state: map[uint64]uint64{}, names: map[uint64]enc.Name{}, mtimeAge: map[uint64]vtime.Duration{}, merge: map[uint64]uint64{}, suppress: s.suppress}
	now := vtime.Now()
	for k, v := range s.state {
		st.state[k] = v
	}
	for k, v := range s.names {
		st.names[k] = v
	}
	for k, v := range s.mtime {
		st.mtimeAge[k] = now.Sub(v)
	}
	for k, v := range s.merge {
		st.merge[k] = v
	}
	return st
}

func (s *SvSync) VerifRestore(st *VerifSvsState) {
	s.mutex.Lock()
	defer s.mutex.Unlock()
	s.state, s.names, s.mtime, s.merge = map[uint64]uint64{}, map[uint64]enc.Name{}, map[uint64]vtime.Time{}, map[uint64]uint64{}
	s.suppress = st.suppress
	now := vtime.Now()
	for k, v := range st.state {
		s.state[k] = v
	}
	for k, v := range st.names {
		s.names[k] = v
	}
	for k, v := range st.mtimeAge {
		s.mtime[k] = now.Add(-v)
	}
	for k, v := range st.merge {
		s.merge[k] = v
	}
	for {
		select {
		case <-s.recvSv:
		default:
			return
		}
	}
}

// VerifDump renders the state vector and suppression state (sorted) for full dumps.
func (s *SvSync) VerifDump() string {
	s.mutex.Lock()
	defer s.mutex.Unlock()
	var x []string
	now := vtime.Now()
	for k, v := range s.state {
		x = append(x, fmt.Sprintf("%s=%d(mt %v,mg %d)", s.names[k], v, now.Sub(s.mtime[k]), s.merge[k]))
	}
	sort.Strings(x)
	return fmt.Sprintf("suppress=%v %v", s.suppress, x)
}

// VerifFieldSignature: see dv/table.VerifFieldSignature.
func VerifFieldSignature() string {
	t := reflect.TypeOf(SvSync{})
	out := "SvSync{"
	for i := 0; i < t.NumField(); i++ {
		out += t.Field(i).Name + ":" + t.Field(i).Type.String() + ";"
	}
	return out + "}"
}
