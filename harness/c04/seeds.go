package main

// Valid seeds, built with the repository's own encoders: for every generated model a "maximal"
// value (every field present) and a "minimal" value (only what the encoder needs), filled by
// reflection and encoded with the model's generated encoder; plus packet-level seeds built with
// spec.MakeInterest / MakeData and wrapped into LpPackets. A seed is kept only if the model's own
// parser accepts it.

import (
	"crypto/sha256"
	"fmt"
	"reflect"
	"time"

	enc "github.com/named-data/ndnd/std/encoding"
	"github.com/named-data/ndnd/std/ndn"
	spec "github.com/named-data/ndnd/std/ndn/spec_2022"
	"github.com/named-data/ndnd/std/utils"
)

type seed struct {
	name   string
	own    int // generated model whose encoding this is (-1: none)
	packet bool
	data   []byte
}

var seeds []seed
var seedNotes []string

var (
	tName     = reflect.TypeOf(enc.Name{})
	tWire     = reflect.TypeOf(enc.Wire{})
	tComp     = reflect.TypeOf(enc.Component{})
	tDuration = reflect.TypeOf(time.Duration(0))
)

func mkName(s string) enc.Name {
	n, err := enc.NameFromStr(s)
	if err != nil {
		panic(err)
	}
	return n
}

// fill sets every settable field of v. max=false leaves optional (pointer/slice/map) fields nil
// except one level of required structure.
func fill(v reflect.Value, max bool, depth int) {
	t := v.Type()
	switch {
	case t == tName:
		v.Set(reflect.ValueOf(mkName("/a/bc")))
		return
	case t == tWire:
		v.Set(reflect.ValueOf(enc.Wire{[]byte{0x01, 0x02, 0x03}}))
		return
	case t == tComp:
		v.Set(reflect.ValueOf(enc.NewStringComponent(enc.TypeGenericNameComponent, "c")))
		return
	case t == tDuration:
		v.SetInt(int64(1500 * time.Millisecond))
		return
	}
	switch t.Kind() {
	case reflect.Uint8, reflect.Uint16, reflect.Uint32, reflect.Uint64, reflect.Uint:
		v.SetUint(uint64(3 + depth))
	case reflect.Int, reflect.Int64, reflect.Int32:
		v.SetInt(int64(3 + depth))
	case reflect.Bool:
		v.SetBool(true)
	case reflect.String:
		v.SetString("str")
	case reflect.Ptr:
		if !max && depth > 0 {
			return
		}
		if depth > 5 {
			return
		}
		p := reflect.New(t.Elem())
		fill(p.Elem(), max, depth+1)
		v.Set(p)
	case reflect.Struct:
		for i := 0; i < t.NumField(); i++ {
			if f := v.Field(i); f.CanSet() {
				fill(f, max, depth+1)
			}
		}
	case reflect.Slice:
		if t.Elem().Kind() == reflect.Uint8 {
			v.SetBytes([]byte{0xaa, 0xbb})
			return
		}
		if !max || depth > 5 {
			return
		}
		s := reflect.MakeSlice(t, 2, 2)
		for i := 0; i < 2; i++ {
			fill(s.Index(i), max, depth+1)
		}
		v.Set(s)
	case reflect.Map:
		if !max || depth > 5 {
			return
		}
		m := reflect.MakeMap(t)
		for i := 0; i < 2; i++ {
			k := reflect.New(t.Key()).Elem()
			fill(k, max, depth+1)
			if k.Kind() == reflect.String {
				k.SetString(fmt.Sprintf("k%d", i))
			} else if k.CanUint() {
				k.SetUint(uint64(i + 1))
			}
			e := reflect.New(t.Elem()).Elem()
			fill(e, true, depth+1)
			m.SetMapIndex(k, e)
		}
		v.Set(m)
	}
}

type fixedSigner struct{ interest bool }

func (s fixedSigner) SigInfo() (*ndn.SigConfig, error) {
	c := &ndn.SigConfig{Type: ndn.SignatureDigestSha256}
	if s.interest {
		c.Nonce = []byte{1, 2, 3, 4, 5, 6, 7, 8}
		c.SigTime = utils.IdPtr(time.UnixMilli(1700000000000))
		c.SeqNum = utils.IdPtr(uint64(9))
	}
	return c, nil
}
func (fixedSigner) EstimateSize() uint { return 32 }
func (fixedSigner) ComputeSigValue(covered enc.Wire) ([]byte, error) {
	h := sha256.New()
	for _, b := range covered {
		h.Write(b)
	}
	return h.Sum(nil), nil
}

func genIndex(dir, model string) int {
	for i, g := range generated {
		if g.Dir == dir && g.Model == model {
			return i
		}
	}
	return -1
}

func tryEncode(g genEntry, max bool) (out []byte, err error) {
	defer func() {
		if r := recover(); r != nil {
			err = fmt.Errorf("encoder panicked: %v", r)
		}
	}()
	v := g.New()
	fill(reflect.ValueOf(v).Elem(), max, 0)
	return g.Encode(v), nil
}

func accepts(g genEntry, b []byte) (ok bool) {
	defer func() {
		if r := recover(); r != nil {
			ok = false
		}
	}()
	return g.Parse(enc.NewBufferReader(append([]byte{}, b...)), false) == nil
}

// Packet-level seed bytes (valid by construction, checked with ReadPacket).
var (
	seedInterestMin, seedInterestMax, seedDataMin, seedDataMax []byte
)

func buildSeeds() {
	seeds = nil
	seedNotes = nil
	note := func(f string, a ...any) { seedNotes = append(seedNotes, fmt.Sprintf(f, a...)) }
	sp := spec.Spec{}
	pktIdx := genIndex("std/ndn/spec_2022", "Packet")
	addPkt := func(name string, b []byte) {
		if _, _, err := spec.ReadPacket(enc.NewBufferReader(append([]byte{}, b...))); err != nil {
			note("packet seed %s rejected by ReadPacket: %v", name, err)
			return
		}
		seeds = append(seeds, seed{name: name, own: pktIdx, packet: true, data: b})
	}
	i1, err := sp.MakeInterest(mkName("/a/bc"), &ndn.InterestConfig{Lifetime: utils.IdPtr(4 * time.Second)}, nil, nil)
	if err != nil {
		panic(err)
	}
	seedInterestMin = i1.Wire.Join()
	addPkt("Interest(min)", seedInterestMin)
	i2, err := sp.MakeInterest(mkName("/a/bc/d"), &ndn.InterestConfig{CanBePrefix: true, MustBeFresh: true,
		ForwardingHint: []enc.Name{mkName("/h/1"), mkName("/h2")}, Nonce: utils.IdPtr[uint64](0x01020304),
		Lifetime: utils.IdPtr(10 * time.Millisecond), HopLimit: utils.IdPtr[uint](5)},
		enc.Wire{[]byte{0xde, 0xad, 0xbe, 0xef}}, fixedSigner{interest: true})
	if err != nil {
		panic(err)
	}
	seedInterestMax = i2.Wire.Join()
	addPkt("Interest(max,signed,params)", seedInterestMax)
	d1, err := sp.MakeData(mkName("/a/bc"), &ndn.DataConfig{}, nil, fixedSigner{})
	if err != nil {
		panic(err)
	}
	seedDataMin = d1.Wire.Join()
	addPkt("Data(min,sha256)", seedDataMin)
	fb := enc.NewSegmentComponent(3)
	d2, err := sp.MakeData(mkName("/a/bc/d"), &ndn.DataConfig{ContentType: utils.IdPtr(ndn.ContentTypeBlob),
		Freshness: utils.IdPtr(2 * time.Second), FinalBlockID: &fb}, enc.Wire{[]byte("content!")}, fixedSigner{})
	if err != nil {
		panic(err)
	}
	seedDataMax = d2.Wire.Join()
	addPkt("Data(max,sha256)", seedDataMax)
	if pktIdx >= 0 {
		lp := func(name string, l *spec.LpPacket) {
			b, err := func() (b []byte, err error) {
				defer func() {
					if r := recover(); r != nil {
						err = fmt.Errorf("%v", r)
					}
				}()
				return generated[pktIdx].Encode(&spec.Packet{LpPacket: l}), nil
			}()
			if err != nil {
				note("LpPacket seed %s: %v", name, err)
				return
			}
			addPkt(name, b)
		}
		lp("LpPacket(bare Interest)", &spec.LpPacket{Fragment: enc.Wire{seedInterestMin}})
		lp("LpPacket(all headers, Data)", &spec.LpPacket{Sequence: utils.IdPtr[uint64](7), FragIndex: utils.IdPtr[uint64](0), FragCount: utils.IdPtr[uint64](1),
			PitToken: []byte{0, 1, 0, 0, 0, 9}, Nack: &spec.NetworkNack{Reason: 50}, IncomingFaceId: utils.IdPtr[uint64](3), NextHopFaceId: utils.IdPtr[uint64](4),
			CachePolicy: &spec.CachePolicy{CachePolicyType: 1}, CongestionMark: utils.IdPtr[uint64](1), Fragment: enc.Wire{seedDataMin}})
		lp("LpPacket(fragment 1/2)", &spec.LpPacket{Sequence: utils.IdPtr[uint64](11), FragIndex: utils.IdPtr[uint64](1), FragCount: utils.IdPtr[uint64](2),
			Fragment: enc.Wire{seedInterestMin[len(seedInterestMin)/2:]}})
	}
	// LpPackets whose fragment is itself an LpPacket, or a well-formed TLV that is neither Interest nor Data
	addPkt("LpPacket(LpPacket(empty fragment))", lpWrap(lpInnerEmpty))
	addPkt("LpPacket(LpPacket(Interest))", lpWrap(lpWrap(seedInterestMin)))
	addPkt("LpPacket(LpPacket(LpPacket(empty fragment)))", lpWrap(lpWrap(lpInnerEmpty)))
	addPkt("LpPacket(Name TLV)", lpWrap(lpNameTLV))
	addPkt("LpPacket(ControlParameters TLV)", lpWrap(lpCtrlTLV))
	addPkt("LpPacket(block 0x50)", lpWrap(lpBlock50))
	// empty names (raw: the decoder may reject them, they are still seeds)
	raw := func(name string, b []byte) {
		seeds = append(seeds, seed{name: name, own: pktIdx, packet: true, data: b})
	}
	raw("Interest(empty Name)", []byte{0x05, 0x02, 0x07, 0x00})
	raw("Interest(empty Name, parameters)", []byte{0x05, 0x05, 0x07, 0x00, 0x24, 0x01, 0x00})
	raw("Interest(empty Name, lifetime, parameters, signature)", []byte{0x05, 0x12, 0x07, 0x00, 0x0c, 0x01, 0x0a, 0x24, 0x01, 0x00, 0x2c, 0x03, 0x1b, 0x01, 0x00, 0x2e, 0x02, 0x61, 0x62})
	raw("Data(empty Name)", []byte{0x06, 0x02, 0x07, 0x00})
	raw("Data(empty Name, content, signature)", []byte{0x06, 0x0f, 0x07, 0x00, 0x15, 0x02, 0x61, 0x62, 0x16, 0x03, 0x1b, 0x01, 0x00, 0x17, 0x02, 0x61, 0x62})
	// generic model seeds
	for gi, g := range generated {
		for _, max := range []bool{true, false} {
			b, err := tryEncode(g, max)
			kind := "min"
			if max {
				kind = "max"
			}
			if err != nil {
				note("%s.%s(%s): %v", g.Dir, g.Model, kind, err)
				continue
			}
			if len(b) == 0 {
				continue
			}
			if !accepts(g, b) {
				note("%s.%s(%s): own parser rejects the encoder's output (not used as a seed)", g.Dir, g.Model, kind)
				continue
			}
			dup := false
			for _, s := range seeds {
				if s.own == gi && string(s.data) == string(b) {
					dup = true
				}
			}
			if !dup {
				seeds = append(seeds, seed{name: g.Dir + "." + g.Model + "(" + kind + ")", own: gi, data: b})
			}
		}
	}
}
