package main

// Streams that bring readTlvStream's fixed receive buffer (32 maximum-size packets) to exactly
// full, with an incomplete TLV of 8799/8800 bytes pending at the end of the buffer.

import (
	"fmt"

	"github.com/named-data/ndnd/fw/defn"
)

const streamCap = defn.MaxNDNPacketSize * 32

// tlvOfSize returns a TLV (type 0x06) whose total encoded size is exactly n (n >= 2; lengths 251..252 use a non-minimal 3-byte length, which the decoder accepts).
func tlvOfSize(n int) []byte {
	var hdr []byte
	switch {
	case n-2 <= 0xfc:
		hdr = []byte{0x06, byte(n - 2)}
	case n-4 <= 0xffff:
		hdr = append([]byte{0x06}, encVar(uint64(n-4), 3)...)
	default:
		hdr = append([]byte{0x06}, encVar(uint64(n-6), 5)...)
	}
	out := make([]byte, n)
	copy(out, hdr)
	return out
}

type sfCase struct {
	tile, rem, declared int
}

func streamFullCases() []sfCase {
	var cs []sfCase
	for _, tile := range []int{0, 8800, 100} { // 0: one single frame fills the space before the remainder
		for _, rem := range []int{8799, 8800} {
			for _, decl := range []int{8801, 12000} {
				cs = append(cs, sfCase{tile, rem, decl})
			}
		}
	}
	return cs
}

func streamFullBytes(c sfCase) []byte {
	space := streamCap - c.rem
	var out []byte
	if c.tile == 0 {
		out = append(out, tlvOfSize(space)...)
	} else {
		for space > 0 {
			n := c.tile
			if space-n < 2 {
				n = space
			}
			out = append(out, tlvOfSize(n)...)
			space -= n
		}
	}
	out = append(out, tlvOfSize(c.declared)...) // only c.rem bytes of it fit in the first buffer-sized read
	out = append(out, tlvOfSize(40)...)
	return out
}

func streamFullFamily() *family {
	cs := streamFullCases()
	f := &family{name: "stream filling the receive buffer exactly", size: int64(len(cs))}
	f.get = func(i int64, buf []byte) []byte { return streamFullBytes(cs[i]) }
	f.desc = func(i int64) string {
		c := cs[i]
		return fmt.Sprintf("stream: frames of %d bytes (0 = one frame) filling %d bytes, then a frame declaring %d bytes of which %d fit in the receive buffer", c.tile, streamCap-c.rem, c.declared, c.rem)
	}
	f.groups = []group{{0, f.size, entriesWith(func(e *entry) bool {
		return e.name == "face.readTlvStream/whole" || e.name == "face.readTlvStream+linkservice/whole" || e.name == "face.readTlvStream/halves"
	}), "stream framing"}}
	return f
}
