package main

// The table of decoder / receive-path entry points. Every entry is a function from a byte string
// to an outcome signature; it must neither panic, nor allocate out of proportion, nor hang.

import (
	"bufio"
	"bytes"
	"errors"
	"io"
	"net"
	"time"

	"github.com/named-data/ndnd/fw/core"
	"github.com/named-data/ndnd/fw/defn"
	"github.com/named-data/ndnd/fw/dispatch"
	fwface "github.com/named-data/ndnd/fw/face"
	"github.com/named-data/ndnd/fw/fw"
	enc "github.com/named-data/ndnd/std/encoding"
	stdface "github.com/named-data/ndnd/std/engine/face"
	spec "github.com/named-data/ndnd/std/ndn/spec_2022"
)

type genEntry struct {
	Dir, Model string
	Parse      func(r enc.ParseReader, ic bool) error
	New        func() any
	Encode     func(v any) []byte
}

var generated []genEntry
var generatedFrom string

// entry tags: which input families an entry is run on.
const (
	tagCore   = 1 << iota // run on the large string families
	tagExtra              // additional reader segmentations: small families and mutants only
	tagHeavy              // fixed per-call cost (stream buffers, link service): small families, mutants
	tagPacket             // consumes packet-level seeds' mutants
	tagWide               // one variant per decoder (contiguous reader): run on the largest string family
	tagB3                 // the byte-level decoders that are run on every 3-byte string in the quick tier
	tagLong               // entries of the long-stream family only (streamlong.go): never part of "all entries"
)

type entry struct {
	name  string
	tags  int
	own   int // index into generated, or -1
	run   func(b []byte) uint32
	slack func(n int) uint64 // allocation made by the HARNESS side of this entry for an input of n bytes (upper bound)
	cal   bool
	fixed uint64 // input-independent allocation of the code under test (calibrated on the empty input)
}

// ---- outcome signatures (cheap, no string formatting) ----

const (
	sigOK = iota
	sigEOF
	sigUnexpEOF
	sigFailToParse
	sigUnrecognized
	sigSkipRequired
	sigBufferOverflow
	sigFormat
	sigIncorrectDigest
	sigOther
)

func errKind(err error) uint32 {
	switch e := err.(type) {
	case nil:
		return sigOK
	case enc.ErrFailToParse:
		return sigFailToParse | (uint32(e.TypeNum)&0xffff)<<8 | (errKind(e.Err)&0xf)<<24
	case enc.ErrUnrecognizedField:
		return sigUnrecognized | (uint32(e.TypeNum)&0xffff)<<8
	case enc.ErrSkipRequired:
		return sigSkipRequired | (uint32(e.TypeNum)&0xffff)<<8
	case enc.ErrFormat:
		return sigFormat
	}
	switch err {
	case io.EOF:
		return sigEOF
	case io.ErrUnexpectedEOF:
		return sigUnexpEOF
	case enc.ErrBufferOverflow:
		return sigBufferOverflow
	case enc.ErrIncorrectDigest:
		return sigIncorrectDigest
	}
	return sigOther
}

var sigNames = []string{"ok", "EOF", "UnexpectedEOF", "FailToParse", "UnrecognizedField", "SkipRequired", "BufferOverflow", "Format", "IncorrectDigest", "other"}

// ---- reader variants ----

type segm struct {
	name  string
	tags  int
	mk    func(b []byte) enc.ParseReader
	slack func(n int) uint64
}

func wireOf(b []byte, cuts ...int) enc.Wire {
	w := make(enc.Wire, 0, len(cuts)+1)
	prev := 0
	for _, c := range cuts {
		w = append(w, b[prev:c])
		prev = c
	}
	return append(w, b[prev:])
}

var segms = []segm{
	{"buf", tagCore, func(b []byte) enc.ParseReader { return enc.NewBufferReader(b) }, func(n int) uint64 { return 64 }},
	{"wire:each", tagCore, func(b []byte) enc.ParseReader {
		w := make(enc.Wire, len(b))
		for i := range b {
			w[i] = b[i : i+1]
		}
		return enc.NewWireReader(w)
	}, func(n int) uint64 { return uint64(40*n) + 256 }},
	{"wire:half", tagCore, func(b []byte) enc.ParseReader {
		if len(b) < 2 {
			return enc.NewWireReader(enc.Wire{b})
		}
		return enc.NewWireReader(wireOf(b, len(b)/2))
	}, func(n int) uint64 { return 256 }},
	{"wire:one", tagExtra, func(b []byte) enc.ParseReader { return enc.NewWireReader(enc.Wire{b}) }, func(n int) uint64 { return 256 }},
	{"wire:3", tagExtra, func(b []byte) enc.ParseReader {
		if len(b) < 3 {
			return enc.NewWireReader(enc.Wire{b})
		}
		return enc.NewWireReader(wireOf(b, 1, len(b)-1))
	}, func(n int) uint64 { return 256 }},
	{"wire:emptyTail", tagExtra, func(b []byte) enc.ParseReader { return enc.NewWireReader(enc.Wire{b, b[len(b):]}) }, func(n int) uint64 { return 256 }},
	{"wire:emptyMid", tagExtra, func(b []byte) enc.ParseReader {
		h := len(b) / 2
		return enc.NewWireReader(enc.Wire{b[:h], b[h:h], b[h:]})
	}, func(n int) uint64 { return 256 }},
}

// ---- recording forwarding threads ----

type recThread struct {
	id        int
	interests []*defn.Pkt
	datas     []*defn.Pkt
}

func (t *recThread) String() string            { return "rec" }
func (t *recThread) QueueData(p *defn.Pkt)     { t.datas = append(t.datas, p) }
func (t *recThread) QueueInterest(p *defn.Pkt) { t.interests = append(t.interests, p) }
func (t *recThread) GetNumPitEntries() int     { return 0 }
func (t *recThread) GetNumCsEntries() int      { return 0 }

var recThreads []*recThread

// setThreads installs n recording forwarding threads (dispatch table and the thread count that
// name hashing uses).
func setThreads(n int) {
	if len(recThreads) == n {
		for _, t := range recThreads {
			t.interests, t.datas = t.interests[:0], t.datas[:0]
		}
		return
	}
	recThreads = make([]*recThread, n)
	ths := make([]dispatch.FWThread, n)
	for i := range recThreads {
		recThreads[i] = &recThread{id: i}
		ths[i] = recThreads[i]
	}
	dispatch.InitializeFWThreads(ths)
	fw.Threads = make([]*fw.Thread, n)
}

func queued() (n int) {
	for _, t := range recThreads {
		n += len(t.interests) + len(t.datas)
	}
	return
}

// ---- scripted connections ----

type chunkReader struct {
	data  []byte
	chunk func(off, remaining int) int
	off   int
	empty int
}

func (c *chunkReader) Read(p []byte) (int, error) {
	if len(p) == 0 {
		// A reader must return 0, nil for an empty buffer (as net.Conn does). A caller that keeps
		// doing this without consuming anything can never make progress: livelock.
		c.empty++
		if c.empty > 100000 {
			panic(spinViolation{msg: "stream framing calls Read with an empty buffer forever (receive buffer full, nothing consumed)"})
		}
		return 0, nil
	}
	c.empty = 0
	if c.off >= len(c.data) {
		return 0, io.EOF
	}
	n := c.chunk(c.off, len(c.data)-c.off)
	if n > len(p) {
		n = len(p)
	}
	copy(p, c.data[c.off:c.off+n])
	c.off += n
	return n, nil
}

type scriptConn struct{ chunkReader }

func (c *scriptConn) Write(b []byte) (int, error)        { return len(b), nil }
func (c *scriptConn) Close() error                       { return nil }
func (c *scriptConn) LocalAddr() net.Addr                { return nil }
func (c *scriptConn) RemoteAddr() net.Addr               { return nil }
func (c *scriptConn) SetDeadline(t time.Time) error      { return nil }
func (c *scriptConn) SetReadDeadline(t time.Time) error  { return nil }
func (c *scriptConn) SetWriteDeadline(t time.Time) error { return nil }

var chunkings = []struct {
	name string
	f    func(total int) func(off, rem int) int
}{
	{"whole", func(total int) func(off, rem int) int { return func(off, rem int) int { return rem } }},
	{"bytewise", func(total int) func(off, rem int) int { return func(off, rem int) int { return 1 } }},
	{"halves", func(total int) func(off, rem int) int {
		return func(off, rem int) int {
			if h := total / 2; off < h {
				return h - off
			}
			return rem
		}
	}},
}

// A stream is cut into frames and every frame is handed to a consumer (link service / packet
// decoder) whose input-independent cost (packet object, parsing context, error value) is paid once
// per FRAME, however small the frame: on the stream entries that include a consumer the allocation
// bound is therefore 64 bytes per input byte + perFrameAlloc per delivered frame. (Without it a
// long stream of 2-byte blocks - 150 000 frames in 300 kB - is charged to the framing code.)
const perFrameAlloc = 1024

var lastFrames int // frames the last stream entry call delivered

// noProgress: stream framing that hands out more frames than the stream has bytes is delivering
// frames without consuming input (an empty frame leaves every offset unchanged, so the same
// frame is produced again and again): a livelock, reported without waiting for the watchdog.
func noProgress(frames, frameLen, streamLen int) {
	if frames > streamLen+1 {
		panic(spinViolation{msg: "stream framing delivers frames forever without consuming input"})
	}
}

// ---- link service driver ----

var lsInst = map[string]*fwface.NDNLPLinkService{}
var lsPristine = map[string]string{}

func lsGet(key string, local bool) *fwface.NDNLPLinkService {
	l := lsInst[key]
	if l == nil {
		l = fwface.VerifC04NewLinkService(7, local, 8800)
		lsInst[key] = l
		if _, ok := lsPristine[key]; !ok {
			s, _ := fwface.VerifC04Dump(l)
			lsPristine[key] = s
		}
	}
	return l
}

type stateViolation struct{ key, msg string }

type pktT = defn.Pkt

func resetAfterPanic() {
	lsInst = map[string]*fwface.NDNLPLinkService{}
	recThreads = nil
}

// runLS feeds one frame to a link service with pristine receive state and checks C04.state for
// frames whose outer decoding fails (the harness decodes the frame independently).
func runLS(key string, local bool, nThreads int, b []byte) uint32 {
	setThreads(nThreads)
	l := lsGet(key, local)
	fwface.VerifC04Handle(l, b)
	q := queued()
	if q > 0 {
		for _, t := range recThreads {
			for _, p := range t.interests {
				sweepPacket(p.L3)
			}
			for _, p := range t.datas {
				sweepPacket(p.L3)
			}
		}
	}
	st, _ := fwface.VerifC04DumpCheap(l)
	var sig uint32
	if q > 0 {
		sig = 1
	}
	if !st {
		sig |= 2
		delete(lsInst, key) // state changed (a fragment was stored): next frame gets a fresh instance
	}
	if q > 0 || !st {
		// the frame had an effect: then it must decode. The harness' own decode of the outer frame:
		p, _, err := spec.ReadPacket(enc.NewBufferReader(append([]byte{}, b...)))
		if err != nil {
			full, _ := fwface.VerifC04Dump(l)
			panic(stateViolation{msg: "frame that does not decode (" + err.Error() + ") changed state: queued=" + itoa(q) + " state=" + full})
		}
		if why := lpInvalidFragmentation(p); why != "" {
			full, _ := fwface.VerifC04Dump(l)
			panic(stateViolation{key: "LP frame with invalid fragmentation fields is not dropped cleanly (reassembly state or dispatch changed)",
				msg: why + ", yet queued=" + itoa(q) + " state=" + full})
		}
	}
	return sig
}

func itoa(i int) string {
	var b [20]byte
	p := len(b)
	neg := i < 0
	if neg {
		i = -i
	}
	for {
		p--
		b[p] = byte('0' + i%10)
		i /= 10
		if i == 0 {
			break
		}
	}
	if neg {
		p--
		b[p] = '-'
	}
	return string(b[p:])
}

// ---- the table ----

var entries []entry

func buildEntries() {
	core.VerifC04Silence()
	entries = nil
	add := func(e entry) {
		if e.slack == nil {
			e.slack = func(int) uint64 { return 64 }
		}
		entries = append(entries, e)
	}
	// (1) every generated parser, every reader variant, both ignoreCritical settings
	for gi := range generated {
		g := generated[gi]
		gi := gi
		for _, s := range segms {
			for _, ic := range []bool{false, true} {
				s, ic := s, ic
				tags := s.tags
				if s.name == "wire:half" && !ic || s.name == "wire:each" && ic {
					tags = tagExtra // keep the big families at four variants per parser
				}
				if s.name == "buf" && !ic {
					tags |= tagWide
				}
				nm := g.Dir + "." + g.Model + "/" + s.name
				if ic {
					nm += "/ic"
				}
				add(entry{name: nm, tags: tags, own: gi, slack: s.slack,
					run: func(b []byte) uint32 { return errKind(g.Parse(s.mk(b), ic)) }})
			}
		}
	}
	// (2) hand-listed decoders
	for _, s := range segms {
		s := s
		wide := 0
		if s.name == "buf" {
			wide = tagWide | tagB3
		}
		add(entry{name: "spec.ReadPacket/" + s.name, tags: s.tags | tagPacket | wide, own: -1, slack: s.slack,
			run: func(b []byte) uint32 {
				p, _, err := spec.ReadPacket(s.mk(b))
				if err == nil {
					sweepPacket(p)
				}
				return errKind(err)
			}})
		if s.name == "buf" || s.name == "wire:each" {
			add(entry{name: "spec.Spec.ReadInterest/" + s.name, tags: s.tags | tagPacket, own: -1, slack: s.slack,
				run: func(b []byte) uint32 {
					i, _, err := spec.Spec{}.ReadInterest(s.mk(b))
					if err == nil {
						sweep(i, 0)
					}
					return errKind(err)
				}})
			add(entry{name: "spec.Spec.ReadData/" + s.name, tags: s.tags | tagPacket, own: -1, slack: s.slack,
				run: func(b []byte) uint32 {
					d, _, err := spec.Spec{}.ReadData(s.mk(b))
					if err == nil {
						sweep(d, 0)
					}
					return errKind(err)
				}})
			add(entry{name: "enc.ReadName/" + s.name, tags: s.tags, own: -1, slack: s.slack,
				run: func(b []byte) uint32 { _, err := enc.ReadName(s.mk(b)); return errKind(err) }})
			add(entry{name: "enc.ReadComponent/" + s.name, tags: s.tags, own: -1, slack: s.slack,
				run: func(b []byte) uint32 { _, err := enc.ReadComponent(s.mk(b)); return errKind(err) }})
			add(entry{name: "enc.ReadTLNum/" + s.name, tags: s.tags | wide, own: -1, slack: s.slack,
				run: func(b []byte) uint32 { _, err := enc.ReadTLNum(s.mk(b)); return errKind(err) }})
		}
	}
	add(entry{name: "enc.NameFromBytes", tags: tagCore | tagWide | tagB3, own: -1,
		run: func(b []byte) uint32 { _, err := enc.NameFromBytes(b); return errKind(err) }})
	add(entry{name: "enc.ComponentFromBytes", tags: tagCore | tagWide | tagB3, own: -1,
		run: func(b []byte) uint32 { _, err := enc.ComponentFromBytes(b); return errKind(err) }})
	add(entry{name: "enc.ParseNat", tags: tagCore | tagB3, own: -1,
		run: func(b []byte) uint32 { _, _, err := enc.ParseNat(b); return errKind(err) }})
	add(entry{name: "enc.ReadTLNum/bufio", tags: tagCore, own: -1, slack: func(int) uint64 { return 4096 + 256 },
		run: func(b []byte) uint32 {
			_, err := enc.ReadTLNum(bufio.NewReader(bytes.NewReader(b)))
			return errKind(err)
		}})
	// (3) stream framing (forwarder side) under three chunkings, frames handed to a link service
	for _, ch := range chunkings {
		ch := ch
		add(entry{name: "face.readTlvStream/" + ch.name, tags: tagHeavy | tagPacket, own: -1, slack: func(int) uint64 { return 512 },
			run: func(b []byte) uint32 {
				frames := 0
				err := fwface.VerifC04ReadTlvStream(&chunkReader{data: b, chunk: ch.f(len(b))}, func(f []byte) { frames++; noProgress(frames, len(f), len(b)) })
				if err != nil {
					return sigOther | uint32(frames)<<8
				}
				return sigOK | uint32(frames)<<8
			}})
		add(entry{name: "face.readTlvStream+linkservice/" + ch.name, tags: tagHeavy | tagPacket, own: -1, slack: func(int) uint64 { return 16384 + uint64(lastFrames)*perFrameAlloc },
			run: func(b []byte) uint32 {
				setThreads(2)
				l := fwface.VerifC04NewLinkService(7, false, 8800)
				frames := 0
				defer func() { lastFrames = frames }()
				err := fwface.VerifC04ReadTlvStream(&chunkReader{data: b, chunk: ch.f(len(b))}, func(f []byte) { frames++; noProgress(frames, len(f), len(b)); fwface.VerifC04Handle(l, f) })
				if err != nil {
					return sigOther | uint32(queued())<<8
				}
				return sigOK | uint32(queued())<<8
			}})
		// client side stream face (std engine)
		add(entry{name: "engine.StreamFace.Run/" + ch.name, tags: tagHeavy | tagPacket, own: -1, slack: func(int) uint64 { return 4096 + 1024 + uint64(lastFrames)*perFrameAlloc },
			run: func(b []byte) uint32 {
				pk := 0
				defer func() { lastFrames = pk }()
				stdface.VerifC04RunStream(&scriptConn{chunkReader{data: b, chunk: ch.f(len(b))}},
					func(r enc.ParseReader) error {
						pk++
						noProgress(pk, r.Length(), len(b))
						spec.ReadPacket(r)
						return nil
					},
					func(err error) error {
						if err == nil {
							return errors.New("nil")
						}
						return err
					})
				return sigOK | uint32(pk)<<8
			}})
	}
	// (4) link service receive path, single frames
	for _, v := range []struct {
		name  string
		local bool
		n     int
	}{{"nonlocal/2thr", false, 2}, {"local/2thr", true, 2}, {"nonlocal/1thr", false, 1}} {
		v := v
		add(entry{name: "face.NDNLPLinkService.handleIncomingFrame/" + v.name, tags: tagHeavy | tagPacket, own: -1, slack: func(n int) uint64 { return 1024 },
			run: func(b []byte) uint32 { return runLS(v.name, v.local, v.n, b) }})
	}
	// (5) stream framing on long streams (streamlong.go)
	addStreamLongEntries(add)
}
