package main

// Stream framing over LONG streams.
//
// "Never spins" and "returns a value or an error" are statements about the whole receive loop,
// and the loop's failure mode is not visible on short inputs: whatever readTlvStream cannot
// interpret it keeps in its fixed receive buffer (32 maximum-size packets) "until more bytes
// arrive". If a TLV header at a frame boundary is neither consumed nor answered with an error,
// the follow-up traffic fills the buffer, Read is then called with an empty slice (a net.Conn
// answers (0, nil) at once) and the receive goroutine spins. So every header class is followed
// here by MORE than a buffer of further traffic:
//
//   head     = one TLV header at a frame boundary: TLV-TYPE in {0, 5, 100, 252, 253, 65535, 65536,
//              2^32-1, 2^32, 2^64-1} x every encoding width that can hold it (1/3/5/9 bytes: the
//              non-minimal forms included), TLV-LENGTH in {0, 1, 2, 252, 253, the largest value
//              whose block still is a maximum-size packet, that + 1, 8800, 8801, 65535, 65536,
//              2^31, 2^32-1, 2^32, 2^63, 2^64-1} x every width; followed by that many value bytes
//              when the block fits a packet
//   prelude  = nothing | 1000-byte blocks so that the head starts on the LAST byte of the first
//              buffer-sized read (its header straddles the end of the receive buffer)
//   follow   = more than 32+2 maximum packets worth of: 1000-byte blocks | valid Interests |
//              maximum-size (8800-byte) blocks | 2-byte blocks
//   reads    = as large as the buffer allows | 4000 bytes | 1 byte (reduced head set)
//
// Oracle (nothing beyond the property text): the call returns (frames or an error); the scripted
// reader reports a loop that keeps calling Read with an empty buffer (C04.spin, no watchdog
// needed: the state of the loop repeats exactly), frames are never handed out without input being
// consumed, no panic, allocation in proportion to the stream.

import (
	"fmt"

	fwface "github.com/named-data/ndnd/fw/face"
	enc "github.com/named-data/ndnd/std/encoding"
	stdface "github.com/named-data/ndnd/std/engine/face"
)

type slHead struct {
	tv uint64
	tw int
	lv uint64
	lw int
}

func (h slHead) bytes() []byte {
	b := append(encVar(h.tv, h.tw), encVar(h.lv, h.lw)...)
	if h.lv <= 8801 {
		for i := uint64(0); i < h.lv; i++ {
			b = append(b, 0x41)
		}
	}
	return b
}

func (h slHead) String() string {
	nm := func(v uint64, w int) string {
		s := fmt.Sprintf("%d in %d byte(s)", v, w)
		if w != minWidth(v) {
			s += " (non-minimal)"
		}
		return s
	}
	return "TLV-TYPE " + nm(h.tv, h.tw) + ", TLV-LENGTH " + nm(h.lv, h.lw)
}

var slWidths = []int{1, 3, 5, 9}

func slHeads(full bool) (heads []slHead, core []int) {
	type ve struct {
		v uint64
		w int
	}
	var types, lens []ve
	tvals := []uint64{5, 0, 100, 252, 253, 65535, 65536, 1<<32 - 1, 1 << 32, 1<<64 - 1}
	for _, v := range tvals {
		for _, w := range slWidths {
			if !fitsWidth(v, w) {
				continue
			}
			if !full && w != minWidth(v) && v != 5 && !(v == 253 && w == 5) && !(v == 65536 && w == 9) {
				continue // quick: every width for type 5, one non-minimal form of each wider class
			}
			if !full && (v == 100 || v == 252 || v == 65535 || v == 1<<32-1) {
				continue
			}
			types = append(types, ve{v, w})
		}
	}
	lvals := []uint64{2, 0, 1, 252, 253, 8800, 8801, 65535, 65536, 1 << 31, 1<<32 - 1, 1 << 32, 1 << 63, 1<<64 - 1}
	for _, v := range lvals {
		for _, w := range slWidths {
			if !fitsWidth(v, w) {
				continue
			}
			if !full && w != minWidth(v) && v != 2 && v != 0 && !(v == 253 && w == 5) && !(v == 65536 && w == 9) {
				continue
			}
			if !full && (v == 1 || v == 65535 || v == 1<<31 || v == 1<<32-1) {
				continue
			}
			lens = append(lens, ve{v, w})
		}
	}
	for _, t := range types {
		for _, l := range lens {
			if t.v == 5 && l.v == 2 { // the width classes alone: 16 heads, also read bytewise
				core = append(core, len(heads))
			}
			heads = append(heads, slHead{t.v, t.w, l.v, l.w})
		}
		// block of exactly the maximum packet size, and one byte more, for this header width
		for _, lw := range []int{3, 5} {
			if !full && lw == 5 && t.w != 1 {
				continue
			}
			fit := uint64(8800 - t.w - lw)
			heads = append(heads, slHead{t.v, t.w, fit, lw}, slHead{t.v, t.w, fit + 1, lw})
		}
	}
	return
}

var slFollowNames = []string{"1000-byte blocks", "valid Interests", "maximum-size (8800-byte) blocks", "2-byte blocks"}
var slPreludeNames = []string{"at the start of the stream", "starting on the last byte of the first buffer-sized read"}

// slBlock: a TLV (type 0x06) of exactly n bytes in total (n >= 4) whose value is filled with 0xfe:
// framing code that lost synchronisation and reads a header inside the value sees type and length
// 0xfefefefe and must give up at once (the streams stay cheap on code that desynchronises, e.g.
// the value-derived header length after a non-minimal header).
func slBlock(n int) []byte {
	b := tlvOfSize(n)
	h := 2
	if b[1] == 0xfd {
		h = 4
	} else if b[1] == 0xfe {
		h = 6
	}
	for i := h; i < n; i++ {
		b[i] = 0xfe
	}
	return b
}

// slTile appends blocks of `size` bytes until at least n bytes were added (exactly n if exact).
func slTile(out []byte, n int, size int, exact bool) []byte {
	blk := slBlock(size)
	for n > 0 {
		if exact && (n < size || (n-size < 4 && n != size)) {
			out = append(out, slBlock(n)...)
			return out
		}
		out = append(out, blk...)
		n -= size
	}
	return out
}

type slCase struct {
	head    slHead
	prelude int
	follow  int
}

func (c slCase) bytes() []byte {
	out := make([]byte, 0, 2*streamCap+4*8800)
	if c.prelude == 1 {
		out = slTile(out, streamCap-1, 1000, true)
	}
	out = append(out, c.head.bytes()...)
	need := streamCap + 2*8800
	switch c.follow {
	case 0:
		out = slTile(out, need, 1000, false)
	case 1:
		for n := 0; n < need; n += len(seedInterestMin) {
			out = append(out, seedInterestMin...)
		}
	case 2:
		out = slTile(out, need, 8800, false)
	default:
		for n := 0; n < need; n += 2 {
			out = append(out, 0x05, 0x00)
		}
	}
	return out
}

func (c slCase) String() string {
	return fmt.Sprintf("stream: %s, %s, followed by %d+ bytes of %s", c.head, slPreludeNames[c.prelude], streamCap+2*8800, slFollowNames[c.follow])
}

// entries used by this family only (tagLong keeps them out of the other families): the framing
// loops alone, frames are counted and dropped.
func addStreamLongEntries(add func(e entry)) {
	chunk4000 := func(off, rem int) int {
		if rem > 4000 {
			return 4000
		}
		return rem
	}
	add(entry{name: "face.readTlvStream/chunk4000", tags: tagHeavy | tagLong, own: -1, slack: func(int) uint64 { return 512 },
		run: func(b []byte) uint32 {
			frames := 0
			err := fwface.VerifC04ReadTlvStream(&chunkReader{data: b, chunk: chunk4000}, func(f []byte) { frames++; noProgress(frames, len(f), len(b)) })
			return slSig(err, frames)
		}})
	for _, v := range []struct {
		name  string
		chunk func(off, rem int) int
	}{{"chunk4000", chunk4000}, {"bytewise", func(off, rem int) int { return 1 }}} {
		v := v
		add(entry{name: "engine.StreamFace.Run(framing only)/" + v.name, tags: tagHeavy | tagLong, own: -1, slack: func(int) uint64 { return 4096 + 1024 },
			run: func(b []byte) uint32 {
				pk := 0
				stdface.VerifC04RunStream(&scriptConn{chunkReader{data: b, chunk: v.chunk}},
					func(r enc.ParseReader) error {
						pk++
						noProgress(pk, r.Length(), len(b))
						return nil
					},
					func(err error) error {
						if err == nil {
							return errNil
						}
						return err
					})
				return slSig(nil, pk)
			}})
	}
}

var errNil = fmt.Errorf("nil")

// slSig: outcome class of a long stream = error or not x number of frames in classes {0, 1, 2..32, more}.
func slSig(err error, frames int) uint32 {
	cls := uint32(3)
	switch {
	case frames == 0:
		cls = 0
	case frames == 1:
		cls = 1
	case frames <= 32:
		cls = 2
	}
	if err != nil {
		return sigOther | cls<<8
	}
	return sigOK | cls<<8
}

func streamLongFamily(thorough bool) *family {
	heads, core := slHeads(thorough)
	var cases []slCase
	f := &family{name: "stream framing: every TLV header form at a frame boundary followed by more than a receive buffer of traffic", perTask: 24}
	named := func(names ...string) []int {
		return entriesWith(func(e *entry) bool {
			for _, n := range names {
				if e.name == n {
					return true
				}
			}
			return false
		})
	}
	section := func(label string, ents []int, gen func()) {
		lo := int64(len(cases))
		gen()
		f.groups = append(f.groups, group{lo, int64(len(cases)), ents, label})
	}
	// one head per class: every width of type and of length on their own, every other value once
	var classes []int
	for i, h := range heads {
		if (h.tv == 5 && h.tw == 1) || (h.lv == 2 && h.lw == 1) || (h.tv == 5 && h.lv == 2) {
			classes = append(classes, i)
		}
	}
	section("all heads, both positions, 1000-byte blocks as follow-up",
		named("face.readTlvStream/whole", "face.readTlvStream/chunk4000", "face.readTlvStream+linkservice/whole", "engine.StreamFace.Run(framing only)/chunk4000"), func() {
			for _, h := range heads {
				for p := 0; p < 2; p++ {
					cases = append(cases, slCase{h, p, 0})
				}
			}
		})
	section("all heads, maximum-size blocks as follow-up",
		named("face.readTlvStream/whole", "face.readTlvStream/chunk4000"), func() {
			for _, h := range heads {
				cases = append(cases, slCase{h, 0, 2})
				if thorough {
					cases = append(cases, slCase{h, 1, 2})
				}
			}
		})
	section("one head per class, valid Interests as follow-up, frames handed to a link service",
		named("face.readTlvStream/whole", "face.readTlvStream+linkservice/whole", "face.readTlvStream+linkservice/halves"), func() {
			hs := classes
			if thorough {
				hs = nil
				for i := range heads {
					hs = append(hs, i)
				}
			}
			for _, hi := range hs {
				cases = append(cases, slCase{heads[hi], 0, 1})
				if thorough {
					cases = append(cases, slCase{heads[hi], 1, 1})
				}
			}
		})
	section("width classes of the header, bytewise reads and 2-byte blocks as follow-up",
		named("face.readTlvStream/whole", "face.readTlvStream/chunk4000", "face.readTlvStream/bytewise", "engine.StreamFace.Run(framing only)/bytewise"), func() {
			hs := core
			if thorough {
				hs = classes
			}
			for _, hi := range hs {
				cases = append(cases, slCase{heads[hi], 0, 0}, slCase{heads[hi], 0, 3})
				if thorough {
					cases = append(cases, slCase{heads[hi], 1, 3})
				}
			}
		})
	f.size = int64(len(cases))
	f.get = func(i int64, buf []byte) []byte { return cases[i].bytes() }
	f.desc = func(i int64) string { return cases[i].String() }
	return f
}
