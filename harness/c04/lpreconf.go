package main

// Run-time reconfiguration interleaved with frames: a face's link service is not only fed frames,
// the management thread also calls its setters while it is live (faces/update -> SetOptions,
// SetMTU). The receive path must survive every byte sequence in EVERY configuration history, so
// this family enumerates ALL histories of length 1..L over one small alphabet that mixes
//
//   * reconfiguration events: SetOptions with reassembly / fragmentation / the local fields
//     (consumer-controlled forwarding, incoming-face indication, local cache policy) / congestion
//     marking TOGGLED (two such events = "off and on again"), SetOptions with the options the link
//     service already has (what faces/update does when only a threshold changes), the MTU toggled
//     between the default and the minimum; and
//   * frames: the fragments of a two-fragment packet, the first fragment of a three-fragment
//     packet, a one-fragment packet with a Sequence (bypasses reassembly), an LpPacket carrying
//     every local field + PIT token + congestion mark, a bare Interest, a frame that does not
//     decode, a frame with contradictory fragmentation fields.
//
// The prefix of a history is replayed without checks (it is a shorter history of the same family
// and was checked there); the LAST event is applied with every check of the single-frame
// family: C04.panic, C04.mem for the handler alone, C04.state (before = the dump taken right
// before the frame, i.e. after the reconfigurations). A reconfiguration call is not part of the
// receive path: a panic inside a setter is counted (coverage "setter_panics") and ends the
// history, it is not reported under C04.

import (
	"fmt"
	"os"

	fwface "github.com/named-data/ndnd/fw/face"
	enc "github.com/named-data/ndnd/std/encoding"
	spec "github.com/named-data/ndnd/std/ndn/spec_2022"
)

var reconfEvents = []string{
	"SetOptions(reassembly toggled)",
	"SetOptions(fragmentation toggled)",
	"SetOptions(local fields toggled)",
	"SetOptions(congestion marking toggled)",
	"SetOptions(same options)",
	"SetMTU(toggled 8800<->128)",
	"Lp{Seq=1000 FragIndex=0 FragCount=2 Fragment=Interest[:half]}",
	"Lp{Seq=1001 FragIndex=1 FragCount=2 Fragment=Interest[half:]}",
	"Lp{Seq=2000 FragIndex=0 FragCount=3 Fragment=Interest[:third]}",
	"Lp{Seq=3000 FragIndex=0 FragCount=1 Fragment=Interest}",
	"Lp{PitToken NextHopFaceId CachePolicy CongestionMark IncomingFaceId Fragment=Data}",
	"Frame{bare Interest}",
	"Frame{undecodable: bare Interest cut one byte short}",
	"Lp{Seq=11 FragIndex=1 FragCount=- Fragment=Interest[:half]}",
	"Frame{two top-level TLVs: bare Interest + Lp{IDLE}}",
	"Frame{two top-level TLVs: bare Data + Lp{Seq=1001 FragIndex=1 FragCount=2 Fragment=Interest[half:]}}",
}

const reconfSetters = 6 // events [0,reconfSetters) are setter calls, the rest frames

// reconfDepth: quick enumerates every history of up to 4 events (69 904 per configuration, 2
// threads on a non-local and a local face), thorough every history of up to 5 events (1 118 480 per
// configuration, all six thread-count / scope configurations).
func reconfDepth() int {
	if v := os.Getenv("VERIF_C04_RECONF_DEPTH"); v != "" { // development aid
		var d int
		fmt.Sscan(v, &d)
		return d
	}
	if os.Getenv("VERIF_TIER") == "thorough" {
		return 5
	}
	return 4
}

// reconfSize: number of histories of length 1..depth.
func reconfSize() int64 {
	n, p := int64(0), int64(1)
	for d := 1; d <= reconfDepth(); d++ {
		p *= int64(len(reconfEvents))
		n += p
	}
	return n
}

// reconfDecode: history number i (shorter histories first, then odometer order).
func reconfDecode(i int64) []int {
	A := int64(len(reconfEvents))
	p := A
	d := 1
	for i >= p {
		i -= p
		p *= A
		d++
	}
	h := make([]int, d)
	for k := d - 1; k >= 0; k-- {
		h[k] = int(i % A)
		i /= A
	}
	return h
}

func reconfDescribe(h []int) string {
	s := ""
	for i, e := range h {
		if i > 0 {
			s += " ; "
		}
		s += reconfEvents[e]
	}
	return s
}

var reconfFrameCache = map[int][][]byte{}

func reconfFrame(n, e int) []byte {
	c := reconfFrameCache[n]
	if c == nil {
		c = make([][]byte, len(reconfEvents))
		reconfFrameCache[n] = c
	}
	if c[e] != nil {
		return c[e]
	}
	half := len(seedInterestMin) / 2
	var b []byte
	switch e {
	case 6:
		b = lpMk(1000, 0, 2, seedInterestMin[:half])
	case 7:
		b = lpMk(1001, 1, 2, seedInterestMin[half:])
	case 8:
		b = lpMk(2000, 0, 3, burstPiece(0, 3))
	case 9:
		b = lpMk(3000, 0, 1, seedInterestMin)
	case 10:
		if lpPktIdx == -2 {
			lpPktIdx = genIndex("std/ndn/spec_2022", "Packet")
		}
		tok := make([]byte, 6)
		tok[1] = byte(n - 1)
		tok[5] = 1
		nh, inc, cm := uint64(9), uint64(7), uint64(1)
		b = generated[lpPktIdx].Encode(&spec.Packet{LpPacket: &spec.LpPacket{PitToken: tok, NextHopFaceId: &nh, IncomingFaceId: &inc,
			CachePolicy: &spec.CachePolicy{CachePolicyType: 1}, CongestionMark: &cm, Fragment: enc.Wire{seedDataMin}}})
	case 11:
		b = seedInterestMin
	case 12:
		b = seedInterestMin[:len(seedInterestMin)-1]
	case 13:
		if lpPktIdx == -2 {
			lpPktIdx = genIndex("std/ndn/spec_2022", "Packet")
		}
		seq, fi := uint64(11), uint64(1)
		b = generated[lpPktIdx].Encode(&spec.Packet{LpPacket: &spec.LpPacket{Sequence: &seq, FragIndex: &fi, Fragment: enc.Wire{seedInterestMin[:half]}}})
	case 14: // one frame, two top-level TLVs (a transport that delivers whole messages does not split them)
		b = append(append([]byte{}, seedInterestMin...), 0x64, 0x00)
	case 15:
		b = append(append([]byte{}, seedDataMin...), lpMk(1001, 1, 2, seedInterestMin[half:])...)
	}
	c[e] = b
	return b
}

// reconfSet applies setter event e; returns false if the setter panicked.
func reconfSet(l *fwface.NDNLPLinkService, e int) (ok bool) {
	defer func() {
		if recover() != nil {
			ok = false
		}
	}()
	o := l.Options()
	switch e {
	case 0:
		o.IsReassemblyEnabled = !o.IsReassemblyEnabled
		l.SetOptions(o)
	case 1:
		o.IsFragmentationEnabled = !o.IsFragmentationEnabled
		l.SetOptions(o)
	case 2:
		v := !o.IsConsumerControlledForwardingEnabled
		o.IsConsumerControlledForwardingEnabled, o.IsIncomingFaceIndicationEnabled, o.IsLocalCachePolicyEnabled = v, v, v
		l.SetOptions(o)
	case 3:
		o.IsCongestionMarkingEnabled = !o.IsCongestionMarkingEnabled
		l.SetOptions(o)
	case 4:
		l.SetOptions(o)
	case 5:
		if l.MTU() == 8800 {
			l.SetMTU(128)
		} else {
			l.SetMTU(8800)
		}
	}
	return true
}

// runLpReconf: t.N = configuration, histories [Lo,Hi).
func runLpReconf(t task, a *acc) {
	cfg := lpConfigs[t.N]
	skip := skipSet(t)
	setterPanics := int64(0)
	for i := t.Lo; i < t.Hi; i++ {
		if skip != nil && skip[[2]int64{i, int64(-1 - t.N)}] {
			continue
		}
		h := reconfDecode(i)
		mark(t.ID, i, -1-t.N)
		l := lpNewService(t.N)
		okPre := true
		for _, e := range h[:len(h)-1] {
			if e < reconfSetters {
				if !reconfSet(l, e) {
					okPre = false
					break
				}
				continue
			}
			func() {
				defer func() {
					if recover() != nil {
						okPre = false
					}
				}()
				frame := reconfFrame(cfg.n, e)
				fwface.VerifC04Handle(l, lpRx.load(frame))
				lpRx.settle(frame)
			}()
			if !okPre {
				break
			}
		}
		a.res.Cases++
		if !okPre {
			// a shorter history of this family already ends in that panic (reported there)
			resetAfterPanic()
			continue
		}
		last := h[len(h)-1]
		if last < reconfSetters {
			if !reconfSet(l, last) {
				setterPanics++
				resetAfterPanic()
			}
			continue // no C04 oracle on a setter call itself
		}
		frame := reconfFrame(cfg.n, last)
		r := lpApply(l, frame, true, "")
		a.res.Evals++
		if r.alloc > a.res.MaxAlloc {
			a.res.MaxAlloc = r.alloc
		}
		out := uint64(0)
		if r.v != nil {
			v := r.v
			k := v.Clause + "|" + v.Key
			a.seenKey[k]++
			if a.seenKey[k] == 1 {
				if v.rec != nil {
					v.Detail = fmt.Sprintf("panic: %v at %s", v.rec, v.Detail)
					v.rec = nil
				}
				v.NeedAt = false
				if v.Clause == "C04.mem" {
					v.Key = "unbounded allocation handling one frame after run-time reconfiguration"
				}
				v.Entry = fmt.Sprintf("face.NDNLPLinkService.handleIncomingFrame/reconf n=%d local=%v", cfg.n, cfg.local)
				v.EntryI, v.Family, v.Index, v.Cfg = -1-t.N, -3, i, t.N
				v.Case = reconfDescribe(h)
				v.Hist = nil // event numbers of this family's alphabet: the shortest history is the one reported
				for _, e := range h {
					v.Hist = append(v.Hist, int64(e))
				}
				v.Input, v.Len = inputHex(frame), len(frame)
				a.res.Viol = append(a.res.Viol, *v)
			}
			if v.Clause == "C04.panic" {
				resetAfterPanic()
			}
			a.kinds[len(sigNames)]++
			out = 3
		} else if r.q > 0 {
			out = 1
		} else if r.state != "" {
			if pr, _ := fwface.VerifC04DumpCheap(l); !pr {
				out = 2
			}
		}
		// distinct outcome classes: (configuration of the options after the history, last frame, outcome)
		o := l.Options()
		ob := uint64(0)
		for bi, f := range []bool{o.IsReassemblyEnabled, o.IsFragmentationEnabled, o.IsConsumerControlledForwardingEnabled, o.IsCongestionMarkingEnabled, l.MTU() == 128} {
			if f {
				ob |= 1 << uint(bi)
			}
		}
		a.distinct[uint64(0xf200+t.N)<<32|ob<<16|uint64(last)<<8|out] = struct{}{}
		a.res.Sigs[[]string{"lp:dropped", "lp:dispatched", "lp:stored", "lp:violation"}[out]]++
		if a.samples < 1 && t.Lo == 0 && len(h) == 4 && h[0] == 6 && h[1] == 0 && h[2] == 0 && r.q > 0 {
			a.res.Samples = append(a.res.Samples, fmt.Sprintf("reconfiguration history n=%d local=%v %s -> queued=%d state=%q", cfg.n, cfg.local, reconfDescribe(h), r.q, r.state))
			a.samples++
		}
	}
	if a.res.Extra == nil {
		a.res.Extra = map[string]any{}
	}
	a.res.Extra["setter_panics"] = setterPanics
}
