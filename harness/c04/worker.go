package main

// Worker process: runs under `ulimit -v`, receives tasks (family, index range, group) as JSON
// lines on stdin, evaluates every (entry, case) pair with panic recovery and exact allocation
// accounting, and answers one JSON line per task. A shared-memory progress marker tells the
// parent which (case, entry) was running if the process dies or hangs.

import (
	"bufio"
	"encoding/hex"
	"encoding/json"
	"fmt"
	"os"
	"regexp"
	"runtime"
	"runtime/debug"
	"runtime/pprof"
	"sort"
	"strings"
	"sync/atomic"
	"syscall"
	"unsafe"
)

const memConst = 64 << 10 // C04.mem: allocation per call <= 64*len + 64 KiB (+ the entry's input-independent cost)
const memPerByte = 64

type task struct {
	ID      int64      `json:"id"`
	Kind    string     `json:"kind"` // "enum" | "attr" | "lpseq" | "describe"
	Family  int        `json:"family"`
	Group   int        `json:"group"`
	Lo      int64      `json:"lo"`
	Hi      int64      `json:"hi"`
	Only    int        `json:"only"`              // >=0: run only this entry index
	Careful bool       `json:"careful,omitempty"` // measure every call on its own and collect garbage after big allocations
	Input   string     `json:"input,omitempty"`   // attr: explicit input bytes (hex)
	Skip    [][2]int64 `json:"skip,omitempty"`    // (case index, entry index) pairs known to kill the worker
	// lpseq
	Prefix [][]int `json:"prefix,omitempty"`
	Hist   []int64 `json:"hist,omitempty"` // lphist: frame history (full frame space), checks on the last frame
	N      int     `json:"n,omitempty"`
}

type violation struct {
	Clause string  `json:"clause"`
	Key    string  `json:"key"`
	Detail string  `json:"detail"`
	Entry  string  `json:"entry"`
	EntryI int     `json:"entry_i"`
	Family int     `json:"family"`
	Index  int64   `json:"index"`
	Case   string  `json:"case"`
	Input  string  `json:"input_hex"`
	Len    int     `json:"len"`
	Alloc  uint64  `json:"alloc,omitempty"`
	Hist   []int64 `json:"hist,omitempty"` // link-service histories: frame indices (full frame space)
	Cfg    int     `json:"cfg,omitempty"`
	NeedAt bool    `json:"need_attr,omitempty"` // mem violation whose allocation site is still to be attributed
	rec    any
}

type result struct {
	ID       int64             `json:"id"`
	Evals    int64             `json:"evals"`
	Cases    int64             `json:"cases"`
	Skipped  int64             `json:"skipped"`
	Viol     []violation       `json:"viol,omitempty"`
	Sigs     map[string]int64  `json:"sigs,omitempty"`     // outcome kind -> count
	Distinct []uint64          `json:"distinct,omitempty"` // (entry, signature) pairs seen
	Samples  []string          `json:"samples,omitempty"`
	MaxAlloc uint64            `json:"max_alloc"`
	Extra    map[string]any    `json:"extra,omitempty"`
	States   []lpState         `json:"states,omitempty"`
	Describe *describeResponse `json:"describe,omitempty"`
}

type describeResponse struct {
	Generated int       `json:"generated"`
	From      string    `json:"from"`
	Entries   []string  `json:"entries"`
	EntryTags []int     `json:"entry_tags"`
	Families  []famDesc `json:"families"`
	Seeds     []string  `json:"seeds"`
	SeedNotes []string  `json:"seed_notes"`
	LpFrames  int       `json:"lp_frames"`
	Fixed     [][]any   `json:"fixed_alloc_over_4k"`
	Accessors []string  `json:"accessors"`
}

type famDesc struct {
	Name    string  `json:"name"`
	Size    int64   `json:"size"`
	Groups  []group `json:"groups"`
	PerTask int64   `json:"per_task,omitempty"`
}

// ---- progress marker ----

var marker []uint64 // [0]=task id, [1]=case index, [2]=entry index, [3]=heartbeat

func openMarker(path string) {
	if path == "" {
		marker = make([]uint64, 8)
		return
	}
	f, err := os.OpenFile(path, os.O_RDWR, 0o644)
	if err != nil {
		fmt.Fprintln(os.Stderr, "marker:", err)
		os.Exit(3)
	}
	m, err := syscall.Mmap(int(f.Fd()), 0, 64, syscall.PROT_READ|syscall.PROT_WRITE, syscall.MAP_SHARED)
	if err != nil {
		fmt.Fprintln(os.Stderr, "mmap:", err)
		os.Exit(3)
	}
	marker = unsafe.Slice((*uint64)(unsafe.Pointer(&m[0])), 8)
}

func mark(taskID, idx int64, entry int) {
	atomic.StoreUint64(&marker[0], uint64(taskID))
	atomic.StoreUint64(&marker[1], uint64(idx))
	atomic.StoreUint64(&marker[2], uint64(entry))
	atomic.AddUint64(&marker[3], 1)
}

// ---- classification of panics and stacks ----

type spinViolation struct{ msg string }

var reDigits = regexp.MustCompile(`\[[^\]]*\]|0x[0-9a-f]+|\d+`)
var reField = regexp.MustCompile(`\b(value|context|encoder)\.\w+`)
var reHandled = regexp.MustCompile(`handled_\w+`)

func panicClass(r any) string {
	s := fmt.Sprint(r)
	if e, ok := r.(error); ok {
		s = e.Error()
	}
	s = strings.TrimPrefix(s, "runtime error: ")
	s = reDigits.ReplaceAllString(s, "")
	s = strings.Join(strings.Fields(s), " ")
	if i := strings.Index(s, " with "); i > 0 {
		s = s[:i]
	}
	if len(s) > 80 {
		s = s[:80]
	}
	return strings.TrimSpace(s)
}

var srcCache = map[string][]string{}

func srcLine(file string, line int) string {
	ls, ok := srcCache[file]
	if !ok {
		b, err := os.ReadFile(file)
		if err == nil {
			ls = strings.Split(string(b), "\n")
		}
		srcCache[file] = ls
	}
	if line-1 < 0 || line-1 >= len(ls) {
		return ""
	}
	return strings.TrimSpace(ls[line-1])
}

const modPrefix = "github.com/named-data/ndnd/"

// siteOf turns (function, file, line) of a repository frame into a root-cause level site string.
func siteOf(fn, file string, line int) string {
	short := strings.TrimPrefix(fn, modPrefix)
	if strings.HasSuffix(file, "zz_generated.go") {
		src := srcLine(file, line)
		src = reField.ReplaceAllString(src, "$1.F")
		src = reHandled.ReplaceAllString(src, "handled_F")
		return "generated parser: " + src
	}
	// drop closure suffixes
	if i := strings.Index(short, ".func"); i > 0 {
		short = short[:i]
	}
	return short
}

func isRepoFrame(fn string) bool {
	return strings.HasPrefix(fn, modPrefix) && !strings.Contains(fn, "VerifC04")
}

// isPrimitive: tiny helpers that only fail because of what their caller passed in; the caller is
// the root cause and is made part of the site.
func isPrimitive(fn string) bool {
	return strings.Contains(fn, "/std/encoding.TLNum.") || strings.Contains(fn, "/std/encoding.Nat.") || strings.HasSuffix(fn, "/std/encoding.ParseTLNum") || strings.HasSuffix(fn, "/std/encoding.ParseComponent")
}

func siteFromPCs(pcs []uintptr) (site, where string) {
	fr := runtime.CallersFrames(pcs)
	for {
		f, more := fr.Next()
		if isRepoFrame(f.Function) {
			if site == "" {
				site, where = siteOf(f.Function, f.File, f.Line), fmt.Sprintf("%s:%d", f.File, f.Line)
				if !isPrimitive(f.Function) {
					return
				}
			} else {
				site, where = site+" <- "+siteOf(f.Function, f.File, f.Line), where+" <- "+fmt.Sprintf("%s:%d", f.File, f.Line)
				if !isPrimitive(f.Function) {
					return
				}
			}
		}
		if !more {
			break
		}
	}
	return
}

var reTraceFn = regexp.MustCompile(`^(github\.com/named-data/ndnd/[^\s(]+(?:\(\*?\w+\))?[^\s(]*)\(`)
var reTraceLoc = regexp.MustCompile(`^\s+(\S+\.go):(\d+)`)

// siteFromTrace finds the innermost repository frame in a Go crash traceback (stderr of a dead
// worker).
func siteFromTrace(trace string) (site, where string) {
	lines := strings.Split(trace, "\n")
	for i := 0; i+1 < len(lines); i++ {
		l := lines[i]
		if !strings.HasPrefix(l, modPrefix) || strings.Contains(l, "VerifC04") {
			continue
		}
		fn := l
		if k := strings.LastIndex(fn, "("); k > 0 {
			fn = fn[:k]
		}
		if m := reTraceLoc.FindStringSubmatch(lines[i+1]); m != nil {
			var ln int
			fmt.Sscan(m[2], &ln)
			if site == "" {
				site, where = siteOf(fn, m[1], ln), m[1]+":"+m[2]
				if !isPrimitive(fn) {
					return
				}
			} else {
				site, where = site+" <- "+siteOf(fn, m[1], ln), where+" <- "+m[1]+":"+m[2]
				if !isPrimitive(fn) {
					return
				}
			}
		}
	}
	return
}

// ---- evaluation ----

type callOutcome struct {
	sig    uint32
	viol   *violation
	killed bool
}

// panic sites are cached by the program counters of the panicking stack: on the unfixed tree
// some entries panic on most inputs, and symbolising every stack would dominate the run time.
type panicSite struct{ key, where string }

var panicCache = map[[6]uintptr]*panicSite{}

func panicViolation(r any, e *entry, skip int) *violation {
	var pcs [48]uintptr
	n := runtime.Callers(skip, pcs[:])
	var ck [6]uintptr
	copy(ck[:], pcs[:n])
	ps := panicCache[ck]
	if ps == nil {
		site, where := siteFromPCs(pcs[:n])
		if site == "" {
			site = "(no repository frame) " + entryKindOf(e)
		}
		ps = &panicSite{key: "panic " + panicClass(r) + " @ " + site, where: where}
		panicCache[ck] = ps
	}
	return &violation{Clause: "C04.panic", Key: ps.key, Detail: ps.where, rec: r}
}

func entryKindOf(e *entry) string {
	if e == nil {
		return "link service"
	}
	if i := strings.Index(e.name, "/"); i > 0 {
		return e.name[:i]
	}
	return e.name
}

// call runs one entry on one input, converting panics into violations.
func call(e *entry, b []byte) (sig uint32, v *violation) {
	defer func() {
		if r := recover(); r != nil {
			switch x := r.(type) {
			case stateViolation:
				k := x.key
				if k == "" {
					k = "undecodable frame changed link-service/dispatch state"
				}
				v = &violation{Clause: "C04.state", Key: k, Detail: x.msg}
			case spinViolation:
				v = &violation{Clause: "C04.spin", Key: x.msg, Detail: x.msg}
			default:
				v = panicViolation(r, e, 3)
			}
			resetAfterPanic()
			sig = 0xffffffff
		}
	}()
	return e.run(b), nil
}

var ms0, ms1 runtime.MemStats

func totalAlloc() uint64 {
	runtime.ReadMemStats(&ms0)
	return ms0.TotalAlloc
}

func allowance(e *entry, n int) uint64 {
	return uint64(memPerByte*n) + memConst + e.fixed + e.slack(n)
}

// preciseAlloc measures the allocation of a single call (minimum over reps runs).
func preciseAlloc(e *entry, b []byte, reps int) (uint64, *violation) {
	best := ^uint64(0)
	for r := 0; r < reps; r++ {
		in := append([]byte{}, b...)
		a0 := totalAlloc()
		_, v := call(e, in)
		a1 := totalAlloc()
		if v != nil {
			return 0, v
		}
		if d := a1 - a0; d < best {
			best = d
		}
		if best > 16<<20 {
			runtime.GC()
			debug.FreeOSMemory()
		}
	}
	return best, nil
}

// ensureCal measures the input-independent allocation of an entry (on the empty input), once.
func ensureCal(e *entry) {
	if e.cal {
		return
	}
	e.cal = true
	func() {
		defer func() { recover() }()
		e.run(nil) // warm-up (lazy initialisations)
	}()
	a, v := preciseAlloc(e, nil, 3)
	if v == nil {
		e.fixed = a
	}
}

func skipSet(t task) map[[2]int64]bool {
	if len(t.Skip) == 0 {
		return nil
	}
	m := map[[2]int64]bool{}
	for _, s := range t.Skip {
		m[s] = true
	}
	return m
}

type acc struct {
	trivial   int64
	kinds     [16]int64
	lastEntry int
	lastSig   uint32
	trips     int64
	precise   int64
	res       result
	distinct  map[uint64]struct{}
	perEntry  map[int]int // violations kept per entry+clause
	seenKey   map[string]int
	samples   int
}

func newAcc(id int64) *acc {
	return &acc{res: result{ID: id, Sigs: map[string]int64{}}, distinct: map[uint64]struct{}{}, perEntry: map[int]int{}, seenKey: map[string]int{}}
}

func inputHex(b []byte) string {
	if len(b) > 600 {
		return hex.EncodeToString(b[:300]) + "…" + hex.EncodeToString(b[len(b)-100:])
	}
	return hex.EncodeToString(b)
}

func (a *acc) addViol(v *violation, e *entry, ei int, fam int, idx int64, b []byte) {
	k := v.Clause + "|" + v.Key
	if v.NeedAt {
		// keep a few per entry (distinct size classes) for attribution
		k = fmt.Sprintf("%s|%d|%d", v.Clause, ei, bitsLen(v.Alloc))
	}
	a.seenKey[k]++
	if a.seenKey[k] > 1 {
		return
	}
	if v.rec != nil {
		v.Detail = fmt.Sprintf("panic: %v at %s", v.rec, v.Detail)
		v.rec = nil
	}
	v.Entry, v.EntryI, v.Family, v.Index, v.Len = e.name, ei, fam, idx, len(b)
	v.Input = inputHex(b)
	v.Case = families[fam].desc(idx)
	a.res.Viol = append(a.res.Viol, *v)
}

func bitsLen(x uint64) int {
	n := 0
	for x > 0 {
		n++
		x >>= 1
	}
	return n
}

func (a *acc) note(ei int, sig uint32) {
	kind := sig & 0xff
	if sig == 0xffffffff || int(kind) >= len(sigNames) {
		kind = uint32(len(sigNames))
	}
	a.kinds[kind]++
	if kind == sigEOF || (kind == sigFailToParse && (sig>>8)&0xffff == 0) {
		a.trivial++
	}
	if ei == a.lastEntry && sig == a.lastSig {
		return
	}
	a.lastEntry, a.lastSig = ei, sig
	a.distinct[uint64(ei)<<32|uint64(sig)] = struct{}{}
}

func (a *acc) flushKinds() {
	for k, n := range a.kinds {
		if n == 0 {
			continue
		}
		nm := "panic"
		if k < len(sigNames) {
			nm = sigNames[k]
		}
		a.res.Sigs[nm] += n
	}
}

// checkRange re-measures cases[lo:hi) of one entry after a chunk exceeded the screening threshold:
// by bisection (calls are deterministic, so re-running is harmless) down to single calls, which
// are then judged against their own allowance.
func (a *acc) checkRange(t task, e *entry, ei int, cases [][]byte, skip map[[2]int64]bool, lo, hi int) {
	if hi-lo <= 2 {
		for i := lo; i < hi; i++ {
			if cases[i] == nil || (skip != nil && skip[[2]int64{t.Lo + int64(i), int64(ei)}]) {
				continue
			}
			mark(t.ID, t.Lo+int64(i), ei)
			a.precise++
			d, v := preciseAlloc(e, cases[i], 2)
			if v != nil {
				continue // already reported as a panic
			}
			if d > a.res.MaxAlloc {
				a.res.MaxAlloc = d
			}
			if d > allowance(e, len(cases[i])) {
				a.addViol(&violation{Clause: "C04.mem", Key: "unbounded allocation (site pending)", NeedAt: true, Alloc: d,
					Detail: fmt.Sprintf("one call allocated %d bytes for a %d-byte input (allowance %d)", d, len(cases[i]), allowance(e, len(cases[i])))},
					e, ei, t.Family, t.Lo+int64(i), cases[i])
			}
		}
		return
	}
	mid := (lo + hi) / 2
	for _, r := range [][2]int{{lo, mid}, {mid, hi}} {
		ins := make([][]byte, r[1]-r[0])
		for i := r[0]; i < r[1]; i++ {
			if cases[i] != nil && !(skip != nil && skip[[2]int64{t.Lo + int64(i), int64(ei)}]) {
				ins[i-r[0]] = append(make([]byte, 0, len(cases[i])), cases[i]...)
			}
		}
		a0 := totalAlloc()
		for i := r[0]; i < r[1]; i++ {
			if ins[i-r[0]] == nil {
				continue
			}
			mark(t.ID, t.Lo+int64(i), ei)
			call(e, ins[i-r[0]])
		}
		runtime.ReadMemStats(&ms1)
		d := ms1.TotalAlloc - a0
		if d > uint64(memConst)+uint64(r[1]-r[0])*e.fixed {
			a.checkRange(t, e, ei, cases, skip, r[0], r[1])
		}
		if d > 16<<20 {
			runtime.GC()
			debug.FreeOSMemory()
		}
	}
}

// runEnum evaluates entries x cases for one task (entry-major, allocation measured per chunk and
// re-measured per call when a chunk exceeds the smallest per-call allowance).
func runEnum(t task, a *acc) {
	fam := families[t.Family]
	g := fam.groups[t.Group]
	ents := g.Entries
	if t.Only >= 0 {
		ents = []int{t.Only}
	}
	// materialise the cases of this task once
	n := int(t.Hi - t.Lo)
	cases := make([][]byte, n)
	for i := 0; i < n; i++ {
		c := fam.get(t.Lo+int64(i), nil)
		if c == nil {
			a.res.Skipped++
			continue
		}
		cases[i] = append(make([]byte, 0, len(c)), c...)
		if cases[i] == nil {
			cases[i] = []byte{}
		}
	}
	a.res.Cases += int64(n) - a.res.Skipped
	scratch := make([][]byte, 0, 1024)
	var slab []byte
	skip := skipSet(t)
	for _, ei := range ents {
		e := &entries[ei]
		ensureCal(e)
		K := 32
		if e.fixed > 16<<10 || e.tags&tagHeavy != 0 || t.Careful {
			K = 1
		}
		for lo := 0; lo < n; {
			hi := lo + K
			if hi > n {
				hi = n
			}
			// private copies (a decoder may legitimately keep or patch its input), carved from one slab
			scratch = scratch[:0]
			need := 0
			for i := lo; i < hi; i++ {
				need += len(cases[i])
			}
			if cap(slab) < need {
				slab = make([]byte, need*2)
			}
			off := 0
			for i := lo; i < hi; i++ {
				if cases[i] == nil {
					scratch = append(scratch, nil)
					continue
				}
				n := len(cases[i])
				copy(slab[off:off+n], cases[i])
				scratch = append(scratch, slab[off:off+n:off+n])
				off += n
			}
			a0 := totalAlloc()
			bad := false
			for i := lo; i < hi; i++ {
				in := scratch[i-lo]
				if in == nil || (skip != nil && skip[[2]int64{t.Lo + int64(i), int64(ei)}]) {
					continue
				}
				mark(t.ID, t.Lo+int64(i), ei)
				sig, v := call(e, in)
				a.res.Evals++
				a.note(ei, sig)
				if v != nil {
					a.addViol(v, e, ei, t.Family, t.Lo+int64(i), cases[i])
					bad = true
				}
			}
			runtime.ReadMemStats(&ms1)
			delta := ms1.TotalAlloc - a0
			cnt := uint64(hi - lo)
			if delta > a.res.MaxAlloc && cnt == 1 {
				a.res.MaxAlloc = delta
			}
			thr := uint64(memConst) + cnt*e.fixed
			if cnt == 1 && cases[lo] != nil {
				// a single call measured on its own: below its own allowance there is nothing to re-measure
				if al := allowance(e, len(cases[lo])); al > thr {
					thr = al
				}
			}
			if delta > thr && !bad || (bad && delta > thr+1<<20) {
				a.trips++
				a.checkRange(t, e, ei, cases, skip, lo, hi)
				if K > 8 {
					K /= 2
				}
			} else if delta < thr/4 && K > 1 && K < 512 && delta <= 16<<20 {
				K *= 2
			}
			if delta > 16<<20 {
				runtime.GC()
				debug.FreeOSMemory()
				K = 1 // this entry turns lengths into allocations: one call per measurement from here on
			}
			lo = hi
		}
		if a.samples < 6 && n > 0 {
			// a written-out sample: last case of the task on this entry
			for i := n - 1; i >= 0; i-- {
				if cases[i] != nil && !(skip != nil && skip[[2]int64{t.Lo + int64(i), int64(ei)}]) {
					sig, _ := call(e, append([]byte{}, cases[i]...))
					a.res.Samples = append(a.res.Samples, fmt.Sprintf("%s(%s) -> %s", e.name, inputHex(cases[i]), sigString(sig)))
					a.samples++
					break
				}
			}
		}
	}
}

func sigString(sig uint32) string {
	if sig == 0xffffffff {
		return "panic"
	}
	k := sig & 0xff
	s := "?"
	if int(k) < len(sigNames) {
		s = sigNames[k]
	}
	if sig>>8 != 0 {
		s += fmt.Sprintf("[%#x]", sig>>8)
	}
	return s
}

// runAttr finds the allocation site of a memory violation: the single call is repeated with the
// heap profiler sampling every allocation (the worker is started with GODEBUG=memprofilerate=1).
func runAttr(t task, a *acc) {
	var c []byte
	if t.Input != "" {
		c, _ = hex.DecodeString(t.Input)
		t.Family = 0
	} else {
		c = families[t.Family].get(t.Lo, nil)
	}
	e := &entries[t.Only]
	ensureCal(e)
	mark(t.ID, t.Lo, t.Only)
	d, v := preciseAlloc(e, c, 2)
	if v != nil {
		a.addViol(v, e, t.Only, t.Family, t.Lo, c)
		return
	}
	if d <= allowance(e, len(c)) {
		a.res.Extra = map[string]any{"not_reproduced": true, "alloc": d}
		return
	}
	prof := func() map[[32]uintptr]int64 {
		runtime.GC()
		runtime.GC()
		var recs []runtime.MemProfileRecord
		nrec, _ := runtime.MemProfile(nil, true)
		for {
			recs = make([]runtime.MemProfileRecord, nrec+64)
			var ok bool
			nrec, ok = runtime.MemProfile(recs, true)
			if ok {
				recs = recs[:nrec]
				break
			}
		}
		m := map[[32]uintptr]int64{}
		for _, r := range recs {
			m[r.Stack0] += r.AllocBytes
		}
		return m
	}
	before := prof()
	call(e, append([]byte{}, c...))
	after := prof()
	type kv struct {
		st [32]uintptr
		d  int64
	}
	var ds []kv
	for st, v := range after {
		if dd := v - before[st]; dd > 0 {
			ds = append(ds, kv{st, dd})
		}
	}
	sort.Slice(ds, func(i, j int) bool { return ds[i].d > ds[j].d })
	site, where, bytes := "", "", int64(0)
	for _, x := range ds {
		n := 0
		for n < len(x.st) && x.st[n] != 0 {
			n++
		}
		if s, w := siteFromPCs(x.st[:n]); s != "" {
			site, where, bytes = s, w, x.d
			break
		}
	}
	if site == "" {
		site = "(site not found) " + e.name
	}
	a.addViol(&violation{Clause: "C04.mem", Key: "unbounded allocation @ " + site, Alloc: d,
		Detail: fmt.Sprintf("one call allocated %d bytes for a %d-byte input (allowance %d); largest allocation site: %s (%d bytes)", d, len(c), allowance(e, len(c)), where, bytes)},
		e, t.Only, t.Family, t.Lo, c)
}

func describe() *describeResponse {
	d := &describeResponse{Generated: len(generated), From: generatedFrom, SeedNotes: seedNotes, LpFrames: len(lpAlphabet), Accessors: sweptAccessors()}
	for i := range entries {
		ensureCal(&entries[i])
		d.Entries = append(d.Entries, entries[i].name)
		d.EntryTags = append(d.EntryTags, entries[i].tags)
		if entries[i].fixed > 4096 {
			d.Fixed = append(d.Fixed, []any{entries[i].name, entries[i].fixed})
		}
	}
	for _, f := range families {
		d.Families = append(d.Families, famDesc{Name: f.name, Size: f.size, Groups: f.groups, PerTask: f.perTask})
	}
	for _, s := range seeds {
		d.Seeds = append(d.Seeds, fmt.Sprintf("%s [%d bytes] %s", s.name, len(s.data), inputHex(s.data)))
	}
	return d
}

func workerMain(markerPath string) {
	if pf := os.Getenv("VERIF_C04_PROF"); pf != "" { // development aid
		f, _ := os.Create(pf)
		pprof.StartCPUProfile(f)
		defer pprof.StopCPUProfile()
	}
	debug.SetGCPercent(200)
	openMarker(markerPath)
	thorough := os.Getenv("VERIF_TIER") == "thorough"
	buildEntries()
	buildSeeds()
	buildFamilies(thorough)
	buildLpAlphabet(thorough)
	in := bufio.NewReaderSize(os.Stdin, 1<<20)
	out := bufio.NewWriterSize(os.Stdout, 1<<20)
	enc := json.NewEncoder(out)
	for {
		line, err := in.ReadBytes('\n')
		if len(line) > 1 {
			var t task
			if jerr := json.Unmarshal(line, &t); jerr != nil {
				fmt.Fprintln(os.Stderr, "bad task:", jerr)
				os.Exit(3)
			}
			a := newAcc(t.ID)
			switch t.Kind {
			case "describe":
				a.res.Describe = describe()
			case "enum":
				runEnum(t, a)
			case "attr":
				runAttr(t, a)
			case "case":
				describeCase(t, a)
			case "lp1":
				runLp1(t, a)
			case "lpseq":
				runLpSeq(t, a)
			case "lphist":
				runLpHist(t, a)
			case "lpburst":
				runLpBurst(t, a)
			case "lpreconf":
				runLpReconf(t, a)
			case "lpfrag":
				runLpFrag(t, a)
			}
			for k := range a.distinct {
				a.res.Distinct = append(a.res.Distinct, k)
			}
			a.flushKinds()
			if a.res.Extra == nil {
				a.res.Extra = map[string]any{}
			}
			a.res.Extra["trips"], a.res.Extra["precise"], a.res.Extra["trivial"] = a.trips, a.precise, a.trivial
			a.res.Extra["sweep"] = sweepCalls
			sweepCalls = 0
			mark(0, 0, 0)
			if err := enc.Encode(&a.res); err != nil {
				os.Exit(3)
			}
			out.Flush()
		}
		if err != nil {
			return
		}
	}
}

// describeCase returns the description and bytes of a single case without running anything.
func describeCase(t task, a *acc) {
	ex := map[string]any{}
	a.res.Extra = ex
	defer func() { recover() }()
	if t.Family == -2 { // fragment burst history
		c := burstDecode(t.Lo)
		ex["case"] = fmt.Sprintf("n=%d local=%v: %s", lpConfigs[t.N].n, lpConfigs[t.N].local, c)
		fr := burstFrames(c)
		ex["input_hex"] = inputHex(fr[len(fr)-1].bytes)
		ex["len"] = len(fr[len(fr)-1].bytes)
		return
	}
	if t.Family == -4 { // fragment history with inserted rejected frames
		ev, lo, _ := fragHistory(t.Lo)
		ex["case"] = fmt.Sprintf("n=%d local=%v: %s", lpConfigs[t.N].n, lpConfigs[t.N].local, fragDescribe(ev))
		fr := fragFrame(lpConfigs[t.N].n, ev[lo])
		ex["input_hex"] = inputHex(fr)
		ex["len"] = len(fr)
		return
	}
	if t.Family == -3 { // reconfiguration history
		h := reconfDecode(t.Lo)
		ex["case"] = fmt.Sprintf("n=%d local=%v: %s", lpConfigs[t.N].n, lpConfigs[t.N].local, reconfDescribe(h))
		if last := h[len(h)-1]; last >= reconfSetters {
			fr := reconfFrame(lpConfigs[t.N].n, last)
			ex["input_hex"] = inputHex(fr)
			ex["len"] = len(fr)
		}
		return
	}
	if len(t.Prefix) > 0 { // lpseq single: prefix[0] then lpAlphabet[Lo]
		cfg := lpConfigs[t.N]
		hist := []int64{}
		for _, f := range t.Prefix[0] {
			hist = append(hist, int64(f))
		}
		hist = append(hist, lpAlphabet[t.Lo])
		fr := lpFrameBytes(cfg.n, hist[len(hist)-1])
		ex["case"] = fmt.Sprintf("n=%d local=%v: %s", cfg.n, cfg.local, lpDescribe(cfg.n, hist))
		ex["input_hex"] = inputHex(fr)
		ex["len"] = len(fr)
		return
	}
	if t.Only < 0 { // lp1 single (or an lpseq transition from the initial state)
		cfg := lpConfigs[t.N]
		fr := lpFrameBytes(cfg.n, t.Lo)
		ex["case"] = fmt.Sprintf("n=%d local=%v: %s", cfg.n, cfg.local, lpDescribe(cfg.n, []int64{t.Lo}))
		ex["input_hex"] = inputHex(fr)
		ex["len"] = len(fr)
		return
	}
	fam := families[t.Family]
	c := fam.get(t.Lo, nil)
	ex["case"] = fam.desc(t.Lo)
	ex["input_hex"] = inputHex(c)
	ex["len"] = len(c)
}
