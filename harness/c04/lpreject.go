package main

// Which frames does the receive path REJECT? "A frame that fails to decode changes no forwarder
// state other than counters" quantifies over frames the receive path - link-layer decoding,
// reassembly, network-layer decoding - cannot turn into a packet. Whether a frame is one depends on
// the HISTORY of the face (what the reassembly store holds), so the verdict is computed from the
// frame and a snapshot of the store taken before the frame is handled:
//
//   undecodable            the frame is no TLV packet at all (spec.ReadPacket fails)
//   invalid-frag           Sequence present and FragCount = 0 or FragIndex >= FragCount
//   contradicts-slot       a fragment (FragCount >= 2, FragIndex < FragCount) whose base sequence
//                          already has a slot of ANOTHER size: the reassembly cannot place it
//   payload-undecodable    an unfragmented LpPacket (FragIndex/FragCount absent or 0/1) whose
//                          fragment is not a decodable packet
//   completes-undecodable  the last missing fragment of a slot, and the reassembled bytes are not a
//                          decodable packet
//
// must (all five): nothing is dispatched, nothing a forwarding thread already holds changes.
// must (first four): the link-service dump is unchanged. completes-undecodable: the slot of that
// base sequence may be consumed / kept / updated (property silent), every other slot and the rest
// of the dump are unchanged. Every other frame ("" verdict: genuine fragments, IDLE, fragmentation
// fields without Sequence, nested LpPackets, FragCount over the implementation's limit) is not
// judged by this clause.

import (
	"fmt"
	"strings"

	fwface "github.com/named-data/ndnd/fw/face"
	enc "github.com/named-data/ndnd/std/encoding"
	spec "github.com/named-data/ndnd/std/ndn/spec_2022"
)

type lpSlotSnap struct {
	n      int
	filled []bool
	frags  [][]byte // copies
}

// lpSnapStore copies the reassembly store (nil when empty: the common case costs one len()).
func lpSnapStore(l *fwface.NDNLPLinkService) map[uint64]lpSlotSnap {
	st := fwface.VerifC04Store(l)
	if len(st) == 0 {
		return nil
	}
	out := make(map[uint64]lpSlotSnap, len(st))
	for k, frs := range st {
		s := lpSlotSnap{n: len(frs)}
		if len(frs) <= 512 { // contents only matter for slots that can complete
			s.filled = make([]bool, len(frs))
			s.frags = make([][]byte, len(frs))
			for i, f := range frs {
				if len(f) != 0 {
					s.filled[i] = true
					s.frags[i] = append([]byte{}, f...)
				}
			}
		}
		out[k] = s
	}
	return out
}

type lpVerdict struct {
	class   string
	why     string
	base    uint64
	hasBase bool // completes-undecodable: the slot that may be consumed
}

func (v lpVerdict) rejected() bool { return v.class != "" }

// removable: a rejected frame that must leave the WHOLE state alone (the history with the frame
// removed must be indistinguishable).
func (v lpVerdict) removable() bool { return v.class != "" && v.class != "completes-undecodable" }

func lpDecodes(b []byte) error {
	_, _, err := spec.ReadPacket(enc.NewBufferReader(append([]byte{}, b...)))
	return err
}

func lpClassify(frame []byte, store map[uint64]lpSlotSnap, reassembly bool) lpVerdict {
	p, _, err := spec.ReadPacket(enc.NewBufferReader(append([]byte{}, frame...)))
	if err != nil {
		return lpVerdict{class: "undecodable", why: fmt.Sprintf("frame does not decode (%v)", err)}
	}
	if w := lpInvalidFragmentation(p); w != "" {
		return lpVerdict{class: "invalid-frag", why: w}
	}
	if p == nil || p.LpPacket == nil || len(p.LpPacket.Fragment) == 0 {
		return lpVerdict{}
	}
	LP := p.LpPacket
	fi, fc := uint64(0), uint64(1)
	if LP.FragIndex != nil {
		fi = *LP.FragIndex
	}
	if LP.FragCount != nil {
		fc = *LP.FragCount
	}
	if fc == 0 || fi >= fc {
		return lpVerdict{} // fragmentation fields without a Sequence: not judged
	}
	piece := LP.Fragment.Join()
	if fi == 0 && fc == 1 {
		if err := lpDecodes(piece); err != nil {
			return lpVerdict{class: "payload-undecodable", why: fmt.Sprintf("unfragmented LpPacket whose %d-byte fragment does not decode (%v)", len(piece), err)}
		}
		return lpVerdict{}
	}
	if LP.Sequence == nil || !reassembly {
		return lpVerdict{}
	}
	base := *LP.Sequence - fi
	slot, ok := store[base]
	if !ok {
		return lpVerdict{}
	}
	if uint64(slot.n) != fc {
		return lpVerdict{class: "contradicts-slot", base: base, hasBase: true,
			why: fmt.Sprintf("fragment FragIndex=%d FragCount=%d of base sequence %d, whose earlier fragments declared FragCount=%d", fi, fc, base, slot.n)}
	}
	if slot.filled == nil {
		return lpVerdict{}
	}
	var whole []byte
	for j := 0; j < slot.n; j++ {
		switch {
		case uint64(j) == fi:
			whole = append(whole, piece...)
		case slot.filled[j]:
			whole = append(whole, slot.frags[j]...)
		default:
			return lpVerdict{} // still incomplete: a genuine fragment
		}
	}
	if err := lpDecodes(whole); err != nil {
		return lpVerdict{class: "completes-undecodable", base: base, hasBase: true,
			why: fmt.Sprintf("last missing fragment of base sequence %d and the reassembled %d bytes do not decode (%v)", base, len(whole), err)}
	}
	return lpVerdict{}
}

// lpDumpWithout: the link-service dump with the slot of one base sequence cut out.
func lpDumpWithout(dump string, base uint64) string {
	tag := fmt.Sprintf("pms[%d]=", base)
	i := strings.Index(dump, tag)
	if i < 0 {
		return dump
	}
	j := strings.Index(dump[i:], "} ")
	if j < 0 {
		return dump
	}
	return dump[:i] + dump[i+j+2:]
}

// lpSlotOf returns the rendering of the reassembly slot of base in a link-service dump ("" = no slot).
func lpSlotOf(dump string, base uint64) string {
	tag := fmt.Sprintf("pms[%d]=", base)
	i := strings.Index(dump, tag)
	if i < 0 {
		return ""
	}
	j := strings.Index(dump[i:], "} ")
	if j < 0 {
		return dump[i:]
	}
	return dump[i : i+j+2]
}

// lpStuckKey: the slot of a message whose last fragment arrived but whose bytes do not decode may be
// given up (consumed) or left as it was before the frame; a slot that stays in the store as a COMPLETE
// message is state this frame added and nothing ever reclaims (no later fragment can complete it again).
const lpStuckKey = "reassembled packet that does not decode stays in the reassembly store as a complete message (never reclaimed)"

var lpRejectKeys = map[string]string{
	"undecodable":           "undecodable frame changed link-service/dispatch state",
	"invalid-frag":          "LP frame with invalid fragmentation fields is not dropped cleanly (reassembly state or dispatch changed)",
	"contradicts-slot":      "fragment whose FragCount contradicts the stored fragments of its base sequence is not dropped cleanly (reassembly state or dispatch changed)",
	"payload-undecodable":   "LP frame whose fragment does not decode changed link-service/dispatch state",
	"completes-undecodable": "reassembled packet that does not decode changed other reassembly slots / dispatch state",
}

const lpLaterKey = "a later frame on the face changes a packet already handed to a forwarding thread"
const lpEarlierKey = "frame that fails to decode changes a packet already handed to a forwarding thread"
