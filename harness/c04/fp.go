package main

// Deep fingerprint of a packet handed to a forwarding thread: everything reachable from the
// *defn.Pkt (raw bytes, PIT token, marks, the decoded Interest/Data with its name components,
// nonce, content, signature wires ...), read by reflection so that new fields are covered
// automatically. Pointers are followed, byte slices are hashed by content: two fingerprints differ
// exactly when some byte or number the forwarding thread can read differs.

import (
	"hash"
	"hash/fnv"
	"reflect"
)

func fpPkt(p *pktT) (sum uint64) {
	h := fnv.New64a()
	defer func() {
		if recover() != nil { // a packet object that cannot even be walked is a changed one
			sum = ^uint64(0)
		}
	}()
	fpWalk(h, reflect.ValueOf(p), 0)
	return h.Sum64()
}

func fpNum(h hash.Hash64, x uint64) {
	var b [8]byte
	for i := range b {
		b[i] = byte(x >> (8 * i))
	}
	h.Write(b[:])
}

func fpWalk(h hash.Hash64, v reflect.Value, depth int) {
	if depth > 16 || !v.IsValid() {
		return
	}
	switch v.Kind() {
	case reflect.Ptr, reflect.Interface:
		if v.IsNil() {
			h.Write([]byte{0})
			return
		}
		h.Write([]byte{1})
		fpWalk(h, v.Elem(), depth+1)
	case reflect.Struct:
		for i := 0; i < v.NumField(); i++ {
			fpWalk(h, v.Field(i), depth+1)
		}
	case reflect.Slice:
		if v.IsNil() {
			h.Write([]byte{2})
			return
		}
		fpNum(h, uint64(v.Len()))
		if v.Type().Elem().Kind() == reflect.Uint8 {
			h.Write(v.Bytes())
			return
		}
		for i := 0; i < v.Len(); i++ {
			fpWalk(h, v.Index(i), depth+1)
		}
	case reflect.Array:
		for i := 0; i < v.Len(); i++ {
			fpWalk(h, v.Index(i), depth+1)
		}
	case reflect.String:
		fpNum(h, uint64(v.Len()))
		h.Write([]byte(v.String()))
	case reflect.Bool:
		if v.Bool() {
			h.Write([]byte{3})
		} else {
			h.Write([]byte{4})
		}
	case reflect.Int, reflect.Int8, reflect.Int16, reflect.Int32, reflect.Int64:
		fpNum(h, uint64(v.Int()))
	case reflect.Uint, reflect.Uint8, reflect.Uint16, reflect.Uint32, reflect.Uint64, reflect.Uintptr:
		fpNum(h, v.Uint())
	case reflect.Float32, reflect.Float64:
		fpNum(h, uint64(v.Float()))
	case reflect.Map:
		fpNum(h, uint64(v.Len()))
	}
}
