package main

// Pool of disposable worker processes, each started under `ulimit -v`, with a shared-memory
// progress marker, a hang watchdog, and attribution / confirmation of worker deaths.

import (
	"bufio"
	"bytes"
	"encoding/binary"
	"encoding/json"
	"errors"
	"fmt"
	"io"
	"os"
	"os/exec"
	"path/filepath"
	"strings"
	"sync"
	"sync/atomic"
	"time"

	"verif/mc/report"
)

type capBuf struct {
	mu   sync.Mutex
	head bytes.Buffer
}

func (c *capBuf) Write(p []byte) (int, error) {
	c.mu.Lock()
	defer c.mu.Unlock()
	if c.head.Len() < 48<<10 {
		c.head.Write(p)
	}
	return len(p), nil
}
func (c *capBuf) String() string { c.mu.Lock(); defer c.mu.Unlock(); return c.head.String() }

type wproc struct {
	cmd    *exec.Cmd
	stdin  io.WriteCloser
	lines  chan []byte
	stderr *capBuf
	mfile  *os.File
	mpath  string
	exited chan struct{}
	attr   bool
}

var procSeq int64

func (p *pool) spawn(attr bool) (*wproc, error) {
	seq := atomic.AddInt64(&procSeq, 1)
	mdir := filepath.Join(p.dir, "markers")
	os.MkdirAll(mdir, 0o755)
	mpath := filepath.Join(mdir, fmt.Sprintf("m%d-%d", os.Getpid(), seq))
	if err := os.WriteFile(mpath, make([]byte, 64), 0o644); err != nil {
		return nil, err
	}
	mf, err := os.Open(mpath)
	if err != nil {
		return nil, err
	}
	cmd := exec.Command("bash", "-c", fmt.Sprintf("ulimit -v %d; exec \"$0\" \"$@\"", ulimitKB), p.bin, "--worker", mpath)
	cmd.Env = append(os.Environ(), "GOMAXPROCS=1", "GOTRACEBACK=single")
	if attr {
		cmd.Env = append(cmd.Env, "GODEBUG=memprofilerate=1")
	}
	w := &wproc{cmd: cmd, stderr: &capBuf{}, mfile: mf, mpath: mpath, exited: make(chan struct{}), attr: attr}
	cmd.Stderr = w.stderr
	w.stdin, err = cmd.StdinPipe()
	if err != nil {
		return nil, err
	}
	so, err := cmd.StdoutPipe()
	if err != nil {
		return nil, err
	}
	if err := cmd.Start(); err != nil {
		return nil, err
	}
	w.lines = make(chan []byte, 4)
	go func() {
		rd := bufio.NewReaderSize(so, 1<<20)
		for {
			l, err := rd.ReadBytes('\n')
			if len(l) > 1 {
				w.lines <- l
			}
			if err != nil {
				break
			}
		}
		cmd.Wait()
		close(w.lines)
		close(w.exited)
	}()
	return w, nil
}

func (w *wproc) kill() {
	if w == nil {
		return
	}
	w.stdin.Close()
	if w.cmd.Process != nil {
		w.cmd.Process.Kill()
	}
	select {
	case <-w.exited:
	case <-time.After(5 * time.Second):
	}
	w.mfile.Close()
	os.Remove(w.mpath)
}

func (w *wproc) marker() (taskID, idx, entry int64, beat uint64) {
	var b [32]byte
	w.mfile.ReadAt(b[:], 0)
	return int64(binary.LittleEndian.Uint64(b[0:])), int64(binary.LittleEndian.Uint64(b[8:])), int64(binary.LittleEndian.Uint64(b[16:])), binary.LittleEndian.Uint64(b[24:])
}

type runOutcome struct {
	res    *result
	died   bool
	hung   bool
	stderr string
	mTask  int64
	mIdx   int64
	mEntry int64
}

// run sends one task and waits for its result, watching the heartbeat.
func (w *wproc) run(t task, hang time.Duration) runOutcome {
	b, _ := json.Marshal(&t)
	b = append(b, '\n')
	if _, err := w.stdin.Write(b); err != nil {
		<-w.exited
		o := runOutcome{died: true, stderr: w.stderr.String()}
		o.mTask, o.mIdx, o.mEntry, _ = w.marker()
		return o
	}
	_, _, _, lastBeat := w.marker()
	lastChange := time.Now()
	tick := time.NewTicker(200 * time.Millisecond)
	defer tick.Stop()
	for {
		select {
		case l, ok := <-w.lines:
			if !ok {
				o := runOutcome{died: true, stderr: w.stderr.String()}
				o.mTask, o.mIdx, o.mEntry, _ = w.marker()
				return o
			}
			var r result
			if err := json.Unmarshal(l, &r); err != nil {
				return runOutcome{died: true, stderr: "bad result line: " + err.Error() + " " + tail(string(l), 200)}
			}
			if r.ID != t.ID {
				continue
			}
			return runOutcome{res: &r}
		case <-tick.C:
			_, _, _, beat := w.marker()
			if beat != lastBeat {
				lastBeat = beat
				lastChange = time.Now()
			} else if time.Since(lastChange) > hang {
				o := runOutcome{hung: true}
				o.mTask, o.mIdx, o.mEntry, _ = w.marker()
				w.kill()
				o.stderr = w.stderr.String()
				return o
			}
		}
	}
}

type queuedJob struct {
	j        *job
	onDone   func()
	deadline time.Time
}

type pool struct {
	bin   string
	dir   string
	ps    *parentState
	q     chan queuedJob
	stop  chan struct{}
	hi    chan queuedJob // served first (state-space search levels wait on these)
	wg    sync.WaitGroup
	procs []*wproc
	mu    sync.Mutex
}

func newPool(bin string, n int, ps *parentState) *pool {
	dir := os.Getenv("VERIF_BUILD_DIR")
	if dir == "" {
		dir = filepath.Dir(bin)
	}
	p := &pool{bin: bin, dir: dir, ps: ps, q: make(chan queuedJob, 1<<16), hi: make(chan queuedJob, 1<<16), stop: make(chan struct{})}
	for i := 0; i < n; i++ {
		p.wg.Add(1)
		go p.loop()
	}
	return p
}

func (p *pool) submit(j *job, onDone func(), deadline time.Time) {
	if j.prio {
		p.hi <- queuedJob{j, onDone, deadline}
		return
	}
	p.q <- queuedJob{j, onDone, deadline}
}

func (p *pool) shutdown() {
	close(p.stop)
	p.wg.Wait()
}

func (p *pool) loop() {
	defer p.wg.Done()
	var w *wproc
	defer func() { w.kill() }()
	turn := 0
	for {
		// alternate between the search queue and the enumeration queue so that neither starves
		var it queuedJob
		first, second := p.hi, p.q
		if turn++; turn%2 == 0 {
			first, second = p.q, p.hi
		}
		select {
		case it = <-first:
		default:
			select {
			case it = <-first:
			case it = <-second:
			case <-p.stop:
				return
			}
		}
		t0 := time.Now()
		w = p.exec(w, it)
		p.ps.mu.Lock()
		if fc := p.ps.perFamily[it.j.fam]; fc != nil {
			fc.CPU += time.Since(t0).Seconds()
		}
		p.ps.mu.Unlock()
		it.onDone()
	}
}

// runOnce runs a task in a fresh worker (used for describe, confirmations, attribution).
func (p *pool) runOnce(t task, skip [][2]int64, hang time.Duration, attr bool) (runOutcome, error) {
	w, err := p.spawn(attr)
	if err != nil {
		return runOutcome{}, err
	}
	defer w.kill()
	t.Skip = skip
	o := w.run(t, hang)
	if o.res == nil && !o.died && !o.hung {
		return o, errors.New("no result")
	}
	return o, nil
}

func firstLine(s, prefix string) string {
	for _, l := range strings.Split(s, "\n") {
		if strings.HasPrefix(l, prefix) {
			return strings.TrimSpace(l)
		}
	}
	return ""
}

// classifyDeath derives clause/key/detail of a worker death from its stderr.
func classifyDeath(o runOutcome, entryName string) (clause, key, detail string) {
	if o.hung {
		return "C04.spin", "call does not return @ " + entryKind(entryName), "no progress for the watchdog period; worker killed"
	}
	site, where := siteFromTrace(o.stderr)
	if site == "" {
		site = "(no repository frame) " + entryKind(entryName)
	}
	fe := firstLine(o.stderr, "fatal error:")
	if fe == "" {
		fe = firstLine(o.stderr, "panic:")
	}
	if fe == "" {
		fe = firstLine(o.stderr, "runtime:")
	}
	if strings.Contains(o.stderr, "out of memory") || strings.Contains(o.stderr, "cannot allocate memory") {
		return "C04.mem", "unbounded allocation @ " + site, fmt.Sprintf("worker (ulimit -v %d KiB) died: %s; innermost repository frame %s", ulimitKB, fe, where)
	}
	if fe == "" {
		fe = "worker process died (" + tail(strings.TrimSpace(o.stderr), 120) + ")"
	}
	return "C04.panic", "abort " + panicClass(strings.TrimPrefix(strings.TrimPrefix(fe, "fatal error: "), "panic: ")) + " @ " + site, fmt.Sprintf("worker died: %s; innermost repository frame %s", fe, where)
}

func entryKind(n string) string {
	if i := strings.Index(n, "/"); i > 0 {
		return n[:i]
	}
	return n
}

func (p *pool) entryName(ei int64) string {
	d := p.ps.desc
	if d != nil && ei >= 0 && int(ei) < len(d.Entries) {
		return d.Entries[ei]
	}
	if ei < 0 {
		return fmt.Sprintf("face.NDNLPLinkService.handleIncomingFrame/lp cfg %d", -1-ei)
	}
	return fmt.Sprint(ei)
}

// singleOf narrows a task to the one (case, entry) the marker points at.
func singleOf(t task, idx, entry int64, alphabet int) task {
	s := t
	s.ID = t.ID + 500000000
	s.Skip = nil
	switch t.Kind {
	case "lpseq":
		pi := idx / int64(alphabet)
		k := idx % int64(alphabet)
		if int(pi) < len(t.Prefix) {
			s.Prefix = [][]int{t.Prefix[pi]}
		}
		s.Lo, s.Hi = k, k+1
	default:
		s.Lo, s.Hi = idx, idx+1
		if entry >= 0 {
			s.Only = int(entry)
		}
	}
	return s
}

func (p *pool) exec(w *wproc, it queuedJob) *wproc {
	j := it.j
	ps := p.ps
	fcOf := func() *famCov { return ps.perFamily[j.fam] }
	for {
		ps.mu.Lock()
		dead := ps.grpDead[j.grpKey]
		ps.mu.Unlock()
		if dead {
			ps.mu.Lock()
			if fc := fcOf(); fc != nil {
				fc.Abandoned++
			}
			ps.mu.Unlock()
			return w
		}
		if time.Now().After(it.deadline) {
			ps.mu.Lock()
			if fc := fcOf(); fc != nil {
				fc.Cut++
			}
			ps.mu.Unlock()
			return w
		}
		if w == nil {
			var err error
			w, err = p.spawn(false)
			if err != nil {
				report.Fatal("cannot start worker: %v", err)
			}
		}
		t := j.t
		t.Skip = j.skip
		o := w.run(t, hangAfter)
		if o.res != nil {
			ps.merge(o.res, j.fam)
			if j.done != nil {
				j.done(o.res)
			}
			return w
		}
		// the worker died or hung
		w.kill()
		w = nil
		j.tries++
		if o.mTask != t.ID {
			// died outside a call (startup, between tasks): transient unless it keeps happening
			ps.mu.Lock()
			ps.transient++
			ps.notes = append(ps.notes, fmt.Sprintf("worker died outside a call (task %d, marker task %d): %s", t.ID, o.mTask, tail(strings.TrimSpace(o.stderr), 200)))
			ps.mu.Unlock()
			if j.tries > 3 {
				report.Fatal("worker keeps dying outside any call: %s", tail(o.stderr, 600))
			}
			continue
		}
		en := p.entryName(o.mEntry)
		clause, key, detail := classifyDeath(o, en)
		ck := clause + "|" + key
		ps.mu.Lock()
		known := ps.confirmed[ck]
		ps.mu.Unlock()
		single := singleOf(t, o.mIdx, o.mEntry, ps.desc.LpFrames)
		var caseDesc, inHex string
		var inLen int
		if !known {
			n := 0
			explained := false
			hang := hangAfter
			if o.hung {
				hang = hangConfirm
			}
			for r := 0; r < confirmRuns; r++ {
				co, err := p.runOnce(single, nil, hang, false)
				if err != nil {
					continue
				}
				if (co.died || co.hung) && co.mTask == single.ID {
					n++
				} else if co.res != nil && len(co.res.Viol) > 0 {
					// the case alone is reported in-process (e.g. as a huge allocation): that explains the death
					if !explained {
						for _, v := range co.res.Viol {
							ps.addViol(v)
						}
					}
					explained = true
				}
			}
			if n < confirmRuns {
				ps.mu.Lock()
				ps.transient++
				if len(ps.notes) < 40 {
					ps.notes = append(ps.notes, fmt.Sprintf("worker death at %s case %d reproduced %d/%d times alone (%s; explained by an in-process report of the single case: %v): task re-run in careful mode without it", en, o.mIdx, n, confirmRuns, key, explained))
				}
				ps.grpDeaths[j.grpKey]++
				if ps.grpDeaths[j.grpKey] >= 3*groupDeathLimit {
					ps.grpDead[j.grpKey] = true
				}
				ps.mu.Unlock()
				j.t.Careful = true
				if explained || n > 0 {
					// evaluated alone (and reported there if it violates anything): leave it out of the batch
					j.skip = append(j.skip, [2]int64{o.mIdx, o.mEntry})
					continue
				}
				if j.tries > 3 {
					ps.mu.Lock()
					ps.notes = append(ps.notes, fmt.Sprintf("task %d (%s) abandoned: workers keep dying but no single case reproduces it", t.ID, j.grpKey))
					if fc := fcOf(); fc != nil {
						fc.Abandoned++
					}
					ps.mu.Unlock()
					return w
				}
				continue
			}
			ps.mu.Lock()
			ps.confirmed[ck] = true
			ps.mu.Unlock()
		}
		// describe the case (ask a fresh worker; cheap)
		if dq, err := p.runOnce(task{ID: 9, Kind: "case", Family: t.Family, Group: t.Group, Lo: single.Lo, Hi: single.Hi, Only: single.Only, N: t.N, Prefix: single.Prefix}, nil, 30*time.Second, false); err == nil && dq.res != nil && dq.res.Extra != nil {
			caseDesc, _ = dq.res.Extra["case"].(string)
			inHex, _ = dq.res.Extra["input_hex"].(string)
			if f, ok := dq.res.Extra["len"].(float64); ok {
				inLen = int(f)
			}
		}
		dv := violation{Clause: clause, Key: key, Detail: detail, Entry: en, EntryI: int(o.mEntry), Family: t.Family, Index: o.mIdx, Case: caseDesc, Input: inHex, Len: inLen}
		switch t.Kind {
		case "lp1":
			dv.Hist, dv.Cfg, dv.Family = []int64{o.mIdx}, t.N, -1
		case "lpburst":
			dv.Cfg, dv.Family = t.N, -2
		case "lpreconf":
			dv.Cfg, dv.Family = t.N, -3
		case "lpfrag":
			dv.Cfg, dv.Family = t.N, -4
		case "lpseq":
			pi, k := o.mIdx/int64(len(lpAlphabet)), o.mIdx%int64(len(lpAlphabet))
			if int(pi) < len(t.Prefix) {
				for _, f := range t.Prefix[pi] {
					dv.Hist = append(dv.Hist, int64(f))
				}
			}
			dv.Hist, dv.Cfg, dv.Family = append(dv.Hist, lpAlphabet[k]), t.N, -1
		}
		ps.addViol(dv)
		ps.mu.Lock()
		ps.deaths++
		if o.hung {
			ps.hangs++
		}
		ps.grpDeaths[j.grpKey]++
		if ps.grpDeaths[j.grpKey] >= groupDeathLimit && !ps.grpDead[j.grpKey] {
			ps.grpDead[j.grpKey] = true
			ps.notes = append(ps.notes, fmt.Sprintf("group %q abandoned after %d worker deaths (all reported)", j.grpKey, ps.grpDeaths[j.grpKey]))
		}
		ps.mu.Unlock()
		j.skip = append(j.skip, [2]int64{o.mIdx, o.mEntry})
	}
}
