package main

// Structure-aware mutation of valid encodings: a schema-free TLV scan of the seed finds every
// (type, length, value) node; each node yields length replacements (boundary and huge values in
// every encoding width), type replacements, nested-length disagreements; plus truncation at every
// offset. Mutations are edits (offset, delete, insert) so that pairs can be composed.

import (
	"encoding/binary"
	"fmt"
	"sort"
)

type tlvNode struct {
	tOff, lOff, vOff, end int
	typ, length           uint64
	depth, parent         int
}

func readVar(b []byte, off int) (v uint64, n int, ok bool) {
	if off >= len(b) {
		return 0, 0, false
	}
	switch x := b[off]; {
	case x <= 0xfc:
		return uint64(x), 1, true
	case x == 0xfd:
		if off+3 > len(b) {
			return 0, 0, false
		}
		return uint64(binary.BigEndian.Uint16(b[off+1:])), 3, true
	case x == 0xfe:
		if off+5 > len(b) {
			return 0, 0, false
		}
		return uint64(binary.BigEndian.Uint32(b[off+1:])), 5, true
	default:
		if off+9 > len(b) {
			return 0, 0, false
		}
		return binary.BigEndian.Uint64(b[off+1:]), 9, true
	}
}

func encVar(v uint64, width int) []byte {
	switch width {
	case 1:
		return []byte{byte(v)}
	case 3:
		return []byte{0xfd, byte(v >> 8), byte(v)}
	case 5:
		return []byte{0xfe, byte(v >> 24), byte(v >> 16), byte(v >> 8), byte(v)}
	default:
		o := make([]byte, 9)
		o[0] = 0xff
		binary.BigEndian.PutUint64(o[1:], v)
		return o
	}
}

func minWidth(v uint64) int {
	for _, w := range []int{1, 3, 5} {
		if fitsWidth(v, w) {
			return w
		}
	}
	return 9
}

func fitsWidth(v uint64, width int) bool {
	switch width {
	case 1:
		return v <= 0xfc
	case 3:
		return v <= 0xffff
	case 5:
		return v <= 0xffffffff
	}
	return true
}

// scanTLV parses [off,end) as a sequence of TLVs; ok only if they fill the region exactly.
func scanTLV(b []byte, off, end, depth, parent int, out *[]tlvNode) bool {
	if off >= end {
		return false
	}
	start := len(*out)
	for off < end {
		t, n1, ok := readVar(b[:end], off)
		if !ok {
			*out = (*out)[:start]
			return false
		}
		l, n2, ok := readVar(b[:end], off+n1)
		if !ok || l > uint64(end-(off+n1+n2)) {
			*out = (*out)[:start]
			return false
		}
		nd := tlvNode{tOff: off, lOff: off + n1, vOff: off + n1 + n2, end: off + n1 + n2 + int(l), typ: t, length: l, depth: depth, parent: parent}
		*out = append(*out, nd)
		off = nd.end
	}
	// children (only after the level is known to be well-formed)
	if depth < 6 {
		lvlEnd := len(*out)
		for i := start; i < lvlEnd; i++ {
			nd := (*out)[i]
			if nd.length >= 2 {
				scanTLV(b, nd.vOff, nd.end, depth+1, i, out)
			}
		}
	}
	return true
}

type edit struct {
	off, del int
	ins      []byte
	desc     string
}

func applyEdit(b []byte, e edit) []byte {
	o := make([]byte, 0, len(b)-e.del+len(e.ins))
	o = append(o, b[:e.off]...)
	o = append(o, e.ins...)
	o = append(o, b[e.off+e.del:]...)
	return o
}

// applyTwo applies two non-overlapping edits (ok=false if they overlap).
func applyTwo(b []byte, e1, e2 edit) ([]byte, bool) {
	if e1.off > e2.off {
		e1, e2 = e2, e1
	}
	if e1.off+e1.del > e2.off || (e1.off == e2.off) {
		return nil, false
	}
	return applyEdit(applyEdit(b, e2), e1), true
}

// wrapLengths: values for which "header size + declared length" (or the conversion to a signed
// int) wraps around to zero, to a small positive number or to a small negative one: 2^64-k
// (k=1..24, only the 9-byte form can hold them), 2^32-k (k=1..12), 2^63-k and 2^63+k (k=1..24).
func wrapLengths() []uint64 {
	var d []uint64
	for k := uint64(1); k <= 24; k++ {
		d = append(d, -k, 1<<63-k, 1<<63+k) // -k == 2^64-k
	}
	for k := uint64(1); k <= 12; k++ {
		d = append(d, 1<<32-k)
	}
	return d
}

func lengthDomain(l uint64, parentL uint64, hasParent bool) []uint64 {
	d := []uint64{0, 1, l - 1, l + 1, 252, 253, 65535, 65536, 1<<31 - 1, 1 << 31, 1<<32 - 1, 1 << 32, 1 << 47, 1 << 62, 1<<63 - 1, 1 << 63, 1<<64 - 1}
	if hasParent {
		d = append(d, parentL, parentL+1)
	}
	d = append(d, wrapLengths()...)
	seen := map[uint64]bool{}
	var out []uint64
	for _, v := range d {
		if !seen[v] {
			seen[v] = true
			out = append(out, v)
		}
	}
	return out
}

// mutationsOf lists every single mutation of a seed, in a deterministic order.
func mutationsOf(seed []byte) []edit {
	var nodes []tlvNode
	scanTLV(seed, 0, len(seed), 0, -1, &nodes)
	var eds []edit
	// (1) type replacements: sibling / parent / child types, unknown critical and non-critical types, wide types
	for i, nd := range nodes {
		tset := map[uint64]bool{}
		for j, o := range nodes {
			if j == i {
				continue
			}
			if o.parent == nd.parent || j == nd.parent || o.parent == i { // sibling, parent, child
				tset[o.typ] = true
			}
		}
		for _, t := range []uint64{0, 0xfa, 0xfb, 1000, 1001, 1 << 32, 1<<64 - 1} {
			tset[t] = true
		}
		delete(tset, nd.typ)
		var ts []uint64
		for t := range tset {
			ts = append(ts, t)
		}
		sort.Slice(ts, func(a, b int) bool { return ts[a] < ts[b] })
		origT := seed[nd.tOff:nd.lOff]
		for _, t := range ts {
			eds = append(eds, edit{off: nd.tOff, del: len(origT), ins: encVar(t, minWidth(t)), desc: fmt.Sprintf("type@%d %#x->%#x", nd.tOff, nd.typ, t)})
		}
		// non-minimal encodings of the same type
		for _, w := range []int{3, 5, 9} {
			ins := encVar(nd.typ, w)
			if string(ins) != string(origT) {
				eds = append(eds, edit{off: nd.tOff, del: len(origT), ins: ins, desc: fmt.Sprintf("type@%d %#x widened/w%d", nd.tOff, nd.typ, w)})
			}
		}
	}
	// (1') emptying: every element in turn gets length 0 and loses its value; once with the
	// enclosing lengths left alone, once with every enclosing length adjusted (a well-formed
	// packet in which that element is empty)
	for i, nd := range nodes {
		if nd.length == 0 {
			continue
		}
		eds = append(eds, edit{off: nd.lOff, del: nd.end - nd.lOff, ins: []byte{0}, desc: fmt.Sprintf("empty@%d(T=%#x L=%d)", nd.tOff, nd.typ, nd.length)})
		if nd.parent >= 0 {
			eds = append(eds, edit{off: 0, del: len(seed), ins: emptiedConsistently(seed, nodes, i), desc: fmt.Sprintf("empty@%d(T=%#x L=%d), enclosing lengths adjusted", nd.tOff, nd.typ, nd.length)})
		}
	}
	// (1") malformed content inside a well-formed envelope: the value of every nested element is
	// replaced by a malformed TLV (type only, length beyond the element, truncated multi-byte
	// type/length forms, huge lengths, a length one short) with every enclosing length adjusted:
	// the packet still decodes and only code that looks inside the element (lazy accessors) sees it
	for i, nd := range nodes {
		if nd.parent < 0 {
			continue
		}
		tb, cv := []byte{0x08}, seed[nd.vOff:nd.end]
		for _, ch := range nodes {
			if ch.parent == i {
				tb, cv = seed[ch.tOff:ch.lOff], seed[ch.vOff:ch.end]
				break
			}
		}
		for k, nv := range malformedValues(tb, cv) {
			eds = append(eds, edit{off: 0, del: len(seed), ins: replacedConsistently(seed, nodes, i, nv),
				desc: fmt.Sprintf("value@%d(T=%#x L=%d) := malformed#%d %x, enclosing lengths adjusted", nd.tOff, nd.typ, nd.length, k, nv)})
		}
	}
	// (2) truncation at every offset
	for k := 0; k < len(seed); k++ {
		eds = append(eds, edit{off: k, del: len(seed) - k, desc: fmt.Sprintf("truncate@%d", k)})
	}
	// (3) length replacements, smallest replacement values first (huge values last), every node,
	// every encoding width that can hold the value; includes the nested-length disagreements
	// (inner = outer, inner = outer+1, inner/outer +-1)
	type lenEdit struct {
		v uint64
		e edit
	}
	var les []lenEdit
	for _, nd := range nodes {
		var parentL uint64
		hasParent := nd.parent >= 0
		if hasParent {
			parentL = nodes[nd.parent].length
		}
		origL := seed[nd.lOff:nd.vOff]
		for _, v := range lengthDomain(nd.length, parentL, hasParent) {
			for _, w := range []int{1, 3, 5, 9} {
				if !fitsWidth(v, w) {
					continue
				}
				ins := encVar(v, w)
				if string(ins) == string(origL) {
					continue
				}
				les = append(les, lenEdit{v, edit{off: nd.lOff, del: nd.vOff - nd.lOff, ins: ins, desc: fmt.Sprintf("len@%d(T=%#x L=%d)->%d/w%d", nd.lOff, nd.typ, nd.length, v, w)}})
			}
		}
	}
	sort.SliceStable(les, func(a, b int) bool { return les[a].v < les[b].v })
	for _, le := range les {
		eds = append(eds, le.e)
	}
	return eds
}

// emptiedConsistently: node i emptied, enclosing lengths adjusted.
func emptiedConsistently(seed []byte, nodes []tlvNode, i int) []byte {
	return replacedConsistently(seed, nodes, i, nil)
}

// malformedValues: byte strings that are not a well-formed TLV, built around a type tb and a value cv.
func malformedValues(tb, cv []byte) [][]byte {
	cat := func(parts ...[]byte) []byte {
		var o []byte
		for _, p := range parts {
			o = append(o, p...)
		}
		return o
	}
	short := cv
	if len(short) > 0 {
		short = short[:len(short)-1]
	}
	return [][]byte{
		cat(tb), // type only
		cat(tb, encVar(uint64(len(cv)+1), minWidth(uint64(len(cv)+1))), cv), // length one beyond the element
		cat(tb, []byte{0x7f}, cv),
		cat(tb, encVar(0xffff, 3), cv),
		cat(tb, encVar(0xffffffff, 5)),
		cat(tb, encVar(1<<63, 9)),
		cat(tb, encVar(1<<63-1, 9), cv),
		cat(tb, encVar(1<<64-1, 9), cv),
		{0xfd, 0x00},                      // truncated 3-byte type
		{0xfd},                            // lone multi-byte marker
		cat(tb, []byte{0xfd, 0x00}),       // truncated 3-byte length
		cat(tb, []byte{0xfe, 0x00, 0x00}), // truncated 5-byte length
		cat(tb, []byte{0xff, 0x00}),       // truncated 9-byte length
		cat(tb, encVar(uint64(len(cv)), minWidth(uint64(len(cv)))), short),    // value one byte short
		cat(tb, encVar(uint64(len(short)), minWidth(uint64(len(short)))), cv), // trailing byte after the TLV
	}
}

// replacedConsistently rebuilds the seed with the value of node i replaced by nv and the length of
// node i and of every ancestor re-encoded (minimal width) so that the envelope stays well-formed.
func replacedConsistently(seed []byte, nodes []tlvNode, i int, nv []byte) []byte {
	nd := nodes[i]
	cur := append(append(append([]byte{}, seed[nd.tOff:nd.lOff]...), encVar(uint64(len(nv)), minWidth(uint64(len(nv))))...), nv...)
	lo, hi := nd.tOff, nd.end // the range of the seed that cur replaces
	for p := nd.parent; p >= 0; p = nodes[p].parent {
		pn := nodes[p]
		val := append(append(append([]byte{}, seed[pn.vOff:lo]...), cur...), seed[hi:pn.end]...)
		t := append([]byte{}, seed[pn.tOff:pn.lOff]...)
		cur = append(append(t, encVar(uint64(len(val)), minWidth(uint64(len(val))))...), val...)
		lo, hi = pn.tOff, pn.end
	}
	return append(append(append([]byte{}, seed[:lo]...), cur...), seed[hi:]...)
}
