package main

// Input families: finite, indexed (odometer) spaces. Parent and workers run the same binary and
// enumerate the same spaces, so tasks carry index ranges only.

import (
	"fmt"
	"sort"
)

var alphabet = []byte{0, 1, 2, 5, 6, 7, 8, 0x0a, 0x15, 0x16, 0x17, 0x50, 0x51, 0x52, 0x53, 0x62, 0x64, 0xfc, 0xfd, 0xfe, 0xff}

// group: a contiguous index range of a family together with the entries that run on it.
type group struct {
	Lo, Hi  int64
	Entries []int
	Label   string
}

type family struct {
	name    string
	size    int64
	groups  []group
	perTask int64                            // >0: at most this many cases per task (families whose cases are large)
	get     func(i int64, buf []byte) []byte // materialise case i (may reuse buf)
	desc    func(i int64) string
}

var families []*family

// strings over an alphabet with lengths minLen..maxLen, length-major order.
func stringFamily(name string, alpha []byte, minLen, maxLen int) *family {
	cum := []int64{0}
	for l := minLen; l <= maxLen; l++ {
		n := int64(1)
		for k := 0; k < l; k++ {
			n *= int64(len(alpha))
		}
		cum = append(cum, cum[len(cum)-1]+n)
	}
	f := &family{name: name, size: cum[len(cum)-1]}
	f.get = func(i int64, buf []byte) []byte {
		li := sort.Search(len(cum)-1, func(k int) bool { return cum[k+1] > i })
		l := minLen + li
		i -= cum[li]
		if buf == nil {
			buf = make([]byte, 0, 8)
		}
		buf = buf[:0]
		for k := 0; k < l; k++ {
			buf = append(buf, 0)
		}
		r := int64(len(alpha))
		for k := l - 1; k >= 0; k-- {
			buf[k] = alpha[i%r]
			i /= r
		}
		return buf
	}
	f.desc = func(i int64) string { return fmt.Sprintf("%s#%d", name, i) }
	return f
}

func allBytes() []byte {
	b := make([]byte, 256)
	for i := range b {
		b[i] = byte(i)
	}
	return b
}

func entriesWith(pred func(e *entry) bool) []int {
	var out []int
	for i := range entries {
		if pred(&entries[i]) {
			out = append(out, i)
		}
	}
	return out
}

type mutCase struct {
	seed int
	ed   edit
}

var mut1 []mutCase
var seedEdits [][]edit

type pairSpan struct {
	seed int
	lo   int64 // first family index of this seed's pairs
	m    int64 // number of single edits
}

func buildFamilies(thorough bool) {
	families = nil
	all := entriesWith(func(e *entry) bool { return e.tags&tagLong == 0 })
	core := entriesWith(func(e *entry) bool { return e.tags&tagCore != 0 })
	wide := entriesWith(func(e *entry) bool { return e.tags&tagWide != 0 })
	b3 := entriesWith(func(e *entry) bool { return e.tags&tagB3 != 0 })

	// (a) exhaustive short strings
	f := stringFamily("bytes<=2 (all 256 values)", allBytes(), 0, 2)
	f.groups = []group{{0, f.size, all, "all entries"}}
	families = append(families, f)

	f = stringFamily("alpha21 len3", alphabet, 3, 3)
	f.groups = []group{{0, f.size, all, "all entries"}}
	families = append(families, f)

	f = stringFamily("bytes3 (all 256 values)", allBytes(), 3, 3)
	if thorough {
		f.groups = []group{{0, f.size, wide, "every decoder, contiguous reader"}}
	} else {
		f.groups = []group{{0, f.size, b3, "byte-level decoders"}}
	}
	families = append(families, f)

	f = stringFamily("alpha21 len4", alphabet, 4, 4)
	f.groups = []group{{0, f.size, core, "core entries"}}
	families = append(families, f)

	if thorough {
		f = stringFamily("alpha21 len5", alphabet, 5, 5)
		f.groups = []group{{0, f.size, core, "core entries"}}
		families = append(families, f)
		f = stringFamily("alpha21 len6", alphabet, 6, 6)
		f.groups = []group{{0, f.size, wide, "every decoder, contiguous reader"}}
		families = append(families, f)
	} else {
		f = stringFamily("alpha21 len5", alphabet, 5, 5)
		f.groups = []group{{0, f.size, wide, "every decoder, contiguous reader"}}
		families = append(families, f)
	}

	// (a') standalone TLV headers whose length makes header+length wrap (too long for the odometer
	// families): type x length, bare and followed by 4 bytes of value
	families = append(families, wrapFamily(all))

	// (b) single mutations of every seed
	mut1 = nil
	seedEdits = make([][]edit, len(seeds))
	mf := &family{name: "seed mutations (single)"}
	for si, s := range seeds {
		eds := mutationsOf(s.data)
		seedEdits[si] = eds
		lo := int64(len(mut1))
		// the unmutated seed first
		mut1 = append(mut1, mutCase{seed: si, ed: edit{desc: "unmutated"}})
		for _, e := range eds {
			mut1 = append(mut1, mutCase{seed: si, ed: e})
		}
		s := s
		ents := entriesWith(func(e *entry) bool {
			if e.own == s.own && s.own >= 0 {
				return true
			}
			if e.own < 0 && e.tags&tagHeavy == 0 {
				return true
			}
			if s.packet && e.tags&tagPacket != 0 {
				return true
			}
			if thorough && e.tags&tagCore != 0 {
				return true
			}
			return false
		})
		mf.groups = append(mf.groups, group{lo, int64(len(mut1)), ents, s.name})
	}
	mf.size = int64(len(mut1))
	mf.get = func(i int64, buf []byte) []byte {
		c := mut1[i]
		if c.ed.desc == "unmutated" {
			return append(make([]byte, 0, len(seeds[c.seed].data)), seeds[c.seed].data...)
		}
		return applyEdit(seeds[c.seed].data, c.ed)
	}
	mf.desc = func(i int64) string { c := mut1[i]; return "seed " + seeds[c.seed].name + " / " + c.ed.desc }
	families = append(families, mf)

	// (b') pairs of mutations for packet-level seeds (thorough)
	if thorough {
		pf := &family{name: "seed mutations (pairs, packet-level seeds)"}
		var spans []pairSpan
		for si, s := range seeds {
			if !s.packet {
				continue
			}
			m := int64(len(seedEdits[si]))
			n := m * (m - 1) / 2
			s := s
			ents := entriesWith(func(e *entry) bool {
				return (e.own == s.own && e.tags&(tagCore) != 0) || (e.tags&tagPacket != 0 && (e.tags&tagCore != 0 || e.tags&tagHeavy != 0))
			})
			spans = append(spans, pairSpan{seed: si, lo: pf.size, m: m})
			pf.groups = append(pf.groups, group{pf.size, pf.size + n, ents, s.name})
			pf.size += n
		}
		locate := func(i int64) (si int, a, b int64) {
			k := sort.Search(len(spans), func(k int) bool { return k+1 >= len(spans) || spans[k+1].lo > i })
			sp := spans[k]
			i -= sp.lo
			// pair index -> (a<b): row a has (m-1-a) entries
			a = 0
			for rem := sp.m - 1; i >= rem; a++ {
				i -= rem
				rem--
			}
			return sp.seed, a, a + 1 + i
		}
		pf.get = func(i int64, buf []byte) []byte {
			si, a, b := locate(i)
			out, ok := applyTwo(seeds[si].data, seedEdits[si][a], seedEdits[si][b])
			if !ok {
				return nil // overlapping edits: not a case
			}
			return out
		}
		pf.desc = func(i int64) string {
			si, a, b := locate(i)
			return "seed " + seeds[si].name + " / " + seedEdits[si][a].desc + " + " + seedEdits[si][b].desc
		}
		families = append(families, pf)
	}

	// (c) stream framing at the receive buffer's capacity
	families = append(families, streamFullFamily())

	// (d) frames holding several top-level TLVs
	families = append(families, multiTLVFamily())
	families = append(families, bigFrameFamily())

	// (e) stream framing: every header form followed by more than a receive buffer of traffic
	families = append(families, streamLongFamily(thorough))
}

func wrapFamily(ents []int) *family {
	var types [][]byte
	for _, t := range alphabet {
		if t <= 0xfc {
			types = append(types, []byte{t})
		}
	}
	types = append(types, []byte{0xfd, 0x03, 0x20}, []byte{0xfe, 0, 1, 0, 0}, []byte{0xff, 0, 0, 0, 1, 0, 0, 0, 0})
	vals := append([]uint64{1 << 63, 1 << 32}, wrapLengths()...)
	var cases [][]byte
	for _, t := range types {
		for _, v := range vals {
			for _, w := range []int{5, 9} {
				if !fitsWidth(v, w) {
					continue
				}
				c := append(append([]byte{}, t...), encVar(v, w)...)
				cases = append(cases, c, append(append([]byte{}, c...), 0x08, 0x02, 0x61, 0x62))
			}
		}
	}
	f := &family{name: "TLV headers with wrap-around lengths", size: int64(len(cases))}
	f.get = func(i int64, buf []byte) []byte { return append(make([]byte, 0, len(cases[i])), cases[i]...) }
	f.desc = func(i int64) string { return fmt.Sprintf("wrap-around header %x", cases[i]) }
	f.groups = []group{{0, f.size, ents, "all entries"}}
	return f
}
