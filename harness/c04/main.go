// C04: no byte sequence can crash or exhaust a decoder or the forwarder's receive path.
//
// Parent process: discovers the generated parsers of the repository under test, generates a
// registry and builds the worker binary, then drives a pool of disposable worker processes
// (each under `ulimit -v`) through exhaustive, odometer-indexed input families. A worker that
// dies or hangs is attributed through its shared-memory progress marker, the single case is
// re-run in fresh workers before it is believed, and the task is re-run without it.
package main

import (
	"encoding/json"
	"fmt"
	"os"
	"sort"
	"strings"
	"sync"
	"time"

	"verif/mc/enum"
	"verif/mc/report"
)

const (
	ulimitKB        = 2500000 // virtual address space of a worker (KiB)
	hangAfter       = 20 * time.Second
	hangConfirm     = 60 * time.Second
	confirmRuns     = 3
	groupDeathLimit = 6 // worker deaths tolerated per family group before the rest of the group is abandoned
)

func main() {
	if len(os.Args) > 1 && os.Args[1] == "--worker" {
		mp := ""
		if len(os.Args) > 2 {
			mp = os.Args[2]
		}
		workerMain(mp)
		return
	}
	parent()
}

type foundViol struct {
	v     violation
	count int
}

type parentState struct {
	mu           sync.Mutex
	rep          *report.Reporter
	viols        map[string]*foundViol
	pendAttr     []violation
	confirmed    map[string]bool
	evals        int64
	trips        int64
	precise      int64
	trivial      int64
	sweep        int64
	lpSamples    int
	cases        int64
	skipped      int64
	sigs         map[string]int64
	distinct     map[uint64]struct{}
	samples      report.Samples
	maxAlloc     uint64
	deaths       int
	transient    int
	hangs        int
	grpDeaths    map[string]int
	grpDead      map[string]bool
	perFamily    map[string]*famCov
	setterPanics int64 // reconfiguration family: setter calls that panicked (not a C04 clause; reported as coverage)
	notes        []string
	desc         *describeResponse
}

type famCov struct {
	Size      int64   `json:"size"`
	Done      int64   `json:"cases_done"`
	Evals     int64   `json:"evaluations"`
	Tasks     int     `json:"tasks"`
	TasksDone int     `json:"tasks_done"`
	Abandoned int     `json:"tasks_abandoned_after_deaths"`
	Cut       int     `json:"tasks_cut_by_deadline"`
	CPU       float64 `json:"worker_seconds"`
}

func (ps *parentState) addViol(v violation) {
	ps.mu.Lock()
	defer ps.mu.Unlock()
	if v.NeedAt {
		ps.pendAttr = append(ps.pendAttr, v)
		return
	}
	k := v.Clause + "|" + v.Key
	if f, ok := ps.viols[k]; ok {
		f.count++
		if len(v.Hist) < len(f.v.Hist) || (len(v.Hist) == len(f.v.Hist) && (v.Len < f.v.Len || (v.Len == f.v.Len && v.Input < f.v.Input))) {
			f.v = v
		}
		return
	}
	ps.viols[k] = &foundViol{v: v, count: 1}
}

func (ps *parentState) merge(r *result, fam string) {
	ps.mu.Lock()
	ps.evals += r.Evals
	ps.cases += r.Cases
	ps.skipped += r.Skipped
	for k, v := range r.Sigs {
		ps.sigs[k] += v
	}
	for _, d := range r.Distinct {
		ps.distinct[d] = struct{}{}
	}
	if r.MaxAlloc > ps.maxAlloc {
		ps.maxAlloc = r.MaxAlloc
	}
	if f, ok := r.Extra["trips"].(float64); ok {
		ps.trips += int64(f)
	}
	if f, ok := r.Extra["precise"].(float64); ok {
		ps.precise += int64(f)
	}
	if f, ok := r.Extra["trivial"].(float64); ok {
		ps.trivial += int64(f)
	}
	if f, ok := r.Extra["sweep"].(float64); ok {
		ps.sweep += int64(f)
	}
	if f, ok := r.Extra["setter_panics"].(float64); ok {
		ps.setterPanics += int64(f)
	}
	if fc := ps.perFamily[fam]; fc != nil {
		fc.Done += r.Cases
		fc.Evals += r.Evals
		fc.TasksDone++
	}
	ps.mu.Unlock()
	for _, s := range r.Samples {
		if strings.HasPrefix(s, "n=") { // link-service samples: keep a few, leave room for the decoders
			ps.mu.Lock()
			ps.lpSamples++
			n := ps.lpSamples
			ps.mu.Unlock()
			if n > 3 {
				continue
			}
		}
		ps.samples.Offer(s)
	}
	for _, v := range r.Viol {
		ps.addViol(v)
	}
}

type job struct {
	t      task
	fam    string
	grpKey string
	skip   [][2]int64
	tries  int
	done   func(r *result) // optional
	prio   bool
}

func parent() {
	start := time.Now()
	rep := report.New("C04", "exploration")
	thorough := rep.Thorough()
	budget := 80 * time.Second
	if thorough {
		budget = 26 * time.Minute
	}
	deadline := start.Add(budget)

	bin, models := buildWorker()
	tBuild := time.Since(start)
	buildLpAlphabet(thorough)
	for i, a := range os.Args {
		if a == "--replay" && i+1 < len(os.Args) {
			os.Exit(replay(bin, os.Args[i+1]))
		}
	}

	ps := &parentState{rep: rep, viols: map[string]*foundViol{}, confirmed: map[string]bool{}, sigs: map[string]int64{},
		distinct: map[uint64]struct{}{}, grpDeaths: map[string]int{}, grpDead: map[string]bool{}, perFamily: map[string]*famCov{}}
	ps.samples.N = 10

	pool := newPool(bin, enum.Workers(), ps)
	defer pool.shutdown()

	// describe
	dr, err := pool.runOnce(task{ID: 1, Kind: "describe", Only: -1}, nil, 120*time.Second, false)
	if err != nil || dr.res == nil || dr.res.Describe == nil {
		report.Fatal("worker could not describe the input space: %v %s", err, tail(dr.stderr, 800))
	}
	d := dr.res.Describe
	ps.desc = d
	if d.Generated != len(models) {
		report.Fatal("registry mismatch: %d models discovered, %d linked", len(models), d.Generated)
	}

	// ---- task list ----
	var jobs []*job
	nextID := int64(100)
	weightOf := func(ei int) int64 {
		if d.EntryTags[ei]&tagHeavy != 0 {
			return 150
		}
		return 1
	}
	only := os.Getenv("VERIF_C04_ONLY") // development aid: restrict to families whose name contains one of these (comma separated)
	want := func(name string) bool {
		if only == "" {
			return true
		}
		for _, o := range strings.Split(only, ",") {
			if strings.Contains(name, o) {
				return true
			}
		}
		return false
	}
	for fi, f := range d.Families {
		if !want(f.Name) {
			continue
		}
		fc := &famCov{Size: f.Size}
		ps.perFamily[f.Name] = fc
		var fj []*job
		for gi, g := range f.Groups {
			w := int64(0)
			for _, ei := range g.Entries {
				w += weightOf(ei)
			}
			if w == 0 || g.Hi <= g.Lo {
				continue
			}
			per := 1000000 / w
			if per < 1 {
				per = 1
			}
			if per > 20000 {
				per = 20000
			}
			if f.PerTask > 0 && per > f.PerTask {
				per = f.PerTask
			}
			for lo := g.Lo; lo < g.Hi; lo += per {
				hi := lo + per
				if hi > g.Hi {
					hi = g.Hi
				}
				nextID++
				fj = append(fj, &job{t: task{ID: nextID, Kind: "enum", Family: fi, Group: gi, Lo: lo, Hi: hi, Only: -1}, fam: f.Name, grpKey: fmt.Sprintf("%s/%s", f.Name, g.Label)})
			}
		}
		if n := len(fj); n > 0 && f.Size > 1000000 {
			r := int(rep.Seed % int64(n))
			if r < 0 {
				r += n
			}
			fj = append(fj[r:], fj[:r]...)
		}
		fc.Tasks = len(fj)
		jobs = append(jobs, fj...)
	}
	// single LP frames, full product, per configuration
	lpName := "LpPacket frames (single, full product)"
	lpc := &famCov{}
	ps.perFamily[lpName] = lpc
	var lpJobs, lp1Jobs []*job // lpJobs: the history families (a few worker-seconds each), scheduled before the full single-frame product
	for cfg := range lpConfigs {
		if !want(lpName) {
			break
		}
		if !thorough && cfg >= 3 && cfg != 4 {
			continue // quick: all thread counts on a non-local face, local face with 2 threads
		}
		lpc.Size += lpSize()
		for lo := int64(0); lo < lpSize(); lo += 3000 {
			hi := lo + 3000
			if hi > lpSize() {
				hi = lpSize()
			}
			nextID++
			lp1Jobs = append(lp1Jobs, &job{t: task{ID: nextID, Kind: "lp1", N: cfg, Lo: lo, Hi: hi, Only: -1}, fam: lpName, grpKey: fmt.Sprintf("lp1/cfg%d", cfg)})
		}
	}
	lpc.Tasks = len(lp1Jobs)
	// fragment bursts (macro-operation histories)
	burstName := "LpPacket fragment bursts (macro histories)"
	if want(burstName) {
		bc := &famCov{}
		ps.perFamily[burstName] = bc
		for _, cfg := range []int{1, 4} { // 2 threads: non-local and local face
			bc.Size += burstSize()
			for lo := int64(0); lo < burstSize(); lo += 7 {
				hi := lo + 7
				if hi > burstSize() {
					hi = burstSize()
				}
				nextID++
				lpJobs = append(lpJobs, &job{t: task{ID: nextID, Kind: "lpburst", Family: -2, N: cfg, Lo: lo, Hi: hi, Only: -1}, fam: burstName, grpKey: fmt.Sprintf("lpburst/cfg%d", cfg)})
				bc.Tasks++
			}
		}
	}
	// frames interleaved with run-time reconfiguration (all histories up to a depth)
	reconfName := "LpPacket frames interleaved with run-time reconfiguration (all histories)"
	if want(reconfName) {
		rc := &famCov{}
		ps.perFamily[reconfName] = rc
		rcfgs := []int{1, 4} // 2 threads: non-local and local face
		if thorough {
			rcfgs = []int{0, 1, 2, 3, 4, 5}
		}
		for _, cfg := range rcfgs {
			rc.Size += reconfSize()
			const step = 30000
			for lo := int64(0); lo < reconfSize(); lo += step {
				hi := lo + step
				if hi > reconfSize() {
					hi = reconfSize()
				}
				nextID++
				lpJobs = append(lpJobs, &job{t: task{ID: nextID, Kind: "lpreconf", Family: -3, N: cfg, Lo: lo, Hi: hi, Only: -1}, fam: reconfName, grpKey: fmt.Sprintf("lpreconf/cfg%d", cfg)})
				rc.Tasks++
			}
		}
	}
	// genuine fragment histories with a rejected frame inserted at every position
	fragName := "LpPacket fragment histories with rejected frames at every position"
	if want(fragName) {
		fc := &famCov{}
		ps.perFamily[fragName] = fc
		fcfgs := []int{1, 4} // 2 threads: non-local and local face (both tiers; thorough widens orders, positions and pairs)
		for _, cfg := range fcfgs {
			fc.Size += fragSize()
			const step = 6000
			for lo := int64(0); lo < fragSize(); lo += step {
				hi := lo + step
				if hi > fragSize() {
					hi = fragSize()
				}
				nextID++
				lpJobs = append(lpJobs, &job{t: task{ID: nextID, Kind: "lpfrag", Family: -4, N: cfg, Lo: lo, Hi: hi, Only: -1}, fam: fragName, grpKey: fmt.Sprintf("lpfrag/cfg%d", cfg)})
				fc.Tasks++
			}
		}
	}
	// order: small families first, the big odometer families last
	work := map[int]int64{}
	for fi, f := range d.Families {
		for _, g := range f.Groups {
			w := int64(0)
			for _, ei := range g.Entries {
				w += weightOf(ei)
			}
			work[fi] += (g.Hi - g.Lo) * w
		}
	}
	sort.SliceStable(jobs, func(i, j int) bool { return work[jobs[i].t.Family] < work[jobs[j].t.Family] })
	// the cheap families (a few worker-seconds each) go first, then the link-service products, then
	// the big odometer families: on a loaded machine the deadline then cuts only the latter
	nSmall := 0
	for nSmall < len(jobs) && work[jobs[nSmall].t.Family] < 20000000 {
		nSmall++
	}
	// the history families of the link service come first of all: they are cheap and carry the
	// C04.state clause over frame sequences; then the small families, the single-frame product, the rest
	all := append(append(append(append([]*job{}, lpJobs...), jobs[:nSmall]...), lp1Jobs...), jobs[nSmall:]...)

	var wg sync.WaitGroup
	// BFS over frame sequences runs concurrently with the enumeration
	bfsDone := make(chan map[string]any, 1)
	go func() {
		if !want("LpPacket frame sequences") {
			bfsDone <- map[string]any{"skipped": true}
			return
		}
		bfsDone <- runBFS(pool, ps, d, thorough, deadline, &nextID)
	}()

	for _, j := range all {
		j := j
		wg.Add(1)
		pool.submit(j, func() { wg.Done() }, deadline)
	}
	wg.Wait()
	bfsCov := <-bfsDone

	// ---- attribution of allocation sites ----
	attrCov := runAttribution(pool, ps, deadline.Add(20*time.Second))

	// ---- report ----
	keys := make([]string, 0, len(ps.viols))
	for k := range ps.viols {
		keys = append(keys, k)
	}
	sort.Strings(keys)
	for _, k := range keys {
		f := ps.viols[k]
		rep.Add(report.Violation{Clause: f.v.Clause, Key: f.v.Key,
			Detail: fmt.Sprintf("%s | entry %s | case: %s | input(%d bytes)=%s | seen %d times", f.v.Detail, f.v.Entry, f.v.Case, f.v.Len, f.v.Input, f.count),
			Replay: map[string]any{"entry": f.v.Entry, "entry_index": f.v.EntryI, "family": f.v.Family, "index": f.v.Index, "case": f.v.Case, "input_hex": f.v.Input, "hist": f.v.Hist, "cfg": f.v.Cfg, "tier": rep.Tier}})
	}
	nontrivial := 0
	for dk := range ps.distinct {
		sig := uint32(dk)
		kind := sig & 0xff
		if dk>>32 >= 0xf000 {
			nontrivial++
			continue
		}
		if kind == sigEOF || (kind == sigFailToParse && (sig>>8)&0xffff == 0) {
			continue
		}
		nontrivial++
	}
	exhaustive := true
	for _, fc := range ps.perFamily {
		if fc.TasksDone < fc.Tasks {
			exhaustive = false
		}
	}
	if b, ok := bfsCov["exhaustive"].(bool); ok && !b {
		exhaustive = false
	}
	cov := report.Coverage{
		"evaluations":            ps.evals,
		"cases":                  ps.cases,
		"distinct_nontrivial":    nontrivial,
		"rule":                   "cases are (entry point, input) pairs enumerated by odometers (no repeats inside a family); an evaluation is trivial when the decoder stops with end-of-input before it has read one TLV header. Distinctness of the hundreds of millions of non-trivial cases is not stored, so distinct_nontrivial is the conservative, measured number of distinct (entry point, outcome signature) pairs observed among them (outcome signature = ok / error type with the TLV type number it names / panic / for the link service dropped|dispatched|stored per fragment kind); nontrivial_evaluations is the raw count",
		"nontrivial_evaluations": ps.evals - ps.trivial,
		"accessor_calls":         ps.sweep,
		"accessors_swept":        d.Accessors,
		"samples":                ps.samples.List(),
		"exhaustive":             exhaustive,
		"generated_parsers":      len(models),
		"entry_points":           len(d.Entries),
		"seeds":                  len(d.Seeds),
		"seed_notes":             d.SeedNotes,
		"families":               ps.perFamily,
		"outcomes":               ps.sigs,
		"max_alloc_one_call":     ps.maxAlloc,
		"worker_deaths":          ps.deaths,
		"transient_deaths":       ps.transient,
		"hangs":                  ps.hangs,
		"frame_sequences":        bfsCov,
		"reconfiguration_histories": map[string]any{"alphabet": reconfEvents, "depth": reconfDepth(), "histories_per_configuration": reconfSize(), "configurations": map[bool]string{false: "2 threads, non-local and local face", true: "1, 2, 32 threads x non-local / local face"}[thorough],
			"checked": "last event of every history (all shorter histories are members of the family)", "setter_panics": ps.setterPanics},
		"fragment_histories": map[string]any{"genuine_frames": fragGenuineNames, "rejected_kinds": fragRejKinds, "header_variants": fragHeaderVariants,
			"orders_x_positions": len(fragSlots()), "inserted_sequences": len(fragInserts()), "histories_per_configuration": fragSize(),
			"checked": "every frame from the inserted one on with C04.panic / C04.state (verdict from the white-box reassembly store); differential against the history without the inserted frame after every later frame"},
		"alloc_attribution":         attrCov,
		"build_s":                   tBuild.Seconds(),
		"workers":                   enum.Workers(),
		"ulimit_v_kib":              ulimitKB,
		"mem_bound":                 fmt.Sprintf("%d*len + %d KiB + input-independent cost of the entry (measured on the empty input) + harness-side reader construction; stream entries that hand frames to a consumer: + 1 KiB per delivered frame", memPerByte, memConst>>10),
		"fixed_alloc_entries":       d.Fixed,
		"notes":                     ps.notes,
		"cases_not_a_case":          ps.skipped,
		"alloc_chunk_trips":         ps.trips,
		"alloc_single_measurements": ps.precise,
	}
	assumptions := []string{
		"input space is the stated finite families (all byte strings of length <=2 on every entry; all 3-byte strings on the byte-level decoders [quick] / every decoder with the contiguous reader [thorough]; all strings over the 21-symbol TLV alphabet up to length 4 on the core entries and length 5 [quick] / 5-6 [thorough] on every decoder; every single structure-aware mutation of every seed; pairs for packet-level seeds in thorough; LpPacket header products; frame sequences to depth 2/3; single frames holding every ordered pair / triple of 21 classes of top-level TLV, pairs also as an LpPacket fragment; frames of 8799..131072 bytes; 224 [quick] / 1148 [thorough] TLV header forms at a frame boundary followed by more than 32+2 maximum packets of traffic); longer or differently shaped inputs are not covered",
		"allocation is measured as runtime.MemStats.TotalAlloc growth of the single-threaded worker (exact: mcaches are flushed); an input-independent allocation of an entry (e.g. the 281600-byte stream buffer) is measured on the empty input and not charged",
		"a worker death is attributed through the worker's progress marker and believed only after the single case reproduces it in 3 fresh workers; after " + fmt.Sprint(groupDeathLimit) + " deaths in one family group the rest of the group is abandoned (exhaustive=false)",
		"hangs: a call that does not return within 20 s (60 s x3 on confirmation) or, for the scripted stream readers, 100000 consecutive zero-length reads (a scripted connection answers Read(empty buffer) with (0, nil) like a net.Conn: the loop state then repeats exactly)",
		"allocation of the stream entries that hand every frame to a consumer (link service, ReadPacket): bound + 1 KiB per delivered frame (the consumer's input-independent cost is paid per frame; a 300 kB stream of 2-byte blocks is 150 000 frames)",
		"forwarding threads are recording stubs; PIT/CS/FIB are therefore never reached by a frame in this check",
		"link-service histories (single frames, sequences, bursts, reconfiguration histories): every frame is copied into ONE receive buffer per face, whose earlier content is overwritten first (a transport owns its buffer between calls); C04.state compares the link-service dump and a deep fingerprint of every packet already handed to a recording thread before/after a frame that fails to decode or has contradictory fragmentation fields; the stream entries use readTlvStream's own buffer",
		"C04.state reads 'a frame that fails to decode' as: a frame the receive path cannot turn into a packet - not a TLV packet; Sequence with FragCount=0 or FragIndex>=FragCount; a fragment whose FragCount contradicts the slot its base sequence already has in the reassembly store; an unfragmented LpPacket / a completed reassembly whose bytes do not decode (then the completed slot itself may be consumed). Frames outside these classes (genuine fragments, IDLE, fragmentation fields without Sequence, nested LpPackets, FragCount above the implementation's limit) are not judged, except that NO later frame may change a packet already handed to a forwarding thread",
	}
	rep.Finish(cov, assumptions)
}

func tail(s string, n int) string {
	if len(s) > n {
		return s[len(s)-n:]
	}
	return s
}

// runAttribution resolves "site pending" allocation violations to allocation sites.
func runAttribution(pool *pool, ps *parentState, deadline time.Time) map[string]any {
	ps.mu.Lock()
	pend := ps.pendAttr
	ps.pendAttr = nil
	ps.mu.Unlock()
	// smallest inputs first; at most 4 per entry
	sort.SliceStable(pend, func(i, j int) bool { return pend[i].Len < pend[j].Len })
	perEntry := map[string]int{}
	done, failed := 0, 0
	var mu sync.Mutex
	var wg sync.WaitGroup
	sem := make(chan struct{}, 4)
	for _, v := range pend {
		if perEntry[v.Entry] >= 4 || time.Now().After(deadline) {
			// not attributed individually: same entry already represented
			continue
		}
		perEntry[v.Entry]++
		v := v
		wg.Add(1)
		sem <- struct{}{}
		go func() {
			defer func() { <-sem; wg.Done() }()
			t := task{ID: 7, Kind: "attr", Family: v.Family, Lo: v.Index, Hi: v.Index + 1, Only: v.EntryI}
			if v.EntryI < 0 || v.Family < 0 {
				// a link-service frame: replay the bytes through the single-frame link-service entry
				t.Input = v.Input
				t.Only = -1
				for i, n := range ps.desc.Entries {
					if n == "face.NDNLPLinkService.handleIncomingFrame/nonlocal/2thr" {
						t.Only = i
					}
				}
			}
			var res *result
			if t.Only >= 0 && !strings.Contains(t.Input, "…") {
				r, err := pool.runOnce(t, nil, 60*time.Second, true)
				if err == nil {
					res = r.res
				}
			}
			mu.Lock()
			defer mu.Unlock()
			if res != nil && len(res.Viol) > 0 {
				for _, nv := range res.Viol {
					nv.Case, nv.Input, nv.Len = v.Case, v.Input, v.Len
					if v.EntryI < 0 || v.Family < 0 { // a link-service history: keep its own replay coordinates
						nv.Hist, nv.Cfg, nv.Family, nv.Index, nv.Entry, nv.EntryI = v.Hist, v.Cfg, v.Family, v.Index, v.Entry, v.EntryI
					}
					ps.addViol(nv)
				}
				done++
				return
			}
			failed++
			v.NeedAt = false
			kind := v.Entry
			if i := strings.Index(kind, "/"); i > 0 {
				kind = kind[:i]
			}
			v.Key = "unbounded allocation in " + kind + " (site not attributed)"
			ps.addViol(v)
		}()
	}
	wg.Wait()
	return map[string]any{"pending": len(pend), "attributed": done, "not_attributed": failed}
}

// runBFS explores frame sequences on the link service: breadth-first, canonical-state
// de-duplication, depth 2 (quick) / 3 (thorough).
func runBFS(pool *pool, ps *parentState, d *describeResponse, thorough bool, deadline time.Time, nextID *int64) map[string]any {
	depth := 2
	if thorough {
		depth = 3
	}
	cfgs := []int{1} // n=2, non-local (the local face differs only in how Data without a token is dispatched: covered by the single-frame product)
	cov := map[string]any{"depth": depth, "alphabet": d.LpFrames, "exhaustive": true,
		"alphabet_frames_that_are_not_LpPackets": lpExtraKinds,
		"receive_buffer":                         "all frames of a history are delivered in one receive buffer that is overwritten before the next frame; packets dispatched by earlier frames stay queued and are fingerprinted again after every later frame",
		"canonical_state":                        "white-box dump of the link service + kinds of packet (Interest/Data x bare/LpPacket) forwarding threads already hold"}
	var idMu sync.Mutex
	newID := func() int64 { idMu.Lock(); defer idMu.Unlock(); *nextID++; return *nextID + 1000000 }
	totalStates, totalTrans := 0, int64(0)
	for _, cfg := range cfgs {
		seen := map[string]bool{}
		frontier := [][]int{{}}
		// the initial state's hash is whatever a dropped frame leaves behind; it is discovered at depth 1
		levels := []int{}
		for lvl := 1; lvl <= depth && len(frontier) > 0; lvl++ {
			type found struct {
				hist []int
				h    string
			}
			var mu sync.Mutex
			var newStates []found
			var wg sync.WaitGroup
			const preBatch = 8
			chunk := int64(1500)
			famName := fmt.Sprintf("LpPacket frame sequences (cfg %d)", cfg)
			ps.mu.Lock()
			if ps.perFamily[famName] == nil {
				ps.perFamily[famName] = &famCov{}
			}
			fc := ps.perFamily[famName]
			ps.mu.Unlock()
			for p0 := 0; p0 < len(frontier); p0 += preBatch {
				p1 := p0 + preBatch
				if p1 > len(frontier) {
					p1 = len(frontier)
				}
				pre := frontier[p0:p1]
				for lo := int64(0); lo < int64(d.LpFrames); lo += chunk {
					hi := lo + chunk
					if hi > int64(d.LpFrames) {
						hi = int64(d.LpFrames)
					}
					j := &job{t: task{ID: newID(), Kind: "lpseq", N: cfg, Lo: lo, Hi: hi, Only: -1, Prefix: pre}, fam: famName, grpKey: fmt.Sprintf("lpseq/cfg%d/depth%d", cfg, lvl), prio: true}
					pre := pre
					j.done = func(r *result) {
						mu.Lock()
						for _, s := range r.States {
							if !seen[s.H] {
								seen[s.H] = true
								h := append(append([]int{}, pre[s.P]...), int(s.F))
								newStates = append(newStates, found{h, s.H})
							}
						}
						mu.Unlock()
					}
					ps.mu.Lock()
					fc.Tasks++
					fc.Size += int64(len(pre)) * (hi - lo)
					ps.mu.Unlock()
					wg.Add(1)
					pool.submit(j, func() { wg.Done() }, deadline)
				}
			}
			wg.Wait()
			sort.Slice(newStates, func(i, j int) bool { return newStates[i].h < newStates[j].h })
			frontier = frontier[:0]
			for _, s := range newStates {
				frontier = append(frontier, s.hist)
			}
			levels = append(levels, len(newStates))
			if time.Now().After(deadline) {
				cov["exhaustive"] = false
				break
			}
		}
		totalStates += len(seen)
		cov[fmt.Sprintf("cfg%d_new_states_per_depth", cfg)] = levels
		ps.mu.Lock()
		if fc := ps.perFamily[fmt.Sprintf("LpPacket frame sequences (cfg %d)", cfg)]; fc != nil {
			totalTrans += fc.Evals
			if fc.TasksDone < fc.Tasks {
				cov["exhaustive"] = false
			}
		}
		ps.mu.Unlock()
	}
	cov["states"] = totalStates
	cov["transitions"] = totalTrans
	return cov
}

func mustJSON(v any) string {
	b, _ := json.Marshal(v)
	return string(b)
}

// replay re-executes the single case of a replay file in a fresh worker (three times) and prints
// what it does. Exit status 1 if the recorded clause/key is reported again.
func replay(bin, path string) int {
	raw, err := os.ReadFile(path)
	if err != nil {
		report.Fatal("cannot read replay file: %v", err)
	}
	var rf struct {
		Clause string `json:"clause"`
		Key    string `json:"key"`
		Replay struct {
			Entry  string  `json:"entry"`
			EntryI int     `json:"entry_index"`
			Family int     `json:"family"`
			Index  int64   `json:"index"`
			Hist   []int64 `json:"hist"`
			Cfg    int     `json:"cfg"`
			Tier   string  `json:"tier"`
		} `json:"replay"`
	}
	if err := json.Unmarshal(raw, &rf); err != nil {
		report.Fatal("bad replay file: %v", err)
	}
	if rf.Replay.Tier != "" {
		os.Setenv("VERIF_TIER", rf.Replay.Tier) // family indices are tier specific
	}
	ps := &parentState{viols: map[string]*foundViol{}, confirmed: map[string]bool{}, sigs: map[string]int64{}, distinct: map[uint64]struct{}{},
		grpDeaths: map[string]int{}, grpDead: map[string]bool{}, perFamily: map[string]*famCov{}}
	pool := newPool(bin, 1, ps)
	defer pool.shutdown()
	var t task
	if rf.Replay.Family == -2 {
		t = task{ID: 11, Kind: "lpburst", Family: -2, N: rf.Replay.Cfg, Lo: rf.Replay.Index, Hi: rf.Replay.Index + 1, Only: -1}
	} else if rf.Replay.Family == -4 {
		t = task{ID: 11, Kind: "lpfrag", Family: -4, N: rf.Replay.Cfg, Lo: rf.Replay.Index, Hi: rf.Replay.Index + 1, Only: -1}
	} else if rf.Replay.Family == -3 {
		t = task{ID: 11, Kind: "lpreconf", Family: -3, N: rf.Replay.Cfg, Lo: rf.Replay.Index, Hi: rf.Replay.Index + 1, Only: -1}
	} else if len(rf.Replay.Hist) > 0 {
		t = task{ID: 11, Kind: "lphist", N: rf.Replay.Cfg, Hist: rf.Replay.Hist, Only: -1}
	} else {
		t = task{ID: 11, Kind: "enum", Family: rf.Replay.Family, Lo: rf.Replay.Index, Hi: rf.Replay.Index + 1, Only: rf.Replay.EntryI}
	}
	again := 0
	for i := 0; i < 3; i++ {
		o, err := pool.runOnce(t, nil, hangConfirm, false)
		switch {
		case err != nil:
			fmt.Printf("REPLAY run %d: error %v\n", i+1, err)
		case o.died || o.hung:
			c, k, d := classifyDeath(o, rf.Replay.Entry)
			fmt.Printf("REPLAY run %d: worker died/hung: %s %q (%s)\n", i+1, c, k, d)
			if c == rf.Clause {
				again++
			}
		default:
			hit := false
			for _, v := range o.res.Viol {
				fmt.Printf("REPLAY run %d: %s %q :: %s\n", i+1, v.Clause, v.Key, v.Detail)
				if v.Clause == rf.Clause && (v.Key == rf.Key || v.NeedAt) {
					hit = true
				}
			}
			if len(o.res.Viol) == 0 {
				fmt.Printf("REPLAY run %d: no violation; %v %v\n", i+1, o.res.Sigs, o.res.Samples)
			}
			if hit {
				again++
			}
		}
	}
	if again == 3 {
		fmt.Printf("VIOLATION property=C04 replay=%s clause=%s key=%q :: reproduced 3/3\n", path, rf.Clause, rf.Key)
		return 1
	}
	fmt.Printf("REPLAY property=C04 %s: recorded violation reproduced %d/3 times\n", path, again)
	if again > 0 {
		return 2
	}
	return 0
}
