package main

// This file is REPLACED at check time (through an extra build overlay) by a registry generated
// from the zz_generated.go files found in the repository being checked: see gen.go. The stub
// keeps the package buildable on its own (the parent process does not need the registry).

func init() {
	generated = nil
	generatedFrom = "stub"
}
