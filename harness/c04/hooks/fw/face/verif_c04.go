//go:build verif

// White-box access for the C04 harness (never part of a normal build): an in-memory transport,
// direct access to the synchronous receive entry points and a dump of the link service's private
// receive state.
package face

import (
	"fmt"
	"io"
	"sort"
	"strings"

	defn "github.com/named-data/ndnd/fw/defn"
)

// VerifC04Transport is a transport that never touches the network: frames the link service sends
// are recorded, received frames are injected by the harness through VerifC04Handle.
type VerifC04Transport struct {
	transportBase
	Sent [][]byte
}

func (t *VerifC04Transport) String() string                    { return "VerifC04Transport" }
func (t *VerifC04Transport) SetPersistency(p Persistency) bool { t.persistency = p; return true }
func (t *VerifC04Transport) GetSendQueueSize() uint64          { return 0 }
func (t *VerifC04Transport) sendFrame(f []byte) {
	t.Sent = append(t.Sent, append([]byte{}, f...))
	t.nOutBytes += uint64(len(f))
}
func (t *VerifC04Transport) runReceive() {}
func (t *VerifC04Transport) Close()      { t.running.Store(false) }

// VerifC04NewLinkService builds a real NDNLPLinkService (default options: reassembly and
// fragmentation enabled) on an in-memory transport. Nothing is started; the face table is not
// touched.
func VerifC04NewLinkService(faceID uint64, local bool, mtu int) *NDNLPLinkService {
	t := &VerifC04Transport{}
	scope := defn.NonLocal
	if local {
		scope = defn.Local
	}
	t.makeTransportBase(defn.MakeNullFaceURI(), defn.MakeNullFaceURI(), PersistencyPersistent, scope, defn.PointToPoint, mtu)
	t.running.Store(true)
	l := MakeNDNLPLinkService(t, MakeNDNLPLinkServiceOptions())
	l.SetFaceID(faceID)
	return l
}

// VerifC04Handle is the synchronous receive entry point of the link service (what every
// transport's receive loop calls for each frame).
func VerifC04Handle(l *NDNLPLinkService, frame []byte) { l.handleIncomingFrame(frame) }

// VerifC04ReadTlvStream is the stream framing loop used by the TCP/Unix/WebSocket transports.
func VerifC04ReadTlvStream(r io.Reader, onFrame func([]byte)) error {
	return readTlvStream(r, onFrame, nil)
}

// VerifC04Dump returns the private receive/send state of the link service: state = everything
// that is not a counter, counters = the packet counters.
func VerifC04Dump(l *NDNLPLinkService) (state string, counters string) {
	keys := make([]uint64, 0, len(l.partialMessageStore))
	for k := range l.partialMessageStore {
		keys = append(keys, k)
	}
	sort.Slice(keys, func(i, j int) bool { return keys[i] < keys[j] })
	var sb strings.Builder
	for _, k := range keys {
		frs := l.partialMessageStore[k]
		fmt.Fprintf(&sb, "pms[%d]=n%d{", k, len(frs))
		shown := 0
		for i, f := range frs {
			if len(f) != 0 {
				if shown < 8 {
					fmt.Fprintf(&sb, "%d:%x;", i, f)
				}
				shown++
			}
		}
		fmt.Fprintf(&sb, "#%d} ", shown)
	}
	fmt.Fprintf(&sb, "nextSeq=%d nextTx=%d sendQ=%d opts=%+v", l.nextSequence, l.nextTxSequence, len(l.sendQueue), l.options)
	if t, ok := l.transport.(*VerifC04Transport); ok {
		fmt.Fprintf(&sb, " sent=%d", len(t.Sent))
	}
	counters = fmt.Sprintf("inI=%d inD=%d outI=%d outD=%d", l.nInInterests, l.nInData, l.nOutInterests, l.nOutData)
	return sb.String(), counters
}

// VerifC04DumpCheap reports whether the link service's non-counter receive/send state is the
// initial one (no partial messages, nothing sent, sequence numbers untouched).
func VerifC04DumpCheap(l *NDNLPLinkService) (pristine bool, partial int) {
	sent := 0
	if t, ok := l.transport.(*VerifC04Transport); ok {
		sent = len(t.Sent)
	}
	return len(l.partialMessageStore) == 0 && l.nextSequence == 0 && l.nextTxSequence == 0 && len(l.sendQueue) == 0 && sent == 0, len(l.partialMessageStore)
}
