//go:build verif

package face

// VerifC04Store returns the live reassembly store (base sequence -> fragment slots) of the link
// service for READ-ONLY inspection by the C04 harness: the oracle needs to know, before a frame is
// handled, whether the frame's base sequence already has a slot and of which size (a fragment whose
// FragCount contradicts that slot is a frame the reassembly rejects), and which slots a rejected
// frame must leave alone.
func VerifC04Store(l *NDNLPLinkService) map[uint64][][]byte { return l.partialMessageStore }

// VerifC04ReassemblyEnabled reports the option that decides whether fragmentation fields are
// interpreted at all.
func VerifC04ReassemblyEnabled(l *NDNLPLinkService) bool { return l.options.IsReassemblyEnabled }
