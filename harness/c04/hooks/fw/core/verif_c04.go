//go:build verif

// White-box access for the C04 harness (never part of a normal build).
package core

import "github.com/named-data/ndnd/std/log"

// VerifC04Silence turns the forwarder's logging off (no level is <= the configured one), so that
// millions of rejected frames do not write to stderr. Logging is not behaviour under test.
func VerifC04Silence() {
	logLevel = log.FatalLevel + 1
	shouldPrintTraceLogs = false
}
