//go:build verif

// White-box access for the C04 harness (never part of a normal build).
package face

import (
	"net"

	enc "github.com/named-data/ndnd/std/encoding"
)

// VerifC04RunStream runs the client-side stream face receive loop (StreamFace.Run) on the given
// connection, synchronously, until it returns.
func VerifC04RunStream(conn net.Conn, onPkt func(r enc.ParseReader) error, onError func(err error) error) {
	f := NewStreamFace("verif", "verif", true)
	f.SetCallback(onPkt, onError)
	f.conn = conn
	f.running.Store(true)
	f.Run()
}
