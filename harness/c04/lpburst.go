package main

// Macro-operation histories on one face ("deviation style": long, but one parameter each): a
// burst of k first fragments that each open a distinct, never completed packet - or k copies of
// the same fragment - followed by one more first fragment, or by the fragments that complete the
// first / the last opened packet. Every frame of the history is applied with all checks
// (C04.panic, C04.mem per frame, C04.state).

import (
	"fmt"

	fwface "github.com/named-data/ndnd/fw/face"
	enc "github.com/named-data/ndnd/std/encoding"
	spec "github.com/named-data/ndnd/std/ndn/spec_2022"
)

var burstK = []int{63, 64, 65, 66, 128, 129, 257}
var burstFC = []int{2, 3}
var burstFollow = []string{"one more first fragment", "complete the first packet", "complete the last packet"}

type burstCase struct {
	k, fc  int
	dup    bool
	follow int
}

func burstSize() int64 { return int64(len(burstK) * len(burstFC) * 2 * len(burstFollow)) }

func burstDecode(i int64) burstCase {
	c := burstCase{}
	c.follow = int(i % int64(len(burstFollow)))
	i /= int64(len(burstFollow))
	c.dup = i%2 == 1
	i /= 2
	c.fc = burstFC[i%int64(len(burstFC))]
	i /= int64(len(burstFC))
	c.k = burstK[i]
	return c
}

func (c burstCase) String() string {
	kind := "distinct first fragments (never completed)"
	if c.dup {
		kind = "copies of the same first fragment"
	}
	return fmt.Sprintf("burst of %d %s, FragCount=%d, then %s", c.k, kind, c.fc, burstFollow[c.follow])
}

func lpMk(seq, fi, fc uint64, frag []byte) []byte {
	if lpPktIdx == -2 {
		lpPktIdx = genIndex("std/ndn/spec_2022", "Packet")
	}
	return generated[lpPktIdx].Encode(&spec.Packet{LpPacket: &spec.LpPacket{Sequence: &seq, FragIndex: &fi, FragCount: &fc, Fragment: enc.Wire{frag}}})
}

// piece j of the minimal Interest cut in fc pieces
func burstPiece(j, fc int) []byte {
	n := len(seedInterestMin)
	return seedInterestMin[j*n/fc : (j+1)*n/fc]
}

type burstFrame struct {
	desc  string
	bytes []byte
}

func burstFrames(c burstCase) []burstFrame {
	var fr []burstFrame
	base := func(i int) uint64 { return uint64(1000 + i*c.fc) }
	for i := 0; i < c.k; i++ {
		m := i
		if c.dup {
			m = 0
		}
		fr = append(fr, burstFrame{fmt.Sprintf("burst[%d] Seq=%d FragIndex=0 FragCount=%d", i, base(m), c.fc), lpMk(base(m), 0, uint64(c.fc), burstPiece(0, c.fc))})
	}
	last := c.k - 1
	if c.dup {
		last = 0
	}
	switch c.follow {
	case 0:
		fr = append(fr, burstFrame{fmt.Sprintf("new Seq=%d FragIndex=0 FragCount=%d", base(c.k), c.fc), lpMk(base(c.k), 0, uint64(c.fc), burstPiece(0, c.fc))})
	case 1, 2:
		m := 0
		if c.follow == 2 {
			m = last
		}
		for j := 1; j < c.fc; j++ {
			fr = append(fr, burstFrame{fmt.Sprintf("complete Seq=%d FragIndex=%d FragCount=%d", base(m)+uint64(j), j, c.fc), lpMk(base(m)+uint64(j), uint64(j), uint64(c.fc), burstPiece(j, c.fc))})
		}
	}
	return fr
}

// runLpBurst: t.N = configuration, cases [Lo,Hi).
func runLpBurst(t task, a *acc) {
	cfg := lpConfigs[t.N]
	skip := skipSet(t)
	for i := t.Lo; i < t.Hi; i++ {
		if skip != nil && skip[[2]int64{i, int64(-1 - t.N)}] {
			continue
		}
		c := burstDecode(i)
		frames := burstFrames(c)
		l := lpNewService(t.N)
		mark(t.ID, i, -1-t.N)
		dispatched := 0
		for fi, f := range frames {
			r := lpApply(l, f.bytes, true, "")
			a.res.Evals++
			if r.alloc > a.res.MaxAlloc {
				a.res.MaxAlloc = r.alloc
			}
			dispatched += r.q
			if r.v != nil {
				v := r.v
				k := v.Clause + "|" + v.Key
				a.seenKey[k]++
				if a.seenKey[k] == 1 {
					if v.rec != nil {
						v.Detail = fmt.Sprintf("panic: %v at %s", v.rec, v.Detail)
						v.rec = nil
					}
					v.NeedAt = false
					if v.Clause == "C04.mem" {
						v.Key = "unbounded allocation handling one frame of a fragment burst"
					}
					v.Entry = fmt.Sprintf("face.NDNLPLinkService.handleIncomingFrame/burst n=%d local=%v", cfg.n, cfg.local)
					v.EntryI, v.Family, v.Index, v.Cfg = -1-t.N, -2, i, t.N
					v.Case = fmt.Sprintf("%s; violating frame %d of %d: %s", c, fi+1, len(frames), f.desc)
					v.Input, v.Len = inputHex(f.bytes), len(f.bytes)
					a.res.Viol = append(a.res.Viol, *v)
				}
				if v.Clause == "C04.panic" {
					resetAfterPanic()
				}
				a.kinds[len(sigNames)]++
				break
			}
		}
		a.res.Cases++
		a.distinct[uint64(0xf100+t.N)<<32|uint64(i)<<8|uint64(dispatched&0xff)] = struct{}{}
		if a.samples < 2 {
			st, _ := fwface.VerifC04DumpCheap(l)
			a.res.Samples = append(a.res.Samples, fmt.Sprintf("n=%d local=%v %s -> %d frames, dispatched=%d, store empty=%v", cfg.n, cfg.local, c, len(frames), dispatched, st))
			a.samples++
		}
	}
}
