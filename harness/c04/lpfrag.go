package main

// Histories of GENUINE fragments with a REJECTED frame at every position.
//
// "A frame that fails to decode changes no forwarder state other than counters ... for every
// sequence of such frames on a face (fragment index/count/sequence combinations)". The genuine
// traffic of this family is three packets in flight on one face:
//
//   C        an unfragmented LpPacket: Data with a 6-byte PIT token and a congestion mark
//   A0 A1 A2 the three fragments of a Data packet (Sequence 1000..1002, PIT token on every fragment)
//   B0 B1    the two fragments of an Interest (Sequence 2000..2001)
//
// delivered in EVERY order (fragments may overtake each other; packets interleave). At every
// position p of such an order one frame of the rejected alphabet is inserted: rejected kinds
// (undecodable bytes; undecodable fragment; FragCount contradicting packet A's / packet B's slot
// with the index of a stored, a missing and the first fragment; FragIndex >= FragCount; FragCount
// = 0; a garbage last fragment) x link-layer header variants (none; another 6-byte PIT token +
// other congestion mark + next-hop face + cache policy; a 4-byte token; an 8-byte token).
// Whether the inserted frame IS rejected depends on the history before it (a FragCount=2 fragment
// of base 1000 contradicts packet A only once a fragment of A is stored; before that it opens a
// slot of its own) - that is the point: the same frame is tried in front of every reachable
// reassembly state.
//
// Oracle, on the real link service:
//  (1) every frame of the history, genuine or not, goes through lpApply: C04.panic, and C04.state
//      with the verdict of lpreject.go - a rejected frame dispatches nothing, leaves the white-box
//      reassembly store / link-service dump as it was and leaves every packet already handed to a
//      forwarding thread (bytes, PIT token, marks, decoded fields: held BY REFERENCE since their
//      dispatch) exactly as dispatched; ANY later frame leaves those packets alone;
//  (2) differential (the clause applied by induction): if the inserted frame was rejected with
//      "changes nothing", then after EVERY later frame of the history the observable state - dump
//      of the link service plus, per forwarding thread, the content of every queued packet - equals
//      the state of the same genuine history without the inserted frame. This sees state the dump
//      does not print (scratch buffers, caches, anything a later frame's handling depends on).
//
// quick: every set of genuine frames already received x every choice of the one received last
// (193 histories), the inserted frame, then the remaining genuine frames in ascending order.
// thorough: every permutation x every position (5040), and besides single inserted frames every
// ordered PAIR of inserted frames (both with header variant 1) in the same place.

import (
	"fmt"
	"hash/fnv"
	"os"
	"reflect"
	"strings"

	fwface "github.com/named-data/ndnd/fw/face"
	enc "github.com/named-data/ndnd/std/encoding"
	spec "github.com/named-data/ndnd/std/ndn/spec_2022"
)

var fragGenuineNames = []string{"C", "A0", "A1", "A2", "B0", "B1"}

const fragNG = 6

var fragRejKinds = []string{
	"undecodable: the LpPacket cut one byte short",
	"unfragmented, fragment = garbage",
	"Seq=1000 FragIndex=0 FragCount=2 (contradicts A; index of A0)",
	"Seq=1001 FragIndex=1 FragCount=4 (contradicts A; index of A1)",
	"Seq=1002 FragIndex=2 FragCount=5 (contradicts A; index of A2)",
	"Seq=2000 FragIndex=0 FragCount=3 (contradicts B; index of B0)",
	"Seq=2001 FragIndex=1 FragCount=300 (contradicts B; index of B1)",
	"Seq=1002 FragIndex=2 FragCount=2 (FragIndex >= FragCount, base of A)",
	"Seq=2000 FragIndex=0 FragCount=0 (FragCount = 0, base of B)",
	"Seq=2001 FragIndex=1 FragCount=2 fragment = garbage (B's last fragment)",
	"Seq=1001 FragIndex=1 FragCount=3 fragment = garbage (A's middle fragment)",
}

var fragHeaderVariants = []string{"no header fields", "PitToken(6 bytes, other) CongestionMark=7 NextHopFaceId=300 CachePolicy=NoCache", "PitToken(4 bytes)", "PitToken(8 bytes)"}

func fragNR() int { return len(fragRejKinds) * len(fragHeaderVariants) }

func fragRejName(r int) string {
	return "R{" + fragRejKinds[r/len(fragHeaderVariants)] + "; " + fragHeaderVariants[r%len(fragHeaderVariants)] + "}"
}

func fragThorough() bool { return os.Getenv("VERIF_TIER") == "thorough" }

// ---- frames ----

func fragLp(seq, fi, fc *uint64, tok []byte, cm, nh *uint64, cp bool, frag []byte) []byte {
	if lpPktIdx == -2 {
		lpPktIdx = genIndex("std/ndn/spec_2022", "Packet")
	}
	p := &spec.LpPacket{Sequence: seq, FragIndex: fi, FragCount: fc, PitToken: tok, CongestionMark: cm, NextHopFaceId: nh, Fragment: enc.Wire{frag}}
	if cp {
		p.CachePolicy = &spec.CachePolicy{CachePolicyType: 1}
	}
	return generated[lpPktIdx].Encode(&spec.Packet{LpPacket: p})
}

func u64p(v uint64) *uint64 { return &v }

func fragPiece(b []byte, j, n int) []byte { return b[j*len(b)/n : (j+1)*len(b)/n] }

var fragGarbage = []byte{0x06, 0x05, 0x07, 0x7f, 0x08, 0x01, 'a'}

var fragFrameCache = map[int][][]byte{}

// fragFrame: frame e of the family's alphabet for thread count n: e < fragNG genuine, else rejected e-fragNG.
func fragFrame(n, e int) []byte {
	c := fragFrameCache[n]
	if c == nil {
		c = make([][]byte, fragNG+fragNR())
		fragFrameCache[n] = c
	}
	if c[e] != nil {
		return c[e]
	}
	tokC := []byte{0, byte(n - 1), 0xc1, 0xc2, 0xc3, 0xc4}
	tokA := []byte{0, 0, 0xa1, 0xa2, 0xa3, 0xa4}
	var b []byte
	switch {
	case e == 0:
		b = fragLp(nil, nil, nil, tokC, u64p(1), nil, false, seedDataMin)
	case e <= 3:
		j := e - 1
		b = fragLp(u64p(uint64(1000+j)), u64p(uint64(j)), u64p(3), tokA, nil, nil, false, fragPiece(seedDataMin, j, 3))
	case e <= 5:
		j := e - 4
		b = fragLp(u64p(uint64(2000+j)), u64p(uint64(j)), u64p(2), nil, nil, nil, false, fragPiece(seedInterestMin, j, 2))
	default:
		r := e - fragNG
		kind, hv := r/len(fragHeaderVariants), r%len(fragHeaderVariants)
		var tok []byte
		var cm, nh *uint64
		cp := false
		switch hv {
		case 1:
			tok, cm, nh, cp = []byte{0, 0, 0x5e, 0x5e, 0x5e, 0x5e}, u64p(7), u64p(300), true
		case 2:
			tok = []byte{0, byte(n - 1), 0x44, 0x44}
		case 3:
			tok = []byte{0, 0, 0x88, 0x88, 0x88, 0x88, 0x88, 0x88}
		}
		mk := func(seq, fi, fc uint64, frag []byte) []byte {
			return fragLp(u64p(seq), u64p(fi), u64p(fc), tok, cm, nh, cp, frag)
		}
		switch kind {
		case 0:
			b = fragLp(nil, nil, nil, tok, cm, nh, cp, seedDataMin)
			b = b[:len(b)-1]
		case 1:
			b = fragLp(nil, nil, nil, tok, cm, nh, cp, fragGarbage)
		case 2:
			b = mk(1000, 0, 2, fragPiece(seedDataMin, 0, 2))
		case 3:
			b = mk(1001, 1, 4, fragPiece(seedDataMin, 1, 4))
		case 4:
			b = mk(1002, 2, 5, fragPiece(seedDataMin, 2, 5))
		case 5:
			b = mk(2000, 0, 3, fragPiece(seedInterestMin, 0, 3))
		case 6:
			b = mk(2001, 1, 300, fragPiece(seedInterestMin, 1, 2))
		case 7:
			b = mk(1002, 2, 2, fragPiece(seedDataMin, 1, 2))
		case 8:
			b = mk(2000, 0, 0, fragPiece(seedInterestMin, 0, 2))
		case 9:
			b = mk(2001, 1, 2, fragGarbage)
		case 10:
			b = mk(1001, 1, 3, fragGarbage)
		}
	}
	c[e] = b
	return b
}

func fragEventName(e int) string {
	if e < fragNG {
		return fragGenuineNames[e]
	}
	return fragRejName(e - fragNG)
}

// ---- genuine orders and insertion positions ----

type fragSlot struct {
	perm []int // order of the six genuine frames
	pos  int   // the inserted frame goes in front of perm[pos] (pos = 6: at the end)
}

var fragSlotsCache []fragSlot

// fragSlots: thorough = every permutation x every position. quick = for every SET of genuine frames
// already received and every choice of the LAST one received (the frame whose handling immediately
// precedes the inserted one): the others in ascending order, the chosen last one, the inserted
// frame, the rest in ascending order (193 = 6*32+1 histories of genuine frames).
func fragSlots() []fragSlot {
	if fragSlotsCache != nil {
		return fragSlotsCache
	}
	if !fragThorough() {
		for set := 0; set < 1<<fragNG; set++ {
			lasts := []int{-1}
			if set != 0 {
				lasts = lasts[:0]
				for g := 0; g < fragNG; g++ {
					if set&(1<<uint(g)) != 0 {
						lasts = append(lasts, g)
					}
				}
			}
			for _, last := range lasts {
				var perm []int
				for g := 0; g < fragNG; g++ {
					if set&(1<<uint(g)) != 0 && g != last {
						perm = append(perm, g)
					}
				}
				if last >= 0 {
					perm = append(perm, last)
				}
				pos := len(perm)
				for g := 0; g < fragNG; g++ {
					if set&(1<<uint(g)) == 0 {
						perm = append(perm, g)
					}
				}
				fragSlotsCache = append(fragSlotsCache, fragSlot{perm: perm, pos: pos})
			}
		}
		return fragSlotsCache
	}
	var perms [][]int
	var rec func(cur []int, used int)
	rec = func(cur []int, used int) {
		if len(cur) == fragNG {
			perms = append(perms, append([]int{}, cur...))
			return
		}
		for g := 0; g < fragNG; g++ {
			if used&(1<<uint(g)) == 0 {
				rec(append(cur, g), used|1<<uint(g))
			}
		}
	}
	rec(nil, 0)
	for _, p := range perms {
		for pos := 0; pos <= fragNG; pos++ {
			fragSlotsCache = append(fragSlotsCache, fragSlot{perm: p, pos: pos})
		}
	}
	return fragSlotsCache
}

// fragInserts: the inserted frame sequences (one rejected frame of every kind x header variant;
// thorough: also ordered pairs of rejected frames, both with header variant 1).
var fragInsertsCache [][]int

func fragInserts() [][]int {
	if fragInsertsCache != nil {
		return fragInsertsCache
	}
	for r := 0; r < fragNR(); r++ {
		fragInsertsCache = append(fragInsertsCache, []int{r})
	}
	if fragThorough() {
		hv := len(fragHeaderVariants)
		for r1 := 0; r1 < fragNR(); r1++ {
			for r2 := 0; r2 < fragNR(); r2++ {
				if r1%hv == 1 && r2%hv == 1 {
					fragInsertsCache = append(fragInsertsCache, []int{r1, r2})
				}
			}
		}
	}
	return fragInsertsCache
}

func fragSize() int64 { return int64(len(fragSlots())) * int64(len(fragInserts())) }

// fragHistory: the events of history i and the index range [lo,hi) of the inserted frames in it.
func fragHistory(i int64) (ev []int, lo, hi int) {
	ins := fragInserts()
	s := fragSlots()[i/int64(len(ins))]
	in := ins[i%int64(len(ins))]
	ev = append(ev, s.perm[:s.pos]...)
	lo = len(ev)
	for _, r := range in {
		ev = append(ev, fragNG+r)
	}
	hi = len(ev)
	ev = append(ev, s.perm[s.pos:]...)
	return
}

func fragDescribe(ev []int) string {
	parts := make([]string, len(ev))
	for i, e := range ev {
		parts[i] = fragEventName(e)
	}
	return strings.Join(parts, " ; ")
}

// ---- observable state ----

// fragObs: link-service dump + the content of every packet in every forwarding thread's queue
// (content fingerprints: comparable between two runs).
func fragObs(l *fwface.NDNLPLinkService) string {
	var sb strings.Builder
	st, _ := fwface.VerifC04Dump(l)
	sb.WriteString(st)
	for ti, t := range recThreads {
		fmt.Fprintf(&sb, " | thread %d: I[", ti)
		for _, p := range t.interests {
			fmt.Fprintf(&sb, "%s ", fragPktStr(p))
		}
		sb.WriteString("] D[")
		for _, p := range t.datas {
			fmt.Fprintf(&sb, "%s ", fragPktStr(p))
		}
		sb.WriteString("]")
	}
	return sb.String()
}

func fragPktStr(p *pktT) string {
	if p == nil {
		return "nil"
	}
	h := fnv.New64a()
	h.Write(p.Raw)
	l3 := fnv.New64a()
	func() {
		defer func() { recover() }()
		fpWalk(l3, reflect.ValueOf(p.L3), 0)
		fpWalk(l3, reflect.ValueOf(p.Name), 0)
	}()
	opt := func(v *uint64) string {
		if v == nil {
			return "-"
		}
		return fmt.Sprint(*v)
	}
	return fmt.Sprintf("{%dB#%08x tok=%x cm=%s nh=%s cp=%s in=%s l3#%08x}", len(p.Raw), uint32(h.Sum64()), p.PitToken, opt(p.CongestionMark), opt(p.NextHopFaceID), opt(p.CachePolicy), opt(p.IncomingFaceID), uint32(l3.Sum64()))
}

// fragBaseline: observable state after each prefix of a genuine order (no inserted frame), per
// configuration; every frame of a baseline run is itself applied with all checks the first time.
var fragBaseCache = map[string][]string{}

func fragBaseline(cfg int, perm []int, a *acc, onViol func(v *violation, ev []int, at int, frame []byte)) []string {
	key := fmt.Sprint(cfg, perm)
	if b, ok := fragBaseCache[key]; ok {
		return b
	}
	n := lpConfigs[cfg].n
	l := lpNewService(cfg)
	obs := []string{fragObs(l)}
	for k, e := range perm {
		frame := fragFrame(n, e)
		r := lpApply(l, frame, false, "")
		a.res.Evals++
		if r.v != nil {
			onViol(r.v, perm, k, frame)
			if r.v.Clause == "C04.panic" {
				resetAfterPanic()
			}
			obs = nil
			break
		}
		obs = append(obs, fragObs(l))
	}
	if len(fragBaseCache) > 4096 {
		fragBaseCache = map[string][]string{}
	}
	fragBaseCache[key] = obs
	return obs
}

const fragDiffKey = "after a frame that fails to decode the face no longer behaves as if the frame had not been received (later genuine frames leave a different reassembly store / different packets in the forwarding threads' queues)"

// runLpFrag: t.N = configuration, histories [Lo,Hi).
func runLpFrag(t task, a *acc) {
	cfg := lpConfigs[t.N]
	skip := skipSet(t)
	ins := fragInserts()
	var complete, rejectedIns, acceptedIns, diffChecks int64
	classes := map[string]int64{}
	for i := t.Lo; i < t.Hi; i++ {
		if skip != nil && skip[[2]int64{i, int64(-1 - t.N)}] {
			continue
		}
		ev, lo, hi := fragHistory(i)
		slot := fragSlots()[i/int64(len(ins))]
		mark(t.ID, i, -1-t.N)
		report := func(v *violation, evs []int, at int, frame []byte) {
			k := v.Clause + "|" + v.Key
			a.seenKey[k]++
			a.kinds[len(sigNames)]++
			if a.seenKey[k] > 1 {
				return
			}
			if v.rec != nil {
				v.Detail = fmt.Sprintf("panic: %v at %s", v.rec, v.Detail)
				v.rec = nil
			}
			v.NeedAt = false
			v.Entry = fmt.Sprintf("face.NDNLPLinkService.handleIncomingFrame/fragment histories n=%d local=%v", cfg.n, cfg.local)
			v.EntryI, v.Family, v.Index, v.Cfg = -1-t.N, -4, i, t.N
			v.Case = fmt.Sprintf("%s; violating frame %d of %d: %s", fragDescribe(evs), at+1, len(evs), fragEventName(evs[at]))
			v.Hist = nil
			for _, e := range evs {
				v.Hist = append(v.Hist, int64(e))
			}
			v.Input, v.Len = inputHex(frame), len(frame)
			a.res.Viol = append(a.res.Viol, *v)
		}
		base := fragBaseline(t.N, slot.perm, a, report)
		a.res.Cases++
		if base == nil {
			continue // the genuine order itself violates (reported)
		}
		l := lpNewService(t.N)
		okPre := true
		// the genuine prefix was checked frame by frame in the baseline run: replay it
		for _, e := range ev[:lo] {
			func() {
				defer func() {
					if recover() != nil {
						okPre = false
					}
				}()
				frame := fragFrame(cfg.n, e)
				fwface.VerifC04Handle(l, lpRx.load(frame))
				lpRx.settle(frame)
			}()
		}
		if !okPre {
			resetAfterPanic()
			continue
		}
		removable := true
		bad := false
		for k := lo; k < len(ev) && !bad; k++ {
			frame := fragFrame(cfg.n, ev[k])
			r := lpApply(l, frame, false, "")
			a.res.Evals++
			if r.v != nil {
				report(r.v, ev, k, frame)
				if r.v.Clause == "C04.panic" {
					resetAfterPanic()
				}
				bad = true
				break
			}
			if k < hi {
				vd := r.verdictOf(frame)
				cl := vd.class
				if cl == "" {
					cl = "accepted (stored / dispatched / not judged)"
				}
				classes[cl]++
				if vd.removable() {
					rejectedIns++
				} else {
					acceptedIns++
					removable = false
				}
			}
			// differential: the history without the inserted frames has seen k+1-(hi-lo) genuine frames
			if removable && k >= hi-1 {
				diffChecks++
				g := k + 1 - (hi - lo)
				if now := fragObs(l); now != base[g] {
					v := &violation{Clause: "C04.state", Key: fragDiffKey,
						Detail: fmt.Sprintf("every inserted frame was rejected (must change nothing), yet after frame %d (%s) the face holds %q; the same history without the inserted frame(s) holds %q", k+1, fragEventName(ev[k]), now, base[g])}
					report(v, ev, k, frame)
					bad = true
				}
			}
		}
		if bad {
			continue
		}
		if queued() == 3 {
			complete++
		}
		a.distinct[uint64(0xf300+t.N)<<32|uint64(slot.pos)<<24|uint64(ins[i%int64(len(ins))][0])<<8|uint64(queued()&0xff)] = struct{}{}
		if a.samples < 1 && t.Lo == 0 && removable && lo == 3 {
			a.res.Samples = append(a.res.Samples, fmt.Sprintf("fragment history n=%d local=%v %s -> %s", cfg.n, cfg.local, fragDescribe(ev), fragObs(l)))
			a.samples++
		}
	}
	a.res.Sigs["lpfrag:all three packets delivered"] += complete
	a.res.Sigs["lpfrag:inserted frame rejected (differential applies)"] += rejectedIns
	a.res.Sigs["lpfrag:inserted frame accepted or slot-consuming"] += acceptedIns
	a.res.Sigs["lpfrag:differential comparisons"] += diffChecks
	for c, n := range classes {
		a.res.Sigs["lpfrag verdict:"+c] += n
	}
}
