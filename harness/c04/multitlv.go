package main

// Frames that hold SEVERAL top-level TLVs.
//
// A frame is whatever a transport hands to handleIncomingFrame in one call: a WebSocket message,
// the first datagram of a new UDP face, an internal-face message - none of them is cut at TLV
// boundaries (only the stream framing of TCP/Unix/UDP does that). spec.Packet accepts its members
// (Interest, Data, LpPacket) in any order and any number; ReadPacket validates only the first
// non-nil member in the order Data, Interest, LpPacket, and the link service then branches on
// LpPacket first. The combinations are therefore a dimension of their own: this family
// enumerates EVERY ordered pair and EVERY ordered triple over an alphabet of top-level TLVs that
// has one representative of each class the receive path distinguishes (valid / parse-ok-but-
// rejected-by-ReadPacket / undecodable Interest and Data; IDLE, header-only, empty-fragment,
// complete, fragmented, invalidly fragmented LpPackets; unknown critical / non-critical /
// type-0 TLVs; truncated tails), and every pair once more as the Fragment of an LpPacket (the
// inner ReadPacket + dispatch decision of the link service sees the same combinations).
// Pairs run on every packet-level entry (decoders, link service in all configurations, stream
// framing - which splits them into single frames); triples on everything but the stream entries.
// A reduced set of pairs is also part of the frame alphabet of the link-service histories
// (lpExtraKinds), so that they meet stored fragments and earlier dispatched packets.

import (
	"fmt"
	"strings"
)

type mtElem struct {
	name string
	b    func() []byte
}

func lit(b ...byte) func() []byte { return func() []byte { return b } }

func mtLp(p func() []byte, seq, fi, fc int64, tok []byte) func() []byte {
	return func() []byte {
		val := []byte{}
		tlv := func(t byte, v []byte) {
			val = append(val, t)
			val = append(val, encVar(uint64(len(v)), minWidth(uint64(len(v))))...)
			val = append(val, v...)
		}
		nat := func(t byte, x int64) {
			if x >= 0 {
				tlv(t, []byte{byte(x)})
			}
		}
		nat(0x51, seq)
		nat(0x52, fi)
		nat(0x53, fc)
		if tok != nil {
			tlv(0x62, tok)
		}
		if p != nil {
			tlv(0x50, p())
		}
		out := append([]byte{0x64}, encVar(uint64(len(val)), minWidth(uint64(len(val))))...)
		return append(out, val...)
	}
}

var mtElems = []mtElem{
	/* 0 */ {"Interest", func() []byte { return seedInterestMin }},
	/* 1 */ {"Data", func() []byte { return seedDataMin }},
	/* 2 */ {"Lp{IDLE: no fields}", lit(0x64, 0x00)},
	/* 3 */ {"Lp{Fragment=Interest}", mtLp(func() []byte { return seedInterestMin }, -1, -1, -1, nil)},
	/* 4 */ {"Lp{Seq=1 FragIndex=0 FragCount=2 Fragment=Interest[:half]}", mtLp(func() []byte { return seedInterestMin[:len(seedInterestMin)/2] }, 1, 0, 2, nil)},
	/* 5 */ {"Lp{Seq=2 FragIndex=1 FragCount=2 Fragment=Interest[half:]}", mtLp(func() []byte { return seedInterestMin[len(seedInterestMin)/2:] }, 2, 1, 2, nil)},
	/* 6 */ {"Interest{no Name} (parses, rejected by ReadPacket)", lit(0x05, 0x00)},
	/* 7 */ {"Name TLV (critical type unknown at top level)", func() []byte { return lpNameTLV }},
	// ---- elements [0,mtReduced) above are the reduced alphabet used in link-service histories ----
	/* 8 */ {"Data{no Name} (parses, rejected by ReadPacket)", lit(0x06, 0x00)},
	/* 9 */ {"Lp{IDLE: PitToken only}", lit(0x64, 0x03, 0x62, 0x01, 0xaa)},
	/* 10 */ {"Lp{Fragment=empty}", lit(0x64, 0x02, 0x50, 0x00)},
	/* 11 */ {"Lp{PitToken=thread 0 Fragment=Data}", mtLp(func() []byte { return seedDataMin }, -1, -1, -1, []byte{0, 0, 0, 0, 0, 1})},
	/* 12 */ {"Lp{Seq=5 FragIndex=3 FragCount=2 Fragment=Interest} (invalid fragmentation)", mtLp(func() []byte { return seedInterestMin }, 5, 3, 2, nil)},
	/* 13 */ {"Lp{Fragment=garbage}", mtLp(lit(0x05, 0xfd, 0xff, 0xff, 0x07), -1, -1, -1, nil)},
	/* 14 */ {"unknown non-critical TLV (type 800)", lit(0xfd, 0x03, 0x20, 0x01, 0x00)},
	/* 15 */ {"unknown critical TLV (type 33)", lit(0x21, 0x01, 0x00)},
	/* 16 */ {"type-0 TLV", lit(0x00, 0x00)},
	/* 17 */ {"Interest TLV whose length exceeds the frame", lit(0x05, 0xfd, 0xff, 0xff, 0x07)},
	/* 18 */ {"Interest cut one byte short", func() []byte { return seedInterestMin[:len(seedInterestMin)-1] }},
	/* 19 */ {"Interest(signed, parameters)", func() []byte { return seedInterestMax }},
	/* 20 */ {"Data(all fields)", func() []byte { return seedDataMax }},
}

const mtReduced = 8

// lpExtraMulti: the multi-TLV frames of the link-service history alphabet = all ordered pairs over
// the reduced element alphabet.
func init() {
	for a := 0; a < mtReduced; a++ {
		for b := 0; b < mtReduced; b++ {
			lpExtraKinds = append(lpExtraKinds, "two top-level TLVs: "+mtElems[a].name+" + "+mtElems[b].name)
		}
	}
	lpExtraKinds = append(lpExtraKinds, "Lp{Seq=1 FragIndex=0 FragCount=2 Fragment=first 8000 bytes of a 16000-byte Data}",
		"Lp{Seq=2 FragIndex=1 FragCount=2 Fragment=the rest of that 16000-byte Data}")
}

func lpExtraMultiBytes(k int) []byte {
	if k >= mtReduced*mtReduced {
		return lpExtraBigBytes(k - mtReduced*mtReduced)
	}
	a, b := k/mtReduced, k%mtReduced
	return mtJoin(a, b)
}

func mtJoin(idx ...int) []byte {
	var out []byte
	for _, i := range idx {
		out = append(out, mtElems[i].b()...)
	}
	return out
}

func multiTLVFamily() *family {
	n := int64(len(mtElems))
	pairs, triples := n*n, n*n*n
	f := &family{name: "frames holding several top-level TLVs (all ordered pairs, pairs as an LpPacket fragment, all ordered triples)", size: 2*pairs + triples}
	split := func(i int64) (kind int, idx []int) {
		switch {
		case i < pairs:
			return 0, []int{int(i / n), int(i % n)}
		case i < 2*pairs:
			i -= pairs
			return 1, []int{int(i / n), int(i % n)}
		}
		i -= 2 * pairs
		return 2, []int{int(i / (n * n)), int(i / n % n), int(i % n)}
	}
	f.get = func(i int64, buf []byte) []byte {
		kind, idx := split(i)
		b := mtJoin(idx...)
		if kind == 1 {
			return lpWrap(b)
		}
		return b
	}
	f.desc = func(i int64) string {
		kind, idx := split(i)
		s := ""
		for k, e := range idx {
			if k > 0 {
				s += " + "
			}
			s += mtElems[e].name
		}
		if kind == 1 {
			return "one frame: Lp{Fragment = " + s + "}"
		}
		return fmt.Sprintf("one frame, %d top-level TLVs: %s", len(idx), s)
	}
	pktIdx := genIndex("std/ndn/spec_2022", "Packet")
	lpIdx := genIndex("std/ndn/spec_2022", "LpPacket")
	withStreams := entriesWith(func(e *entry) bool {
		return e.tags&tagPacket != 0 || (e.own >= 0 && (e.own == pktIdx || e.own == lpIdx))
	})
	noStreams := entriesWith(func(e *entry) bool {
		if e.own >= 0 {
			return e.own == pktIdx
		}
		return e.tags&tagPacket != 0 && (e.tags&tagHeavy == 0 || strings.HasPrefix(e.name, "face.NDNLPLinkService.handleIncomingFrame/"))
	})
	f.groups = []group{{0, 2 * pairs, withStreams, "pairs: every packet-level entry"}, {2 * pairs, f.size, noStreams, "triples: decoders and link service"}}
	return f
}

// ---- frames around and above the maximum packet size ----
//
// Only the stream framing bounds a frame to MaxNDNPacketSize; a WebSocket message, an internal-face
// message or the first datagram of a UDP face reach handleIncomingFrame (and the decoders) at
// whatever size the peer chose. Sizes {8799, 8800, 8801, 9000, 65535, 65536, 2^17} x
// kinds {bare Data whose Content fills the frame, that Data as an LpPacket fragment, an LpPacket
// first fragment (of 2) of that size, a bare Interest padded with a non-critical element}.

var bigSizes = []int{8799, 8800, 8801, 9000, 65535, 65536, 1 << 17}
var bigKinds = []string{"bare Data (Content fills the frame)", "Lp{Fragment=Data (Content fills the frame)}",
	"Lp{Seq=1 FragIndex=0 FragCount=2 Fragment=first part of such a Data}", "bare Interest padded with a non-critical unknown element"}

func tlvWrap(typ []byte, val []byte) []byte {
	out := append([]byte{}, typ...)
	out = append(out, encVar(uint64(len(val)), minWidth(uint64(len(val))))...)
	return append(out, val...)
}

// bigData: a Data packet /a/bc of about n bytes in total (Content of n-24 bytes).
func bigData(n int) []byte {
	content := make([]byte, n-24)
	for i := range content {
		content[i] = byte(0x30 + i%64)
	}
	val := append([]byte{}, 0x07, 0x07, 0x08, 0x01, 0x61, 0x08, 0x02, 0x62, 0x63)
	val = append(val, tlvWrap([]byte{0x15}, content)...)
	val = append(val, 0x16, 0x03, 0x1b, 0x01, 0x00, 0x17, 0x00)
	return tlvWrap([]byte{0x06}, val)
}

func bigFrame(kind, n int) []byte {
	switch kind {
	case 0:
		return bigData(n)
	case 1:
		return lpWrap(bigData(n))
	case 2:
		d := bigData(2 * n)
		return mtLp(func() []byte { return d[:n] }, 1, 0, 2, nil)()
	default:
		pad := make([]byte, n)
		i := append([]byte{}, seedInterestMin[2:]...) // value of the Interest (its header is 2 bytes: the seed is short)
		i = append(i, tlvWrap([]byte{0xfd, 0x03, 0x20}, pad)...)
		return tlvWrap([]byte{0x05}, i)
	}
}

func bigFrameFamily() *family {
	f := &family{name: "frames around and above the maximum packet size", size: int64(len(bigSizes) * len(bigKinds)), perTask: 12}
	f.get = func(i int64, buf []byte) []byte {
		return bigFrame(int(i)%len(bigKinds), bigSizes[int(i)/len(bigKinds)])
	}
	f.desc = func(i int64) string {
		return fmt.Sprintf("one frame, payload size parameter %d: %s", bigSizes[int(i)/len(bigKinds)], bigKinds[int(i)%len(bigKinds)])
	}
	pktIdx := genIndex("std/ndn/spec_2022", "Packet")
	f.groups = []group{{0, f.size, entriesWith(func(e *entry) bool {
		return e.tags&tagPacket != 0 || (e.own >= 0 && e.own == pktIdx)
	}), "every packet-level entry"}}
	return f
}

// two frames of the link-service history alphabet whose reassembly is larger than a maximum packet
func lpExtraBigBytes(k int) []byte {
	d := bigData(16000)
	if k == 0 {
		return mtLp(func() []byte { return d[:8000] }, 1, 0, 2, nil)()
	}
	return mtLp(func() []byte { return d[8000:] }, 2, 1, 2, nil)()
}
