package main

// The forwarder's receive path as a state machine: a real NDNLPLinkService on an in-memory
// transport, recording forwarding threads, driven by LpPacket frames whose Sequence / FragIndex /
// FragCount / PIT token / fragment are drawn from boundary domains. Single frames are enumerated
// as a full product; frame sequences by breadth-first search with canonical-state de-duplication.

import (
	"bytes"
	"crypto/sha256"
	"encoding/binary"
	"encoding/hex"
	"fmt"
	"runtime"
	"runtime/debug"
	"sort"
	"strings"

	fwface "github.com/named-data/ndnd/fw/face"
	enc "github.com/named-data/ndnd/std/encoding"
	spec "github.com/named-data/ndnd/std/ndn/spec_2022"
)

// value domains; "absent" is encoded as ok=false. Huge values last (simplest first).
type optU64 struct {
	v  uint64
	ok bool
}

var lpVals = []optU64{{0, false}, {0, true}, {1, true}, {2, true}, {3, true}, {1 << 16, true}, {1 << 63, true}, {1<<64 - 1, true}, {1 << 32, true}}

var lpTokenLens = []int{0, 4, 6, 8}
var lpFragKinds = []string{"none", "Interest", "Data", "garbage", "Interest[:half]", "Interest[half:]",
	"LpPacket(empty fragment)", "LpPacket(Interest)", "LpPacket(LpPacket(empty fragment))", "Name TLV", "ControlParameters TLV", "block 0x50"}

// well-formed TLVs that are neither an Interest nor a Data
var (
	lpInnerEmpty = []byte{0x64, 0x02, 0x50, 0x00}
	lpNameTLV    = []byte{0x07, 0x03, 0x08, 0x01, 0x61}
	lpCtrlTLV    = []byte{0x68, 0x08, 0x07, 0x03, 0x08, 0x01, 0x61, 0x69, 0x01, 0x05}
	lpBlock50    = []byte{0x50, 0x02, 0x61, 0x62}
)

func lpWrap(inner []byte) []byte {
	val := append([]byte{0x50}, encVar(uint64(len(inner)), minWidth(uint64(len(inner))))...)
	val = append(val, inner...)
	out := append([]byte{0x64}, encVar(uint64(len(val)), minWidth(uint64(len(val))))...)
	return append(out, val...)
}

var lpConfigs = []struct {
	n     int
	local bool
}{{1, false}, {2, false}, {32, false}, {1, true}, {2, true}, {32, true}}

type lpFrameDesc struct {
	fc, fi, s, tok, frag int
}

// digits (most significant first): FragCount, FragIndex, Sequence, token(16), fragment(6)
var lpRadix = []int{9, 9, 9, 16, 12}

func lpSize() int64 { return 9 * 9 * 9 * 16 * 12 }

func lpDecode(i int64) lpFrameDesc {
	d := make([]int, 5)
	for k := 4; k >= 0; k-- {
		d[k] = int(i % int64(lpRadix[k]))
		i /= int64(lpRadix[k])
	}
	return lpFrameDesc{fc: d[0], fi: d[1], s: d[2], tok: d[3], frag: d[4]}
}

func lpTokenPrefixes(n int) []uint16 {
	return []uint16{0, uint16(n - 1), uint16(n), uint16(n + 1), 65535}
}

func lpToken(n, tok int) []byte {
	if tok == 0 {
		return nil
	}
	l := lpTokenLens[1+(tok-1)/5]
	p := lpTokenPrefixes(n)[(tok-1)%5]
	b := make([]byte, l)
	binary.BigEndian.PutUint16(b, p)
	b[l-1] = 1
	return b
}

func lpFragment(kind int) enc.Wire {
	switch kind {
	case 0:
		return nil
	case 1:
		return enc.Wire{seedInterestMin}
	case 2:
		return enc.Wire{seedDataMin}
	case 3:
		return enc.Wire{[]byte{0x05, 0xfd, 0xff, 0xff, 0x07}}
	case 4:
		return enc.Wire{seedInterestMin[:len(seedInterestMin)/2]}
	case 5:
		return enc.Wire{seedInterestMin[len(seedInterestMin)/2:]}
	case 6:
		return enc.Wire{lpInnerEmpty}
	case 7:
		return enc.Wire{lpWrap(seedInterestMin)}
	case 8:
		return enc.Wire{lpWrap(lpInnerEmpty)}
	case 9:
		return enc.Wire{lpNameTLV}
	case 10:
		return enc.Wire{lpCtrlTLV}
	default:
		return enc.Wire{lpBlock50}
	}
}

func (d lpFrameDesc) String(n int) string {
	f := func(o optU64) string {
		if !o.ok {
			return "-"
		}
		return fmt.Sprint(o.v)
	}
	return fmt.Sprintf("Lp{Seq=%s FragIndex=%s FragCount=%s PitToken=%x Fragment=%s}", f(lpVals[d.s]), f(lpVals[d.fi]), f(lpVals[d.fc]), lpToken(n, d.tok), lpFragKinds[d.frag])
}

var lpPktIdx = -2

func lpEncode(n int, d lpFrameDesc) []byte {
	if lpPktIdx == -2 {
		lpPktIdx = genIndex("std/ndn/spec_2022", "Packet")
	}
	p := &spec.LpPacket{PitToken: lpToken(n, d.tok), Fragment: lpFragment(d.frag)}
	if v := lpVals[d.s]; v.ok {
		x := v.v
		p.Sequence = &x
	}
	if v := lpVals[d.fi]; v.ok {
		x := v.v
		p.FragIndex = &x
	}
	if v := lpVals[d.fc]; v.ok {
		x := v.v
		p.FragCount = &x
	}
	return generated[lpPktIdx].Encode(&spec.Packet{LpPacket: p})
}

// the reduced alphabet used for sequences: every Sequence/FragIndex/FragCount/fragment, tokens
// {absent, 6 bytes with thread n-1, 6 bytes with thread n}.
var lpAlphabet []int64

func buildLpAlphabet(thorough bool) {
	lpAlphabet = nil
	for i := int64(0); i < lpSize(); i++ {
		d := lpDecode(i)
		if d.frag > 6 {
			continue // sequences: the original fragment kinds plus a nested LpPacket
		}
		if d.tok == 0 || d.tok == 7 || d.tok == 8 { // tok 6..10 are the 6-byte tokens: prefixes 0,n-1,n,n+1,65535
			lpAlphabet = append(lpAlphabet, i)
		}
	}
	// frames that are not LpPackets at all: bare packets and frames that fail to decode
	for k := range lpExtraKinds {
		lpAlphabet = append(lpAlphabet, lpSize()+int64(k))
	}
}

// ---- frames outside the LpPacket product: index lpSize()+k in the full frame space ----
//
// A face receives more than LpPackets: bare Interests/Data (no link-layer header) and bytes that
// are no packet at all. They matter for frame SEQUENCES: "a frame that fails to decode changes
// no forwarder state" is a statement about what the link service holds from EARLIER frames
// (fragments waiting for reassembly, packets already handed to a forwarding thread).
var lpExtraKinds = []string{
	"bare Interest",
	"bare Data",
	"undecodable: Interest TLV whose length field exceeds the frame",
	"undecodable: 96-byte frame, LpPacket header declaring 4096 bytes",
	"empty frame",
	"undecodable: bare Interest cut one byte short",
	"Name TLV (well-formed, neither packet nor LpPacket)",
}

func lpExtraBytes(k int) []byte {
	switch k {
	case 0:
		return seedInterestMin
	case 1:
		return seedDataMin
	case 2:
		return []byte{0x05, 0xfd, 0xff, 0xff, 0x07}
	case 3:
		b := make([]byte, 96)
		copy(b, []byte{0x64, 0xfd, 0x10, 0x00, 0x50, 0xfd, 0x0f, 0xfc})
		for i := 8; i < len(b); i++ {
			b[i] = byte(0x80 + i)
		}
		return b
	case 4:
		return []byte{}
	case 5:
		return seedInterestMin[:len(seedInterestMin)-1]
	case 6:
		return lpNameTLV
	default:
		return lpExtraMultiBytes(k - lpExtraSingle) // frames holding two top-level TLVs (multitlv.go)
	}
}

const lpExtraSingle = 7 // lpExtraKinds[:7] are single-TLV frames; multitlv.go appends the multi-TLV ones

// lpFrameBytes: the bytes of frame i of the full frame space (LpPacket product, then the extras).
func lpFrameBytes(n int, i int64) []byte {
	if i >= lpSize() {
		return lpExtraBytes(int(i - lpSize()))
	}
	return lpEncode(n, lpDecode(i))
}

func lpFrameString(n int, i int64) string {
	if i >= lpSize() {
		return "Frame{" + lpExtraKinds[int(i-lpSize())] + "}"
	}
	return lpDecode(i).String(n)
}

// ---- the transport's receive buffer and the packets already handed to forwarding threads ----
//
// Every real transport reads each frame into ONE buffer and hands handleIncomingFrame a slice of
// it; the buffer is the transport's again when the call returns and the next frame is read over
// it. The harness does the same: all frames of a history (prefix replay included) go through
// lpRx.buf, and before a frame is copied in, everything earlier frames left there is overwritten.
// Packets dispatched by earlier frames of the history stay in the recording threads' queues with
// a deep fingerprint taken when their frame's handler returned; C04.state compares them again after
// every later frame: a frame that fails to decode must change neither the link service's dump nor
// any packet a forwarding thread already holds.
type lpQueued struct {
	p    *pktT
	fp   uint64
	old  lpOld
	what string // "Interest/bare", "Data/lp", ...
}

var lpPartNames = [4]string{"wire bytes", "PIT token", "link-layer marks (congestion mark / next-hop face / cache policy / incoming face)", "decoded packet"}

// lpOld: cheap copies of the parts of a dispatched packet that can be named when the deep
// fingerprint says the packet changed (anything else that changed is the decoded packet).
type lpOld struct {
	raw, tok []byte
	marks    [4]uint64
	have     uint8
}

func lpMarks(p *pktT) (m [4]uint64, have uint8) {
	for i, v := range []*uint64{p.CongestionMark, p.NextHopFaceID, p.CachePolicy, p.IncomingFaceID} {
		if v != nil {
			m[i], have = *v, have|1<<uint(i)
		}
	}
	return
}

func lpOldOf(p *pktT) (o lpOld) {
	if p == nil {
		return
	}
	o.raw, o.tok = append([]byte(nil), p.Raw...), append([]byte(nil), p.PitToken...)
	o.marks, o.have = lpMarks(p)
	return
}

// differs: index into lpPartNames of the first part that is no longer what it was.
func (o lpOld) differs(p *pktT) int {
	if p == nil {
		return 3
	}
	if !bytes.Equal(o.raw, p.Raw) {
		return 0
	}
	if !bytes.Equal(o.tok, p.PitToken) {
		return 1
	}
	if m, h := lpMarks(p); m != o.marks || h != o.have {
		return 2
	}
	return 3
}

type lpRxT struct {
	buf    []byte
	hi     int // high-water mark of buf since reset
	queued []lpQueued
	known  map[*pktT]bool

	changedPart string // set by changed(): which part of the packet differs
}

var lpRx = &lpRxT{buf: make([]byte, 32<<10), known: map[*pktT]bool{}}

func (r *lpRxT) reset() {
	r.fill(0xdb)
	r.hi = 0
	r.queued = r.queued[:0]
	for k := range r.known {
		delete(r.known, k)
	}
}

func (r *lpRxT) fill(c byte) {
	b := r.buf[:r.hi]
	for i := range b {
		b[i] = c
	}
}

// load = the transport reads the next frame: the buffer no longer holds any earlier frame.
func (r *lpRxT) load(frame []byte) []byte {
	if len(frame) > len(r.buf) {
		r.buf = make([]byte, 2*len(frame))
		r.hi = 0
	}
	r.fill(0xdb)
	n := copy(r.buf, frame)
	if n > r.hi {
		r.hi = n
	}
	return r.buf[:n:n]
}

// eachNew calls f for every queued packet not yet recorded.
func (r *lpRxT) eachNew(f func(p *pktT, data bool)) {
	for _, t := range recThreads {
		for _, p := range t.interests {
			if !r.known[p] {
				f(p, false)
			}
		}
		for _, p := range t.datas {
			if !r.known[p] {
				f(p, true)
			}
		}
	}
}

// settle records the packets the last frame dispatched and re-reads the fingerprints of the older
// ones (so that the next comparison is about the next frame only).
func (r *lpRxT) settle(frame []byte) {
	for i := range r.queued {
		r.queued[i].fp = fpPkt(r.queued[i].p)
		r.queued[i].old = lpOldOf(r.queued[i].p)
	}
	src := "bare"
	if len(frame) > 0 && frame[0] == 0x64 {
		src = "lp"
	}
	r.eachNew(func(p *pktT, data bool) {
		if p == nil {
			return
		}
		kind := "Interest/"
		if data {
			kind = "Data/"
		}
		r.known[p] = true
		r.queued = append(r.queued, lpQueued{p: p, fp: fpPkt(p), old: lpOldOf(p), what: kind + src})
	})
}

// changed: which earlier dispatched packet no longer has the fingerprint it had ("" = none).
func (r *lpRxT) changed() string {
	for i, q := range r.queued {
		if fpPkt(q.p) != q.fp {
			name := ""
			func() {
				defer func() { recover() }()
				if q.p.L3 != nil && q.p.L3.Interest != nil {
					name = fmt.Sprintf(" name now %x", q.p.L3.Interest.NameV.Bytes())
				} else if q.p.L3 != nil && q.p.L3.Data != nil {
					name = fmt.Sprintf(" name now %x", q.p.L3.Data.NameV.Bytes())
				}
			}()
			r.changedPart = lpPartNames[q.old.differs(q.p)]
			return fmt.Sprintf("the %s of packet %d handed to a forwarding thread earlier (%s, %d bytes)%s", r.changedPart, i, q.what, len(q.p.Raw), name)
		}
	}
	return ""
}

// sig: the part of the dispatch history that belongs to the canonical state of the sequence search
// (which kinds of packet, received how, forwarding threads already hold).
func (r *lpRxT) sig() string {
	if len(r.queued) == 0 {
		return ""
	}
	set := map[string]bool{}
	for _, q := range r.queued {
		set[q.what] = true
	}
	ks := make([]string, 0, len(set))
	for k := range set {
		ks = append(ks, k)
	}
	sort.Strings(ks)
	return " held=" + strings.Join(ks, ",")
}

// aliased: does anything the forwarder holds (link-service dump, dispatched packets) depend on the
// CONTENT of the receive buffer right now? Direct test: overwrite the buffer, look again, restore.
func (r *lpRxT) aliased(l *fwface.NDNLPLinkService) bool {
	s1, _ := fwface.VerifC04Dump(l)
	f1 := make([]uint64, len(r.queued))
	for i, q := range r.queued {
		f1[i] = fpPkt(q.p)
	}
	var extra []uint64
	r.eachNew(func(p *pktT, _ bool) { extra = append(extra, fpPkt(p)) })
	save := append([]byte{}, r.buf[:r.hi]...)
	r.fill(0x5a)
	s2, _ := fwface.VerifC04Dump(l)
	dep := s1 != s2
	for i, q := range r.queued {
		if fpPkt(q.p) != f1[i] {
			dep = true
		}
	}
	i := 0
	r.eachNew(func(p *pktT, _ bool) {
		if i < len(extra) && fpPkt(p) != extra[i] {
			dep = true
		}
		i++
	})
	copy(r.buf, save)
	return dep
}

const lpAliasKey = "link service keeps references into the transport's receive buffer: reassembly state / packets already dispatched change when a later frame that fails to decode is received"

// lpNewService: a fresh link service, empty recording threads, a receive buffer holding nothing.
func lpNewService(cfg int) *fwface.NDNLPLinkService {
	c := lpConfigs[cfg]
	setThreads(c.n)
	lpRx.reset()
	return fwface.VerifC04NewLinkService(7, c.local, 8800)
}

type lpState struct {
	P    int    `json:"p"` // index of the prefix in the task
	F    int64  `json:"f"` // frame (index into the full frame space)
	H    string `json:"h"`
	Dump string `json:"dump,omitempty"`
}

// lpCheckQueues: everything that reached a forwarding thread must be a decodable packet.
func lpCheckQueues() (msg string) {
	lpRx.eachNew(func(p *pktT, _ bool) {
		if msg != "" {
			return
		}
		if p == nil || p.L3 == nil {
			msg = "nil packet dispatched"
			return
		}
		if _, _, err := spec.ReadPacket(enc.NewBufferReader(append([]byte{}, p.Raw...))); err != nil {
			msg = "dispatched packet does not decode: " + err.Error()
			return
		}
		sweepPacket(p.L3) // the forwarder calls accessors on what it is handed (a panic here is caught by lpApply's caller)
	})
	return
}

type lpApplyResult struct {
	v     *violation
	alloc uint64
	state string // dump of the link service
	q     int    // packets this frame dispatched
	held  string // lpRx.sig() after this frame

	verdict lpVerdict // class "?" = not computed (the frame changed nothing)
	store0  map[uint64]lpSlotSnap
	reasm0  bool
}

// verdictOf: the verdict on the frame just applied (computed on demand).
func (r *lpApplyResult) verdictOf(frame []byte) lpVerdict {
	if r.verdict.class == "?" {
		r.verdict = lpClassify(frame, r.store0, r.reasm0)
	}
	return r.verdict
}

// lpApply feeds one frame to l (threads already installed) with panic recovery, allocation
// accounting and the state clause.
func lpApply(l *fwface.NDNLPLinkService, frame []byte, measure bool, before string) (r lpApplyResult) {
	if before == "" {
		before, _ = fwface.VerifC04Dump(l)
	}
	q0 := queued()
	store0, reasm0 := lpSnapStore(l), fwface.VerifC04ReassemblyEnabled(l)
	r.store0, r.reasm0 = store0, reasm0
	in := lpRx.load(frame) // the one receive buffer of this face; earlier frames are gone from it
	var a0 uint64
	if measure {
		a0 = totalAlloc()
	}
	func() {
		defer func() {
			if rec := recover(); rec != nil {
				r.v = panicViolation(rec, nil, 3)
			}
		}()
		fwface.VerifC04Handle(l, in)
	}()
	if measure {
		runtime.ReadMemStats(&ms1)
		r.alloc = ms1.TotalAlloc - a0
		if r.alloc > 16<<20 {
			defer func() { runtime.GC(); debug.FreeOSMemory() }()
		}
	}
	if r.v != nil {
		return
	}
	r.state, _ = fwface.VerifC04Dump(l)
	r.q = queued() - q0
	if measure && r.alloc > uint64(memPerByte*len(frame))+memConst+1024 {
		r.v = &violation{Clause: "C04.mem", Key: "unbounded allocation (site pending)", NeedAt: true, Alloc: r.alloc,
			Detail: fmt.Sprintf("handling one %d-byte frame allocated %d bytes", len(frame), r.alloc)}
		return
	}
	earlier := lpRx.changed()
	if r.q > 0 || r.state != before || earlier != "" {
		// the verdict on the frame given the reassembly store it met (lpreject.go)
		vd := lpClassify(frame, store0, reasm0)
		r.verdict = vd
		key, why := "", vd.why
		if vd.rejected() {
			changed := r.q > 0 || earlier != ""
			if vd.class == "completes-undecodable" {
				changed = changed || lpDumpWithout(r.state, vd.base) != lpDumpWithout(before, vd.base)
			} else {
				changed = changed || r.state != before
			}
			if changed {
				key = lpRejectKeys[vd.class]
			} else if vd.class == "completes-undecodable" {
				if after := lpSlotOf(r.state, vd.base); after != "" && after != lpSlotOf(before, vd.base) {
					key = lpStuckKey
				}
			}
		} else if earlier != "" {
			key, why = lpLaterKey, "frame accepted by the receive path"
		}
		if key != "" {
			det := fmt.Sprintf("%s, yet queued=%d, state %q -> %q", why, r.q, before, r.state)
			if earlier != "" {
				if vd.rejected() {
					key = lpEarlierKey
				}
				key += ": " + lpRx.changedPart
				det = fmt.Sprintf("%s, yet %s is no longer what was dispatched; queued=%d, state %q -> %q", why, earlier, r.q, before, r.state)
			}
			// one root cause, one key: is what changed a view of the receive buffer?
			if lpRx.aliased(l) {
				key = lpAliasKey
				det += " [the link-service dump / dispatched packets change when the receive buffer alone is overwritten]"
			}
			r.v = &violation{Clause: "C04.state", Key: key, Detail: det}
			return
		}
	} else {
		r.verdict = lpVerdict{class: "?"} // nothing changed: verdict not needed (computed on demand by lpVerdictOf)
	}
	if msg := lpCheckQueues(); msg != "" {
		r.v = &violation{Clause: "C04.state", Key: "undecodable packet dispatched to a forwarding thread", Detail: msg}
		return
	}
	lpRx.settle(frame)
	r.held = lpRx.sig()
	return
}

func lpCaseViol(a *acc, v *violation, cfg int, frames []int64, descr string, frame []byte) {
	k := v.Clause + "|" + v.Key
	if v.NeedAt {
		k += fmt.Sprint(bitsLen(v.Alloc))
	}
	a.seenKey[k]++
	if a.seenKey[k] > 1 {
		return
	}
	if v.rec != nil {
		v.Detail = fmt.Sprintf("panic: %v at %s", v.rec, v.Detail)
		v.rec = nil
	}
	v.Entry = fmt.Sprintf("face.NDNLPLinkService.handleIncomingFrame/seq n=%d local=%v", lpConfigs[cfg].n, lpConfigs[cfg].local)
	v.EntryI = -1 - cfg
	v.Family = -1
	v.Hist = append([]int64{}, frames...)
	v.Cfg = cfg
	v.Index = frames[len(frames)-1]
	v.Case = descr
	v.Input = inputHex(frame)
	v.Len = len(frame)
	a.res.Viol = append(a.res.Viol, *v)
}

func lpDescribe(n int, frames []int64) string {
	s := ""
	for i, f := range frames {
		if i > 0 {
			s += " ; "
		}
		s += lpFrameString(n, f)
	}
	return s
}

// runLp1: every single frame of the full product on a fresh link service; t.N = configuration.
func runLp1(t task, a *acc) {
	cfg := lpConfigs[t.N]
	skip := skipSet(t)
	for i := t.Lo; i < t.Hi; i++ {
		if skip != nil && skip[[2]int64{i, int64(-1 - t.N)}] {
			continue
		}
		l := lpNewService(t.N)
		frame := lpFrameBytes(cfg.n, i)
		mark(t.ID, i, -1-t.N)
		r := lpApply(l, frame, true, "")
		a.res.Evals++
		a.res.Cases++
		if r.alloc > a.res.MaxAlloc {
			a.res.MaxAlloc = r.alloc
		}
		out := uint32(0)
		if r.v != nil {
			lpCaseViol(a, r.v, t.N, []int64{i}, lpDescribe(cfg.n, []int64{i}), frame)
			if r.v.Clause == "C04.panic" {
				resetAfterPanic()
			}
			out = 3
		} else if r.q > 0 {
			out = 1
		} else if r.state != lsPristineDump() {
			out = 2
		}
		a.res.Sigs[[]string{"lp:dropped", "lp:dispatched", "lp:stored", "lp:violation"}[out]]++
		a.distinct[uint64(0xf000+t.N)<<32|uint64(out)<<24|uint64(lpDecode(i).frag)] = struct{}{}
		if a.samples < 2 && i == t.Hi-1 {
			a.res.Samples = append(a.res.Samples, fmt.Sprintf("n=%d local=%v %s -> queued=%d state=%q", cfg.n, cfg.local, lpDescribe(cfg.n, []int64{i}), r.q, r.state))
			a.samples++
		}
	}
}

var pristineDump string

func lsPristineDump() string {
	if pristineDump == "" {
		pristineDump, _ = fwface.VerifC04Dump(fwface.VerifC04NewLinkService(7, false, 8800))
	}
	return pristineDump
}

// lpFrames caches the encoded frames of the sequence alphabet per thread count.
var lpFrameCache = map[int][][]byte{}

func lpFrameOf(n int, k int64) []byte {
	c := lpFrameCache[n]
	if c == nil {
		c = make([][]byte, len(lpAlphabet))
		lpFrameCache[n] = c
	}
	if c[k] == nil {
		c[k] = lpFrameBytes(n, lpAlphabet[k])
	}
	return c[k]
}

// lpFresh builds a link service and replays a frame history on it (no checks).
func lpFresh(cfg int, pre []int) (l *fwface.NDNLPLinkService, ok bool) {
	c := lpConfigs[cfg]
	l = lpNewService(cfg)
	ok = true
	for _, pf := range pre {
		func() {
			defer func() {
				if recover() != nil {
					ok = false
				}
			}()
			frame := lpFrameBytes(c.n, int64(pf))
			fwface.VerifC04Handle(l, lpRx.load(frame))
			lpRx.settle(frame)
		}()
	}
	return
}

// runLpSeq: for every prefix (a frame history) and every frame lpAlphabet[Lo:Hi], replay the
// prefix on a fresh link service and apply the frame with all checks. Allocation is measured over
// windows of transitions (the cost of building the instance and replaying the prefix is measured
// once per prefix and subtracted); a window over the threshold is re-run transition by
// transition with the handler alone inside the measurement. Returns the canonical states reached
// by non-violating transitions.
func runLpSeq(t task, a *acc) {
	cfg := lpConfigs[t.N]
	seen := map[string]bool{}
	skip := skipSet(t)
	const K = 16
	pend0 := make([]lpState, 0, K)
	for pi, pre := range t.Prefix {
		// input-independent cost of one transition: fresh instance + replay of the prefix
		fixed := ^uint64(0)
		before := ""
		okPre := true
		for rep := 0; rep < 2; rep++ {
			a0 := totalAlloc()
			l, ok := lpFresh(t.N, pre)
			runtime.ReadMemStats(&ms1)
			if d := ms1.TotalAlloc - a0; d < fixed {
				fixed = d
			}
			if !ok {
				okPre = false
				break
			}
			before, _ = fwface.VerifC04Dump(l)
		}
		if !okPre {
			resetAfterPanic()
			continue
		}
		hist := func(f int64) []int64 {
			h := make([]int64, 0, len(pre)+1)
			for _, pf := range pre {
				h = append(h, int64(pf))
			}
			return append(h, f)
		}
		for lo := t.Lo; lo < t.Hi; lo += K {
			hi := lo + K
			if hi > t.Hi {
				hi = t.Hi
			}
			for k := lo; k < hi; k++ {
				lpFrameOf(cfg.n, k) // encode outside the measured window
			}
			cnt := uint64(0)
			pend := pend0[:0]
			memBad := map[int64]bool{}
			a0 := totalAlloc()
			for k := lo; k < hi; k++ {
				idx := int64(pi)*int64(len(lpAlphabet)) + k
				if skip != nil && skip[[2]int64{idx, int64(-1 - t.N)}] {
					continue
				}
				f := lpAlphabet[k]
				frame := lpFrameOf(cfg.n, k)
				l, _ := lpFresh(t.N, pre)
				mark(t.ID, idx, -1-t.N)
				r := lpApply(l, frame, false, before)
				cnt++
				a.res.Evals++
				if r.v != nil {
					h := hist(f)
					lpCaseViol(a, r.v, t.N, h, lpDescribe(cfg.n, h), frame)
					if r.v.Clause == "C04.panic" {
						resetAfterPanic()
					}
					a.kinds[len(sigNames)]++
					continue
				}
				a.kinds[sigOK]++
				hsum := sha256.Sum256([]byte(r.state + r.held))
				hs := hex.EncodeToString(hsum[:10])
				if !seen[hs] {
					st := lpState{P: pi, F: f, H: hs}
					if len(a.res.States) < 2 {
						st.Dump = r.state + r.held
					}
					pend = append(pend, st)
				}
			}
			runtime.ReadMemStats(&ms1)
			delta := ms1.TotalAlloc - a0
			if delta > 16<<20 {
				runtime.GC()
				debug.FreeOSMemory()
			}
			if delta > uint64(memConst)+cnt*fixed {
				a.trips++
				for k := lo; k < hi; k++ {
					idx := int64(pi)*int64(len(lpAlphabet)) + k
					if skip != nil && skip[[2]int64{idx, int64(-1 - t.N)}] {
						continue
					}
					frame := lpFrameOf(cfg.n, k)
					l, _ := lpFresh(t.N, pre)
					mark(t.ID, idx, -1-t.N)
					a.precise++
					r := lpApply(l, frame, true, before)
					if r.alloc > a.res.MaxAlloc {
						a.res.MaxAlloc = r.alloc
					}
					if r.v != nil && r.v.Clause == "C04.mem" {
						h := hist(lpAlphabet[k])
						lpCaseViol(a, r.v, t.N, h, lpDescribe(cfg.n, h), frame)
						memBad[lpAlphabet[k]] = true
					}
					if r.v != nil && r.v.Clause == "C04.panic" {
						resetAfterPanic()
					}
				}
			}
			// states reached by a violating transition are not expanded
			for _, st := range pend {
				if !memBad[st.F] && !seen[st.H] {
					seen[st.H] = true
					a.res.States = append(a.res.States, st)
				}
			}
		}
	}
	a.res.Cases += int64(len(t.Prefix)) * (t.Hi - t.Lo)
}

// runLpHist replays one frame history (replay files): all frames but the last without checks,
// the last one with every check.
func runLpHist(t task, a *acc) {
	cfg := lpConfigs[t.N]
	if len(t.Hist) == 0 {
		return
	}
	pre := make([]int, 0, len(t.Hist))
	for _, f := range t.Hist[:len(t.Hist)-1] {
		pre = append(pre, int(f))
	}
	l, ok := lpFresh(t.N, pre)
	if !ok {
		a.res.Extra = map[string]any{"prefix_panics": true}
		return
	}
	last := t.Hist[len(t.Hist)-1]
	frame := lpFrameBytes(cfg.n, last)
	mark(t.ID, last, -1-t.N)
	r := lpApply(l, frame, true, "")
	a.res.Evals++
	if r.v != nil {
		lpCaseViol(a, r.v, t.N, t.Hist, lpDescribe(cfg.n, t.Hist), frame)
	}
	a.res.Samples = append(a.res.Samples, fmt.Sprintf("%s -> queued=%d state=%q alloc=%d", lpDescribe(cfg.n, t.Hist), r.q, r.state, r.alloc))
}

// lpInvalidFragmentation: an NDNLPv2 frame whose fragmentation fields contradict each other
// (FragCount = 0, or FragIndex >= FragCount with the protocol defaults FragIndex=0, FragCount=1)
// cannot be part of any packet: it must be dropped without leaving anything behind.
func lpInvalidFragmentation(p *spec.Packet) string {
	if p == nil || p.LpPacket == nil || p.LpPacket.Sequence == nil {
		return ""
	}
	fi, fc := uint64(0), uint64(1)
	if p.LpPacket.FragIndex != nil {
		fi = *p.LpPacket.FragIndex
	}
	if p.LpPacket.FragCount != nil {
		fc = *p.LpPacket.FragCount
	}
	if fc == 0 {
		return "FragCount = 0"
	}
	if fi >= fc {
		return fmt.Sprintf("FragIndex %d >= FragCount %d", fi, fc)
	}
	return ""
}
