package main

// The forwarder's receive path as a state machine: a real NDNLPLinkService on an in-memory
// transport, recording forwarding threads, driven by LpPacket frames whose Sequence / FragIndex /
// FragCount / PIT token / fragment are drawn from boundary domains. Single frames are enumerated
// as a full product; frame sequences by breadth-first search with canonical-state de-duplication.

import (
	"crypto/sha256"
	"encoding/binary"
	"encoding/hex"
	"fmt"
	"runtime"
	"runtime/debug"

	fwface "github.com/named-data/ndnd/fw/face"
	enc "github.com/named-data/ndnd/std/encoding"
	spec "github.com/named-data/ndnd/std/ndn/spec_2022"
)

// value domains; "absent" is encoded as ok=false. Huge values last (simplest first).
type optU64 struct {
	v  uint64
	ok bool
}

var lpVals = []optU64{{0, false}, {0, true}, {1, true}, {2, true}, {3, true}, {1 << 16, true}, {1 << 63, true}, {1<<64 - 1, true}, {1 << 32, true}}

var lpTokenLens = []int{0, 4, 6, 8}
var lpFragKinds = []string{"none", "Interest", "Data", "garbage", "Interest[:half]", "Interest[half:]"}
var lpConfigs = []struct {
	n     int
	local bool
}{{1, false}, {2, false}, {32, false}, {1, true}, {2, true}, {32, true}}

type lpFrameDesc struct {
	fc, fi, s, tok, frag int
}

// digits (most significant first): FragCount, FragIndex, Sequence, token(16), fragment(6)
var lpRadix = []int{9, 9, 9, 16, 6}

func lpSize() int64 { return 9 * 9 * 9 * 16 * 6 }

func lpDecode(i int64) lpFrameDesc {
	d := make([]int, 5)
	for k := 4; k >= 0; k-- {
		d[k] = int(i % int64(lpRadix[k]))
		i /= int64(lpRadix[k])
	}
	return lpFrameDesc{fc: d[0], fi: d[1], s: d[2], tok: d[3], frag: d[4]}
}

func lpTokenPrefixes(n int) []uint16 {
	return []uint16{0, uint16(n - 1), uint16(n), uint16(n + 1), 65535}
}

func lpToken(n, tok int) []byte {
	if tok == 0 {
		return nil
	}
	l := lpTokenLens[1+(tok-1)/5]
	p := lpTokenPrefixes(n)[(tok-1)%5]
	b := make([]byte, l)
	binary.BigEndian.PutUint16(b, p)
	b[l-1] = 1
	return b
}

func lpFragment(kind int) enc.Wire {
	switch kind {
	case 0:
		return nil
	case 1:
		return enc.Wire{seedInterestMin}
	case 2:
		return enc.Wire{seedDataMin}
	case 3:
		return enc.Wire{[]byte{0x05, 0xfd, 0xff, 0xff, 0x07}}
	case 4:
		return enc.Wire{seedInterestMin[:len(seedInterestMin)/2]}
	default:
		return enc.Wire{seedInterestMin[len(seedInterestMin)/2:]}
	}
}

func (d lpFrameDesc) String(n int) string {
	f := func(o optU64) string {
		if !o.ok {
			return "-"
		}
		return fmt.Sprint(o.v)
	}
	return fmt.Sprintf("Lp{Seq=%s FragIndex=%s FragCount=%s PitToken=%x Fragment=%s}", f(lpVals[d.s]), f(lpVals[d.fi]), f(lpVals[d.fc]), lpToken(n, d.tok), lpFragKinds[d.frag])
}

var lpPktIdx = -2

func lpEncode(n int, d lpFrameDesc) []byte {
	if lpPktIdx == -2 {
		lpPktIdx = genIndex("std/ndn/spec_2022", "Packet")
	}
	p := &spec.LpPacket{PitToken: lpToken(n, d.tok), Fragment: lpFragment(d.frag)}
	if v := lpVals[d.s]; v.ok {
		x := v.v
		p.Sequence = &x
	}
	if v := lpVals[d.fi]; v.ok {
		x := v.v
		p.FragIndex = &x
	}
	if v := lpVals[d.fc]; v.ok {
		x := v.v
		p.FragCount = &x
	}
	return generated[lpPktIdx].Encode(&spec.Packet{LpPacket: p})
}

// the reduced alphabet used for sequences: every Sequence/FragIndex/FragCount/fragment, tokens
// {absent, 6 bytes with thread n-1, 6 bytes with thread n}.
var lpAlphabet []int64

func buildLpAlphabet(thorough bool) {
	lpAlphabet = nil
	for i := int64(0); i < lpSize(); i++ {
		d := lpDecode(i)
		if d.tok == 0 || d.tok == 7 || d.tok == 8 { // tok 6..10 are the 6-byte tokens: prefixes 0,n-1,n,n+1,65535
			lpAlphabet = append(lpAlphabet, i)
		}
	}
}

type lpState struct {
	P    int    `json:"p"` // index of the prefix in the task
	F    int64  `json:"f"` // frame (index into the full frame space)
	H    string `json:"h"`
	Dump string `json:"dump,omitempty"`
}

// lpCheckQueues: everything that reached a forwarding thread must be a decodable packet.
func lpCheckQueues() string {
	for _, t := range recThreads {
		for _, lst := range [][]*pktT{t.interests, t.datas} {
			for _, p := range lst {
				if p == nil || p.L3 == nil {
					return "nil packet dispatched"
				}
				if _, _, err := spec.ReadPacket(enc.NewBufferReader(append([]byte{}, p.Raw...))); err != nil {
					return "dispatched packet does not decode: " + err.Error()
				}
			}
		}
	}
	return ""
}

type lpApplyResult struct {
	v     *violation
	alloc uint64
	state string
	q     int
}

// lpApply feeds one frame to l (threads already installed) with panic recovery, allocation
// accounting and the state clause.
func lpApply(l *fwface.NDNLPLinkService, frame []byte) (r lpApplyResult) {
	before, _ := fwface.VerifC04Dump(l)
	for _, t := range recThreads {
		t.interests, t.datas = t.interests[:0], t.datas[:0]
	}
	in := append([]byte{}, frame...)
	a0 := totalAlloc()
	func() {
		defer func() {
			if rec := recover(); rec != nil {
				r.v = panicViolation(rec, nil, 3)
			}
		}()
		fwface.VerifC04Handle(l, in)
	}()
	runtime.ReadMemStats(&ms1)
	r.alloc = ms1.TotalAlloc - a0
	if r.alloc > 64<<20 {
		defer func() { runtime.GC(); debug.FreeOSMemory() }()
	}
	if r.v != nil {
		return
	}
	r.state, _ = fwface.VerifC04Dump(l)
	r.q = queued()
	if r.alloc > uint64(memPerByte*len(frame))+memConst+1024 {
		r.v = &violation{Clause: "C04.mem", Key: "unbounded allocation (site pending)", NeedAt: true, Alloc: r.alloc,
			Detail: fmt.Sprintf("handling one %d-byte frame allocated %d bytes", len(frame), r.alloc)}
		return
	}
	if r.q > 0 || r.state != before {
		if _, _, err := spec.ReadPacket(enc.NewBufferReader(append([]byte{}, frame...))); err != nil {
			r.v = &violation{Clause: "C04.state", Key: "undecodable frame changed link-service/dispatch state",
				Detail: fmt.Sprintf("frame does not decode (%v) but queued=%d, state %q -> %q", err, r.q, before, r.state)}
			return
		}
	}
	if msg := lpCheckQueues(); msg != "" {
		r.v = &violation{Clause: "C04.state", Key: "undecodable packet dispatched to a forwarding thread", Detail: msg}
	}
	return
}

func lpCaseViol(a *acc, v *violation, cfg int, frames []int64, descr string, frame []byte) {
	k := v.Clause + "|" + v.Key
	if v.NeedAt {
		k += fmt.Sprint(bitsLen(v.Alloc))
	}
	a.seenKey[k]++
	if a.seenKey[k] > 1 {
		return
	}
	if v.rec != nil {
		v.Detail = fmt.Sprintf("panic: %v at %s", v.rec, v.Detail)
		v.rec = nil
	}
	v.Entry = fmt.Sprintf("face.NDNLPLinkService.handleIncomingFrame/seq n=%d local=%v", lpConfigs[cfg].n, lpConfigs[cfg].local)
	v.EntryI = -1 - cfg
	v.Family = -1
	v.Index = frames[len(frames)-1]
	v.Case = descr
	v.Input = inputHex(frame)
	v.Len = len(frame)
	a.res.Viol = append(a.res.Viol, *v)
}

func lpDescribe(n int, frames []int64) string {
	s := ""
	for i, f := range frames {
		if i > 0 {
			s += " ; "
		}
		s += lpDecode(f).String(n)
	}
	return s
}

// runLp1: every single frame of the full product on a fresh link service; t.N = configuration.
func runLp1(t task, a *acc) {
	cfg := lpConfigs[t.N]
	skip := skipSet(t)
	for i := t.Lo; i < t.Hi; i++ {
		if skip != nil && skip[[2]int64{i, int64(-1 - t.N)}] {
			continue
		}
		setThreads(cfg.n)
		l := fwface.VerifC04NewLinkService(7, cfg.local, 8800)
		frame := lpEncode(cfg.n, lpDecode(i))
		mark(t.ID, i, -1-t.N)
		r := lpApply(l, frame)
		a.res.Evals++
		a.res.Cases++
		if r.alloc > a.res.MaxAlloc {
			a.res.MaxAlloc = r.alloc
		}
		out := uint32(0)
		if r.v != nil {
			lpCaseViol(a, r.v, t.N, []int64{i}, lpDescribe(cfg.n, []int64{i}), frame)
			if r.v.Clause == "C04.panic" {
				resetAfterPanic()
			}
			out = 3
		} else if r.q > 0 {
			out = 1
		} else if r.state != lsPristineDump() {
			out = 2
		}
		a.res.Sigs[[]string{"lp:dropped", "lp:dispatched", "lp:stored", "lp:violation"}[out]]++
		a.distinct[uint64(0xf000+t.N)<<32|uint64(out)<<24|uint64(lpDecode(i).frag)] = struct{}{}
		if a.samples < 2 && i == t.Hi-1 {
			a.res.Samples = append(a.res.Samples, fmt.Sprintf("n=%d local=%v %s -> queued=%d state=%q", cfg.n, cfg.local, lpDescribe(cfg.n, []int64{i}), r.q, r.state))
			a.samples++
		}
	}
}

var pristineDump string

func lsPristineDump() string {
	if pristineDump == "" {
		pristineDump, _ = fwface.VerifC04Dump(fwface.VerifC04NewLinkService(7, false, 8800))
	}
	return pristineDump
}

// runLpSeq: for every prefix (a frame history) and every frame lpAlphabet[Lo:Hi], replay the
// prefix on a fresh link service and apply the frame with all checks. Returns the canonical
// states reached by non-violating transitions.
func runLpSeq(t task, a *acc) {
	cfg := lpConfigs[t.N]
	seen := map[string]bool{}
	skip := skipSet(t)
	for pi, pre := range t.Prefix {
		for k := t.Lo; k < t.Hi; k++ {
			if skip != nil && skip[[2]int64{int64(pi)*int64(len(lpAlphabet)) + k, int64(-1 - t.N)}] {
				continue
			}
			f := lpAlphabet[k]
			setThreads(cfg.n)
			l := fwface.VerifC04NewLinkService(7, cfg.local, 8800)
			ok := true
			for _, pf := range pre {
				func() {
					defer func() {
						if recover() != nil {
							ok = false
						}
					}()
					fwface.VerifC04Handle(l, lpEncode(cfg.n, lpDecode(int64(pf))))
				}()
			}
			if !ok {
				resetAfterPanic()
				continue
			}
			frame := lpEncode(cfg.n, lpDecode(f))
			mark(t.ID, int64(pi)*int64(len(lpAlphabet))+k, -1-t.N)
			r := lpApply(l, frame)
			a.res.Evals++
			if r.alloc > a.res.MaxAlloc {
				a.res.MaxAlloc = r.alloc
			}
			if r.v != nil {
				hist := make([]int64, 0, len(pre)+1)
				for _, pf := range pre {
					hist = append(hist, int64(pf))
				}
				hist = append(hist, f)
				lpCaseViol(a, r.v, t.N, hist, lpDescribe(cfg.n, hist), frame)
				if r.v.Clause == "C04.panic" {
					resetAfterPanic()
				}
				a.res.Sigs["lpseq:violation"]++
				continue
			}
			a.res.Sigs["lpseq:ok"]++
			h := sha256.Sum256([]byte(r.state))
			hs := hex.EncodeToString(h[:10])
			if !seen[hs] {
				seen[hs] = true
				st := lpState{P: pi, F: f, H: hs}
				if len(a.res.States) < 3 {
					st.Dump = r.state
				}
				a.res.States = append(a.res.States, st)
			}
		}
	}
	a.res.Cases += int64(len(t.Prefix)) * (t.Hi - t.Lo)
}
