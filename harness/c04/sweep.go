package main

// Accessor sweep: a packet that decodes successfully is handed to application / forwarder code
// that calls its accessors; several accessors decode lazily (FinalBlockID, Validity, KeyName ...).
// After every successful decode of an Interest or Data, every exported zero-argument method of the
// decoded object is called (found by reflection, so new accessors are picked up automatically),
// inside the same panic / allocation guard as the decoder itself. Encoders are not accessors.

import (
	"reflect"
	"sort"
	"sync"

	"github.com/named-data/ndnd/std/ndn"
	spec "github.com/named-data/ndnd/std/ndn/spec_2022"
)

var sweepSkip = map[string]bool{"Encode": true, "Bytes": true, "ToDict": true}

type sweepPlan struct {
	idx   []int
	names []string
}

var sweepPlans = map[reflect.Type]*sweepPlan{}
var sweepMu sync.Mutex
var sweepCalls int64

func planFor(t reflect.Type) *sweepPlan {
	sweepMu.Lock()
	defer sweepMu.Unlock()
	if p, ok := sweepPlans[t]; ok {
		return p
	}
	p := &sweepPlan{}
	for i := 0; i < t.NumMethod(); i++ {
		m := t.Method(i)
		if m.Type.NumIn() != 1 || sweepSkip[m.Name] || m.Type.NumOut() == 0 {
			continue
		}
		p.idx = append(p.idx, i)
		p.names = append(p.names, m.Name)
	}
	sweepPlans[t] = p
	return p
}

var tSignature = reflect.TypeOf((*ndn.Signature)(nil)).Elem()

// sweep calls every accessor of v, and of any ndn.Signature an accessor returns (one level).
func sweep(v any, depth int) {
	rv := reflect.ValueOf(v)
	if !rv.IsValid() || (rv.Kind() == reflect.Ptr && rv.IsNil()) {
		return
	}
	p := planFor(rv.Type())
	for _, i := range p.idx {
		out := rv.Method(i).Call(nil)
		sweepCalls++
		if depth == 0 {
			for _, o := range out {
				if o.IsValid() && o.Type().Implements(tSignature) && o.Kind() == reflect.Interface && !o.IsNil() {
					if e := o.Elem(); e.Type() != rv.Type() { // Signature() usually returns the packet itself
						sweep(e.Interface(), 1)
					}
				}
			}
		}
	}
}

func sweepPacket(p *spec.Packet) {
	if p == nil {
		return
	}
	if p.Interest != nil {
		sweep(p.Interest, 0)
	}
	if p.Data != nil {
		sweep(p.Data, 0)
	}
}

// sweptAccessors lists what the sweep calls (for the evidence file).
func sweptAccessors() []string {
	var out []string
	for _, v := range []any{&spec.Interest{}, &spec.Data{}} {
		t := reflect.TypeOf(v)
		p := planFor(t)
		for _, n := range p.names {
			out = append(out, t.Elem().Name()+"."+n)
		}
	}
	sort.Strings(out)
	return out
}
