//go:build verif

package dvsim

import (
	"os"
	"path/filepath"
	"strings"
	"testing"

	"verif/mc/report"
)

// Run with the C18 overlay: go test -tags verif -overlay .build/c18/ov/overlay.json ./harness/dvsim

func writeTrace(t *testing.T, lines string) {
	dir := t.TempDir()
	os.Setenv("VERIF_BUILD_DIR", dir)
	os.MkdirAll(filepath.Join(dir, "trace-C18"), 0o755)
	if err := os.WriteFile(filepath.Join(dir, "trace-C18", "x.1.log"), []byte(strings.ReplaceAll(lines, " | ", "\t")), 0o644); err != nil {
		t.Fatal(err)
	}
}

func keys(rep *report.Reporter, cov report.Coverage) []ConfigSummary {
	AnalyseC18(rep, cov)
	return cov["graph_analysis"].([]ConfigSummary)
}

func TestAnalyseConverging(t *testing.T) {
	// a -x-> b -y-> t(terminal, quiescent); a -y-> c -x-> t
	writeTrace(t, `C | cfg
R | a | m
S | a | m | 0 | 1 | A | -
E | a | b | 0 | x
S | b | m | 0 | 1 | B | -
E | a | c | 0 | y
S | c | m | 0 | 1 | C | -
E | b | t | 0 | y
E | b | b | 0 | x
E | c | t | 0 | x
E | c | c | 0 | y
S | t | m | 1 | 1 | T | -
E | t | t | 0 | x
E | t | t | 0 | y
`)
	rep := report.New("C18", "model_checking")
	s := keys(rep, report.Coverage{})[0]
	if rep.Count() != 0 || s.FixedPoints != 1 || s.MaxEventsToFixed != 2 || s.FromColdStart != 2 || s.NontrivialSCCs != 0 {
		t.Fatalf("unexpected: %+v violations=%d", s, rep.Count())
	}
}

func TestAnalyseFairCycleAndUnfairCycle(t *testing.T) {
	// fair cycle: a -x-> b -y-> a ; the only exits are... none for x,y: every event can be taken inside {a,b}
	// but z leads from a to t; z is NOT enabled in b and leaves in a => z satisfied by b (disabled): fair cycle
	writeTrace(t, `C | cfg
R | a | m
S | a | m | 0 | 1 | A | -
S | b | m | 0 | 1 | B | -
S | t | m | 1 | 1 | T | -
E | a | b | 0 | x
E | a | a | 0 | y
E | a | t | 0 | z
E | b | a | 0 | y
E | b | b | 0 | x
E | t | t | 0 | x
`)
	rep := report.New("C18", "model_checking")
	s := keys(rep, report.Coverage{})[0]
	if s.FairCycles != 1 || rep.Count() != 1 {
		t.Fatalf("fair cycle not reported: %+v violations=%d", s, rep.Count())
	}
	// unfair cycle: z enabled in both a and b and always leaves {a,b}: every fair run leaves
	writeTrace(t, `C | cfg
R | a | m
S | a | m | 0 | 1 | A | -
S | b | m | 0 | 1 | B | -
S | t | m | 1 | 1 | T | -
E | a | b | 0 | x
E | a | t | 0 | z
E | b | a | 0 | x
E | b | t | 0 | z
E | t | t | 0 | x
E | t | t | 0 | z
`)
	rep = report.New("C18", "model_checking")
	s = keys(rep, report.Coverage{})[0]
	if s.FairCycles != 0 || rep.Count() != 0 || s.NontrivialSCCs != 1 || !s.UnboundedUnfairly {
		t.Fatalf("unfair cycle misjudged: %+v violations=%d", s, rep.Count())
	}
}

func TestAnalyseNondeterminism(t *testing.T) {
	writeTrace(t, `C | cfg
R | a | m
S | a | m | 0 | 1 | A | -
S | b | m | 1 | 1 | B | -
S | c | m | 1 | 1 | B | -
E | a | b | 0 | x | h1
E | a | c | 0 | x | h1
E | b | b | 0 | x | h2
E | c | c | 0 | x | h3
`)
	rep := report.New("C18", "model_checking")
	keys(rep, report.Coverage{})
	if rep.Count() != 1 {
		t.Fatalf("same-history disagreement must be one C18.unique violation, got %d", rep.Count())
	}
}

func TestAnalyseClosedSetAndTwoTables(t *testing.T) {
	// closed set {a,b} without fixed point; plus two terminals with different tables in one mode
	writeTrace(t, `C | cfg
R | r | m
S | r | m | 0 | 1 | R | -
S | a | m | 0 | 1 | A | -
S | b | m | 0 | 1 | B | -
S | t1 | m | 1 | 1 | T1 | -
S | t2 | m | 1 | 1 | T2 | -
E | r | a | 0 | x
E | r | t1 | 0 | y
E | r | t2 | 0 | z
E | a | b | 0 | x
E | b | a | 0 | x
E | t1 | t1 | 0 | x
E | t2 | t2 | 0 | x
`)
	rep := report.New("C18", "model_checking")
	s := keys(rep, report.Coverage{})[0]
	if rep.Count() != 2 || s.DistinctTables != 2 {
		t.Fatalf("expected closed-set and unique violations: %+v violations=%d", s, rep.Count())
	}
}

func TestTwinAuditLines(t *testing.T) {
	// canonical state a audited from two histories: op x agrees (also with the search's own
	// transition), op y does not
	writeTrace(t, `C | cfg
R | a | m
S | a | m | 0 | 1 | A | -
E | a | b | 0 | x | h1 | tb
A | a | (enabled operations) | h1 | ops
A | a | (enabled operations) | h2 | ops
A | a | x | h1 | tb
A | a | x | h2 | tb
A | a | y | h1 | tc
A | a | y | h2 | td
`)
	g := loadTraces("C18")["cfg"]
	if g.auditStates != 1 || g.auditOps != 4 {
		t.Fatalf("audit counts: %d states, %d ops", g.auditStates, g.auditOps)
	}
	if len(g.suspect) != 1 || !strings.Contains(g.suspect[0], "op y") {
		t.Fatalf("expected one suspect for op y, got %v", g.suspect)
	}
	// disagreement between the audit's second twin and the search's transition
	writeTrace(t, `C | cfg
R | a | m
S | a | m | 0 | 1 | A | -
E | a | b | 0 | x | h1 | tb
A | a | x | h2 | tz
`)
	if g := loadTraces("C18")["cfg"]; len(g.suspect) != 1 {
		t.Fatalf("expected one suspect against the E line, got %v", g.suspect)
	}
}
