package dvsim

import (
	"crypto/sha256"
	"encoding/hex"
	"fmt"
	"os"
	"path/filepath"
	"regexp"
	"strings"
)

// Trace is the side channel from explore worker processes to the parent: every executed
// transition is appended (unbuffered, one write per line) to a per-process file; the parent
// rebuilds the explored state graph from these files after the search (mc/explore itself keeps
// only the visited set).
//
//	C <config>
//	R <hash> <mode>                                    root state
//	E <from> <to> <dev 0|1> <op> <hist> <tables>       transition (<hist> = hash of the history that led to
//	                                                   <from>, <tables> = hash of <to> without freshness labels)
//	Z <hash>                                           state expanded, no default event enabled
//	K <hash> <rounds>                                  closure: round-robin from <hash> reached the fixed point
//	A <from> <op> <hist> <tables>                      twin audit (twins.go): <op> executed in canonical state <from>
//	                                                   reached by history <hist> ends in <tables>
//	S <hash> <mode> <quiescent 0|1> <ok 0|1> <best tables> <detail>   first time a process sees <hash>
type Trace struct {
	f      *os.File
	seen   map[string]bool
	rooted bool
}

func traceDir(id string) string {
	b := os.Getenv("VERIF_BUILD_DIR")
	if b == "" {
		b = os.TempDir()
	}
	return filepath.Join(b, "trace-"+id)
}

// ResetTraceDir empties the trace directory (parent, before the search).
func ResetTraceDir(id string) {
	os.RemoveAll(traceDir(id))
	os.MkdirAll(traceDir(id), 0o755)
}

func NewTrace(id, cfg string) *Trace {
	os.MkdirAll(traceDir(id), 0o755)
	name := strings.NewReplacer(" ", "_", ":", "_", "/", "_").Replace(cfg)
	f, err := os.OpenFile(filepath.Join(traceDir(id), fmt.Sprintf("%s.%d.log", name, os.Getpid())), os.O_CREATE|os.O_WRONLY|os.O_APPEND, 0o644)
	if err != nil {
		panic(err)
	}
	t := &Trace{f: f, seen: map[string]bool{}}
	t.line("C", cfg)
	return t
}

func clean(s string) string {
	return strings.NewReplacer("\t", " ", "\n", " / ").Replace(s)
}

func (t *Trace) line(fields ...string) {
	for i := range fields {
		fields[i] = clean(fields[i])
	}
	t.f.WriteString(strings.Join(fields, "\t") + "\n")
}

func (t *Trace) Hash(canon string) string {
	h := sha256.Sum256([]byte(canon))
	return hex.EncodeToString(h[:10])
}

func b01(b bool) string {
	if b {
		return "1"
	}
	return "0"
}

func (t *Trace) stateLine(h string, s *Sim, sn *Snap, q bool, fs []Finding) string {
	if t.seen[h] {
		return ""
	}
	t.seen[h] = true
	detail := "-"
	if len(fs) > 0 {
		detail = fs[0].Clause + "|" + fs[0].Key + "|" + fs[0].Detail
	}
	return strings.Join([]string{"S", h, s.Mode(), b01(q), b01(len(fs) == 0), clean(sn.BestTables()), clean(detail)}, "\t") + "\n"
}

func (t *Trace) state(h string, s *Sim, sn *Snap, q bool, fs []Finding) {
	if l := t.stateLine(h, s, sn, q, fs); l != "" {
		t.f.WriteString(l)
	}
}

// Root records the initial state once per process.
func (t *Trace) Root(s *Sim) {
	if t.rooted {
		return
	}
	t.rooted = true
	sn := s.Snap()
	h := t.Hash(sn.CanonRouting())
	t.line("R", h, s.Mode())
	q, _ := sn.RoutingQuiescent()
	t.state(h, s, sn, q, sn.CheckShortest())
}

// NoOps records that a state was expanded and has no enabled default event.
func (t *Trace) NoOps(canon string) { t.line("Z", t.Hash(canon)) }

// Closure records that the default fair schedule was run from state h to the fixed point.
func (t *Trace) Closure(h string, rounds int) { t.line("K", h, fmt.Sprint(rounds)) }

// Edge records one executed transition and the target state's oracle verdicts.
func (t *Trace) Edge(from, histKey string, s *Sim, sn *Snap, op string, dev bool, q bool, fs []Finding) string {
	canon := sn.CanonRouting()
	to := t.Hash(canon)
	// one write for both lines
	t.f.WriteString("E\t" + from + "\t" + to + "\t" + b01(dev) + "\t" + clean(op) + "\t" + t.Hash(histKey)[:8] + "\t" + t.Hash(relRe.ReplaceAllString(canon, "N($1 f"))[:12] + t.dbg(histKey, canon) + "\n" + t.stateLine(to, s, sn, q, fs))
	return canon
}

// relRe matches the fresh/stale/stuck label of a neighbour entry in the canonical form. Two
// concrete states with equal canonical form can hold DIFFERENT stale advertisements of a neighbour
// that yield the same costs; when the neighbour's advertisement later changes, one of them may
// become "fresh" and the other not. Their tables and all future tables are equal (the pending fetch
// re-derives the same costs), only the label differs; the analysis therefore compares successor
// states modulo these labels when it looks for canonical states with diverging futures.
var relRe = regexp.MustCompile(`N\((r\d+|h[0-9a-f]+|-) \S+ f`)

// dbg appends the full history and target canon to E lines when VERIF_DV_TRACEDEBUG is set.
func (t *Trace) dbg(hist, canon string) string {
	if os.Getenv("VERIF_DV_TRACEDEBUG") == "" {
		return ""
	}
	return "\t" + clean(hist) + "\t" + clean(canon)
}
